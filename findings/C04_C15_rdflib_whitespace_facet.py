"""Known finding C04 / C15 (known_findings.json: rdflib-whitespace-facet), shown against the real code.

    PYTHONPATH=/repo /venv/bin/python /verif/findings/C04_C15_rdflib_whitespace_facet.py

A valid stream holding the RDF term "  a \\t b  "^^xsd:token: the generic integration's parser returns the lexical form that was
sent, the rdflib integration's parser returns "a b" (rdflib.Literal.__new__ applies the whiteSpace facet of xsd:token and
xsd:normalizedString to the lexical form whatever `normalize` says; RDFLibAdapter.literal builds the term with that constructor).
"""
import io

import pyjelly

assert pyjelly.__file__.startswith("/repo"), pyjelly.__file__
from pyjelly.integrations.generic import parse as gp
from pyjelly.integrations.generic.generic_sink import IRI, Literal, Triple
from pyjelly.integrations.generic.serialize import flat_stream_to_file
from pyjelly.integrations.rdflib import parse as rp

XSD = "http://www.w3.org/2001/XMLSchema#"
bad = 0
for lex, dt in [("  a \t b  ", XSD + "token"), ("l1\nl2", XSD + "normalizedString"), ("008", XSD + "integer")]:
    out = io.BytesIO()
    flat_stream_to_file(iter([Triple(IRI("http://e/s"), IRI("http://e/p"), Literal(lex, datatype=dt))]), out)
    g = list(gp.parse_jelly_flat(io.BytesIO(out.getvalue())))[0].o._lex
    r = str(list(rp.parse_jelly_flat(io.BytesIO(out.getvalue())))[0][2])
    print(f"{dt.split('#')[1]:18} sent {lex!r:14} generic reads {g!r:14} rdflib reads {r!r}")
    bad += g != r
print("integrations differ on", bad, "of 3 literals (the integer is handed out as sent: normalize=False, fix 9811613)")
