# Top-level build of the verification framework: Coq development (full .vo build),
# extraction, OCaml correspondence driver.  Offline; output under _build/ and coq/.
COQTIMEOUT ?= 1500
JOBS ?= 16

.PHONY: build coq ocaml tie clean
build: coq ocaml

coq:
	cd coq && coq_makefile -f _CoqProject -o Makefile >/dev/null
	cd coq && timeout $(COQTIMEOUT) $(MAKE) -j$(JOBS) --no-print-directory
	mkdir -p _build
	@if [ -f coq/pj.ml ]; then mv coq/pj.ml coq/pj.mli _build/; fi

ocaml: coq
	cp ocaml/driver.ml _build/driver.ml
	cd _build && ocamlfind ocamlopt -w -a pj.mli pj.ml driver.ml -o driver

# The source ties, for reading: translate the lookup classes of $(REPO) to Gallina and prove the tie theorems
# against the translation.  (Every check does this itself, in a scratch directory, for the ties of its property.)
REPO ?= /repo
tie: coq
	rm -rf coq/generated && mkdir -p coq/generated/gen coq/generated/tie
	for u in lookup_enc:LookupEnc lookup_dec:LookupDec hint:Hint options:Options encode:Encode flows:Flows streams:Streams decode:Decode generic_sink:GenericSink generic_parse:GenericParse generic_serialize:GenericSerialize rdflib_serialize:RdflibSerialize rdflib_parse:RdflibParse; do \
	  python3 translate/py2v.py $(REPO) $${u%%:*} > coq/generated/gen/$${u##*:}Gen.v || exit 1; done
	cd coq && for u in LookupEnc LookupDec Hint Options Encode Flows Streams Decode GenericSink GenericParse GenericSerialize RdflibSerialize RdflibParse; do \
	  coqc -Q tie PJ.Tie -Q generated/tie PJ.Tie -Q generated/gen PJ.Gen generated/gen/$${u}Gen.v || exit 1; done
	cd coq && for t in LookupEncTie LookupDecTie HintTie OptionsTie EncodeTie EncodeStmtTie FlowsTie StreamsTie DecodeTie DecoderBase DecoderTie StmtLayout GenericTerms GenericParseTie RdflibParseTie GenericSerializeTie RdflibSerializeTie RdflibDriversTie RdflibEntryTie GenericRoundTrip RdflibRoundTrip GenericGroupedTie GenericDriversTie GenericEntryTie GenericGenTie GenericEndToEnd RdflibEndToEnd SerializersAgree DecoderSource C05Source SourceProps StreamsSource TxRun TxRunRdflib TxRunRdflibParse; do \
	  coqc -Q model PJ.Model -Q proofs PJ.Proofs -Q tie PJ.Tie -Q generated/tie PJ.Tie -Q generated/gen PJ.Gen -o generated/tie/$$t.vo tie/$$t.v || exit 1; done

clean:
	-cd coq && [ -f Makefile ] && $(MAKE) clean --no-print-directory
	rm -rf _build coq/generated coq/Makefile coq/Makefile.conf coq/.Makefile.d
