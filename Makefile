# Top-level build of the verification framework: Coq development (full .vo build),
# extraction, OCaml correspondence driver.  Offline; output under _build/ and coq/.
COQTIMEOUT ?= 1500
JOBS ?= 16

.PHONY: build coq ocaml clean
build: coq ocaml

coq:
	cd coq && coq_makefile -f _CoqProject -o Makefile >/dev/null
	cd coq && timeout $(COQTIMEOUT) $(MAKE) -j$(JOBS) --no-print-directory
	mkdir -p _build
	@if [ -f coq/pj.ml ]; then mv coq/pj.ml coq/pj.mli _build/; fi

ocaml: coq
	cp ocaml/driver.ml _build/driver.ml
	cd _build && ocamlfind ocamlopt -w -a pj.mli pj.ml driver.ml -o driver

clean:
	-cd coq && [ -f Makefile ] && $(MAKE) clean --no-print-directory
	rm -rf _build coq/Makefile coq/Makefile.conf coq/.Makefile.d
