"""What pyjelly's rdflib integration asks of rdflib's containers -- a SPECIFICATION, not rdflib's code.

pyjelly's rdflib serializer iterates `rdflib.Graph` / `rdflib.Dataset` objects; what it gets from them, and in which order, is
rdflib's business (hash order of the store).  The translation unit `rdflib_serialize` uses these two classes in their place:
a container IS the sequences rdflib hands out for it -- the harness observes them on the real object (list(graph),
list(dataset.graphs()), list(dataset.quads()), list(x.namespaces())) and builds the stand-in from them (harness/txcheck.py),
exactly as the hand-written model (model/Streams.v, `rdata`) is handed the iteration order rdflib actually used.

Only what integrations/rdflib/serialize.py uses is here: iteration, .identifier, .namespaces(), .graphs(), .quads().
A triple / quad is the list of its terms (rdflib yields tuples; pyjelly only iterates them).
"""
from __future__ import annotations

from collections.abc import Generator
from typing import Any


class Graph:
    def __init__(self, identifier: Any, triples: list[list[Any]], namespaces: dict[str, Any]) -> None:
        self.identifier: Any = identifier
        self._triples: list[list[Any]] = triples
        self._namespaces: dict[str, Any] = namespaces

    def __iter__(self) -> Generator[list[Any]]:
        yield from self._triples

    def namespaces(self) -> Generator[tuple[str, Any]]:
        yield from self._namespaces.items()


class Dataset:
    def __init__(self, graphs: list[Graph], quads: list[list[Any]], namespaces: dict[str, Any]) -> None:
        self._graphs: list[Graph] = graphs
        self._quads: list[list[Any]] = quads
        self._namespaces: dict[str, Any] = namespaces

    def graphs(self) -> Generator[Graph]:
        yield from self._graphs

    def quads(self) -> Generator[list[Any]]:
        yield from self._quads

    def namespaces(self) -> Generator[tuple[str, Any]]:
        yield from self._namespaces.items()
