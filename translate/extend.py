"""extend.py -- a subclass that overrides the virtual methods of a class translated in another unit.

pyjelly/integrations/generic/serialize.py: class GenericSinkTermEncoder(TermEncoder) overrides encode_spo and encode_graph,
the two methods the encode unit leaves as parameters.  Its methods are translated as functions over the *imported* record
(EncodeGen.TermEncoder), so that they can stand where the parameters were:

    Fixpoint GenericSinkTermEncoder_encode_spo_fuel fuel__ term slot statement self := ...      (recursion through
        self.encode_quoted_triple, which calls self.encode_spo back: the imported encode_quoted_triple, given this very
        function with the fuel left; Python: the interpreter's recursion limit)
    Definition GenericSinkTermEncoder_encode_spo term .. := .._fuel (S (obj_depth term)) term ..
    Definition TermEncoder_encode_spo := GenericSinkTermEncoder_encode_spo.     (the parameter, now defined)

`super().m(..)` and the base-class helpers the unit names (get_iri_field ..: they return a sub-message of the statement, i.e.
a reference into it) are inlined from the base class's source.
"""
from __future__ import annotations

import ast
import copy
import re
from pathlib import Path

import py2v
from py2v import MethodMode, ann_type, bad, coq_type, is_mutable, mangle


class ExtMethod(MethodMode):
    def __init__(self, tr, info, ret, muts, base_node, inline):
        super().__init__(tr, info, ret, muts)
        self.base_node = base_node
        self.inline = set(inline)

    def base_def(self, m):
        d = next((n for n in self.base_node.body if isinstance(n, ast.FunctionDef) and n.name == m), None)
        if d is None:
            bad(None, f"the base class no longer defines {m}")
        return d

    def call(self, e, env, k):
        f = e.func
        if isinstance(f, ast.Attribute) and ((isinstance(f.value, ast.Name) and f.value.id == "self" and f.attr in self.inline)
                                             or ast.unparse(f.value) == "super()"):
            d = self.base_def(f.attr)
            if d.args.vararg or d.args.kwarg or d.args.kwonlyargs or d.args.defaults:
                bad(d, "parameter kinds of an inlined method")
            ps = [p for p in d.args.args[1:]]
            if len(e.args) != len(ps) or e.keywords:
                bad(e, "arguments of an inlined method")
            return self.inline_body(d, ps, list(e.args), env, k)
        return super().call(e, env, k)

    def inline_body(self, d, ps, actuals, env, k):
        """The base method's body in place of the call: its locals renamed apart; a parameter whose argument is a plain local
        name *is* that local (so that a sub-message the method returns is a sub-message of the caller's message)."""
        n = self.tr.gensym("inl")
        ren = {}
        pre = []
        for p, a in zip(ps, actuals):
            if isinstance(a, ast.Name) and a.id in env:
                ren[p.arg] = a.id
            else:
                ren[p.arg] = f"{n}_{p.arg}"
                asg = ast.AnnAssign(target=ast.Name(id=ren[p.arg], ctx=ast.Store()), annotation=p.annotation, value=a, simple=1)
                pre.append(ast.fix_missing_locations(ast.copy_location(asg, a)))
        stored = {y.id for st in d.body for y in ast.walk(st) if isinstance(y, ast.Name) and isinstance(y.ctx, ast.Store)}
        if stored & {p.arg for p in ps}:
            bad(d, "an inlined method that rebinds a parameter")
        for s_ in stored:
            ren[s_] = f"{n}_{s_}"

        class Ren(ast.NodeTransformer):
            def visit_Name(self, node):
                if node.id in ren:
                    return ast.copy_location(ast.Name(id=ren[node.id], ctx=node.ctx), node)
                return node
        body = pre + [Ren().visit(copy.deepcopy(st)) for st in d.body]
        ret = ann_type(d.returns, self.tr.classes)
        saved = (self.ret_val, self.fall_off)

        def k2(v, t):
            cur = (self.ret_val, self.fall_off)
            self.ret_val, self.fall_off = saved
            try:
                return k(v, t)
            finally:
                self.ret_val, self.fall_off = cur
        self.ret_val = lambda v, t: k2(v, t)
        self.fall_off = (lambda: k2("tt", "none")) if ret == "none" else (lambda: bad(d, f"{d.name} can end without a return"))
        try:
            return self.stmts(body, dict(env))
        finally:
            self.ret_val, self.fall_off = saved


def add_extension(tr, repo: Path, mod: ast.Module, spec: dict, rel: str) -> None:
    base, sub = spec["extend"], spec["subclass"]
    if base not in tr.classes:
        bad(None, f"{base} is not a class of a unit this one builds on")
    info = tr.classes[base]
    node = next((n for n in mod.body if isinstance(n, ast.ClassDef) and n.name == sub), None)
    if node is None or [ast.unparse(b) for b in node.bases] != [base]:
        bad(node, f"{rel} no longer defines class {sub}({base})")
    base_node = next((n for n in ast.parse((repo / spec["base_src"]).read_text()).body if isinstance(n, ast.ClassDef) and n.name == base), None)
    if base_node is None:
        bad(None, f"{spec['base_src']} no longer defines {base}")
    defs = {n.name: n for n in node.body if isinstance(n, ast.FunctionDef)}
    for n in node.body:
        if not (isinstance(n, ast.FunctionDef) or (isinstance(n, ast.Expr) and isinstance(n.value, ast.Constant))):
            bad(n, "class-level statement")
    if set(defs) != set(spec["methods"]):
        bad(node, f"{sub} defines {sorted(defs)}, the unit expects {sorted(spec['methods'])}")
    rec = spec.get("recursive")  # {"method": m, "through": [imported functions that take the method as a parameter], "fuel": param}
    for m in spec["methods"]:
        d = defs[m]
        if m not in info.methods:
            bad(d, f"{base}.{m} is not a parameter of the unit that translates {base}")
        params, ret = info.methods[m]
        a = d.args
        if a.vararg or a.kwarg or a.kwonlyargs or a.posonlyargs or a.defaults:
            bad(d, "parameter kinds")
        mine = ([(p.arg, ann_type(p.annotation, tr.classes)) for p in a.args[1:]], ann_type(d.returns, tr.classes))
        if [t for _, t in mine[0]] != [t for _, t in params] or mine[1] != ret:
            bad(d, f"{sub}.{m} has another signature than the parameter {base}.{m}")
        params = mine[0]
        muts = [(p, t) for p, t in params if is_mutable(t)]
        mode = ExtMethod(tr, info, ret, muts, base_node, spec.get("inline", ()))
        env0 = {p: t for p, t in params}
        body = mode.stmts(d.body, env0)
        ps = " ".join(f"({mangle(p)} : {coq_type(t)})" for p, t in params)
        rt = f"outcome {coq_type(ret)} * {base}" + "".join(f" * {coq_type(t)}" for _, t in muts)
        fail = "(" + ", ".join(["Exn RecursionError", "self"] + [mangle(p) for p, _ in muts]) + ")"
        if rec and rec["method"] == m:
            lets = ""
            for fn in rec["through"]:
                gen, vs = tr.import_info[fn]
                args = []
                for v in vs:
                    if v == "T":
                        continue
                    args.append(f"({sub}_{m}_fuel fuel__)" if v == f"{base}_{m}" else v)
                lets += f"let {fn} := ({gen}.{fn} {' '.join(args)}) in\n"
            tr.out.append(f"Fixpoint {sub}_{m}_fuel (fuel__ : nat) {ps} (self : {base}) {{struct fuel__}} : {rt} :=\n"
                          f"match fuel__ with\n| O => {fail}\n| Datatypes.S fuel__ =>\n{lets}{body}\nend.")
            names = " ".join(mangle(p) for p, _ in params)
            tr.out.append(f"Definition {sub}_{m} {ps} (self : {base}) : {rt} :=\n{sub}_{m}_fuel (Datatypes.S (obj_depth {mangle(rec['fuel'])})) {names} self.")
        else:
            tr.out.append(f"Definition {sub}_{m} {ps} (self : {base}) : {rt} :=\n{body}.")
        tr.out.append(f"Definition {base}_{m} := {sub}_{m}.")
    # the imported definitions that were waiting for the parameters: abbreviated now
    tr.out += tr.deferred_abbrev
