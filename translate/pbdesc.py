"""pbdesc.py -- read enum values (and message field tables) from the serialized FileDescriptorProto
embedded in pyjelly/jelly/rdf_pb2.py, without importing it (a 60-line protobuf wire reader)."""
from __future__ import annotations

import ast
from pathlib import Path


def _varint(b: bytes, i: int) -> tuple[int, int]:
    shift = val = 0
    while True:
        c = b[i]
        i += 1
        val |= (c & 0x7F) << shift
        if c < 0x80:
            return val, i
        shift += 7


def fields(b: bytes) -> list[tuple[int, object]]:
    out, i = [], 0
    while i < len(b):
        key, i = _varint(b, i)
        fno, wt = key >> 3, key & 7
        if wt == 0:
            v, i = _varint(b, i)
        elif wt == 2:
            n, i = _varint(b, i)
            v = b[i:i + n]
            i += n
        elif wt == 1:
            v = b[i:i + 8]
            i += 8
        elif wt == 5:
            v = b[i:i + 4]
            i += 4
        else:
            raise ValueError(f"wire type {wt}")
        out.append((fno, v))
    return out


def descriptor_bytes(pb2: Path) -> bytes:
    for n in ast.walk(ast.parse(pb2.read_text())):
        if isinstance(n, ast.Call) and isinstance(n.func, ast.Attribute) and n.func.attr == "AddSerializedFile" \
                and len(n.args) == 1 and isinstance(n.args[0], ast.Constant) and isinstance(n.args[0].value, bytes):
            return n.args[0].value
    raise ValueError("no AddSerializedFile(b'...') in " + str(pb2))


def enums(pb2: Path) -> dict[str, dict[str, int]]:
    """enum type name -> {value name -> number} (top-level enums of the file)."""
    out: dict[str, dict[str, int]] = {}
    for fno, v in fields(descriptor_bytes(pb2)):
        if fno == 5:  # enum_type
            name, vals = None, {}
            for f2, v2 in fields(v):
                if f2 == 1:
                    name = v2.decode()
                elif f2 == 2:
                    vn, num = None, 0
                    for f3, v3 in fields(v2):
                        if f3 == 1:
                            vn = v3.decode()
                        elif f3 == 2:
                            num = v3
                    vals[vn] = num
            out[name] = vals
    return out


def messages(pb2: Path) -> dict[str, list[dict]]:
    """message name -> fields [{name, number, label, type, type_name, oneof}] (oneof = name or None)."""
    out = {}
    for fno, v in fields(descriptor_bytes(pb2)):
        if fno == 4:
            name, flds, oneofs = None, [], []
            for f2, v2 in fields(v):
                if f2 == 1:
                    name = v2.decode()
                elif f2 == 2:
                    d = {"name": None, "number": 0, "label": 1, "type": 0, "type_name": "", "oneof": None, "proto3_optional": False}
                    for f3, v3 in fields(v2):
                        if f3 == 1:
                            d["name"] = v3.decode()
                        elif f3 == 3:
                            d["number"] = v3
                        elif f3 == 4:
                            d["label"] = v3
                        elif f3 == 5:
                            d["type"] = v3
                        elif f3 == 6:
                            d["type_name"] = v3.decode()
                        elif f3 == 9:
                            d["oneof"] = v3
                        elif f3 == 17:
                            d["proto3_optional"] = bool(v3)
                    flds.append(d)
                elif f2 == 8:
                    for f3, v3 in fields(v2):
                        if f3 == 1:
                            oneofs.append(v3.decode())
            for d in flds:
                if d["oneof"] is not None:
                    d["oneof"] = oneofs[d["oneof"]]
            out[name] = flds
    return out


if __name__ == "__main__":
    import sys

    p = Path(sys.argv[1]) / "pyjelly/jelly/rdf_pb2.py"
    print(enums(p))
    for k, v in messages(p).items():
        print(k, [(d["name"], d["number"], d["oneof"]) for d in v])
