"""dyn.py -- the classes of plain values a unit handles dynamically (`Any`, `object`, unions of them), as one inductive type.

The generic integration's terms (pyjelly/integrations/generic/generic_sink.py: IRI, BlankNode, Literal, the NamedTuples
Triple, Quad, Prefix, the singleton DefaultGraph) travel through code typed `Any`.  For a unit that declares them, `Any`
is the generated type

    Inductive obj := O_IRI (_iri : K) | O_BlankNode (_identifier : K) | O_Literal (_lex : K) (_langtag _datatype : option K)
                   | O_Triple (s p o : obj) | O_Quad (s p o g : obj) | O_Prefix (prefix : K) (iri : obj)
                   | O__DefaultGraph | O_None | O_str (s : K).

one constructor per class (its arguments: what __init__ stores, in parameter order, or the NamedTuple's fields), plus
None and str (the two built-in kinds of value the translated code passes where a term may be).  Fail-closed: a class
whose __init__ does anything but store its parameters is refused.

    C(a, b)           -> O_C a b                      (keyword arguments, None for the optional ones left out)
    C(*xs)            -> O_C x1 .. xn when xs has exactly n items, TypeError otherwise
    isinstance(x, C)  -> is_O_C x
    x._f              -> the field when x is an O_C (C the one class with a field _f), AttributeError otherwise
    DefaultGraph      -> O__DefaultGraph
    None where a value is expected -> O_None
"""
from __future__ import annotations

import ast
from pathlib import Path

import py2v
from py2v import bad

NAME = "obj"


def field_type(a: ast.AST, names: set[str]):
    """The type of a stored value: str, str | None, or a dynamic value."""
    s = ast.unparse(a)
    if s == "str":
        return "str"
    if s in ("str | None", "Optional[str]"):
        return ("opt", "str")
    if isinstance(a, ast.Name) and a.id in names:
        return "any"
    if isinstance(a, ast.Constant) and isinstance(a.value, str) and a.value in names:
        return "any"
    bad(a, f"field type {s} of a dynamic class")


def add_dyn(tr, repo: Path, spec: dict) -> None:
    rel = spec["src"]
    mod = ast.parse((repo / rel).read_text())
    wanted = list(spec["classes"])
    singles = dict(spec.get("singletons", {}))  # instance name -> class name
    defs = {n.name: n for n in mod.body if isinstance(n, ast.ClassDef)}
    # names that denote dynamic values: the classes, and the module's aliases over them (Node = Union[..], GraphName = Node | _DefaultGraph)
    names = set(wanted) | set(singles.values())
    changed = True
    while changed:
        changed = False
        for n in mod.body:
            if isinstance(n, ast.Assign) and len(n.targets) == 1 and isinstance(n.targets[0], ast.Name) and n.targets[0].id not in names:
                v = n.value
                parts = None
                if isinstance(v, ast.Subscript) and isinstance(v.value, ast.Name) and v.value.id == "Union":
                    parts = list(v.slice.elts) if isinstance(v.slice, ast.Tuple) else [v.slice]
                elif isinstance(v, ast.BinOp) and isinstance(v.op, ast.BitOr):
                    parts, todo = [], [v]
                    while todo:
                        x = todo.pop()
                        if isinstance(x, ast.BinOp) and isinstance(x.op, ast.BitOr):
                            todo += [x.left, x.right]
                        else:
                            parts.append(x)
                if parts and all((isinstance(p, ast.Name) and p.id in names) or (isinstance(p, ast.Constant) and p.value in names) for p in parts):
                    names.add(n.targets[0].id)
                    changed = True
    ctors: dict[str, list[tuple[str, object, bool]]] = {}
    for c in wanted:
        if c not in defs:
            bad(None, f"{rel} no longer defines {c}")
        d = defs[c]
        bases = [ast.unparse(b) for b in d.bases]
        if bases == ["NamedTuple"]:
            py2v.NAMEDTUPLE_DYN.add(c)
            fs = []
            for st in d.body:
                if isinstance(st, ast.Expr) and isinstance(st.value, ast.Constant):
                    continue
                if not (isinstance(st, ast.AnnAssign) and isinstance(st.target, ast.Name) and st.value is None):
                    bad(st, f"{c}: a NamedTuple of plain fields is expected")
                fs.append((st.target.id, field_type(st.annotation, names), False))
            ctors[c] = fs
            continue
        if bases:
            bad(d, f"{c}: base classes")
        init = next((m for m in d.body if isinstance(m, ast.FunctionDef) and m.name == "__init__"), None)
        if init is None:
            bad(d, f"{c}: no __init__")
        a = init.args
        if a.vararg or a.kwarg or a.kwonlyargs or a.posonlyargs:
            bad(init, f"{c}.__init__: parameter kinds")
        params = a.args[1:]
        nd = len(a.defaults)
        body = [st for st in init.body if not (isinstance(st, ast.Expr) and isinstance(st.value, ast.Constant))]
        if len(body) != len(params):
            bad(init, f"{c}.__init__ does more than store its parameters")
        fs = []
        for i, (p, st) in enumerate(zip(params, body)):
            tgt = st.target if isinstance(st, ast.AnnAssign) else st.targets[0] if isinstance(st, ast.Assign) and len(st.targets) == 1 else None
            if not (isinstance(tgt, ast.Attribute) and isinstance(tgt.value, ast.Name) and tgt.value.id == "self"
                    and isinstance(st.value, ast.Name) and st.value.id == p.arg):
                bad(st, f"{c}.__init__ does more than store its parameters")
            has_d = i >= len(params) - nd
            if has_d and not (isinstance(a.defaults[i - (len(params) - nd)], ast.Constant) and a.defaults[i - (len(params) - nd)].value is None):
                bad(init, f"{c}.__init__: default other than None")
            fs.append((tgt.attr, field_type(p.annotation, names), has_d))
        # __eq__ / __hash__ / __str__ / __repr__ are the only other methods; __eq__ must be equality of the stored values
        # between two instances of the class, False against anything else
        for m in d.body:
            if isinstance(m, ast.FunctionDef) and m.name not in ("__init__", "__eq__", "__hash__", "__str__", "__repr__"):
                bad(m, f"{c}: a method besides __init__, __eq__, __hash__, __str__, __repr__")
        eq = next((m for m in d.body if isinstance(m, ast.FunctionDef) and m.name == "__eq__"), None)
        if eq is None:
            bad(d, f"{c}: no __eq__ (identity is not modelled)")
        want = [f"self.{f} == other.{f}" for f, _, _ in fs]
        body_eq = [st for st in eq.body if not (isinstance(st, ast.Expr) and isinstance(st.value, ast.Constant))]
        ok = (len(body_eq) == 2 and isinstance(body_eq[0], ast.If) and ast.unparse(body_eq[0].test) == f"isinstance(other, {c})"
              and len(body_eq[0].body) == 1 and isinstance(body_eq[0].body[0], ast.Return) and not body_eq[0].orelse
              and ast.unparse(body_eq[1]) == "return False")
        if ok:
            rv = body_eq[0].body[0].value
            parts = rv.values if isinstance(rv, ast.BoolOp) and isinstance(rv.op, ast.And) else [rv]
            ok = [ast.unparse(x) for x in parts] == want
        if not ok:
            bad(eq, f"{c}.__eq__ is not equality of the stored values")
        ctors[c] = fs
    for inst, c in singles.items():
        if c not in defs:
            bad(None, f"{rel} no longer defines {c}")
        if any(isinstance(m, ast.FunctionDef) and m.name == "__init__" for m in defs[c].body):
            bad(defs[c], f"{c}: a singleton class with an __init__")
        if not any(isinstance(n, ast.Assign) and len(n.targets) == 1 and isinstance(n.targets[0], ast.Name) and n.targets[0].id == inst
                   and ast.unparse(n.value) == f"{c}()" for n in mod.body):
            bad(None, f"{rel}: {inst} = {c}() expected")
        ctors[c] = []
    py2v.DYN.clear()
    py2v.DYN.update(ctors)
    py2v.DYN_SINGLETONS.clear()
    py2v.DYN_SINGLETONS.update(singles)
    py2v.DYN_ANY_NAMES.clear()
    py2v.DYN_ANY_NAMES.update(names)
    emit_dyn(tr, ctors)


def tuple_class_fields(d: ast.ClassDef, any_names: set[str]) -> list:
    """`class C(tuple[..]): __slots__ = (); def __new__(cls, a: A, b: B) -> Self: return tuple.__new__(cls, (a, b))` and one
    property per parameter returning self[i]: a tuple with named items, like a NamedTuple -- the fields, in order."""
    if len(d.bases) != 1 or not ast.unparse(d.bases[0]).startswith("tuple["):
        bad(d, f"{d.name}: a subclass of tuple[..] is expected")
    body = [st for st in d.body if not (isinstance(st, ast.Expr) and isinstance(st.value, ast.Constant))]
    if not body or ast.unparse(body[0]) != "__slots__ = ()":
        bad(d, f"{d.name}: __slots__ = () expected (no state besides the tuple)")
    new = next((m for m in body if isinstance(m, ast.FunctionDef) and m.name == "__new__"), None)
    if new is None:
        bad(d, f"{d.name}: no __new__")
    a = new.args
    if a.vararg or a.kwarg or a.kwonlyargs or a.posonlyargs or a.defaults or not a.args or a.args[0].arg != "cls":
        bad(new, f"{d.name}.__new__: parameter kinds")
    params = [x.arg for x in a.args[1:]]
    nb = [st for st in new.body if not (isinstance(st, ast.Expr) and isinstance(st.value, ast.Constant))]
    if len(nb) != 1 or ast.unparse(nb[0]) != f"return tuple.__new__(cls, ({', '.join(params)}{',' if len(params) == 1 else ''}))":
        bad(new, f"{d.name}.__new__ does more than make the tuple of its parameters")
    props = [m for m in body[1:] if m is not new]
    if len(props) != len(params):
        bad(d, f"{d.name}: one property per item expected")
    for i, (pn, m) in enumerate(zip(params, props)):
        mb = [st for st in m.body if not (isinstance(st, ast.Expr) and isinstance(st.value, ast.Constant))] if isinstance(m, ast.FunctionDef) else []
        if not (isinstance(m, ast.FunctionDef) and m.name == pn and [ast.unparse(x) for x in m.decorator_list] == ["property"]
                and len(mb) == 1 and ast.unparse(mb[0]) == f"return self[{i}]"):
            bad(m, f"{d.name}: property {pn} returning self[{i}] expected")
    fs = []
    for x in a.args[1:]:
        t = ast.unparse(x.annotation)
        if t == "str":
            fs.append((x.arg, "str", False))
        elif t in any_names or t.split(".")[-1] in any_names:
            fs.append((x.arg, "any", False))
        else:
            bad(x, f"{d.name}: item type {t}")
    return fs


# what rdflib.Literal(lex, lang=.., datatype=.., normalize=False) does with its arguments (rdflib/term.py, Literal.__new__) -- SPECIFIED:
# an empty tag is no tag; a tag and a datatype: TypeError; a tag that is not well-formed: ValueError; the lexical form of an
# xsd:token / xsd:normalizedString literal rewritten (str_rdflib_lex).  The same account as model/Decoder.v mk_literal.
RDFLIB_LITERAL = """Definition rdflib_Literal (lex : K) (lang dt : option K) : outcome obj :=
let lang' := match lang with Some l => if str_is_empty l then None else Some l | None => None end in
match lang', dt with
| Some _, Some _ => Exn TypeError
| Some t, None => if str_langtag_ok t then Val (O_Literal lex lang' None) else Exn ValueError
| None, _ => Val (O_Literal (str_rdflib_lex dt lex) None dt)
end."""


def add_foreign_dyn(tr, spec: dict, repo: Path | None = None) -> None:
    """The objects of a library the unit does not translate (rdflib's URIRef, BNode, Literal), as the unit's dynamic values:
    what they are is SPECIFIED here (spec["classes"]: class -> stored values; spec["eq_lower"]: fields compared after
    lower(); spec["str"]: class -> the field str(x) gives), not read from source.  Trusted like PyPrims.v; compared with
    the real library by harness/primcheck.py.  spec["tuple_classes"]: classes of the unit's own source file that are tuples
    with named items (read from the source, shape checked)."""
    ctors = {c: [(f, (tuple(t) if isinstance(t, list) else t), False) for f, t in fs] for c, fs in spec["classes"].items()}
    py2v.NAMEDTUPLE_DYN.clear()
    any_names = set(ctors) | set(spec.get("any_names", ()))
    if spec.get("tuple_classes"):
        mod = ast.parse((repo / spec["tuple_src"]).read_text())
        defs = {n.name: n for n in mod.body if isinstance(n, ast.ClassDef)}
        for c in spec["tuple_classes"]:
            if c not in defs:
                bad(None, f"{spec['tuple_src']} no longer defines {c}")
            ctors[c] = tuple_class_fields(defs[c], any_names)
            py2v.NAMEDTUPLE_DYN.add(c)
    py2v.DYN.clear()
    py2v.DYN.update(ctors)
    py2v.DYN_SINGLETONS.clear()
    py2v.DYN_ANY_NAMES.clear()
    py2v.DYN_ANY_NAMES.update(set(ctors) | set(spec.get("any_names", ())))
    emit_dyn(tr, ctors, lower={(c, f) for c, f in spec.get("eq_lower", ())}, str_fields=spec.get("str", {}))
    for c, cs in spec.get("constructors", {}).items():
        if cs["function"] != "rdflib_Literal" or c != "Literal" or [f for f, _, _ in ctors[c]] != ["lex", "language", "datatype"]:
            bad(None, f"no specification of the constructor {c}")
        tr.out.append(RDFLIB_LITERAL)


def emit_dyn(tr, ctors: dict, lower: set = frozenset(), str_fields: dict | None = None) -> None:
    tr.dyn = True
    T = {"str": "K", ("opt", "str"): "(option K)", "any": NAME}
    alts = []
    for c, fs in ctors.items():
        alts.append(f"| O_{c}" + "".join(f" ({f} : {T[t]})" for f, t, _ in fs))
    alts += ["| O_None", "| O_str (s : K)"]
    tr.out.append(f"Inductive {NAME} :=\n" + "\n".join(alts) + ".")
    tr.out.append(f"Notation T := {NAME}.")
    for c, fs in ctors.items():
        tr.out.append(f"Definition is_O_{c} (x : {NAME}) : bool := match x with O_{c}" + " _" * len(fs) + " => true | _ => false end.")
    tr.out.append(f"Definition opt_obj (x : option {NAME}) : {NAME} := match x with Some v => v | None => O_None end.")
    # a == b: the classes' __eq__ (equal stored values, same class), tuple equality for the NamedTuples, identity for the
    # singletons and None, str equality
    def feq(t, a, b, low=False):
        cmp_ = "str_eqb (str_lower x_) (str_lower y_)" if low else "str_eqb x_ y_"
        if low and t != ("opt", "str"):
            bad(None, "eq_lower on a field that is not an optional string")
        return {"str": f"str_eqb {a} {b}", ("opt", "str"): f"match {a}, {b} with Some x_, Some y_ => {cmp_} | None, None => true | _, _ => false end",
                "any": f"obj_eqb {a} {b}"}[t]
    rows_ = []
    for c, fs in ctors.items():
        xs = [f"x{i}" for i in range(len(fs))]
        ys = [f"y{i}" for i in range(len(fs))]
        conj = " && ".join(f"({feq(t, x, y, (c, f) in lower)})" for (f, t, _), x, y in zip(fs, xs, ys)) or "true"
        rows_.append(f"| O_{c}" + "".join(" " + x for x in xs) + f", O_{c}" + "".join(" " + y for y in ys) + f" => {conj}")
    rows_ += ["| O_None, O_None => true", "| O_str x0, O_str y0 => str_eqb x0 y0", "| _, _ => false"]
    tr.out.append(f"Fixpoint obj_eqb (a b : {NAME}) {{struct a}} : bool :=\nmatch a, b with\n" + "\n".join(rows_) + "\nend.")
    tr.out.append("Definition any_eqb := obj_eqb.")
    drows = []
    for c, fs in ctors.items():
        rec = [f"x{i}" for i, (f, t, _) in enumerate(fs) if t == "any"]
        pat = f"| O_{c}" + "".join((f" x{i}" if t == "any" else " _") for i, (f, t, _) in enumerate(fs))
        if rec:
            m_ = "O"
            for x in rec:
                m_ = f"(Nat.max (obj_depth {x}) {m_})"
            drows.append(f"{pat} => Datatypes.S {m_}")
    drows.append("| _ => O")
    tr.out.append(f"Fixpoint obj_depth (a : {NAME}) : nat :=\nmatch a with\n" + "\n".join(drows) + "\nend.")
    # iterating a value: the NamedTuples give their fields; nothing else here is iterable (a str is: not modelled)
    irows = []
    for c, fs in ctors.items():
        if c in py2v.NAMEDTUPLE_DYN:
            xs = [f"x{i}" for i in range(len(fs))]
            items = "; ".join((x if t == "any" else f"O_str {x}") for x, (f, t, _) in zip(xs, fs))
            irows.append(f"| O_{c} " + " ".join(xs) + f" => Some [{items}]")
    irows.append("| _ => None")
    tr.out.append(f"Definition obj_items (a : {NAME}) : option (list {NAME}) :=\nmatch a with\n" + "\n".join(irows) + "\nend.")
    tr.out.append(f"Fixpoint obj_items_all (l : list {NAME}) : option (list (list {NAME})) :=\nmatch l with\n| [] => Some []\n| a :: l' =>\n"
                  "match obj_items a, obj_items_all l' with Some x, Some r => Some (x :: r) | _, _ => None end\nend.")

    if str_fields:
        # str(x): the stored string of the classes that are strings (URIRef, BNode, Literal are str subclasses); of anything else: not modelled
        srows = []
        for c, f in str_fields.items():
            fs = ctors[c]
            srows.append(f"| O_{c}" + "".join((" s_" if n == f else " _") for n, _, _ in fs) + " => Some s_")
        srows += ["| O_str s_ => Some s_", "| _ => None"]
        tr.out.append(f"Definition obj_str (a : {NAME}) : option K :=\nmatch a with\n" + "\n".join(srows) + "\nend.")


def classes_with_field(f: str) -> list[str]:
    return [c for c, fs in py2v.DYN.items() if any(n == f for n, _, _ in fs)]
