"""py2v.py -- translate a small imperative subset of Python (the lookup classes of pyjelly) to Gallina.

    python3 py2v.py <repo> lookup_enc > LookupEncGen.v
    python3 py2v.py <repo> lookup_dec > LookupDecGen.v

Fail-closed: any construct outside the subset below raises Unsupported (exit 3, message on stderr) --
the source tie is then broken and the check that runs the translator reports it.

The subset (everything the translated files use today):
  * classes whose state is the set of `self.<field>` assigned in `__init__`; fields hold ints, bools,
    strings, an OrderedDict[str, int], a deque of optional strings, or another translated object that
    the instance owns;
  * statements: assignment to a local / to `self.f` / to `self.f[k]`, tuple unpacking of `popitem`,
    `if`/`else`, `return`, `raise X(..)`, `assert`, `try: .. except X: ..`, expression statements that are
    calls, string (message) assignments, docstrings;
  * expressions: names, int/bool/None constants, `self.f`, `self.f.g`, `+ -`, comparisons, `not`,
    `and`/`or` (as a test, or on ints as a value), `len`, calls of methods of `self` or of an owned object,
    OrderedDict `move_to_end` / `popitem(last=False)` / `[k]`, deque `[i]`, `(x,) * n`, constructors,
    `a if c else b`, chained comparisons, `min` / `max`, `+=` / `-=`.
Semantics of the result (see coq/tie/PyPrims.v): every method becomes a function
    args -> self -> outcome R * Cls
returning the value or the raised exception together with the object's state at that point; Python ints
are Z; strings are an abstract type K with `eqb` and `is_empty`.
"""
from __future__ import annotations

import ast
import re
import sys
from pathlib import Path

sys.path.insert(0, str(Path(__file__).resolve().parent))


class Unsupported(Exception):
    pass


def bad(node, why: str):
    line = getattr(node, "lineno", "?")
    raise Unsupported(f"line {line}: {why}: {ast.dump(node)[:160] if isinstance(node, ast.AST) else node}")


COQ_KEYWORDS = {"at", "as", "end", "in", "match", "return", "with", "fix", "let", "using", "then", "else", "if", "fun", "forall", "exists",
                "Type", "Set", "Prop", "where", "struct", "for", "cofix", "IF", "by", "do", "is", "of", "mod", "self_"}
EXNS = {"KeyError", "IndexError", "AssertionError", "TypeError", "ValueError", "JellyConformanceError", "JellyAssertionError",
        "JellyNotImplementedError", "StopIteration", "NotImplementedError", "ZeroDivisionError", "BaseException", "AttributeError", "OutsideModel", "RuntimeError"}


ENUM_TYPES: dict[str, dict[str, int]] = {}  # filled from the descriptor in rdf_pb2.py by translate_unit
MESSAGES: dict[str, list[dict]] = {}  # message name -> fields, from the same descriptor
INT_ENUMS: dict[str, dict[str, int]] = {}  # class X(IntEnum) of the module being translated: member -> value
READER_METHODS: set[str] = set()  # methods already translated that only read the messages they are given
OPAQUE: set[str] = set()
NAMEDTUPLES: set[str] = set()
FROZEN: set[str] = set()  # classes declared @dataclass(frozen=True): their instances are never changed in place
TYPE_ALIASES: dict[str, ast.AST] = {}  # `X: TypeAlias = ...` of the module being translated
DYN: dict[str, list] = {}  # classes of dynamic values (dyn.py): class -> [(field, type, optional)]
DYN_SINGLETONS: dict[str, str] = {}  # instance name -> its class
STATIC_NOT_SEQ: set[str] = set()  # plain translated classes (records): no list or generator is an instance of one
STATIC_ISINSTANCE: dict[tuple[str, str], bool] = {}  # (static class of x, C) -> isinstance(x, C), for stand-in classes whose real ones are related by inheritance
DYN_ANY_NAMES: set[str] = set()  # annotations that denote a dynamic value
NAMEDTUPLE_DYN: set[str] = set()  # the dynamic classes that are NamedTuples (iterable: their fields)


def mangle(name: str) -> str:
    if name == "_":
        return "_"
    return name + "_" if name in COQ_KEYWORDS else name


def coq_type(t) -> str:
    if t == "int":
        return "Z"
    if t == "bool":
        return "bool"
    if t == "str":
        return "K"
    if t == "none":
        return "unit"
    if t == "od":
        return "(@od K)"
    if isinstance(t, tuple) and t[0] == "opt":
        return f"(option {coq_type(t[1])})"
    if isinstance(t, tuple) and t[0] == "seq":
        return f"(list {coq_type(t[1])})"
    if isinstance(t, tuple) and t[0] == "obj":
        return t[1]
    if isinstance(t, tuple) and t[0] == "pair":
        return f"({coq_type(t[1])} * {coq_type(t[2])})"
    if isinstance(t, tuple) and t[0] == "tuple":
        return "(" + " * ".join(coq_type(x) for x in t[1]) + ")"
    if isinstance(t, tuple) and t[0] == "set":
        return f"(list {coq_type(t[1])})"
    if isinstance(t, tuple) and t[0] == "pb":
        return "(pbval K)"
    if t == "fname":
        return "string"
    if isinstance(t, tuple) and t[0] == "dict":
        return f"(list ({coq_type(t[1])} * {coq_type(t[2])}))"
    if isinstance(t, tuple) and t[0] == "cls":
        return f"{t[1]}_cls"
    if isinstance(t, tuple) and t[0] == "ename":
        return "Z"
    if t == "any":
        return "T"
    if isinstance(t, tuple) and t[0] == "iter":
        return f"(list {coq_type(t[1])})"
    bad(None, f"no Coq type for {t}")


def compat(t, want) -> bool:
    """t may be used where want is expected ('?' = element type not known yet, e.g. of [])."""
    if t == want or t == "?" or want == "?":
        return True
    if isinstance(t, tuple) and isinstance(want, tuple) and {t[0], want[0]} == {"pair", "tuple"}:
        a = list(t[1:]) if t[0] == "pair" else t[1]
        b = list(want[1:]) if want[0] == "pair" else want[1]
        return len(a) == len(b) == 2 and all(compat(x, y) for x, y in zip(a, b))
    if isinstance(t, tuple) and isinstance(want, tuple) and t[0] == want[0]:
        if t[0] == "tuple":
            return len(t[1]) == len(want[1]) and all(compat(a, b) for a, b in zip(t[1], want[1]))
        if t[0] in ("seq", "set", "opt"):
            return compat(t[1], want[1])
        if t[0] == "dict":
            return compat(t[1], want[1]) and compat(t[2], want[2])
        if t[0] == "pb":
            return t[1] == "*" or want[1] == "*" or set(t[1].split("|")) <= set(want[1].split("|"))
        if t[0] == "iter":
            return compat(t[1], want[1])
    return False


def param_is_written(name: str, body: list, mtype: str | None = None) -> bool:
    """Does the body change the object bound to this parameter (or hand it to something that might)?"""
    for st in body:
        for n in ast.walk(st):
            if isinstance(n, ast.Attribute) and isinstance(n.ctx, ast.Store) and isinstance(n.value, ast.Name) and n.value.id == name:
                return True
            if isinstance(n, ast.Call):
                if isinstance(n.func, ast.Attribute) and isinstance(n.func.value, ast.Name) and n.func.value.id == name \
                        and n.func.attr in ("CopyFrom", "Clear", "MergeFrom", "append", "extend", "add", "clear"):
                    return True
                for a in list(n.args) + [kw.value for kw in n.keywords]:
                    if isinstance(a, ast.Name) and a.id == name and not (isinstance(n.func, ast.Name) and n.func.id in ("len", "type", "isinstance", "getattr")):
                        if isinstance(n.func, ast.Attribute) and isinstance(n.func.value, ast.Name) and n.func.value.id == "self" \
                                and n.func.attr in READER_METHODS:
                            continue
                        return True
                    if isinstance(a, ast.Attribute) and isinstance(a.value, ast.Name) and a.value.id == name \
                            and not (isinstance(n.func, ast.Name) and n.func.id in ("len", "type", "isinstance", "getattr")) \
                            and any(d["name"] == a.attr and d["type"] == 11 for mn, fs in MESSAGES.items() if mtype in (None, "*", mn) for d in fs):
                        # a sub-message handed on: written if the callee may write to it (a method of self already translated
                        # without in/out parameters only reads)
                        if isinstance(n.func, ast.Attribute) and isinstance(n.func.value, ast.Name) and n.func.value.id == "self" \
                                and n.func.attr in READER_METHODS:
                            continue
                        return True
            if isinstance(n, ast.Name) and n.id == name and isinstance(n.ctx, ast.Store):
                return True
    return False


def is_mutable(t) -> bool:
    """Values Python passes by reference and the translated source may change in place."""
    if t == ("seq", "int"):
        return False  # bytes
    if isinstance(t, tuple) and t[0] == "obj" and t[1] in OPAQUE:
        return True
    if isinstance(t, tuple) and t[0] == "obj" and t[1] in FROZEN:
        return False  # @dataclass(frozen=True)
    return isinstance(t, tuple) and t[0] in ("pb", "obj", "set", "seq", "iter", "dict")


def ann_type(a, classes) -> object:
    if a is None:
        bad(None, "missing annotation")
    if isinstance(a, ast.Constant) and a.value is None:
        return "none"
    if isinstance(a, ast.Name):
        if a.id in ("int", "bool", "str"):
            return a.id
        if a.id == "bytes":
            return ("seq", "int")
        if a.id in ("object", "Any") or a.id in DYN_ANY_NAMES:
            return "any"
        if a.id == "Never":
            return "none"
        if a.id == "pbany":
            return ("pb", "*")
        if a.id in ENUM_TYPES:
            return "int"
        if a.id in INT_ENUMS:
            return "int"
        if a.id in classes:
            return ("obj", classes[a.id].name)
        if a.id in TYPE_ALIASES:
            return ann_type(TYPE_ALIASES[a.id], classes)
        bad(a, "annotation")
    if isinstance(a, ast.Attribute) and isinstance(a.value, ast.Name) and a.value.id == "jelly" and a.attr in ENUM_TYPES:
        return "int"  # protobuf enum values are ints
    if isinstance(a, ast.Attribute) and isinstance(a.value, ast.Name) and a.value.id == "jelly" and a.attr in MESSAGES:
        return ("pb", a.attr)
    if isinstance(a, ast.Attribute) and isinstance(a.value, ast.Name) and a.value.id == "options" and a.attr in classes:
        return ("obj", a.attr)
    if isinstance(a, ast.Name) and a.id in TYPE_ALIASES:
        return ann_type(TYPE_ALIASES[a.id], classes)
    if isinstance(a, ast.Subscript) and isinstance(a.value, ast.Name) and a.value.id in ("Sequence", "list"):
        return ("seq", ann_type(a.slice, classes))
    if isinstance(a, ast.Subscript) and isinstance(a.value, ast.Name) and a.value.id == "type" and isinstance(a.slice, ast.Name) \
            and a.slice.id in classes and getattr(classes[a.slice.id], "family", None) is not None:
        return ("cls", classes[a.slice.id].name)
    if isinstance(a, ast.Subscript) and isinstance(a.value, ast.Name) and a.value.id == "Generator":
        return ("gen", ann_type(a.slice, classes))
    if isinstance(a, ast.Subscript) and isinstance(a.value, ast.Name) and a.value.id in ("Iterator", "Iterable"):
        return ("iter", ann_type(a.slice, classes))
    if isinstance(a, ast.Subscript) and isinstance(a.value, ast.Name) and a.value.id == "dict" and isinstance(a.slice, ast.Tuple) and len(a.slice.elts) == 2:
        return ("dict", ann_type(a.slice.elts[0], classes), ann_type(a.slice.elts[1], classes))
    if isinstance(a, ast.Subscript) and isinstance(a.value, ast.Name) and a.value.id == "set":
        return ("set", ann_type(a.slice, classes))
    if isinstance(a, ast.Subscript) and isinstance(a.value, ast.Name) and a.value.id == "tuple" and isinstance(a.slice, ast.Tuple) and a.slice.elts:
        return ("tuple", [ann_type(x, classes) for x in a.slice.elts])
    if isinstance(a, ast.BinOp) and isinstance(a.op, ast.BitOr):
        l, r = ann_type(a.left, classes), ann_type(a.right, classes)
        if r == "none":
            return ("opt", l)
        if l == "none":
            return ("opt", r)
        if isinstance(l, tuple) and isinstance(r, tuple) and l[0] == r[0] == "pb":
            return ("pb", l[1] + "|" + r[1])
        if DYN and "any" in (l, r) and all(x in ("any", "str") for x in (l, r)):
            return "any"  # a str is a dynamic value too (O_str)
        bad(a, "union annotation")
    if isinstance(a, ast.Subscript) and isinstance(a.value, ast.Name) and a.value.id == "deque":
        return ("seq", ann_type(a.slice, classes))
    bad(a, "annotation")


def field_and_group(mname: str, field: str, node):
    """The descriptor of m.<field> and the names of its oneof group (the field alone when it is in none), for a message class
    or a union of them: every alternative that has the field must agree on its type and on the group."""
    found = []
    for c in mname.split("|"):
        fd = next((d for d in MESSAGES[c] if d["name"] == field), None)
        if fd is None:
            continue
        group = [d["name"] for d in MESSAGES[c] if fd["oneof"] is not None and d["oneof"] == fd["oneof"]] or [field]
        found.append((fd, group))
    if not found:
        bad(node, f"{mname} has no field {field}")
    if any((f["type"], f["label"], f["type_name"], g) != (found[0][0]["type"], found[0][0]["label"], found[0][0]["type_name"], found[0][1]) for f, g in found):
        bad(node, f"the field {field} differs between the alternatives of {mname}")
    return found[0]


def static_truth(test, env):
    """True / False when the static types decide the test, else None: `x is None` / `x is not None` for a variable whose type
    has no None (or is None), `and` / `or` / `not` of such."""
    if isinstance(test, ast.Compare) and len(test.ops) == 1 and isinstance(test.ops[0], (ast.Is, ast.IsNot)) and isinstance(test.left, ast.Name) \
            and isinstance(test.comparators[0], ast.Constant) and test.comparators[0].value is None and test.left.id in env:
        t = env[test.left.id]
        if t == "none":
            return isinstance(test.ops[0], ast.Is)
        if t in ("int", "str", "bool") or (isinstance(t, tuple) and t[0] in ("obj", "seq", "iter", "pb", "dict", "set", "tuple")):
            return isinstance(test.ops[0], ast.IsNot)
        return None
    if isinstance(test, ast.Call) and isinstance(test.func, ast.Name) and test.func.id == "isinstance" and len(test.args) == 2 and not test.keywords \
            and isinstance(test.args[0], ast.Name) and isinstance(test.args[1], ast.Name) and env.get(test.args[0].id) == ("obj", test.args[1].id):
        return True  # the static type is that very class
    if isinstance(test, ast.Call) and isinstance(test.func, ast.Name) and test.func.id == "isinstance" and len(test.args) == 2 and not test.keywords \
            and isinstance(test.args[0], ast.Name) and isinstance(test.args[1], ast.Name) and isinstance(env.get(test.args[0].id), tuple) \
            and env[test.args[0].id][0] == "obj" and (env[test.args[0].id][1], test.args[1].id) in STATIC_ISINSTANCE:
        return STATIC_ISINSTANCE[(env[test.args[0].id][1], test.args[1].id)]
    if isinstance(test, ast.Call) and isinstance(test.func, ast.Name) and test.func.id == "isinstance" and len(test.args) == 2 and not test.keywords \
            and isinstance(test.args[0], ast.Name) and isinstance(test.args[1], ast.Name) and isinstance(env.get(test.args[0].id), tuple) \
            and env[test.args[0].id][0] in ("seq", "iter") and test.args[1].id in STATIC_NOT_SEQ:
        return False  # a generator / list of statements is not an instance of that (plain, non-sequence) class
    if isinstance(test, ast.Call) and isinstance(test.func, ast.Name) and test.func.id == "iter" and len(test.args) == 1 and not test.keywords:
        return True  # an iterator object is truthy (the TypeError for a non-iterable argument aside: the argument is one here)
    if isinstance(test, ast.BoolOp):
        vals = [static_truth(v, env) for v in test.values]
        if isinstance(test.op, ast.Or):
            if any(v is True for v in vals):
                return True
            return False if all(v is False for v in vals) else None
        if any(v is False for v in vals):
            return False
        return True if all(v is True for v in vals) else None
    if isinstance(test, ast.UnaryOp) and isinstance(test.op, ast.Not):
        v = static_truth(test.operand, env)
        return None if v is None else not v
    return None


def only_message_use(name: str, stmts: list) -> bool:
    """Is every later read of `name` an argument of `raise X(..)` or a part of an f-string?"""
    loads = in_msg = 0
    for st in stmts:
        for n in ast.walk(st):
            if isinstance(n, ast.Name) and n.id == name and isinstance(n.ctx, ast.Load):
                loads += 1
            if isinstance(n, ast.Raise) and isinstance(n.exc, ast.Call):
                in_msg += sum(1 for a in n.exc.args for x in ast.walk(a) if isinstance(x, ast.Name) and x.id == name)
            if isinstance(n, ast.JoinedStr):
                in_msg += sum(1 for x in ast.walk(n) if isinstance(x, ast.Name) and x.id == name)
    return loads == in_msg


def is_pure(e) -> bool:
    return not any(isinstance(n, (ast.Call, ast.Subscript)) for n in ast.walk(e))


class ClassInfo:
    def __init__(self, name):
        self.name = name
        self.fields: list[tuple[str, object]] = []
        self.methods: dict[str, tuple[list[tuple[str, object]], object]] = {}  # name -> (params, ret)
        self.static: set[str] = set()  # methods with in/out parameters that do not use self
        self.inout: set[str] = set()  # methods that use self and have message in/out parameters
        self.defaults: dict[str, ast.AST] = {}  # dataclass field defaults (constants)

    def ftype(self, f):
        for n, t in self.fields:
            if n == f:
                return t
        return None


class Translator:
    def __init__(self, consts: dict[str, int]):
        self.consts = consts
        self.classes: dict[str, ClassInfo] = {}
        self.functions: dict[str, tuple[list, object]] = {}
        self.int_sets: dict[str, list] = {}
        self.dict_consts: dict[str, tuple[list[tuple[str, str]], object]] = {}  # module-level {int: class} tables
        self.readonly_params: dict[str, set[str]] = {}  # function -> message parameters it only reads
        self.str_consts: dict[str, str] = {}  # module-level string constants of pyjelly/options.py
        self.method_selection: dict[str, list[str]] = {}  # class -> the methods that belong to the unit
        self.virtual_methods: dict[str, list[str]] = {}  # class -> methods that subclasses override (parameters of the translation)
        self.uses_any = False  # `object`-typed values: an abstract type T with an equality
        self.out: list[str] = []
        self.fresh = 0

    def gensym(self, base="x"):
        self.fresh += 1
        return f"{base}__{self.fresh}"

    # ------------------------------------------------------------------ classes
    def add_class(self, node: ast.ClassDef):
        if [ast.unparse(b) for b in node.bases] == ["NamedTuple"]:
            FROZEN.add(node.name)
            NAMEDTUPLES.add(node.name)
            return self.add_dataclass(node)
        if any((isinstance(d, ast.Call) and isinstance(d.func, ast.Name) and d.func.id == "dataclass") or (isinstance(d, ast.Name) and d.id == "dataclass")
               for d in node.decorator_list) \
                and not any(isinstance(n, ast.FunctionDef) and n.name == "__init__" for n in node.body):
            return self.add_dataclass(node)
        info = ClassInfo(node.name)
        info.all_methods = {m_.name for m_ in node.body if isinstance(m_, ast.FunctionDef)}  # also those the unit does not translate
        if not node.bases:
            STATIC_NOT_SEQ.add(node.name)
        self.classes[node.name] = info
        only = self.method_selection.get(node.name)
        virtual = self.virtual_methods.get(node.name, [])
        methods = [n for n in node.body if isinstance(n, ast.FunctionDef) and n.name != "__repr__" and (only is None or n.name in only)]
        if only is not None and set(only) - {m.name for m in methods}:
            bad(node, f"{node.name} no longer defines {sorted(set(only) - {m.name for m in methods})}")
        for n in node.body:
            if isinstance(n, ast.FunctionDef):
                continue
            if isinstance(n, ast.Expr) and isinstance(n.value, ast.Constant) and isinstance(n.value.value, str):
                continue
            if isinstance(n, ast.AnnAssign) and n.value is None:
                continue  # dataclass field declaration; the fields that exist are those __init__ assigns
            bad(n, "class-level statement")
        for m in methods:
            a = m.args
            if a.vararg or a.kwarg or a.posonlyargs or any(not ((isinstance(d, ast.Constant) and d.value is None) or (isinstance(d, ast.Name) and d.id in DYN_SINGLETONS))
                                                          for d in a.defaults + [d for d in a.kw_defaults if d is not None]):
                bad(m, "parameter kinds / defaults other than None")
            if m.name == "__init__":
                info.ctor_defaults = dict(zip([p_.arg for p_ in a.args[len(a.args) - len(a.defaults):]], a.defaults))
            params = [(p.arg, ann_type(p.annotation, self.classes)) for p in (a.args[1:] + a.kwonlyargs)]
            ret = ann_type(m.returns, self.classes) if m.name != "__init__" else ("obj", node.name)
            info.methods[m.name] = (params, ret)
            if m.name in virtual:
                info.inout.add(m.name)
                continue
            if m.name != "__init__" and any(is_mutable(t) for _, t in params):
                # in/out parameters.  A helper that leaves self alone is translated without self; one that uses self
                # may only take messages in/out (a message cannot be one of self's tables: no aliasing)
                if any(isinstance(x, ast.Name) and x.id == "self" for x in ast.walk(ast.Module(body=m.body, type_ignores=[]))):
                    if not all(t[0] in ("pb", "iter") for _, t in params if is_mutable(t)):
                        bad(m, "a method that both uses self and changes a table or a collection passed to it")
                    info.inout.add(m.name)
                else:
                    info.static.add(m.name)
        init = next((m for m in methods if m.name == "__init__"), None)
        if init is None:
            bad(node, "class without __init__")
        # --- __init__: fields in order of first assignment
        params = info.methods["__init__"][0]
        env = {p: t for p, t in params}
        mode = InitMode(self, info)
        body = mode.stmts(init.body, env)
        self.out.append(f"Record {info.name} := mk_{info.name} {{ " + "; ".join(f"{info.name}_{f} : {coq_type(t)}" for f, t in info.fields) + " }.")
        for i, (f, t) in enumerate(info.fields):
            args = " ".join(("v" if j == i else f"({info.name}_{g} self)") for j, (g, _) in enumerate(info.fields))
            self.out.append(f"Definition set_{info.name}_{f} (v : {coq_type(t)}) (self : {info.name}) : {info.name} := mk_{info.name} {args}.")
        ps = " ".join(f"({mangle(p)} : {coq_type(t)})" for p, t in params)
        self.out.append(f"Definition {info.name}___init__ {ps} : outcome {info.name} :=\n{body}.")
        # --- methods, callees first
        rest = [m for m in methods if m.name != "__init__"]
        done: set[str] = set()
        order = []

        def calls(m):
            if m.name in virtual:
                return set()
            return {c.func.attr for c in ast.walk(m) if isinstance(c, ast.Call) and isinstance(c.func, ast.Attribute)
                    and isinstance(c.func.value, ast.Name) and c.func.value.id == "self"} - {m.name}

        while rest:
            m = next((m for m in rest if calls(m) <= done), None)
            if m is None:
                bad(node, "recursive methods")
            rest.remove(m)
            done.add(m.name)
            order.append(m)
        for m in order:
            params, ret = info.methods[m.name]
            env = {p: t for p, t in params}
            if m.name in virtual:
                # the base class only raises; subclasses (the integrations' dispatchers) override it.  The translation
                # is parametric in what the override does: a section variable of the method's type.
                muts = [(p, t) for p, t in params if is_mutable(t)]
                ty = " -> ".join([coq_type(t) for _, t in params] + [info.name, f"outcome {coq_type(ret)} * {info.name}" + "".join(f" * {coq_type(t)}" for _, t in muts)])
                self.out.append(f"Context ({info.name}_{m.name} : {ty}).")
                continue
            if m.name in info.static:
                emit_function(self, f"{info.name}_{m.name}", m.body, params, ret)
                continue
            muts = [(p, t) for p, t in params if is_mutable(t)] if m.name in info.inout else []
            if [ast.unparse(d_) for d_ in m.decorator_list] == ["property"]:
                info.properties = getattr(info, "properties", set()) | {m.name}
            info.method_outs = getattr(info, "method_outs", {})
            info.method_outs[m.name] = [p_ for p_, _ in muts]
            ret, muts, env, pre = generator_parts(ret, muts, env)  # a generator method: its yields as one more result
            if pre:
                info.inout.add(m.name)
                info.generators = getattr(info, "generators", {})
                info.generators[m.name] = env["ys__"][1]
            mode = MethodMode(self, info, ret, muts)
            body = pre + mode.stmts(m.body, env)
            ps = " ".join(f"({mangle(p)} : {coq_type(t)})" for p, t in params)
            rt = f"outcome {coq_type(ret)} * {info.name}" + "".join(f" * {coq_type(t)}" for _, t in muts)
            self.out.append(f"Definition {info.name}_{m.name} {ps} (self : {info.name}) : {rt} :=\n{body}.")


def _add_dataclass(self, node: ast.ClassDef):
    """@dataclass without a hand-written __init__: the fields are the annotated class attributes, the
    constructor takes them all and then runs __post_init__."""
    info = ClassInfo(node.name)
    self.classes[node.name] = info
    if any(isinstance(d, ast.Call) and any(kw.arg == "frozen" and isinstance(kw.value, ast.Constant) and kw.value.value is True for kw in d.keywords)
           for d in node.decorator_list):
        FROZEN.add(node.name)
    methods = []
    for n in node.body:
        if isinstance(n, ast.Expr) and isinstance(n.value, ast.Constant) and isinstance(n.value.value, str):
            continue
        if isinstance(n, ast.AnnAssign) and isinstance(n.target, ast.Name):
            info.fields.append((n.target.id, ann_type(n.annotation, self.classes)))
            if n.value is not None:
                d = n.value
                if isinstance(d, ast.Name) and d.id in self.consts:
                    d = ast.Constant(value=self.consts[d.id])
                if isinstance(d, ast.Call) and isinstance(d.func, ast.Name) and d.func.id == "field" and not d.args and len(d.keywords) == 1 \
                        and d.keywords[0].arg == "default_factory" and isinstance(d.keywords[0].value, ast.Name):
                    d = ast.Call(func=d.keywords[0].value, args=[], keywords=[])  # field(default_factory=C): C()
                if isinstance(d, ast.Constant) and (isinstance(d.value, (int, bool)) or d.value == "" or d.value is None):
                    info.defaults[n.target.id] = d
                elif isinstance(d, ast.Call) or (isinstance(d, ast.Attribute) and isinstance(d.value, ast.Name) and d.value.id == "jelly"):
                    info.defaults[n.target.id] = d
            continue
        if isinstance(n, ast.FunctionDef):
            decos = [ast.unparse(d) for d in n.decorator_list]
            if n.name == "__repr__" or "classmethod" in decos:
                continue  # not part of the state machine: alternative constructors, printing
            if decos not in ([], ["property"]):
                bad(n, "decorator")
            if decos == ["property"]:
                info.properties = getattr(info, "properties", set()) | {n.name}
            methods.append(n)
            continue
        bad(n, "class-level statement")
    for m in methods:
        a = m.args
        if a.vararg or a.kwarg or a.posonlyargs or a.defaults or a.kwonlyargs:
            bad(m, "parameter kinds / defaults")
        info.methods[m.name] = ([(p.arg, ann_type(p.annotation, self.classes)) for p in a.args[1:]], ann_type(m.returns, self.classes))
    info.methods["__init__"] = (list(info.fields), ("obj", node.name))
    self.out.append(f"Record {info.name} := mk_{info.name} {{ " + "; ".join(f"{info.name}_{f} : {coq_type(t)}" for f, t in info.fields) + " }.")
    for i, (f, t) in enumerate(info.fields):
        args = " ".join(("v" if j == i else f"({info.name}_{g} self)") for j, (g, _) in enumerate(info.fields))
        self.out.append(f"Definition set_{info.name}_{f} (v : {coq_type(t)}) (self : {info.name}) : {info.name} := mk_{info.name} {args}.")
    post = next((m for m in methods if m.name == "__post_init__"), None)
    for m in ([post] if post else []) + [m for m in methods if m is not post]:
        params, ret = info.methods[m.name]
        mode = MethodMode(self, info, ret)
        body = mode.stmts(m.body, {p: t for p, t in params})
        ps = " ".join(f"({mangle(p)} : {coq_type(t)})" for p, t in params)
        self.out.append(f"Definition {info.name}_{m.name} {ps} (self : {info.name}) : outcome {coq_type(ret)} * {info.name} :=\n{body}.")
    ps = " ".join(f"({mangle(f)} : {coq_type(t)})" for f, t in info.fields)
    mk = f"mk_{info.name} " + " ".join(mangle(f) for f, _ in info.fields)
    if post:
        self.out.append(f"Definition {info.name}___init__ {ps} : outcome {info.name} :=\nlet '(r, self) := {info.name}___post_init__ ({mk}) in\n"
                        f"match r with Exn e => Exn e | Val _ => Val self end.")
    else:
        self.out.append(f"Definition {info.name}___init__ {ps} : outcome {info.name} := Val ({mk}).")


Translator.add_dataclass = _add_dataclass


def generator_parts(ret, muts: list, env: dict, is_gen: bool = False):
    """A generator (`-> Generator[Y]`): translated as returning None with the list of the values it yields (ys__) as one
    more result; the list is threaded like an in/out parameter.  (What is NOT modelled: that a generator runs lazily,
    interleaved with its consumer -- only the sequence of yields, the final state and the exception, if any.)"""
    if isinstance(ret, tuple) and ret[0] == "iter" and is_gen:
        ret = ("gen", ret[1])
    if isinstance(ret, tuple) and ret[0] == "gen":
        yt = ("seq", ret[1])
        return "none", muts + [("ys__", yt)], {**env, "ys__": yt}, "let ys__ := [] in\n"
    return ret, muts, env, ""


def add_opaque_class(tr: Translator, node: ast.ClassDef, fields: dict, param_types: dict | None = None) -> None:
    """A class whose concrete subclasses live elsewhere (the integrations' adapters): an abstract type, its readable
    fields as accessor parameters, every method a parameter of the translation."""
    info = ClassInfo(node.name)
    info.opaque = True
    tr.classes[node.name] = info
    tr.out.append(f"Context {{{node.name} : Type}}.")
    for f, ann in fields.items():
        t = ann_type(ast.parse(ann, mode="eval").body, tr.classes)
        info.fields.append((f, t))
        tr.out.append(f"Context ({node.name}_{f} : {node.name} -> {coq_type(t)}).")
    for m in node.body:
        if not isinstance(m, ast.FunctionDef) or m.name == "__init__":
            continue
        a = m.args
        if a.vararg or a.kwarg or a.posonlyargs or a.kwonlyargs:
            bad(m, "parameter kinds")
        params = [(p.arg, ann_type(ast.parse((param_types or {}).get(f"{m.name}.{p.arg}", "0"), mode="eval").body if f"{m.name}.{p.arg}" in (param_types or {})
                                    else p.annotation, tr.classes)) for p in a.args[1:]]
        # what such a method is given it only reads (a list of decoded terms, strings)
        params = [(p, ("seq", t[1]) if isinstance(t, tuple) and t[0] == "iter" else t) for p, t in params]
        ret = ann_type(m.returns, tr.classes)
        info.methods[m.name] = (params, ret)
        info.method_defaults = getattr(info, "method_defaults", {})
        nd = len(a.defaults)
        info.method_defaults[m.name] = {p.arg for p in a.args[1:][len(a.args[1:]) - nd:]} if nd else set()
        ty = " -> ".join([coq_type(t) for _, t in params] + [node.name, f"outcome {coq_type(ret)} * {node.name}"])
        tr.out.append(f"Context ({node.name}_{m.name} : {ty}).")


def emit_function(tr: Translator, name: str, body_stmts: list, params: list, ret) -> None:
    muts = [(p, t) for p, t in params if is_mutable(t) and not (t[0] == "pb" and not param_is_written(p, body_stmts))]
    tr.readonly_params[name] = {p for p, t in params if is_mutable(t) and (p, t) not in muts}
    env0 = {p: t for p, t in params}
    ret, muts, env0, pre = generator_parts(ret, muts, env0)
    mode = FuncMode(tr, ret, muts)
    mode.outside_if_raises = tuple(getattr(tr, "func_specs", {}).get(name, {}).get("outside_if_raises", ()))
    body = pre + mode.stmts(body_stmts, env0)
    ps = " ".join(f"({mangle(p)} : {coq_type(t)})" for p, t in params)
    rt = f"outcome {coq_type(ret)}" + "".join(f" * {coq_type(t)}" for _, t in muts)
    tr.out.append(f"Definition {name} {ps} : {rt} :=\n{body}.")


def add_function(tr: Translator, node: ast.FunctionDef):
    a = node.args
    spec = getattr(tr, "func_specs", {}).get(node.name, {})
    fixed = set(spec.get("fixed_none", ()))  # parameters the unit fixes to None (every caller in the translated code leaves them out)
    dropped = set(spec.get("unused", ()))    # parameters that nothing reads once the unit's choices are made
    if a.vararg or a.kwarg or a.posonlyargs:
        bad(node, "parameter kinds")
    pos_defaults = dict(zip([p.arg for p in a.args[len(a.args) - len(a.defaults):]], a.defaults))
    kw_defaults = {p.arg: d for p, d in zip(a.kwonlyargs, a.kw_defaults) if d is not None}
    for pn, d in {**pos_defaults, **kw_defaults}.items():
        if pn in fixed | dropped:
            if pn in fixed and not (isinstance(d, ast.Constant) and d.value is None):
                bad(node, f"{pn} is fixed to None by the unit but defaults to something else")
        elif not (pn in spec.get("param_types", {}) or pn in spec.get("factories", {})):
            bad(node, "parameter kinds / defaults")

    def ptype(p_):
        ov = spec.get("param_types", {}).get(p_.arg)
        return ann_type(ast.parse(ov, mode="eval").body if ov else p_.annotation, tr.classes)
    factories = dict(spec.get("factories", {}))  # a parameter that is a factory callable, fixed to its default `lambda: C()`
    for pn, cname in factories.items():
        d = {**pos_defaults, **kw_defaults}.get(pn)
        if d is None or ast.unparse(d) != f"lambda: {cname}()":
            bad(node, f"{pn} is fixed to its default by the unit, which is expected to be `lambda: {cname}()`")
    params = [(p.arg, ptype(p)) for p in (a.args + a.kwonlyargs) if p.arg not in fixed | dropped | set(factories)]
    ret = ann_type(ast.parse(spec["returns"], mode="eval").body if "returns" in spec else node.returns, tr.classes)
    body = list(node.body)
    # what a call the unit does not translate (IO) has produced is handed in instead: `a, b = f(..)` is dropped, a and b are parameters
    for fname, names in spec.get("given", {}).items():
        hits = [i for i, st in enumerate(body) if isinstance(st, ast.Assign) and len(st.targets) == 1 and isinstance(st.value, ast.Call)
                and isinstance(st.value.func, ast.Name) and st.value.func.id == fname]
        if len(hits) != 1:
            bad(node, f"exactly one top-level `.. = {fname}(..)` is expected")
        tg = body[hits[0]].targets[0]
        got = [e.id for e in tg.elts] if isinstance(tg, ast.Tuple) and all(isinstance(e, ast.Name) for e in tg.elts) else [tg.id] if isinstance(tg, ast.Name) else None
        if got != [n for n, _ in names]:
            bad(body[hits[0]], f"the targets of {fname}(..) are expected to be {[n for n, _ in names]}")
        del body[hits[0]]
        params = params + [(n, ann_type(ast.parse(t, mode="eval").body, tr.classes)) for n, t in names]
    if fixed or factories or dropped:
        body = [FixedParams(fixed, factories).visit(st) for st in body]
        for st in body:
            ast.fix_missing_locations(st)
    if spec.get("calls"):  # calls redirected to the copy of the callee that takes this choice of argument types
        for st in body:
            for x in ast.walk(st):
                if isinstance(x, ast.Call) and isinstance(x.func, ast.Name) and x.func.id in spec["calls"]:
                    x.func.id = spec["calls"][x.func.id]
    if spec.get("raises_call"):
        # a call that, with this choice of argument types, fails on its first attribute access (e.g. a generator handed to a function
        # that asks its argument for .namespaces): the statement `f(..)` is `raise E`
        class _R(ast.NodeTransformer):
            def visit_Expr(self, n):
                if isinstance(n.value, ast.Call) and isinstance(n.value.func, ast.Name) and n.value.func.id in spec["raises_call"] \
                        and all(isinstance(a_, ast.Name) for a_ in n.value.args) and not n.value.keywords:
                    return ast.copy_location(ast.Raise(exc=ast.Name(id=spec["raises_call"][n.value.func.id], ctx=ast.Load()), cause=None), n)
                return n
        body = [ast.fix_missing_locations(_R().visit(st)) for st in body]
    for ln_, lt_ in spec.get("local_types", {}).items():  # `x = None` of a local the source leaves unannotated: its declared type
        hits = [i for i, st in enumerate(body) if isinstance(st, ast.Assign) and len(st.targets) == 1 and isinstance(st.targets[0], ast.Name)
                and st.targets[0].id == ln_ and isinstance(st.value, ast.Constant) and st.value.value is None]
        if len(hits) != 1:
            bad(node, f"exactly one top-level `{ln_} = None` is expected")
        ann = ast.AnnAssign(target=ast.Name(id=ln_, ctx=ast.Store()), annotation=ast.parse(lt_, mode="eval").body, value=ast.Constant(value=None), simple=1)
        body[hits[0]] = ast.fix_missing_locations(ast.copy_location(ann, body[hits[0]]))
    for n_ in spec.get("ignore_locals", ()):  # locals that only feed error messages
        body = [DropLocal(n_).visit(st) for st in body]
        body = [st for st in body if st is not None]
    tr.functions[node.name] = (params, ret)
    for pn in sorted(fixed):
        asg = ast.Assign(targets=[ast.Name(id=pn, ctx=ast.Store())], value=ast.Constant(value=None))
        body.insert(0, ast.fix_missing_locations(ast.copy_location(asg, node)))
    emit_function(tr, node.name, body, params, ret)


class Mode:
    """Statement / expression translation shared by methods and __init__."""

    def __init__(self, tr: Translator, info: ClassInfo):
        self.tr, self.info = tr, info
        self.env_now: dict = {}
        self.on_exn = lambda e: self.ret_exn(e)

    # ---- to be provided
    def ret_val(self, v, t): ...
    def ret_exn(self, e): ...
    def fall_off(self): ...
    def read_field(self, f): ...
    def write_field(self, f, v, t, rest): ...

    # ---- statements (continuation = the statements that follow)
    def stmts(self, ss: list, env: dict) -> str:
        if not ss:
            self._fall_env = env  # the environment at the point where control falls off the end of the block
            return self.fall_off()
        s, rest = ss[0], ss[1:]
        if isinstance(s, ast.Expr) and isinstance(s.value, ast.Constant) and isinstance(s.value.value, str):
            return self.stmts(rest, env)
        if (isinstance(s, ast.Expr) and isinstance(s.value, ast.Call) and ast.unparse(s.value.func) == "object.__setattr__" and len(s.value.args) == 3
                and isinstance(s.value.args[0], ast.Name) and s.value.args[0].id == "self" and isinstance(s.value.args[1], ast.Constant)
                and isinstance(s.value.args[1].value, str) and not s.value.keywords):
            return self.expr(s.value.args[2], env, lambda v, t: self.write_field(s.value.args[1].value, v, t, lambda: self.stmts(rest, env)))
        # <local message>.CopyFrom(m)
        if (isinstance(s, ast.Expr) and isinstance(s.value, ast.Call) and isinstance(s.value.func, ast.Attribute) and s.value.func.attr == "CopyFrom"
                and isinstance(s.value.func.value, ast.Name) and isinstance(env.get(s.value.func.value.id), tuple)
                and env[s.value.func.value.id][0] == "pb" and len(s.value.args) == 1 and not s.value.keywords):
            x, xt = s.value.func.value.id, env[s.value.func.value.id]
            return self.expr(s.value.args[0], env, lambda v, t: (
                f"let {mangle(x)} := {v} in\n{self.stmts(rest, env)}" if compat(t, xt) else bad(s, "CopyFrom of another message type")))
        if (isinstance(s, ast.Expr) and isinstance(s.value, ast.Call) and isinstance(s.value.func, ast.Attribute) and s.value.func.attr in ("append", "extend")
                and isinstance(s.value.func.value, ast.Attribute) and isinstance(s.value.func.value.value, ast.Name) and s.value.func.value.value.id == "self"
                and len(s.value.args) == 1 and not s.value.keywords):
            fld = s.value.func.value.attr
            ft = self.info.ftype(fld)
            fam = getattr(self.tr, "families", {}).get(ft[1]) if isinstance(ft, tuple) and ft[0] == "obj" else None
            if fam is not None and fam.userlist:
                root = ft[1]
                dt = self.tr.classes[root].ftype("data")

                def k_ul(v, t, meth=s.value.func.attr):
                    cur = f"({root}_data {self.read_field(fld)})"
                    if meth == "append":
                        if not compat(t, dt[1]):
                            bad(s, f"append of {t} to a list of {dt[1]}")
                        new = f"({cur} ++ [{v}])"
                    else:
                        if not (isinstance(t, tuple) and t[0] == "seq" and compat(t[1], dt[1])):
                            bad(s, f"extend by {t}")
                        new = f"({cur} ++ {v})"
                    return self.write_field(fld, f"(set_{root}_data {new} {self.read_field(fld)})", ft, lambda: self.stmts(rest, env))
                return self.expr(s.value.args[0], env, k_ul)
        # <list>.append(x) / <set>.add(x) / <list|set>.clear() on a local name or on self.<field>
        if (isinstance(s, ast.Expr) and isinstance(s.value, ast.Call) and isinstance(s.value.func, ast.Attribute)
                and s.value.func.attr in ("append", "add", "clear", "extend") and not s.value.keywords):
            tgt, meth = s.value.func.value, s.value.func.attr
            cur = None
            if isinstance(tgt, ast.Name) and isinstance(env.get(tgt.id), tuple) and env[tgt.id][0] in ("seq", "set"):
                cur = (mangle(tgt.id), env[tgt.id])
            elif isinstance(tgt, ast.Attribute) and isinstance(tgt.value, ast.Name) and tgt.value.id == "self" \
                    and isinstance(self.info.ftype(tgt.attr), tuple) and self.info.ftype(tgt.attr)[0] in ("seq", "set"):
                cur = (self.read_field(tgt.attr), self.info.ftype(tgt.attr))
            if cur is not None:
                cv, ct = cur
                if (meth, ct[0]) not in (("append", "seq"), ("extend", "seq"), ("add", "set"), ("clear", "seq"), ("clear", "set")) \
                        or len(s.value.args) != (0 if meth == "clear" else 1):
                    bad(s, "container method")

                def store(nv, nt):
                    if isinstance(tgt, ast.Name):
                        env2 = dict(env)
                        env2[tgt.id] = nt
                        return f"let {mangle(tgt.id)} := {nv} in\n{self.stmts(rest, env2)}"
                    return self.write_field(tgt.attr, nv, nt, lambda: self.stmts(rest, env))
                if meth == "clear":
                    return store("[]", ct)

                def k_item(v, t):
                    if meth == "extend":
                        if not (isinstance(t, tuple) and t[0] == "seq" and compat(t[1], ct[1])):
                            bad(s, f"extend by {t}")
                        return store(f"({cv} ++ {v})", (ct[0], t[1] if ct[1] == "?" else ct[1]))
                    if not compat(t, ct[1]):
                        bad(s, f"element of type {t} in a container of {ct[1]}")
                    nt = (ct[0], t if ct[1] == "?" else ct[1])
                    return store(f"({cv} ++ [{v}])" if meth == "append" else f"(set_add str_eqb {v} {cv})", nt)
                return self.expr(s.value.args[0], env, k_item)
        if isinstance(s, ast.Expr) and isinstance(s.value, ast.Call):
            return self.expr(s.value, env, lambda v, t: self.stmts(rest, env))
        # x := e used as a test / value:  `if frame := f(): ...`  ==  `frame = f(); if frame: ...`
        if isinstance(s, ast.If) and isinstance(s.test, ast.NamedExpr) and isinstance(s.test.target, ast.Name):
            a = ast.Assign(targets=[ast.Name(id=s.test.target.id, ctx=ast.Store())], value=s.test.value)
            i2 = ast.If(test=ast.Name(id=s.test.target.id, ctx=ast.Load()), body=s.body, orelse=s.orelse)
            for st in (a, i2):
                ast.copy_location(st, s)
                ast.fix_missing_locations(st)
            return self.stmts([a, i2] + rest, env)
        # yield e  (generators: the values yielded so far are the list ys__)
        if isinstance(s, ast.Pass) and hasattr(s, "_raise_if"):
            ex_ = self.tr.gensym("e")
            self.env_now = env
            return f"match {s._raise_if} with\n| Exn {ex_} => {self.on_exn(ex_)}\n| Val _ =>\n{self.stmts(rest, env)}\nend"
        if isinstance(s, (ast.Assign, ast.AnnAssign)) and s.value is not None:
            tg_ = s.targets[0] if isinstance(s, ast.Assign) and len(s.targets) == 1 else getattr(s, "target", None)
            gv_ = s.value
            while (isinstance(gv_, ast.Call) and isinstance(gv_.func, ast.Name) and gv_.func.id == "cast" and len(gv_.args) == 2) \
                    or (isinstance(gv_, ast.IfExp) and static_truth(gv_.test, env) is not None):
                gv_ = gv_.args[1] if isinstance(gv_, ast.Call) else (gv_.body if static_truth(gv_.test, env) else gv_.orelse)
            if isinstance(tg_, ast.Name) and isinstance(gv_, (ast.Call, ast.Attribute)) and self.gen_call(gv_, env) is not None:
                # x = <generator call>: nothing runs yet in Python.  Here the callee runs now (it changes nothing but its own
                # arguments' consumption); x is the list of what it yields, and the exception it ends with, if any, is kept aside:
                # it is raised when a `for` has gone through the items; any other use of x refuses then (OutsideModel)
                def k_bind(code, r_, ys_, yt_, env_):
                    env2 = dict(env_)
                    env2[tg_.id] = ("seq", yt_)
                    env2["__pend__" + tg_.id] = r_
                    return code + f"let {mangle(tg_.id)} := {ys_} in\n" + self.stmts(rest, env2)
                return self.gen_call(gv_, env)(k_bind)
            if isinstance(tg_, ast.Name) and ("__pend__" + tg_.id) in env:
                env = dict(env)
                del env["__pend__" + tg_.id]
        gc = None
        if isinstance(s, ast.Expr) and isinstance(s.value, (ast.Yield, ast.YieldFrom)) and isinstance(s.value.value, ast.Call):
            gc = self.gen_call(s.value.value, env)
        if gc is not None:
            # yield <generator call> / yield from <generator call>: the callee runs (eagerly, in this model); what it yielded is
            # handed on -- also when it ended with an exception, which is raised after
            if "ys__" not in env:
                bad(s, "yield outside a generator")

            def k_gen(code, r_, ys_, yt_, env_):
                item = f"[{ys_}]" if isinstance(s.value, ast.Yield) else ys_
                want = env["ys__"][1] if isinstance(s.value, ast.Yield) else env["ys__"]
                have = ("seq", yt_) if isinstance(s.value, ast.Yield) else ("seq", yt_)
                if not compat(have, want):
                    bad(s, f"yielding {have} where {want} is expected")
                marker = ast.Pass()
                marker._raise_if = r_
                return code + f"let ys__ := (ys__ ++ {item}) in\n" + self.stmts([marker] + rest, env_)
            return gc(k_gen)
        if isinstance(s, ast.Expr) and isinstance(s.value, ast.YieldFrom) and isinstance(s.value.value, ast.Name) \
                and isinstance(env.get(s.value.value.id), tuple) and env[s.value.value.id][0] in ("seq", "iter"):
            if "ys__" not in env or not compat(("seq", env[s.value.value.id][1]), env["ys__"]):
                bad(s, "yield from")
            return f"let ys__ := (ys__ ++ {mangle(s.value.value.id)}) in\n{self.stmts(rest, env)}"
        if isinstance(s, ast.Expr) and isinstance(s.value, ast.YieldFrom) and "ys__" in env:
            yv = s.value.value
            # yield from self.f / yield from self.d.items(): the items of the list / the (key, value) pairs of the dict, in order
            if isinstance(yv, ast.Call) and isinstance(yv.func, ast.Attribute) and yv.func.attr == "items" and not yv.args and not yv.keywords \
                    and isinstance(yv.func.value, ast.Attribute) and isinstance(yv.func.value.value, ast.Name) and yv.func.value.value.id == "self" \
                    and isinstance(self.info.ftype(yv.func.value.attr), tuple) and self.info.ftype(yv.func.value.attr)[0] == "dict":
                ft_ = self.info.ftype(yv.func.value.attr)
                if not compat(("seq", ("pair", ft_[1], ft_[2])), env["ys__"]):
                    bad(s, f"yield from the items of {ft_} in a generator of {env['ys__']}")
                return f"let ys__ := (ys__ ++ {self.read_field(yv.func.value.attr)}) in\n{self.stmts(rest, env)}"
            if isinstance(yv, ast.Attribute) and isinstance(yv.value, ast.Name) and yv.value.id == "self" \
                    and isinstance(self.info.ftype(yv.attr), tuple) and self.info.ftype(yv.attr)[0] == "seq":
                if not compat(self.info.ftype(yv.attr), env["ys__"]):
                    bad(s, "yield from a list of another element type")
                return f"let ys__ := (ys__ ++ {self.read_field(yv.attr)}) in\n{self.stmts(rest, env)}"
        if isinstance(s, ast.For) and isinstance(s.target, ast.Tuple) and all(isinstance(x, ast.Name) for x in s.target.elts) and not s.orelse:
            # for a, b in it: body  ==  for t in it: a, b = t; body
            tmp = self.tr.gensym("item")
            unpack = ast.Assign(targets=[s.target], value=ast.Name(id=tmp, ctx=ast.Load()))
            loop = ast.For(target=ast.Name(id=tmp, ctx=ast.Store()), iter=s.iter, body=[unpack] + list(s.body), orelse=[])
            return self.stmts([ast.fix_missing_locations(ast.copy_location(loop, s))] + rest, env)
        if isinstance(s, ast.For) and isinstance(s.iter, (ast.Call, ast.Attribute, ast.Name)) and self.gen_call(s.iter, env) is not None:
            gcf = self.gen_call(s.iter, env)
            # a producer whose items are themselves generators (`yield decoder.iter_rows(frame)`): when it ends with an exception, that
            # exception really arises while the CONSUMER iterates the last item -- where exactly depends on what the consumer does with
            # the item.  A consumer that says so in its spec refuses such runs (OutsideModel) instead of placing the exception itself
            strict_ = isinstance(s.iter, ast.Call) and isinstance(s.iter.func, ast.Name) \
                and s.iter.func.id in getattr(self, "outside_if_raises", ())

            def k_for(code, r_, ys_, yt_, env_):
                if strict_:
                    return code + f"match {r_} with\n| Exn _ => {self.on_exn('OutsideModel')}\n| Val _ =>\n" + k_for0("", r_, ys_, yt_, env_) + "\nend"
                return k_for0(code, r_, ys_, yt_, env_)

            def k_for0(code, r_, ys_, yt_, env_):
                tmp = self.tr.gensym("items")
                marker = ast.Pass()
                marker._raise_if = r_
                loop = ast.For(target=s.target, iter=ast.Name(id=tmp, ctx=ast.Load()), body=s.body, orelse=s.orelse)
                ast.fix_missing_locations(ast.copy_location(loop, s))
                env2 = dict(env_)
                env2[tmp] = ("seq", yt_)
                return code + f"let {tmp} := {ys_} in\n" + self.stmts([loop, marker] + rest, env2)
            return gcf(k_for)
        if isinstance(s, ast.AnnAssign) and s.value is None and isinstance(s.target, ast.Name):
            return self.stmts(rest, env)  # a local declared without a value
        if isinstance(s, ast.Expr) and isinstance(s.value, ast.Yield) and s.value.value is not None:
            if "ys__" not in env:
                bad(s, "yield outside a generator")
            return self.expr(s.value.value, env, lambda v, t: (
                f"let ys__ := (ys__ ++ [{self.coerce(v, t, env['ys__'][1], s)}]) in\n{self.stmts(rest, env)}"))
        if isinstance(s, ast.For) and isinstance(s.iter, ast.Name) and ("__ctuple__" + s.iter.id) in env:
            s2 = ast.For(target=s.target, iter=ast.Tuple(elts=env["__ctuple__" + s.iter.id], ctx=ast.Load()), body=s.body, orelse=s.orelse)
            ast.copy_location(s2, s)
            ast.fix_missing_locations(s2)
            return self.stmts([s2] + rest, env)
        # for x in <list>: a local fixpoint over the list; the state it carries = self, the in/out parameters, the locals the
        # body re-binds (and the yields); `return` / an exception inside the body leave the loop with that state
        if isinstance(s, ast.For) and not (isinstance(s.iter, ast.Tuple) and all(isinstance(c, ast.Constant) for c in s.iter.elts)):
            return self.for_loop(s, rest, env)
        # for x in c1, c2, ..: over a tuple of constants -- unrolled
        if isinstance(s, ast.For):
            if s.orelse or not isinstance(s.target, ast.Name) or not isinstance(s.iter, ast.Tuple) \
                    or not all(isinstance(c, ast.Constant) for c in s.iter.elts) \
                    or any(isinstance(n, (ast.Break, ast.Continue)) for b in s.body for n in ast.walk(b)):
                bad(s, "for loop")
            unrolled = []
            for c in s.iter.elts:
                a = ast.Assign(targets=[ast.Name(id=s.target.id, ctx=ast.Store())], value=c)
                ast.copy_location(a, s)
                ast.fix_missing_locations(a)
                unrolled += [a] + list(s.body)
            return self.stmts(unrolled + rest, env)
        if isinstance(s, ast.Return):
            if s.value is None:
                return self.ret_val("tt", "none")
            return self.expr(s.value, env, lambda v, t: self.ret_val(v, t))
        if isinstance(s, ast.Raise) and s.exc is None and s.cause is None:
            if getattr(self, "cur_exc", None) is None:
                bad(s, "bare raise outside an except clause")
            return self.on_exn(self.cur_exc)
        if isinstance(s, ast.Raise) and isinstance(s.exc, ast.Name) and s.exc.id in EXNS and s.cause is None and s.exc.id not in env:
            return self.on_exn(s.exc.id)  # raise X: the class is instantiated without arguments
        if isinstance(s, ast.Raise):
            if (s.cause is not None and not (isinstance(s.cause, ast.Constant) and s.cause.value is None)) \
                    or not (isinstance(s.exc, ast.Call) and isinstance(s.exc.func, ast.Name) and s.exc.func.id in EXNS):
                bad(s, "raise")
            for a in s.exc.args:
                if not (isinstance(a, ast.Name) and env.get(a.id) == "errmsg") and not isinstance(a, (ast.Constant, ast.JoinedStr)):
                    bad(s, "raise argument")
            return self.on_exn(s.exc.func.id)
        if isinstance(s, ast.Assert):
            return self.cond(s.test, env, lambda c: f"if {c} then\n{self.stmts(rest, env)}\nelse {self.on_exn('AssertionError')}")
        if (isinstance(s, ast.If) and isinstance(s.test, ast.Compare) and len(s.test.ops) == 1 and isinstance(s.test.ops[0], (ast.Is, ast.IsNot))
                and isinstance(s.test.left, ast.Name) and isinstance(s.test.comparators[0], ast.Constant) and s.test.comparators[0].value is None):
            x = s.test.left.id
            t = env.get(x)
            none_b, some_b = (s.body, s.orelse) if isinstance(s.test.ops[0], ast.Is) else (s.orelse, s.body)
            if t == "none":  # this copy of the continuation knows the variable holds None
                return self.stmts(none_b + rest, env)
            if t in ("int", "str", "bool", "any") or (isinstance(t, tuple) and t[0] in ("obj", "seq", "set", "tuple")):
                # (`any`: what an adapter returned for a term -- assumed never to be None)
                return self.stmts(some_b + rest, env)
            if not (isinstance(t, tuple) and t[0] == "opt"):
                bad(s, "is None on a non-optional")
            env_some = dict(env)
            env_some[x] = t[1]
            return (f"match {mangle(x)} with\n| None =>\n{self.stmts(none_b + rest, dict(env))}\n| Some {mangle(x)} =>\n{self.stmts(some_b + rest, env_some)}\nend")
        if isinstance(s, ast.If):
            st_ = static_truth(s.test, env)
            if st_ is not None:
                # a test decided by the static types (x is None for a value that cannot be None): only that branch exists here
                return self.stmts((s.body if st_ else s.orelse) + rest, env)
        if isinstance(s, ast.If):
            first = s.test.values[0] if isinstance(s.test, ast.BoolOp) and isinstance(s.test.op, ast.And) else s.test
            if isinstance(first, ast.Name) and env.get(first.id) == "none":
                return self.stmts(s.orelse + rest, env)  # this copy of the continuation knows the variable holds None
            if isinstance(first, ast.Name) and isinstance(env.get(first.id), tuple) and env[first.id][0] == "opt" and (
                    env[first.id][1] in ("int", "str", "fname") or (isinstance(env[first.id][1], tuple) and env[first.id][1][0] in ("pb", "obj"))):
                # a truthy optional is not None: inside the test's remaining operands and in the body the variable
                # has its inner type (what mypy calls narrowing); in the else branch it keeps the optional type
                x, inner_t = first.id, env[first.id][1]
                env_in = dict(env)
                env_in[x] = inner_t
                # (a protobuf message or an object of a translated class has no __bool__ / __len__: always true)
                truthy = f"(negb ({mangle(x)} =? 0))" if inner_t == "int" else f"(negb (str_is_empty {mangle(x)}))" if inner_t == "str" else "true"
                else_code = self.stmts(s.orelse + rest, dict(env))
                # inside `Some x =>` the Coq variable holds the inner value: give the optional back to the else branch
                else_some = f"let {mangle(x)} := Some {mangle(x)} in\n{else_code}"
                if first is s.test:
                    inner = f"if {truthy} then\n{self.stmts(s.body + rest, env_in)}\nelse\n{else_some}"
                else:
                    tail = s.test.values[1] if len(s.test.values) == 2 else ast.BoolOp(op=ast.And(), values=s.test.values[1:])
                    inner = (f"if {truthy} then\n" + self.cond(tail, env_in, lambda c: f"if {c} then\n{self.stmts(s.body + rest, env_in)}\nelse\n{self.stmts(s.orelse + rest, dict(env_in))}")
                             + f"\nelse\n{else_some}")
                return f"match {mangle(x)} with\n| Some {mangle(x)} =>\n{inner}\n| None =>\n{else_code}\nend"
        if isinstance(s, ast.If):
            return self.cond(s.test, env, lambda c: f"if {c} then\n{self.stmts(s.body + rest, dict(env))}\nelse\n{self.stmts(s.orelse + rest, dict(env))}")
        if isinstance(s, ast.Try):
            if s.orelse or s.finalbody or len(s.handlers) != 1:
                bad(s, "try shape")
            h = s.handlers[0]
            if not (isinstance(h.type, ast.Name) and h.type.id in EXNS) or h.name is not None:
                bad(s, "except clause")
            hname = self.tr.gensym("handler")
            saved_exc = getattr(self, "cur_exc", None)
            self.cur_exc = "exc__"  # what a bare `raise` in the handler re-raises
            try:
                hcode = self.handler_fun(h.body + rest, dict(env))
            finally:
                self.cur_exc = saved_exc
            outer = self.on_exn
            caught = h.type.id

            def inner(e, outer=outer):
                if caught == "BaseException":
                    return self.call_handler(hname, e)
                if e in EXNS:  # statically known
                    return self.call_handler(hname, e) if e == caught else outer(e)
                return f"(if is_exn {e} {caught} then {self.call_handler(hname, e)} else {outer(e)})"

            self.on_exn = inner
            try:
                # the statements after the try run with the outer handler again
                body = self.try_body(s.body, rest, env, outer)
            finally:
                self.on_exn = outer
            return f"let {hname} := {hcode} in\n{body}"
        if isinstance(s, ast.AnnAssign) and s.value is None and isinstance(s.target, ast.Name):
            return self.stmts(rest, env)  # `x: T` declares, binds nothing
        if isinstance(s, (ast.Assign, ast.AnnAssign)):
            if isinstance(s, ast.Assign):
                if len(s.targets) != 1:
                    # a = b = <constant>: one assignment per target
                    if not (isinstance(s.value, ast.Constant) and all(isinstance(t_, ast.Name) for t_ in s.targets)):
                        bad(s, "chained assignment")
                    parts = [ast.Assign(targets=[t_], value=s.value) for t_ in s.targets]
                    for p_ in parts:
                        ast.copy_location(p_, s)
                        ast.fix_missing_locations(p_)
                    return self.stmts(parts + rest, env)
                tgt = s.targets[0]
            else:
                tgt = s.target
                if s.value is None:
                    bad(s, "bare annotation")
            val = s.value
            # [*xs] = seq : a fresh list with the items of seq
            if isinstance(tgt, ast.List) and len(tgt.elts) == 1 and isinstance(tgt.elts[0], ast.Starred) and isinstance(tgt.elts[0].value, ast.Name):
                tgt = tgt.elts[0].value
                inner_k = None

                def k_copy(v, t, tgt=tgt):
                    if not (isinstance(t, tuple) and t[0] == "seq"):
                        bad(s, "unpacking a non-sequence into a list")
                    env2 = dict(env)
                    env2[tgt.id] = t
                    return f"let {mangle(tgt.id)} := {v} in\n{self.stmts(rest, env2)}"
                return self.expr(val, env, k_copy)
            # the name of an enum value, used in messages only: jelly.<Enum>.Name(x) raises ValueError for a number
            # that is not a value of the enum
            if (isinstance(tgt, ast.Name) and isinstance(val, ast.Call) and isinstance(val.func, ast.Attribute) and val.func.attr == "Name"
                    and isinstance(val.func.value, ast.Attribute) and isinstance(val.func.value.value, ast.Name) and val.func.value.value.id == "jelly"
                    and val.func.value.attr in ENUM_TYPES and len(val.args) == 1 and not val.keywords):
                nums = sorted(set(ENUM_TYPES[val.func.value.attr].values()))

                def k_en(v, t, tgt=tgt):
                    if t != "int":
                        bad(s, "enum Name of a non-int")
                    env2 = dict(env)
                    test = "(" + " || ".join(f"({v} =? {n})" for n in nums) + ")"
                    if only_message_use(tgt.id, rest):
                        env2[tgt.id] = "errmsg"
                        return f"if {test} then\n{self.stmts(rest, env2)}\nelse {self.on_exn('ValueError')}"
                    # the name of a value of the enum, kept as that value (only getattr(jelly.<Enum>, name) reads it)
                    env2[tgt.id] = ("ename", val.func.value.attr)
                    return f"if {test} then\nlet {mangle(tgt.id)} := {v} in\n{self.stmts(rest, env2)}\nelse {self.on_exn('ValueError')}"
                return self.expr(val.args[0], env, k_en)
            # x = A if c else B for a name only messages read: as the if statement (each branch a message assignment of its own)
            if isinstance(tgt, ast.Name) and isinstance(val, ast.IfExp) and only_message_use(tgt.id, rest) and isinstance(s, ast.Assign):
                def asg(v_):
                    a_ = ast.Assign(targets=[ast.Name(id=tgt.id, ctx=ast.Store())], value=v_)
                    return ast.fix_missing_locations(ast.copy_location(a_, s))
                iff = ast.If(test=val.test, body=[asg(val.body)], orelse=[asg(val.orelse)])
                return self.stmts([ast.fix_missing_locations(ast.copy_location(iff, s))] + rest, env)
            # message strings
            if isinstance(tgt, ast.Name) and isinstance(val, (ast.JoinedStr, ast.Constant)) and (isinstance(val, ast.JoinedStr) or isinstance(val.value, str)) \
                    and (isinstance(val, ast.JoinedStr) or only_message_use(tgt.id, rest)):
                checks = []
                if isinstance(val, ast.JoinedStr):
                    for part in val.values:
                        if isinstance(part, ast.FormattedValue) and not is_pure(part.value):
                            pv = part.value
                            # {jelly.<Enum>.Name(x)}: a ValueError when x is not a value of the enum
                            if (isinstance(pv, ast.Call) and isinstance(pv.func, ast.Attribute) and pv.func.attr == "Name" and len(pv.args) == 1 and not pv.keywords
                                    and isinstance(pv.func.value, ast.Attribute) and ast.unparse(pv.func.value.value) == "jelly"
                                    and pv.func.value.attr in ENUM_TYPES and is_pure(pv.args[0])):
                                checks.append((pv.args[0], sorted(set(ENUM_TYPES[pv.func.value.attr].values()))))
                            elif isinstance(pv, ast.Call) and isinstance(pv.func, ast.Name) and pv.func.id == "type" and len(pv.args) == 1 \
                                    and not pv.keywords and isinstance(pv.args[0], ast.Name):
                                pass  # {type(x)}: never raises
                            else:
                                bad(s, "effect inside an f-string")
                env2 = dict(env)
                env2[tgt.id] = "errmsg"

                def go_chk(cs):
                    if not cs:
                        return self.stmts(rest, env2)
                    arg, nums = cs[0]
                    return self.expr(arg, env, lambda v, t: (
                        "if (" + " || ".join(f"({v} =? {n})" for n in nums) + f") then\n{go_chk(cs[1:])}\nelse {self.on_exn('ValueError')}"
                        if t == "int" else bad(s, "enum Name of a non-int")))
                return go_chk(checks)
            if isinstance(tgt, ast.Name) and isinstance(val, ast.Tuple) and val.elts and all(isinstance(c, ast.Constant) for c in val.elts):
                env2 = dict(env)
                env2["__ctuple__" + tgt.id] = list(val.elts)  # a name for a tuple of constants: only iterated (unrolled)
                return self.stmts(rest, env2)
            if isinstance(tgt, ast.Name):
                def k(v, t, tgt=tgt):
                    env2 = dict(env)
                    env2.pop("__const__" + tgt.id, None)
                    if isinstance(val, ast.Constant) and isinstance(val.value, str):
                        env2["__const__" + tgt.id] = val.value
                    if isinstance(s, ast.AnnAssign):
                        try:
                            at = ann_type(s.annotation, self.tr.classes)
                        except Unsupported:
                            at = None  # an annotation outside the subset on a local: the inferred type stands
                        if at is not None and compat(t, at):
                            t = at
                        elif at is not None and isinstance(at, tuple) and at[0] == "opt" and (t == "none" or compat(t, at[1])):
                            v = self.coerce(v, t, at, s)  # x: T | None = None / = <a T>: the declared optional type
                            t = at
                    env2[tgt.id] = t
                    env2.pop("__alias__" + tgt.id, None)
                    ma_ = re.fullmatch(r'\(msg_sub "(\w+)"%string "(\w+)"%string (\w+)\)', v) if isinstance(t, tuple) and t[0] == "pb" else None
                    if ma_ and isinstance(env.get(ma_.group(3)), tuple) and env[ma_.group(3)][0] == "pb":
                        # x = m.f for a sub-message f of the message m: x is that sub-message itself (Python hands out a reference);
                        # what a callee later assigns in x shows in m (written back where x is passed to be filled)
                        env2["__alias__" + tgt.id] = (ma_.group(3), ma_.group(1))
                    if t == "none":
                        v = "tt"  # a variable known to hold None: nothing reads its value (tests on it are decided statically)
                    return f"let {mangle(tgt.id)} := {v} in\n{self.stmts(rest, env2)}"
                return self.expr(val, env, k)
            if isinstance(tgt, ast.Tuple) and all(isinstance(e, ast.Name) for e in tgt.elts) and len(tgt.elts) >= 2:
                def k(v, t, tgt=tgt):
                    if isinstance(t, tuple) and t[0] == "obj" and t[1] in NAMEDTUPLES and len(self.tr.classes[t[1]].fields) == len(tgt.elts):
                        # a NamedTuple unpacks into its fields, in order
                        env2 = dict(env)
                        lets = ""
                        tmp = self.tr.gensym("nt")
                        for e_, (f_, ft_) in zip(tgt.elts, self.tr.classes[t[1]].fields):
                            if e_.id != "_":
                                env2[e_.id] = ft_
                                lets += f"let {mangle(e_.id)} := ({t[1]}_{f_} {tmp}) in\n"
                        return f"let {tmp} := {v} in\n{lets}{self.stmts(rest, env2)}"
                    ts = list(t[1:]) if isinstance(t, tuple) and t[0] == "pair" else t[1] if isinstance(t, tuple) and t[0] == "tuple" else None
                    if ts is None or len(ts) != len(tgt.elts):
                        bad(s, "unpacking a value that is not a tuple of that length")
                    env2 = dict(env)
                    names = []
                    for e, et in zip(tgt.elts, ts):
                        if e.id != "_":
                            env2[e.id] = et
                        names.append(mangle(e.id))
                    return f"let '({', '.join(names)}) := {v} in\n{self.stmts(rest, env2)}"
                return self.expr(val, env, k)
            if isinstance(tgt, ast.Attribute) and isinstance(tgt.value, ast.Name) and isinstance(env.get(tgt.value.id), tuple) \
                    and env[tgt.value.id][0] == "pb":
                mname, x = env[tgt.value.id][1], mangle(tgt.value.id)
                fd, group = field_and_group(mname, tgt.attr, s)

                def k_set(v, t):
                    w = {"int": "PInt", "bool": "PBool", "str": "PStr"}.get(t)
                    if w is None and not (isinstance(t, tuple) and t[0] == "pb"):
                        bad(s, f"message field of type {t}")
                    gl = "[" + "; ".join(f'"{g}"%string' for g in group) + "]"
                    return f'let {x} := msg_set {gl} "{tgt.attr}"%string ({w + " " + v if w else v}) {x} in\n{self.stmts(rest, env)}'
                return self.expr(val, env, k_set)
            if isinstance(tgt, ast.Attribute) and isinstance(tgt.value, ast.Name) and tgt.value.id == "self":
                def k_fld(v, t):
                    if isinstance(s, ast.AnnAssign):
                        at = ann_type(s.annotation, self.tr.classes)
                        if not compat(t, at):
                            bad(s, f"annotation disagrees with the inferred type {t}")
                        t = at
                    return self.write_field(tgt.attr, v, t, lambda: self.stmts(rest, env))
                return self.expr(val, env, k_fld)
            if isinstance(tgt, ast.Subscript) and isinstance(tgt.value, ast.Name) and isinstance(env.get(tgt.value.id), tuple) \
                    and env[tgt.value.id][0] == "seq":
                lt = env[tgt.value.id]
                nm = mangle(tgt.value.id)

                def k_i(iv, it):
                    def k_v(v, t):
                        if it != "int":
                            bad(s, "sequence index type")
                        d, e_ = self.tr.gensym("d"), self.tr.gensym("e")
                        return (f"match seq_set {nm} {iv} {self.coerce(v, t, lt[1], s)} with\n| Exn {e_} => {self.on_exn(e_)}\n"
                                f"| Val {d} =>\nlet {nm} := {d} in\n{self.stmts(rest, env)}\nend")
                    return self.expr(val, env, k_v)
                return self.expr(tgt.slice, env, k_i)
            if (isinstance(tgt, ast.Subscript) and isinstance(tgt.value, ast.Attribute) and isinstance(tgt.value.value, ast.Name)
                    and tgt.value.value.id == "self"):
                f = tgt.value.attr
                ft = self.info.ftype(f)

                def k_idx(iv, it):
                    def k_val(v, t):
                        if isinstance(ft, tuple) and ft[0] == "dict":
                            if not compat(it, ft[1]) or not compat(t, ft[2]):
                                bad(s, "dictionary item types")
                            return self.write_field(f, f"(ad_set str_eqb {iv} {v} {self.read_field(f)})", ft, lambda: self.stmts(rest, env))
                        if ft == "od":
                            if it != "str" or t != "int":
                                bad(s, "OrderedDict item types")
                            return self.write_field(f, f"(od_set str_eqb {iv} {v} {self.read_field(f)})", "od", lambda: self.stmts(rest, env))
                        if isinstance(ft, tuple) and ft[0] == "seq":
                            if it != "int":
                                bad(s, "sequence index type")
                            d = self.tr.gensym("d")
                            e = self.tr.gensym("e")
                            return (f"match seq_set {self.read_field(f)} {iv} {self.coerce(v, t, ft[1], s)} with\n| Exn {e} => {self.on_exn(e)}\n"
                                    f"| Val {d} => {self.write_field(f, d, ft, lambda: self.stmts(rest, env))}\nend")
                        bad(s, "item assignment on this field")
                    return self.expr(val, env, k_val)
                return self.expr(tgt.slice, env, k_idx)
            bad(s, "assignment target")
        if isinstance(s, (ast.Break, ast.Continue)):
            ctl = getattr(self, "loop_ctl", None)
            if ctl is None:
                bad(s, "break / continue outside a translated loop")
            return ctl["break" if isinstance(s, ast.Break) else "continue"]
        if isinstance(s, ast.Pass):
            return self.stmts(rest, env)
        if isinstance(s, ast.AugAssign) and isinstance(s.op, (ast.Add, ast.Sub)) and isinstance(s.target, (ast.Name, ast.Attribute)):
            load = ast.Name(id=s.target.id, ctx=ast.Load()) if isinstance(s.target, ast.Name) else ast.Attribute(value=s.target.value, attr=s.target.attr, ctx=ast.Load())
            eq = ast.Assign(targets=[s.target], value=ast.BinOp(left=load, op=s.op, right=s.value))
            ast.copy_location(eq, s)
            ast.fix_missing_locations(eq)
            return self.stmts([eq] + rest, env)
        bad(s, "statement")

    def gen_call(self, e, env):
        """A call of a generator the unit translates (a module function, or a method of a local object): None, or a function
        that, given k(code, result variable, yields variable, yield type, env), produces the code."""
        tr = self.tr
        # x.p for a generator property p of a local object; x itself for a local object whose class has a generator __iter__
        if isinstance(e, ast.Attribute) and isinstance(e.value, ast.Name) and isinstance(env.get(e.value.id), tuple) and env[e.value.id][0] == "obj":
            sub = tr.classes.get(env[e.value.id][1])
            if sub is not None and e.attr in getattr(sub, "generators", {}) and e.attr in getattr(sub, "properties", ()):
                return self.gen_call(ast.fix_missing_locations(ast.copy_location(ast.Call(func=e, args=[], keywords=[]), e)), env)
            return None
        if isinstance(e, ast.Name):
            if ("__pend__" + e.id) in env:  # a generator bound earlier: its items, and the exception it ends with
                return lambda k: k("", env["__pend__" + e.id], mangle(e.id), env[e.id][1], env)
            if isinstance(env.get(e.id), tuple) and env[e.id][0] == "obj" and "__iter__" in getattr(tr.classes.get(env[e.id][1]), "generators", {}):
                call = ast.Call(func=ast.Attribute(value=e, attr="__iter__", ctx=ast.Load()), args=[], keywords=[])
                return self.gen_call(ast.fix_missing_locations(ast.copy_location(call, e)), env)
            return None
        if not isinstance(e, ast.Call):
            return None
        f = e.func
        if isinstance(f, ast.Name) and f.id in tr.functions and isinstance(tr.functions[f.id][1], tuple) and tr.functions[f.id][1][0] == "gen" \
                and f.id not in env:
            params, ret = tr.functions[f.id]
            mut_ps = [(i, p, t) for i, (p, t) in enumerate(params) if is_mutable(t) and p not in tr.readonly_params.get(f.id, set())]
            by_kw = {kw.arg: kw.value for kw in e.keywords}
            rebind, unwrap = {}, {}
            for i, p, t in mut_ps:
                if isinstance(t, tuple) and t[0] in ("seq", "iter"):
                    continue  # (lists passed in and consumed: what is left is not used again)
                arg_ = e.args[i] if i < len(e.args) else by_kw.get(p)
                if isinstance(t, tuple) and t[0] == "obj" and isinstance(arg_, ast.Name) and env.get(arg_.id) == t:
                    rebind[p] = arg_.id  # an object handed over and changed by the callee: the caller's variable is what comes back
                elif isinstance(t, tuple) and t[0] == "obj" and isinstance(arg_, ast.Name) and env.get(arg_.id) == ("opt", t):
                    rebind[p] = arg_.id
                    unwrap[p] = arg_.id  # declared `C | None`: None there is outside the model (what the callee does with None is not translated)
                else:
                    return None
            r_, ys_ = tr.gensym("r"), tr.gensym("ys")

            def run(k):
                outs = [(p, tr.gensym("o")) for _, p, _ in mut_ps]
                back = "".join(f"let {mangle(rebind[p])} := {'Some ' if p in unwrap else ''}{o_} in\n" for p, o_ in outs if p in rebind)
                env_in = dict(env)
                pre_, post_ = "", ""
                self.env_now = env
                for p, v_ in unwrap.items():
                    pre_ += f"match {mangle(v_)} with\n| None => {self.on_exn('OutsideModel')}\n| Some {mangle(v_)} =>\n"
                    post_ += "\nend"
                    env_in[v_] = env[v_][1]
                return pre_ + self.args(e, params, env_in, lambda a: k(f"let '({', '.join([r_] + [o_ for _, o_ in outs] + [ys_])}) := {f.id} {' '.join(a)} in\n" + back,
                                                                      r_, ys_, ret[1], env)) + post_
            return run
        if isinstance(f, ast.Attribute) and isinstance(f.value, ast.Name) and isinstance(env.get(f.value.id), tuple) and env[f.value.id][0] == "obj":
            sub = tr.classes.get(env[f.value.id][1])
            gens = getattr(sub, "generators", {}) if sub else {}
            if f.attr in gens:
                params, _ = sub.methods[f.attr]
                outs_p = getattr(sub, "method_outs", {}).get(f.attr, [])
                if any(not (isinstance(t, tuple) and t[0] in ("iter", "seq")) for p, t in params if p in outs_p):
                    return None  # (sequences handed over to be consumed: what is left of them is not used again)
                r_, ys_ = tr.gensym("r"), tr.gensym("ys")
                nm = mangle(f.value.id)

                def run(k):
                    outs = [tr.gensym("o") for _ in outs_p]
                    return self.args(e, params, env, lambda a: k(f"let '({', '.join([r_, nm] + outs + [ys_])}) := {sub.name}_{f.attr} {' '.join(a)} {nm} in\n",
                                                                 r_, ys_, gens[f.attr], env))
                return run
        return None

    def state_vars(self, env, body) -> list[tuple[str, object]]:
        """The variables a loop carries from one iteration to the next (besides self and the in/out parameters)."""
        assigned = set()
        for st in body:
            for n in ast.walk(st):
                if isinstance(n, ast.Name) and isinstance(n.ctx, ast.Store):
                    assigned.add(n.id)
                # in-place changes of local containers: xs.append(..) etc.
                if isinstance(n, ast.Call) and isinstance(n.func, ast.Attribute) and isinstance(n.func.value, ast.Name) \
                        and n.func.attr in ("append", "extend", "add", "clear", "CopyFrom"):
                    assigned.add(n.func.value.id)
                if isinstance(n, ast.Attribute) and isinstance(n.ctx, ast.Store) and isinstance(n.value, ast.Name):
                    assigned.add(n.value.id)
                if isinstance(n, ast.Subscript) and isinstance(n.ctx, ast.Store) and isinstance(n.value, ast.Name):
                    assigned.add(n.value.id)
                # a local object whose method is called, or that is handed to a call, may be changed by it
                if isinstance(n, ast.Call):
                    if isinstance(n.func, ast.Attribute) and isinstance(n.func.value, ast.Name) \
                            and isinstance(env.get(n.func.value.id), tuple) and env[n.func.value.id][0] == "obj" and is_mutable(env[n.func.value.id]):
                        assigned.add(n.func.value.id)
                    for a_ in list(n.args) + [kw.value for kw in n.keywords]:
                        if isinstance(a_, ast.Name) and isinstance(env.get(a_.id), tuple) and is_mutable(env[a_.id]) \
                                and not (isinstance(n.func, ast.Name) and n.func.id in ("len", "isinstance", "type", "iter", "getattr")):
                            assigned.add(a_.id)
        muts = {p for p, _ in getattr(self, "muts", [])}
        return [(v, t) for v, t in env.items() if not v.startswith("__") and t not in ("errmsg",) and (v in assigned or v == "ys__") and v not in muts and v != "self"]

    def for_loop(self, s, rest, env) -> str:
        if s.orelse or not isinstance(s.target, ast.Name):
            bad(s, "for loop shape")
        tr = self.tr
        n = tr.gensym("loop")
        carried = self.state_vars(env, s.body)
        has_self = isinstance(self, MethodMode)
        muts = list(getattr(self, "muts", []))
        muts = [(p, t) for p, t in muts if p != "ys__"] + ([("ys__", env["ys__"])] if "ys__" in env and ("ys__", env["ys__"]) in muts else [])
        names = (["self"] if has_self else []) + [mangle(p) for p, _ in muts] + [mangle(v) for v, _ in carried if v not in {p for p, _ in muts}]
        carried = [(v, t) for v, t in carried if v not in {p for p, _ in muts}]
        types = ([self.info.name] if has_self else []) + [coq_type(t) for _, t in muts] + [coq_type(t) for _, t in carried]
        if not names:
            names, types = ["u__"], ["unit"]
        st_pat = "'(" + ", ".join(names) + ")" if len(names) > 1 else names[0]
        st_val = "(" + ", ".join(names) + ")" if len(names) > 1 else names[0]
        st_ty = "(" + " * ".join(types) + ")" if len(types) > 1 else types[0]
        ret_ty = coq_type(self.ret)

        def k_iter(xs, xt):
            if not (isinstance(xt, tuple) and xt[0] in ("seq", "iter", "set")):
                bad(s, f"iteration over {xt}")
            et = xt[1]
            if DYN and et == ("opt", "any") and xt[0] == "seq":
                # items that are a dynamic value or None: None is a dynamic value too (O_None)
                xs, et = f"(map opt_obj {xs})", "any"
            x = mangle(s.target.id)
            saved = (self.ret_val, self.fall_off, self.on_exn, getattr(self, "loop_ctl", None))
            env_b = dict(env)
            env_b[s.target.id] = et
            declared = {mangle(v): t for v, t in list(muts) + list(carried)}
            raw = {mangle(v): v for v, _ in list(muts) + list(carried)}

            def pack(env_cur):
                """The loop state from the variables as they are typed at this point: a carried variable declared optional that
                holds a narrowed / freshly assigned non-optional value is wrapped again."""
                vals = []
                for nm_ in names:
                    dt = declared.get(nm_)
                    cur = env_cur.get(raw.get(nm_, nm_), dt) if dt is not None else None
                    if dt is not None and cur != dt and isinstance(dt, tuple) and dt[0] == "opt":
                        vals.append("None" if cur == "none" else f"(Some {nm_})" if compat(cur, dt[1]) else nm_)
                    else:
                        vals.append(nm_)
                return "(" + ", ".join(vals) + ")" if len(vals) > 1 else vals[0]
            self.ret_val = lambda v, t: f"LReturn {self.coerce(v, t, self.ret, s)} {pack(self.env_now)}"
            self.fall_off = lambda: f"{n} xs__ {pack(getattr(self, '_fall_env', self.env_now))}"
            self.on_exn = lambda e: f"LRaise {e} {pack(self.env_now)}"
            self.loop_ctl = {"break": f"LContinue {st_val}", "continue": f"{n} xs__ {st_val}"}
            try:
                body = self.stmts(list(s.body), env_b)
            finally:
                self.ret_val, self.fall_off, self.on_exn, self.loop_ctl = saved
            bind = f"let {st_pat} := st__ in\n" if names != ["u__"] else ""
            after_ok = self.stmts(rest, env)
            rv, ev = tr.gensym("rv"), tr.gensym("e")
            after_ret = self.ret_val(rv, self.ret)
            after_exn = self.on_exn(ev)
            return (f"let {n} := fix {n} (xs__ : list {coq_type(et)}) (st__ : {st_ty}) {{struct xs__}} : loopres {ret_ty} {st_ty} :=\n"
                    f"match xs__ with\n| [] => LContinue st__\n| {x} :: xs__ =>\n{bind}{body}\nend in\n"
                    f"match {n} {xs} {st_val} with\n| LContinue st__ =>\n{bind}{after_ok}\n| LReturn {rv} st__ =>\n{bind}{after_ret}\n"
                    f"| LRaise {ev} st__ =>\n{bind}{after_exn}\nend")
        return self.expr(s.iter, env, k_iter)

    def try_body(self, body, rest, env, outer):
        # statements of the try body see the handler; `rest` must not.  `rest` is reached only by falling
        # off the end of the body, so translate body with a marker continuation.
        saved_fall = self.fall_off
        inner = self.on_exn

        def fall():
            self.on_exn = outer
            self.fall_off = saved_fall
            try:
                return self.stmts(rest, getattr(self, "_fall_env", env))
            finally:
                self.on_exn = inner
                self.fall_off = fall

        self.fall_off = fall
        try:
            return self.stmts(body, env)
        finally:
            self.fall_off = saved_fall

    # ---- tests
    def cond(self, e, env, k) -> str:
        st_ = static_truth(e, env)
        if st_ is not None:
            return k("true" if st_ else "false")
        if isinstance(e, ast.UnaryOp) and isinstance(e.op, ast.Not):
            return self.cond(e.operand, env, lambda c: k(f"(negb {c})"))
        if isinstance(e, ast.Call) and isinstance(e.func, ast.Name) and e.func.id == "bool" and len(e.args) == 1 and not e.keywords:
            return self.cond(e.args[0], env, k)  # bool(x): the truth value of x
        if isinstance(e, ast.BoolOp) and not all(is_pure(v) for v in e.values[1:]):
            # an operand that can raise (a subscript, a call) is evaluated only when Python evaluates it
            is_and = isinstance(e.op, ast.And)
            tail = e.values[1] if len(e.values) == 2 else ast.BoolOp(op=e.op, values=e.values[1:])
            return self.cond(e.values[0], env, lambda c: (
                f"(if {c} then\n{self.cond(tail, env, k)}\nelse {k('false')})" if is_and
                else f"(if {c} then {k('true')} else\n{self.cond(tail, env, k)})"))
        if isinstance(e, ast.BoolOp):
            op = "&&" if isinstance(e.op, ast.And) else "||"

            def go(vals, acc):
                if not vals:
                    return k("(" + f" {op} ".join(acc) + ")")
                return self.cond(vals[0], env, lambda c: go(vals[1:], acc + [c]))
            return go(e.values, [])

        def truth(v, t):
            if t == "bool":
                return k(v)
            if t == "int":
                return k(f"(negb ({v} =? 0))")
            if t == "str":
                return k(f"(negb (str_is_empty {v}))")
            if isinstance(t, tuple) and t[0] == "opt":
                if not (t[1] in ("int", "str", "bool", "fname") or (isinstance(t[1], tuple) and t[1][0] in ("pb", "obj"))):
                    bad(e, f"truth value of {t}")
                if isinstance(t[1], tuple) and t[1][0] == "obj":
                    # an object is true unless its class says otherwise (__bool__ / __len__): refused when it does
                    tr_ = self.tr
                    fam_ = getattr(tr_, "families", {}).get(t[1][1])
                    if (fam_ is not None and (fam_.userlist or any(fam_.resolve(c_, m_) is not None for c_ in fam_.order for m_ in ("__bool__", "__len__")))) \
                            or any(m_ in getattr(tr_.classes.get(t[1][1]), "methods", {}) or m_ in getattr(tr_.classes.get(t[1][1]), "all_methods", ()) for m_ in ("__bool__", "__len__")):
                        bad(e, f"truth value of an object whose class defines __bool__ or __len__ ({t[1][1]})")
                inner = {"int": "negb (x_ =? 0)", "str": "negb (str_is_empty x_)", "bool": "x_"}.get(t[1], "true")
                return k(f"(match {v} with Some x_ => {inner} | None => false end)")
            if isinstance(t, tuple) and t[0] in ("seq", "set"):
                return k(f"(negb (seq_len {v} =? 0))")
            if t == "none":
                return k("false")
            bad(e, f"truth value of {t}")
        return self.expr(e, env, truth)

    # ---- expressions (CPS: k(value, type))
    def coerce(self, v, t, want, node):
        if compat(t, want):
            return v
        if isinstance(t, tuple) and isinstance(want, tuple) and t[0] == "seq" and want[0] == "iter" and compat(t[1], want[1]):
            return v  # a list where an iterable is expected (both are lists here)
        if DYN and want == "any":
            if t == "none":
                return "O_None"
            if t == ("opt", "any"):
                return f"(opt_obj {v})"
            if t == "str":
                return f"(O_str {v})"
        if isinstance(want, tuple) and want[0] == "opt":
            if t == "none":
                return "None"
            if compat(t, want[1]):
                return f"(Some {v})"
        bad(node, f"a value of type {t} where {want} is expected")

    def expr(self, e, env, k) -> str:
        tr = self.tr
        self.env_now = env
        if isinstance(e, ast.IfExp) and static_truth(e.test, env) is not None:
            return self.expr(e.body if static_truth(e.test, env) else e.orelse, env, k)  # decided by the static types: only that alternative
        if isinstance(e, ast.Constant):
            if isinstance(e.value, bool):
                return k("true" if e.value else "false", "bool")
            if isinstance(e.value, int):
                return k(f"({e.value})", "int")
            if e.value is None:
                return k("None", "none")
            if e.value == "":
                return k("str_empty", "str")
            if isinstance(e.value, str):
                return k("(str_lit [" + "; ".join(str(ord(c)) for c in e.value) + "])", "str")
            bad(e, "constant")
        if isinstance(e, ast.Tuple):
            if not e.elts:
                return k("[]", ("seq", "?"))  # the empty tuple is only used as an empty sequence of rows

            def go_t(rest, vs, ts):
                if not rest:
                    return k("(" + ", ".join(vs) + ")", ("tuple", ts)) if len(vs) > 1 else k(f"[{vs[0]}]", ("seq", ts[0]))
                return self.expr(rest[0], env, lambda v, t: go_t(rest[1:], vs + [v], ts + [t]))
            return go_t(list(e.elts), [], [])
        if isinstance(e, ast.List) and not e.elts:
            return k("[]", ("seq", "?"))
        if isinstance(e, ast.Dict) and not e.keys:
            return k("[]", ("dict", "?", "?"))
        if isinstance(e, ast.Name) and e.id not in env and e.id in getattr(tr, "class_tags", {}):
            root, tag = tr.class_tags[e.id]
            return k(tag, ("cls", root))
        if isinstance(e, ast.Name) and e.id not in env and e.id in DYN_SINGLETONS:
            return k(f"O_{DYN_SINGLETONS[e.id]}", "any")
        if isinstance(e, ast.List) and e.elts:
            def go_l(rest, vs, ts):
                if not rest:
                    t0 = ts[0]
                    if any(t != t0 for t in ts):
                        bad(e, "a list of values of several types")
                    return k("[" + "; ".join(vs) + "]", ("seq", t0))
                return self.expr(rest[0], env, lambda v, t: go_l(rest[1:], vs + [v], ts + [t]))
            return go_l(list(e.elts), [], [])
        if isinstance(e, ast.Attribute) and isinstance(e.value, ast.Name) and env.get(e.value.id) == "any" and DYN:
            import dyn
            cs = dyn.classes_with_field(e.attr)
            if not cs:
                bad(e, f"attribute {e.attr} of a dynamic value: no class has it")
            fts = {next(t for n, t, _ in DYN[c] if n == e.attr) for c in cs}
            if len(fts) != 1:
                bad(e, f"attribute {e.attr} of a dynamic value: the classes that have it give it different types")
            ft = fts.pop()
            arms = ""
            fail_ = self.on_exn('AttributeError')  # (with the variables as they are now: what follows may assign to them)
            for c in cs:  # one alternative per class that has the attribute (what follows is repeated in each)
                pats = " ".join((f"f__{n}" if n == e.attr else "_") for n, _, _ in DYN[c])
                arms += f"| O_{c} {pats} =>\n{k(f'f__{e.attr}', ft)}\n"
            return f"match {mangle(e.value.id)} with\n{arms}| _ => {fail_}\nend"
        if isinstance(e, ast.Name):
            if e.id in env:
                if env[e.id] == "errmsg":
                    bad(e, "message string used as a value")
                if ("__pend__" + e.id) in env:  # a generator used other than by a `for`: refused if it ends with an exception
                    return f"match {env['__pend__' + e.id]} with\n| Exn _ => {self.on_exn('OutsideModel')}\n| Val _ =>\n{k(mangle(e.id), env[e.id])}\nend"
                return k(mangle(e.id), env[e.id])
            if e.id in tr.consts:
                return k(f"({tr.consts[e.id]})", "int")
            bad(e, "unknown name")
        if isinstance(e, ast.Attribute) and isinstance(e.value, ast.Name) and e.value.id in INT_ENUMS:
            if e.attr not in INT_ENUMS[e.value.id]:
                bad(e, "unknown enum member")
            return k(f"({INT_ENUMS[e.value.id][e.attr]})", "int")
        if isinstance(e, ast.Attribute) and isinstance(e.value, ast.Name) and e.value.id == "options" and e.attr in tr.str_consts:
            return k("(str_lit [" + "; ".join(str(ord(c)) for c in tr.str_consts[e.attr]) + "])", "str")
        if isinstance(e, ast.Attribute) and isinstance(e.value, ast.Name) and e.value.id == "jelly":
            for vals in ENUM_TYPES.values():
                if e.attr in vals:
                    return k(f"({vals[e.attr]})", "int")
            bad(e, "unknown constant of the jelly module")
        if isinstance(e, ast.Attribute) and isinstance(e.value, ast.Name) and isinstance(env.get(e.value.id), tuple) and env[e.value.id][0] == "pb":
            v, t = self.msg_read(mangle(e.value.id), env[e.value.id][1], e.attr, e)
            return k(v, t)
        if isinstance(e, ast.Call) and isinstance(e.func, ast.Name) and e.func.id == "cast" and len(e.args) == 2 and not e.keywords and "cast" not in env:
            return self.expr(e.args[1], env, k)  # typing.cast: the value itself
        if isinstance(e, ast.Attribute) and isinstance(e.value, ast.Name) and isinstance(env.get(e.value.id), tuple) and env[e.value.id][0] == "obj" \
                and e.attr in getattr(tr.classes.get(env[e.value.id][1]), "properties", ()) \
                and e.attr in getattr(tr.classes.get(env[e.value.id][1]), "generators", {}):
            # x.p for a generator property, as a value: the generator, i.e. (in this model) the list of what it yields
            gc_ = self.gen_call(e, env)
            ex_ = tr.gensym("e")
            return gc_(lambda code, r_, ys_, yt_, env_: code + f"match {r_} with\n| Exn _ => {self.on_exn('OutsideModel')}\n| Val _ =>\n{k(ys_, ('seq', yt_))}\nend")
        if isinstance(e, ast.Attribute) and isinstance(e.value, ast.Name) and isinstance(env.get(e.value.id), tuple) and env[e.value.id][0] == "obj" \
                and e.attr in getattr(tr.classes.get(env[e.value.id][1]), "properties", ()):
            # x.p for a property p of a translated class: the call of its getter
            sub_ = tr.classes[env[e.value.id][1]]
            _, pret = sub_.methods[e.attr]
            r_, ex_, x_ = tr.gensym("r"), tr.gensym("e"), tr.gensym("x")
            nm_ = mangle(e.value.id)
            return (f"let '({r_}, {nm_}) := {sub_.name}_{e.attr} {nm_} in\nmatch {r_} with\n| Exn {ex_} => {self.on_exn(ex_)}\n"
                    f"| Val {x_} =>\n{k(x_, pret)}\nend")
        if isinstance(e, ast.Attribute):
            v, t = self.attr(e)
            return k(v, t)
        if isinstance(e, ast.BinOp):
            if isinstance(e.op, ast.Mult) and isinstance(e.left, ast.Tuple) and len(e.left.elts) == 1:
                return self.expr(e.left.elts[0], env, lambda x, xt: self.expr(e.right, env, lambda n, nt: (
                    k(f"(tuple_repeat ({'None' if xt == 'none' else x} : {coq_type(('opt', 'str')) if xt == 'none' else coq_type(xt)}) {n})",
                      ("seq", ("opt", "str") if xt == "none" else xt)) if nt == "int" else bad(e, "repetition count"))))
            if isinstance(e.op, ast.Mult) and isinstance(e.left, ast.List) and len(e.left.elts) == 1 and isinstance(e.left.elts[0], ast.Constant) \
                    and e.left.elts[0].value is None:
                # [None] * n: a list of n empty slots (of `object | None` values)
                return self.expr(e.right, env, lambda n, nt: (
                    k(f"(tuple_repeat (None : option T) {n})", ("seq", ("opt", "any"))) if nt == "int" else bad(e, "repetition count")))
            if isinstance(e.op, ast.Mod):
                # Python's % has the sign of the divisor, like Z.modulo
                return self.expr(e.left, env, lambda a, at: self.expr(e.right, env, lambda b, bt: (
                    f"(if {b} =? 0 then {self.on_exn('ZeroDivisionError')} else\n{k(f'({a} mod {b})', 'int')})" if (at, bt) == ("int", "int") else bad(e, "% on non-ints"))))
            if isinstance(e.op, (ast.Add, ast.Sub)):
                op = "+" if isinstance(e.op, ast.Add) else "-"
                return self.expr(e.left, env, lambda a, at: self.expr(e.right, env, lambda b, bt: (
                    k(f"({a} {op} {b})", "int") if (at, bt) == ("int", "int")
                    else k(f"(str_add {a} {b})", "str") if (at, bt) == ("str", "str") and op == "+"
                    else bad(e, "arithmetic on non-ints"))))
            bad(e, "binary operator")
        if isinstance(e, ast.UnaryOp) and isinstance(e.op, ast.Not):
            return self.cond(e, env, lambda c: k(c, "bool"))
        if isinstance(e, ast.BoolOp) and (not all(is_pure(v) for v in e.values[1:]) or len(e.values) != 2):
            # only as a truth value (every operand a test)
            if all(isinstance(v, (ast.Compare, ast.BoolOp)) or (isinstance(v, ast.UnaryOp) and isinstance(v.op, ast.Not))
                   or (isinstance(v, ast.Call) and isinstance(v.func, ast.Name) and v.func.id == "bool") for v in e.values):
                return self.cond(e, env, lambda c: k(c, "bool"))
            bad(e, "and/or shape")
        if isinstance(e, ast.BoolOp):
            is_or = isinstance(e.op, ast.Or)

            def both(a, at):
                def second(b, bt):
                    if (at, bt) == ("int", "int"):
                        return k(f"(if {a} =? 0 then {b if is_or else a} else {a if is_or else b})", "int")
                    if at == ("opt", "int") and bt == "int" and is_or:
                        return k(f"(match {a} with Some x_ => if x_ =? 0 then {b} else x_ | None => {b} end)", "int")
                    if (at, bt) == ("bool", "bool"):
                        return k(f"({a} {'||' if is_or else '&&'} {b})", "bool")
                    bad(e, f"and/or on {at}, {bt}")
                return self.expr(e.values[1], env, second)
            return self.expr(e.values[0], env, both)
        if isinstance(e, ast.IfExp) and not (is_pure(e.body) and is_pure(e.orelse)):
            # a branch with an effect: evaluated only when chosen; what follows is repeated in both branches
            return self.cond(e.test, env, lambda c: f"if {c} then\n{self.expr(e.body, env, k)}\nelse\n{self.expr(e.orelse, env, k)}")
        if isinstance(e, ast.IfExp):

            def k_c(c):
                def k_a(a, at):
                    def k_b(b, bt):
                        t = at if at == bt else (("opt", bt) if at == "none" else ("opt", at) if bt == "none" else None)
                        if t is None:
                            bad(e, f"conditional expression of types {at} / {bt}")
                        return k(f"(if {c} then {self.coerce(a, at, t, e)} else {self.coerce(b, bt, t, e)})", t)
                    return self.expr(e.orelse, env, k_b)
                return self.expr(e.body, env, k_a)
            return self.cond(e.test, env, k_c)
        if isinstance(e, ast.Compare) and len(e.ops) > 1:
            # a < b <= c  ==  a < b and b <= c, every operand evaluated once: pure operands only
            if not all(is_pure(x) for x in [e.left] + e.comparators):
                bad(e, "effect inside a chained comparison")
            parts = []
            left = e.left
            for op, right in zip(e.ops, e.comparators):
                parts.append(ast.Compare(left=left, ops=[op], comparators=[right]))
                left = right
            return self.cond(ast.BoolOp(op=ast.And(), values=parts), env, lambda c: k(c, "bool"))
        if isinstance(e, ast.Compare):
            op, l, r = e.ops[0], e.left, e.comparators[0]
            if isinstance(op, (ast.In, ast.NotIn)) and (isinstance(r, ast.Tuple) or (isinstance(r, ast.Name) and r.id in tr.int_sets)):
                members = r.elts if isinstance(r, ast.Tuple) else tr.int_sets[r.id]
                if not all(is_pure(m) for m in members):
                    bad(e, "effect inside a membership test")

                def k_x(a, at):
                    def go(ms, acc):
                        if not ms:
                            c = "(" + " || ".join(acc) + ")" if acc else "false"
                            return k(c if isinstance(op, ast.In) else f"(negb {c})", "bool")
                        return self.expr(ms[0], env, lambda b, bt: go(ms[1:], acc + [f"({a} =? {b})"]) if (at, bt) == ("int", "int") else bad(e, "membership of non-ints"))
                    return go(list(members), [])
                return self.expr(l, env, k_x)
            if isinstance(op, (ast.In, ast.NotIn)):
                def k_in(a, at):
                    def k_d(d, dt):
                        if at != "str" or dt != "od":
                            bad(e, "membership test")
                        c = f"(od_contains str_eqb {a} {d})"
                        return k(c if isinstance(op, ast.In) else f"(negb {c})", "bool")
                    return self.expr(r, env, k_d)
                return self.expr(l, env, k_in)
            if isinstance(op, (ast.Is, ast.IsNot)) and isinstance(r, ast.Constant) and r.value is None:
                def k_is(a, at):
                    if at in ("int", "str", "bool") or (isinstance(at, tuple) and at[0] in ("obj", "seq", "iter", "pb", "dict", "set", "tuple")):
                        return k("false" if isinstance(op, ast.Is) else "true", "bool")  # a value of that type is not None
                    if at == "none":
                        return k("true" if isinstance(op, ast.Is) else "false", "bool")
                    if not (isinstance(at, tuple) and at[0] == "opt"):
                        bad(e, "is None on a non-optional")
                    c = f"(match {a} with None => true | Some _ => false end)"
                    return k(c if isinstance(op, ast.Is) else f"(negb {c})", "bool")
                return self.expr(l, env, k_is)
            ops = {ast.Eq: "=?", ast.Lt: "<?", ast.LtE: "<=?", ast.Gt: ">?", ast.GtE: ">=?"}

            def k_l(a, at):
                def k_r(b, bt):
                    if (at, bt) == ("int", "int"):
                        if isinstance(op, ast.NotEq):
                            return k(f"(negb ({a} =? {b}))", "bool")
                        if type(op) in ops:
                            return k(f"({a} {ops[type(op)]} {b})", "bool")
                    if (at, bt) == ("str", "str") and isinstance(op, (ast.Eq, ast.NotEq)):
                        c = f"(str_eqb {a} {b})"
                        return k(c if isinstance(op, ast.Eq) else f"(negb {c})", "bool")
                    if DYN and at == "any" and isinstance(r, ast.Name) and r.id in DYN_SINGLETONS and r.id not in env and isinstance(op, (ast.Eq, ast.NotEq)):
                        # x == <singleton>: no class defines an equality that holds between an instance and it, so: x is it
                        c = f"(is_O_{DYN_SINGLETONS[r.id]} {a})"
                        return k(c if isinstance(op, ast.Eq) else f"(negb {c})", "bool")
                    if DYN and (at, bt) == ("any", "any") and isinstance(op, (ast.Eq, ast.NotEq)):
                        tr.uses_any = True
                        c = f"(any_eqb {a} {b})"
                        return k(c if isinstance(op, ast.Eq) else f"(negb {c})", "bool")
                    if at == ("opt", "any") and bt == "any" and isinstance(op, (ast.Eq, ast.NotEq)):
                        tr.uses_any = True
                        c = f"(match {a} with Some x_ => any_eqb x_ {b} | None => false end)"
                        return k(c if isinstance(op, ast.Eq) else f"(negb {c})", "bool")
                    if (at, bt) == ("bool", "bool") and isinstance(op, (ast.Eq, ast.NotEq)):
                        c = f"(Bool.eqb {a} {b})"
                        return k(c if isinstance(op, ast.Eq) else f"(negb {c})", "bool")
                    bad(e, f"comparison of {at} and {bt}")
                return self.expr(r, env, k_r)
            return self.expr(l, env, k_l)
        if isinstance(e, ast.Subscript) and isinstance(e.value, ast.Name) and e.value.id in tr.dict_consts:
            entries, vt = tr.dict_consts[e.value.id]
            ex = tr.gensym("e")
            return self.expr(e.slice, env, lambda i, it: (
                "match (" + "".join(f"if {i} =? {kk} then Some {vv} else " for kk, vv in entries) + "None) with\n"
                f"| None => {self.on_exn('KeyError')}\n| Some {ex} =>\n{k(ex, vt)}\nend" if it == "int" else bad(e, "dictionary key type")))
        if isinstance(e, ast.Subscript):
            def k_obj(o, ot):
                def k_i(i, it):
                    x, ex = tr.gensym("x"), tr.gensym("e")
                    if isinstance(ot, tuple) and ot[0] == "dict" and compat(it, ot[1]):
                        return f"match ad_get str_eqb {i} {o} with\n| Exn {ex} => {self.on_exn(ex)}\n| Val {x} =>\n{k(x, ot[2])}\nend"
                    if ot == "od" and it == "str":
                        return f"match od_get str_eqb {i} {o} with\n| Exn {ex} => {self.on_exn(ex)}\n| Val {x} =>\n{k(x, 'int')}\nend"
                    if isinstance(ot, tuple) and ot[0] == "seq" and it == "int":
                        return f"match seq_get {o} {i} with\n| Exn {ex} => {self.on_exn(ex)}\n| Val {x} =>\n{k(x, ot[1])}\nend"
                    bad(e, f"subscript of {ot} by {it}")
                return self.expr(e.slice, env, k_i)
            return self.expr(e.value, env, k_obj)
        if isinstance(e, ast.Call) and self.gen_call(e, env) is not None:
            # a generator call as a value: (in this model) the list of what it yields; when it ends with an exception, Python
            # raises it wherever the consumer has got to by then: outside the model
            return self.gen_call(e, env)(lambda code, r_, ys_, yt_, env_: code + f"match {r_} with\n| Exn _ => {self.on_exn('OutsideModel')}\n| Val _ =>\n{k(ys_, ('seq', yt_))}\nend")
        if isinstance(e, ast.GeneratorExp) and len(e.generators) == 1 and not e.generators[0].ifs and not e.generators[0].is_async \
                and isinstance(e.generators[0].target, ast.Name) and isinstance(e.elt, ast.Name) and e.elt.id == e.generators[0].target.id:
            return self.expr(e.generators[0].iter, env, k)  # (x for x in it): the items of it
        if isinstance(e, ast.Call):
            return self.call(e, env, k)
        bad(e, "expression")

    def msg_read(self, m: str, mtype: str, field: str, node) -> tuple[str, object]:
        """m.<field> for a message value m of class mtype: the field's value or its proto3 default."""
        if "|" in mtype:
            cands = [c for c in mtype.split("|") if any(d["name"] == field for d in MESSAGES[c])]
            if not cands:
                bad(node, f"no message of {mtype} has a field {field}")
            fds = [next(d for d in MESSAGES[c] if d["name"] == field) for c in cands]
            if any((d["type"], d["label"], d["type_name"]) != (fds[0]["type"], fds[0]["label"], fds[0]["type_name"]) for d in fds):
                bad(node, "the field has different types in the alternatives")
            fd = fds[0]
        else:
            fd = next((d for d in MESSAGES[mtype] if d["name"] == field), None)
            if fd is None:
                bad(node, f"{mtype} has no field {field}")
        sub = fd["type_name"].split(".")[-1]
        if fd["label"] == 3:
            et = ("pb", sub) if fd["type"] == 11 else "int" if fd["type"] in (5, 13, 3, 4, 14) else "str" if fd["type"] == 9 else None
            if et is None or fd["type"] != 11:
                bad(node, "repeated field of this type")
            return f'(msg_rep "{field}"%string {m})', ("seq", et)
        if fd["type"] == 11:
            return f'(msg_sub "{field}"%string "{sub}"%string {m})', ("pb", sub)
        if fd["type"] in (5, 13, 3, 4, 14):
            return f'(msg_int "{field}"%string {m})', "int"
        if fd["type"] == 8:
            return f'(msg_bool "{field}"%string {m})', "bool"
        if fd["type"] == 9:
            return f'(msg_str str_empty "{field}"%string {m})', "str"
        bad(node, "field type")

    def attr(self, e) -> tuple[str, object]:
        """self.f / self.f.g (pure reads)."""
        if isinstance(e.value, ast.Name) and e.value.id == "self":
            t = self.info.ftype(e.attr)
            if t is None:
                bad(e, "unknown field")
            return self.read_field(e.attr), t
        if isinstance(e.value, ast.Name) and isinstance(self.env_now.get(e.value.id), tuple) and self.env_now[e.value.id][0] == "obj":
            sub = self.tr.classes[self.env_now[e.value.id][1]]
            ft = sub.ftype(e.attr)
            if ft is None:
                bad(e, "unknown field of a local object")
            return f"({sub.name}_{e.attr} {mangle(e.value.id)})", ft
        if isinstance(e.value, ast.Attribute):
            v, t = self.attr(e.value)
            if isinstance(t, tuple) and t[0] == "obj":
                sub = self.tr.classes[t[1]]
                ft = sub.ftype(e.attr)
                if ft is None:
                    bad(e, "unknown field of owned object")
                return f"({sub.name}_{e.attr} {v})", ft
        bad(e, "attribute")

    def args(self, call, params, env, k):
        """Evaluate the arguments of a call against the callee's parameter list -> list of Coq terms."""
        if isinstance(call.func, ast.Name) and call.func.id in getattr(self.tr, "func_specs", {}):
            # keyword arguments for parameters the unit dropped from the callee (unused there; a plain name here: evaluating it does nothing)
            gone = set(self.tr.func_specs[call.func.id].get("unused", ()))
            if any(kw.arg in gone and not isinstance(kw.value, ast.Name) for kw in call.keywords):
                bad(call, "an argument for a dropped parameter that is not a plain name")
            if any(kw.arg in gone for kw in call.keywords):
                call = ast.copy_location(ast.Call(func=call.func, args=call.args, keywords=[kw for kw in call.keywords if kw.arg not in gone]), call)
        if len(call.args) + len(call.keywords) != len(params):
            bad(call, "argument count")
        by_name = {kw.arg: kw.value for kw in call.keywords}
        exprs = []
        for i, (p, pt) in enumerate(params):
            exprs.append((call.args[i] if i < len(call.args) else by_name.get(p), pt))
            if exprs[-1][0] is None:
                bad(call, f"missing argument {p}")

        def go(rest, acc):
            if not rest:
                return k(acc)
            (ex, pt) = rest[0]

            def k_arg(v, t):
                if DYN and t == "any" and isinstance(pt, tuple) and pt[0] in ("iter", "seq") and pt[1] == "any":
                    # a dynamic value where an iterable is expected: the NamedTuples iterate over their fields; the other
                    # classes are not iterable (a str is, character by character: outside the model)
                    alts = ""
                    for c_, fs_ in DYN.items():
                        if c_ in NAMEDTUPLE_DYN:
                            xs_ = [self.tr.gensym("i") for _ in fs_]
                            items = "; ".join((x_ if ft_ == "any" else f"O_str {x_}") for x_, (_, ft_, _) in zip(xs_, fs_))
                            alts += f"| O_{c_} {' '.join(xs_)} =>\n{go(rest[1:], acc + ['[' + items + ']'])}\n"
                    return f"match {v} with\n{alts}| O_str _ => {self.on_exn('OutsideModel')}\n| _ => {self.on_exn('TypeError')}\nend"
                if DYN and isinstance(t, tuple) and t[0] == "obj" and "__iter__" in getattr(self.tr.classes.get(t[1]), "generators", {}) \
                        and isinstance(pt, tuple) and pt[0] in ("iter", "seq") and isinstance(pt[1], tuple) and pt[1][0] in ("iter", "seq") and pt[1][1] == "any":
                    # an object iterated over, its items iterated over in turn (statements: NamedTuples).  An item that is not
                    # iterable would raise TypeError when its turn comes: outside the model (refused up front)
                    ri_, ys_i, ll_, ei_ = (self.tr.gensym(x_) for x_ in ("r", "ys", "ll", "e"))
                    if self.tr.classes[t[1]].generators["__iter__"] == ("seq", "any"):
                        # ... whose items are lists already
                        return (f"let '({ri_}, _, {ys_i}) := {t[1]}___iter__ {v} in\nmatch {ri_} with\n| Exn {ei_} => {self.on_exn(ei_)}\n| Val _ =>\n"
                                f"{go(rest[1:], acc + [ys_i])}\nend")
                    return (f"let '({ri_}, _, {ys_i}) := {t[1]}___iter__ {v} in\nmatch {ri_} with\n| Exn {ei_} => {self.on_exn(ei_)}\n| Val _ =>\n"
                            f"match obj_items_all {ys_i} with\n| None => {self.on_exn('OutsideModel')}\n| Some {ll_} =>\n{go(rest[1:], acc + [ll_])}\nend\nend")
                if DYN and t == "any" and pt == "str":
                    # a dynamic value where a str is expected: Python checks nothing; the translation covers the case
                    # that it is a str and marks the other as outside the model
                    s_ = self.tr.gensym("s")
                    if getattr(self.tr, "foreign", None) and self.tr.foreign.get("str"):
                        # ... the specified objects that are strings (URIRef, BNode, Literal: str subclasses) are passed as the string they are
                        return f"match obj_str {v} with\n| Some {s_} =>\n{go(rest[1:], acc + [s_])}\n| None => {self.on_exn('OutsideModel')}\nend"
                    return f"match {v} with\n| O_str {s_} =>\n{go(rest[1:], acc + [s_])}\n| _ => {self.on_exn('OutsideModel')}\nend"
                return go(rest[1:], acc + [self.coerce(v, t, pt, call)])
            return self.expr(ex, env, k_arg)
        return go(exprs, [])

    def call_static(self, fname, e, params, ret, env, k, with_self=False) -> str:
        """A helper whose mutable parameters (objects, sets, lists, messages) come back updated:
        fname args : outcome R * M1 * .. * Mn.  Every mutable argument must be an lvalue (self.f or a local
        name), all distinct; it is written back after the call, also when the call raised."""
        tr = self.tr
        r, ex, x = tr.gensym("r"), tr.gensym("e"), tr.gensym("x")
        by_name = {kw.arg: kw.value for kw in e.keywords}
        actuals = []
        for i, (p, pt) in enumerate(params):
            a = e.args[i] if i < len(e.args) else by_name.get(p)
            if a is None:
                bad(e, f"missing argument {p}")
            actuals.append(a)
        if len(e.args) + len(e.keywords) != len(params):
            bad(e, "argument count")
        muts = [(a, pt) for a, (p, pt) in zip(actuals, params) if is_mutable(pt)]
        keys = []
        for a, pt_ in muts:
            if isinstance(a, ast.Name) and env.get(a.id) == "any" and DYN and isinstance(pt_, tuple) and pt_[0] in ("iter", "seq"):
                keys.append(("temp", tr.gensym("tmp")))  # a tuple value iterated over: the iterator is a temporary of the call
            elif isinstance(a, ast.Name) and a.id in env:
                keys.append(("local", a.id))
            elif isinstance(a, ast.Attribute) and isinstance(a.value, ast.Name) and a.value.id == "self":
                keys.append(("field", a.attr))
            elif isinstance(a, ast.Attribute) and isinstance(a.value, ast.Name) and isinstance(env.get(a.value.id), tuple) and env[a.value.id][0] == "pb" \
                    and field_and_group(env[a.value.id][1], a.attr, e)[0]["type"] == 11:
                keys.append(("sub", (a.value.id, a.attr)))  # m.f: the sub-message f of the local message m
            else:
                bad(e, "an object passed to be changed in place must be self.<field>, a local name or a sub-message of a local message")
        if len(set(keys)) != len(keys):
            bad(e, "the same object passed twice to be changed in place")
        outs = [tr.gensym("m") for _ in muts]

        def after(a):
            code = (f"let '({', '.join([r, 'self'] + outs)}) := {fname} {' '.join(a)} self in\n" if with_self
                    else f"let '({', '.join([r] + outs)}) := {fname} {' '.join(a)} in\n")
            env2 = env
            wb = []
            subs = []  # (parent message, field, value): written into the parent when the call returns (a callee that raises is
            #            taken to raise before it assigns: the parent keeps its content on that path)
            for (kind, name), o, (_, pt) in zip(keys, outs, muts):
                if kind == "local":
                    code += f"let {mangle(name)} := {o} in\n"
                    if "__alias__" + name in env:
                        subs.append((*env["__alias__" + name], o))
                elif kind == "sub":
                    subs.append((name[0], name[1], o))
                elif kind == "temp":
                    pass
                else:
                    wb.append((name, o, pt))

            def rest_code():
                back = ""
                for m_, f_, o_ in subs:
                    _, grp = field_and_group(env[m_][1], f_, e)
                    gl = "[" + "; ".join(f'"{g}"%string' for g in grp) + "]"
                    back += f'let {mangle(m_)} := msg_set {gl} "{f_}"%string {o_} {mangle(m_)} in\n'
                return f"match {r} with\n| Exn {ex} => {self.on_exn(ex)}\n| Val {x} =>\n{back}{k('tt' if ret == 'none' else x, ret)}\nend"

            def chain(i):
                if i == len(wb):
                    return rest_code()
                name, o, pt = wb[i]
                return self.write_field(name, o, pt, lambda: chain(i + 1))
            return code + chain(0)
        return self.args(e, params, env, after)

    def call_inout_on_local(self, sub, objname, meth, e, env, k) -> str:
        """obj.m(args) where obj is a local object and m changes message arguments in place."""
        tr = self.tr
        params, ret = sub.methods[meth]
        r, ex, x = tr.gensym("r"), tr.gensym("e"), tr.gensym("x")
        by_name = {kw.arg: kw.value for kw in e.keywords}
        actuals = [e.args[i] if i < len(e.args) else by_name.get(p) for i, (p, _) in enumerate(params)]
        if any(a is None for a in actuals) or len(e.args) + len(e.keywords) != len(params):
            bad(e, "arguments")
        muts = [a for a, (_, pt) in zip(actuals, params) if is_mutable(pt)]
        if not all(isinstance(a, ast.Name) and a.id in env for a in muts) or len({a.id for a in muts}) != len(muts):
            bad(e, "a message passed to be changed in place must be a local name")
        nm = mangle(objname)
        outs = [mangle(a.id) for a in muts]
        return self.args(e, params, env, lambda a: (
            f"let '({', '.join([r, nm] + outs)}) := {sub.name}_{meth} {' '.join(a)} {nm} in\nmatch {r} with\n| Exn {ex} => {self.on_exn(ex)}\n"
            f"| Val {x} =>\n{k('tt' if ret == 'none' else x, ret)}\nend"))

    def call(self, e, env, k) -> str:
        tr = self.tr
        f = e.func
        if isinstance(f, ast.Name) and f.id in getattr(tr, "class_alias", {}) and f.id not in env:
            # the constructor of a subclass the unit extends a class with (it defines no __init__ of its own): the base class's
            e = ast.copy_location(ast.Call(func=ast.copy_location(ast.Name(id=tr.class_alias[f.id], ctx=ast.Load()), f), args=e.args, keywords=e.keywords), e)
            f = e.func
        r, o, ex, x = tr.gensym("r"), tr.gensym("o"), tr.gensym("e"), tr.gensym("x")
        # module-level functions of the unit
        if isinstance(f, ast.Name) and f.id in tr.functions and any(is_mutable(t) and p not in tr.readonly_params.get(f.id, set())
                                                                    for p, t in tr.functions[f.id][0]):
            params, ret = tr.functions[f.id]
            return self.call_static(f.id, e, params, ret, env, k)
        if isinstance(f, ast.Name) and f.id in tr.functions:
            params, ret = tr.functions[f.id]
            return self.args(e, params, env, lambda a: (
                f"match {f.id} {' '.join(a)} with\n| Exn {ex} => {self.on_exn(ex)}\n| Val {x} =>\n{k('tt' if ret == 'none' else x, ret)}\nend"))
        # min(..) / max(..) of ints
        if isinstance(f, ast.Name) and f.id in ("min", "max") and len(e.args) >= 2 and not e.keywords:
            def go(rest, acc):
                if not rest:
                    out = acc[0]
                    for a in acc[1:]:
                        out = f"(Z.{f.id} {out} {a})"
                    return k(out, "int")
                return self.expr(rest[0], env, lambda v, t: go(rest[1:], acc + [v]) if t == "int" else bad(e, f"{f.id} of non-ints"))
            return go(e.args, [])
        if isinstance(f, ast.Name) and f.id == "len" and len(e.args) == 1 and not e.keywords and isinstance(e.args[0], ast.Name) \
                and e.args[0].id in INT_ENUMS and e.args[0].id not in env:
            return k(f"({len(INT_ENUMS[e.args[0].id])})", "int")
        # len(..)
        if isinstance(f, ast.Name) and f.id == "len" and len(e.args) == 1 and not e.keywords:
            def k_len(v, t):
                if t == "od":
                    return k(f"(od_len {v})", "int")
                if isinstance(t, tuple) and t[0] in ("seq", "set"):
                    return k(f"(seq_len {v})", "int")
                if DYN and t == "any":
                    # len(x) of a dynamic value: the NamedTuples have their number of fields; the other classes have no len()
                    # (a str has: not modelled)
                    l_ = tr.gensym("l")
                    return (f"match {v} with\n| O_str _ => {self.on_exn('OutsideModel')}\n| _ =>\nmatch obj_items {v} with\n| None => {self.on_exn('TypeError')}\n"
                            f"| Some {l_} =>\n{k(f'(seq_len {l_})', 'int')}\nend\nend")
                bad(e, "len of this type")
            return self.expr(e.args[0], env, k_len)
        # constructors of dynamic values (dyn.py)
        if isinstance(f, ast.Name) and f.id in DYN and f.id not in env and f.id in (getattr(tr, "foreign", None) or {}).get("constructors", {}):
            # a constructor of the library that does more than store its arguments: the specified function (dyn.py), which may raise
            cs = tr.foreign["constructors"][f.id]
            if any(isinstance(a, ast.Starred) for a in e.args) or len(e.args) > len(cs["params"]):
                bad(e, "constructor arguments")
            given = {kw.arg: kw.value for kw in e.keywords}
            for kn, kv in cs.get("fixed", {}).items():
                g_ = given.pop(kn, None)
                if not (isinstance(g_, ast.Constant) and g_.value is kv):
                    bad(e, f"{f.id}(..): {kn}={kv} is what the specification describes")
            actuals = []
            for i, (pn, pt_) in enumerate(cs["params"]):
                a = e.args[i] if i < len(e.args) else given.pop(pn, None)
                actuals.append((a if a is not None else ast.Constant(value=None), tuple(pt_) if isinstance(pt_, list) else pt_))
            if given:
                bad(e, "constructor keyword")

            def go_f(rest, acc):
                if not rest:
                    ex_, x_ = tr.gensym("e"), tr.gensym("x")
                    return f"match {cs['function']} {' '.join(acc)} with\n| Exn {ex_} => {self.on_exn(ex_)}\n| Val {x_} =>\n{k(x_, 'any')}\nend"
                (a_, ft_) = rest[0]
                return self.expr(a_, env, lambda v, t: go_f(rest[1:], acc + [self.coerce(v, t, ft_, e)]))
            return go_f(actuals, [])
        if isinstance(f, ast.Name) and f.id in DYN and f.id not in env:
            fs = DYN[f.id]
            if len(e.args) == 1 and isinstance(e.args[0], ast.Starred) and not e.keywords:
                def k_star(v, t):
                    if not (isinstance(t, tuple) and t[0] in ("seq", "iter") and t[1] == "any") or not all(ft == "any" for _, ft, _ in fs):
                        bad(e, "starred constructor arguments")
                    xs = [tr.gensym("a") for _ in fs]
                    return (f"match {v} with\n| [" + "; ".join(xs) + f"] =>\n{k('(O_' + f.id + ' ' + ' '.join(xs) + ')', 'any')}\n"
                            f"| _ => {self.on_exn('TypeError')}\nend")
                return self.expr(e.args[0].value, env, k_star)
            if any(isinstance(a, ast.Starred) for a in e.args):
                bad(e, "starred argument")
            given = {kw.arg: kw.value for kw in e.keywords}
            actuals = []
            for i, (n, ft, opt_) in enumerate(fs):
                pn = n.lstrip("_")
                a = e.args[i] if i < len(e.args) else given.pop(pn, given.pop(n, None))
                if a is None and not opt_:
                    bad(e, f"missing constructor argument {n}")
                actuals.append((a if a is not None else ast.Constant(value=None), ft))
            if given or len(e.args) > len(fs):
                bad(e, "constructor arguments")

            def go_c(rest, acc):
                if not rest:
                    return k("(O_" + f.id + "".join(" " + a for a in acc) + ")", "any")
                (ex_, ft_) = rest[0]
                return self.expr(ex_, env, lambda v, t: go_c(rest[1:], acc + [self.coerce(v, t, ft_, e)]))
            return go_c(actuals, [])
        # itertools.chain(a, b) of sequences of dynamic values
        if isinstance(f, ast.Name) and f.id == "chain" and DYN and len(e.args) == 2 and not e.keywords:
            def as_list(v, t):
                if isinstance(t, tuple) and t[0] in ("seq", "iter") and t[1] == "any":
                    return v
                if isinstance(t, tuple) and t[0] in ("seq", "iter") and t[1] == ("opt", "any"):
                    return f"(map opt_obj {v})"
                bad(e, f"chain of {t}")
            return self.expr(e.args[0], env, lambda a, at: self.expr(e.args[1], env, lambda b, bt: k(f"({as_list(a, at)} ++ {as_list(b, bt)})", ("seq", "any"))))
        if isinstance(f, ast.Name) and f.id == "str" and len(e.args) == 1 and not e.keywords and DYN and getattr(tr, "foreign", None) \
                and isinstance(e.args[0], ast.Name) and env.get(e.args[0].id) == "any":
            # str(x) of a specified object that is a string (URIRef, BNode, Literal); of any other value: not modelled
            s_ = tr.gensym("s")
            return f"match obj_str {mangle(e.args[0].id)} with\n| None => {self.on_exn('OutsideModel')}\n| Some {s_} =>\n{k(s_, 'str')}\nend"
        if isinstance(f, ast.Name) and f.id == "isinstance" and len(e.args) == 2 and not e.keywords and isinstance(e.args[0], ast.Name) \
                and env.get(e.args[0].id) == "any" and DYN:
            cls_nodes = e.args[1].elts if isinstance(e.args[1], ast.Tuple) else [e.args[1]]
            if not all(isinstance(c, ast.Name) and c.id in DYN for c in cls_nodes):
                bad(e, "isinstance class")
            x_ = mangle(e.args[0].id)
            return k("(" + " || ".join(f"is_O_{c.id} {x_}" for c in cls_nodes) + ")", "bool")
        # constructors of a class of a family (keyword arguments; None for the optional ones left out)
        if isinstance(f, ast.Name) and f.id in getattr(tr, "ctor_params", {}) and f.id not in env:
            params = tr.ctor_params[f.id]
            root = tr.class_tags[f.id][0]
            if len(e.args) > len(params):
                bad(e, "constructor arguments")
            given = {p_: a_ for (p_, _, _), a_ in zip(params, e.args)}
            for kw in e.keywords:
                if kw.arg in given:
                    bad(e, "constructor argument given twice")
                given[kw.arg] = kw.value
            if not set(given) <= {p for p, _, _ in params} or any(p not in given and not has_d for p, _, has_d in params):
                bad(e, "constructor arguments")
            call = ast.Call(func=f, args=[], keywords=[ast.keyword(arg=p, value=given.get(p, ast.Constant(value=None))) for p, _, _ in params])
            return self.args(call, [(p, pt) for p, pt, _ in params], env, lambda a: (
                f"match {f.id}___init__ {' '.join(a)} with\n| Exn {ex} => {self.on_exn(ex)}\n| Val {o} =>\n{k(o, ('obj', root))}\nend"))
        # constructors
        if isinstance(f, ast.Name) and f.id in tr.classes and tr.classes[f.id].defaults and not e.args:
            cls = tr.classes[f.id]
            params, _ = cls.methods["__init__"]
            given = {kw.arg for kw in e.keywords}
            if not given <= {p for p, _ in params} or any(p not in given and p not in cls.defaults for p, _ in params):
                bad(e, "constructor arguments")
            filled = ast.Call(func=f, args=[], keywords=list(e.keywords) + [ast.keyword(arg=p, value=cls.defaults[p]) for p, _ in params if p not in given])
            return self.args(filled, params, env, lambda a: (
                f"match {cls.name}___init__ {' '.join(a)} with\n| Exn {ex} => {self.on_exn(ex)}\n| Val {o} =>\n{k(o, ('obj', cls.name))}\nend"))
        if isinstance(f, ast.Name) and f.id in tr.classes and getattr(tr.classes[f.id], "ctor_defaults", None):
            params, _ = tr.classes[f.id].methods["__init__"]
            given = {p_ for (p_, _), _a in zip(params, e.args)} | {kw.arg for kw in e.keywords}
            e = ast.Call(func=f, args=list(e.args), keywords=list(e.keywords) + [ast.keyword(arg=p_, value=d_) for p_, d_ in tr.classes[f.id].ctor_defaults.items()
                                                                               if p_ not in given])
            ast.fix_missing_locations(e)
        if isinstance(f, ast.Name) and f.id in tr.classes:
            params, _ = tr.classes[f.id].methods["__init__"]
            return self.args(e, params, env, lambda a: (
                f"match {f.id}___init__ {' '.join(a)} with\n| Exn {ex} => {self.on_exn(ex)}\n| Val {o} =>\n{k(o, ('obj', f.id))}\nend"))
        if (isinstance(f, ast.Subscript) and isinstance(f.value, ast.Name) and f.value.id == "OrderedDict" and not e.args and not e.keywords
                and isinstance(f.slice, ast.Tuple) and [getattr(x, "id", None) for x in f.slice.elts] == ["str", "int"]):
            return k("(@od_empty K)", "od")
        if isinstance(f, ast.Name) and f.id == "deque" and not e.args and not e.keywords:
            return k("[]", ("seq", "?"))  # an unbounded deque, used as a list (append, iteration, indexing)
        if isinstance(f, ast.Name) and f.id == "deque" and len(e.args) == 1 and [kw.arg for kw in e.keywords] == ["maxlen"]:
            return self.expr(e.args[0], env, lambda it, itt: self.expr(e.keywords[0].value, env, lambda n, nt: (
                f"match deque_make {it} {n} with\n| Exn {ex} => {self.on_exn(ex)}\n| Val {x} =>\n{k(x, itt)}\nend"
                if nt == "int" and isinstance(itt, tuple) and itt[0] == "seq" else bad(e, "deque arguments"))))
        # isinstance(x, (jelly.A, jelly.B)) / isinstance(x, jelly.A) on a protobuf value whose class is only known at run time
        if isinstance(f, ast.Name) and f.id == "isinstance" and len(e.args) == 2 and not e.keywords and isinstance(e.args[0], ast.Name) \
                and env.get(e.args[0].id) == ("pb", "*"):
            cls_nodes = e.args[1].elts if isinstance(e.args[1], ast.Tuple) else [e.args[1]]
            names = []
            for c in cls_nodes:
                if not (isinstance(c, ast.Attribute) and isinstance(c.value, ast.Name) and c.value.id == "jelly" and c.attr in MESSAGES):
                    bad(e, "isinstance class")
                names.append(c.attr)
            x_ = mangle(e.args[0].id)
            return k("(" + " || ".join(f'String.eqb (pb_kind {x_}) "{n}"%string' for n in names) + ")", "bool")
        # getattr(m, field) where field is what WhichOneof returned (None: TypeError, attribute name must be string)
        if isinstance(f, ast.Name) and f.id == "getattr" and len(e.args) == 2 and not e.keywords and isinstance(e.args[0], ast.Name) \
                and isinstance(env.get(e.args[0].id), tuple) and env[e.args[0].id][0] == "pb":
            m_ = mangle(e.args[0].id)

            def k_fn(fv, ft_):
                v_ = tr.gensym("v")
                if ft_ == "fname":
                    return f"match msg_field {fv} {m_} with\n| None => {self.on_exn('AttributeError')}\n| Some {v_} =>\n{k(v_, ('pb', '*'))}\nend"
                if ft_ == ("opt", "fname"):
                    n_ = tr.gensym("n")
                    return (f"match {fv} with\n| None => {self.on_exn('TypeError')}\n| Some {n_} =>\nmatch msg_field {n_} {m_} with\n"
                            f"| None => {self.on_exn('AttributeError')}\n| Some {v_} =>\n{k(v_, ('pb', '*'))}\nend\nend")
                bad(e, "getattr with a computed name")
            return self.expr(e.args[1], env, k_fn)
        # getattr(x, "field", default) on an object of a translated class that has the field: the field
        if isinstance(f, ast.Name) and f.id == "getattr" and len(e.args) == 3 and not e.keywords and isinstance(e.args[0], ast.Name) \
                and isinstance(env.get(e.args[0].id), tuple) and env[e.args[0].id][0] == "obj" and isinstance(e.args[1], ast.Constant) \
                and isinstance(e.args[1].value, str) and tr.classes[env[e.args[0].id][1]].ftype(e.args[1].value) is not None and is_pure(e.args[2]):
            c_ = tr.classes[env[e.args[0].id][1]]
            return k(f"({c_.name}_{e.args[1].value} {mangle(e.args[0].id)})", c_.ftype(e.args[1].value))
        # getattr(m, "field", default) on a message: the field if the class has it, else the default
        if isinstance(f, ast.Name) and f.id == "getattr" and len(e.args) == 3 and not e.keywords and isinstance(e.args[0], ast.Name) \
                and isinstance(env.get(e.args[0].id), tuple) and env[e.args[0].id][0] == "pb" and isinstance(e.args[1], ast.Constant) \
                and isinstance(e.args[1].value, str):
            mt = env[e.args[0].id][1]
            if "|" not in mt and any(d["name"] == e.args[1].value for d in MESSAGES[mt]):
                v, t = self.msg_read(mangle(e.args[0].id), mt, e.args[1].value, e)
                return k(v, t)
            return self.expr(e.args[2], env, k)
        # issubclass(c, B) for a class value c of a family
        if isinstance(f, ast.Name) and f.id == "issubclass" and len(e.args) == 2 and not e.keywords and isinstance(e.args[1], ast.Name) \
                and e.args[1].id in getattr(tr, "class_tags", {}):
            root, _ = tr.class_tags[e.args[1].id]
            fam = tr.families[root]
            subs = fam.subclasses(e.args[1].id)
            return self.expr(e.args[0], env, lambda c, ct: (
                k("(" + " || ".join(f"{root}_cls_eqb {c} {fam.tag(x)}" for x in subs) + ")", "bool") if ct == ("cls", root) else bad(e, "issubclass of a non-class")))
        # isinstance(x, B) for a local object x of a class family: its class is B or below
        if isinstance(f, ast.Name) and f.id == "isinstance" and len(e.args) == 2 and not e.keywords and isinstance(e.args[1], ast.Name) \
                and e.args[1].id in getattr(tr, "class_tags", {}) and isinstance(e.args[0], ast.Name) \
                and env.get(e.args[0].id) == ("obj", tr.class_tags[e.args[1].id][0]):
            root, _ = tr.class_tags[e.args[1].id]
            fam = tr.families[root]
            subs = fam.subclasses(e.args[1].id)
            x_ = mangle(e.args[0].id)
            return k("(" + " || ".join(f"{root}_cls_eqb ({root}_cls_tag {x_}) {fam.tag(c_)}" for c_ in subs) + ")", "bool")
        # c(kw=..) for a class value c of a family: the constructor of whichever class c is
        if isinstance(f, ast.Name) and isinstance(env.get(f.id), tuple) and env[f.id][0] == "cls" and not e.args:
            root = env[f.id][1]
            fam = tr.families[root]
            cv = mangle(f.id)
            given = {kw.arg: kw.value for kw in e.keywords}
            ex, o = tr.gensym("e"), tr.gensym("o")

            def branch(c):
                params = tr.ctor_params[c]
                owner, d = fam.resolve(c, "__init__")
                names = {p for p, _, _ in params}
                if not set(given) <= names and not d.args.kwarg:
                    return None  # TypeError: unexpected keyword
                kws = [ast.keyword(arg=p, value=given.get(p, ast.Constant(value=None))) for p, pt, has_d in params
                       if p in given or has_d]
                if len(kws) != len(params):
                    return None  # TypeError: missing argument
                call = ast.Call(func=ast.Name(id=c, ctx=ast.Load()), args=[], keywords=kws)
                return self.args(call, [(p, pt) for p, pt, _ in params], env, lambda a: f"{c}___init__ {' '.join(a)}")
            arms = []
            saved_on_exn = self.on_exn
            self.on_exn = lambda e_: f"Exn {e_}"  # inside the alternatives: the outcome of the construction itself
            try:
                for c in fam.order:
                    b = branch(c)
                    arms.append(f"| {fam.tag(c)} => {b if b is not None else 'Exn TypeError'}")
            finally:
                self.on_exn = saved_on_exn
            return (f"match (match {cv} with\n" + "\n".join(arms) + f"\nend) with\n| Exn {ex} => {self.on_exn(ex)}\n| Val {o} =>\n{k(o, ('obj', root))}\nend")
        # getattr(jelly.<Enum>, name) where name came from jelly.<Enum>.Name(v): v again
        if isinstance(f, ast.Name) and f.id == "getattr" and len(e.args) == 2 and not e.keywords and isinstance(e.args[1], ast.Name) \
                and isinstance(env.get(e.args[1].id), tuple) and env[e.args[1].id][0] == "ename" \
                and ast.unparse(e.args[0]) == "jelly." + env[e.args[1].id][1]:
            return k(mangle(e.args[1].id), "int")
        # iter(x): an iterable we model as the list of its items is its own iterator
        if isinstance(f, ast.Name) and f.id == "iter" and len(e.args) == 1 and not e.keywords:
            return self.expr(e.args[0], env, lambda v, t: k(v, t) if isinstance(t, tuple) and t[0] == "iter" else bad(e, "iter of this type"))
        # next(it, None) on a local iterator: the head, or None
        if isinstance(f, ast.Name) and f.id == "next" and len(e.args) == 2 and not e.keywords and isinstance(e.args[0], ast.Name) \
                and isinstance(e.args[1], ast.Constant) and e.args[1].value is None \
                and isinstance(env.get(e.args[0].id), tuple) and env[e.args[0].id][0] == "iter":
            it = mangle(e.args[0].id)
            et_ = env[e.args[0].id][1]
            if isinstance(et_, tuple) and et_[0] == "opt":
                bad(e, "next(it, None) over items that may be None")
            h_ = tr.gensym("h")
            return (f"match {it} with\n| [] =>\n{k('None', ('opt', et_))}\n| {h_} :: {it} =>\n{k(f'(Some {h_})', ('opt', et_))}\nend")
        # next(it) on a local iterator: the head, or StopIteration
        if isinstance(f, ast.Name) and f.id == "next" and len(e.args) == 1 and not e.keywords and isinstance(e.args[0], ast.Name) \
                and isinstance(env.get(e.args[0].id), tuple) and env[e.args[0].id][0] == "iter":
            it = mangle(e.args[0].id)
            return (f"match {it} with\n| [] => {self.on_exn('StopIteration')}\n| {x} :: {it} =>\n{k(x, env[e.args[0].id][1])}\nend")
        if isinstance(f, ast.Name) and f.id == "set" and not e.args and not e.keywords:
            return k("[]", ("set", "?"))
        if not isinstance(f, ast.Attribute):
            bad(e, "call")
        # jelly.<Message>(field=value, ..): a protobuf message object
        if isinstance(f.value, ast.Name) and f.value.id == "jelly" and f.attr in MESSAGES and not e.args:
            fields = {d["name"]: d for d in MESSAGES[f.attr]}

            def go_m(rest, acc):
                if not rest:
                    return k(f'(PMsg "{f.attr}"%string [' + "; ".join(acc) + "])", ("pb", f.attr))
                kw = rest[0]
                if kw.arg not in fields:
                    bad(e, f"{f.attr} has no field {kw.arg}")

                def k_v(v, t):
                    w = {"int": "PInt", "bool": "PBool", "str": "PStr"}.get(t)
                    if isinstance(t, tuple) and t[0] == "seq" and fields[kw.arg]["label"] == 3:
                        w = "PRep"
                    if w is None and not (isinstance(t, tuple) and t[0] == "pb"):
                        bad(e, f"message field of type {t}")
                    return go_m(rest[1:], acc + [f'("{kw.arg}"%string, {f"{w} {v}" if w else v})'])
                return self.expr(kw.value, env, k_v)
            return go_m(list(e.keywords), [])
        # options.<Class>(..): a class of pyjelly/options.py, defaults for the arguments left out
        if isinstance(f.value, ast.Name) and f.value.id == "options" and f.attr in tr.classes:
            cls = tr.classes[f.attr]
            params, _ = cls.methods["__init__"]
            given = {kw.arg for kw in e.keywords}
            if e.args or not given <= {p for p, _ in params}:
                bad(e, "constructor arguments")
            filled = ast.Call(func=f, args=[], keywords=list(e.keywords) + [ast.keyword(arg=p, value=cls.defaults[p]) for p, _ in params
                                                                           if p not in given and p in cls.defaults])
            return self.args(filled, params, env, lambda a: (
                f"match {cls.name}___init__ {' '.join(a)} with\n| Exn {ex} => {self.on_exn(ex)}\n| Val {o} =>\n{k(o, ('obj', cls.name))}\nend"))
        # <message>.HasField("f") / <message>.WhichOneof("group")
        if isinstance(f.value, ast.Name) and isinstance(env.get(f.value.id), tuple) and env[f.value.id][0] == "pb" and len(e.args) == 1 \
                and not e.keywords and f.attr in ("HasField", "WhichOneof") and isinstance(e.args[0], ast.Name) and ("__const__" + e.args[0].id) in env:
            e = ast.Call(func=f, args=[ast.Constant(value=env["__const__" + e.args[0].id])], keywords=[])
        if isinstance(f.value, ast.Name) and isinstance(env.get(f.value.id), tuple) and env[f.value.id][0] == "pb" and len(e.args) == 1 \
                and not e.keywords and isinstance(e.args[0], ast.Constant) and isinstance(e.args[0].value, str) and f.attr in ("HasField", "WhichOneof"):
            mt = env[f.value.id][1]
            cands = mt.split("|") if mt != "*" else list(MESSAGES)
            if f.attr == "HasField":
                if not any(d["name"] == e.args[0].value for c in cands for d in MESSAGES[c]):
                    bad(e, "HasField of an unknown field")
                return k(f'(msg_has "{e.args[0].value}"%string {mangle(f.value.id)})', "bool")
            groups = [[d["name"] for d in MESSAGES[c] if d["oneof"] == e.args[0].value] for c in cands]
            groups = [g for g in groups if g]
            if not groups or any(g != groups[0] for g in groups):
                bad(e, "WhichOneof group")
            gl = "[" + "; ".join(f'"{g}"%string' for g in groups[0]) + "]"
            return k(f"(msg_which {gl} {mangle(f.value.id)})", ("opt", "fname"))
        # <local str>.rpartition(sep)
        if isinstance(f.value, ast.Name) and env.get(f.value.id) == "str" and f.attr == "rpartition" and len(e.args) == 1 and not e.keywords:
            return self.expr(e.args[0], env, lambda sp, st: (
                f"match str_rpartition {mangle(f.value.id)} {sp} with\n| Exn {ex} => {self.on_exn(ex)}\n| Val {x} =>\n{k(x, ('tuple', ['str', 'str', 'str']))}\nend"
                if st == "str" else bad(e, "rpartition separator")))
        # <local object>.m(..): the object is a parameter or a local, updated in place
        if isinstance(f.value, ast.Name) and isinstance(env.get(f.value.id), tuple) and env[f.value.id][0] == "obj":
            sub = tr.classes[env[f.value.id][1]]
            if f.attr in sub.inout:
                return self.call_inout_on_local(sub, f.value.id, f.attr, e, env, k)
            if f.attr not in sub.methods or f.attr == "__init__" or f.attr in sub.static:
                bad(e, "unknown method of a local object")
            params, ret = sub.methods[f.attr]
            nm = mangle(f.value.id)
            return self.args(e, params, env, lambda a: (
                f"let '({r}, {nm}) := {sub.name}_{f.attr} {' '.join(a)} {nm} in\nmatch {r} with\n| Exn {ex} => {self.on_exn(ex)}\n"
                f"| Val {x} =>\n{k('tt' if ret == 'none' else x, ret)}\nend"))
        # self.m(..)
        if isinstance(f.value, ast.Name) and f.value.id == "self":
            if f.attr not in self.info.methods or f.attr == "__init__":
                bad(e, "unknown method")
            params, ret = self.info.methods[f.attr]
            if f.attr in self.info.static:
                return self.call_static(f"{self.info.name}_{f.attr}", e, params, ret, env, k)
            if f.attr in self.info.inout:
                return self.call_static(f"{self.info.name}_{f.attr}", e, params, ret, env, k, with_self=True)
            return self.args(e, params, env, lambda a: self.call_self(f.attr, a, ret, r, ex, x, k))
        # x.m(..) for a local `C | None`: AttributeError when it is None
        if isinstance(f.value, ast.Name) and isinstance(env.get(f.value.id), tuple) and env[f.value.id][0] == "opt" \
                and isinstance(env[f.value.id][1], tuple) and env[f.value.id][1][0] == "obj":
            sub = tr.classes[env[f.value.id][1][1]]
            if f.attr not in sub.methods or f.attr == "__init__" or f.attr in sub.inout or f.attr in sub.static:
                bad(e, "method of an optional local object")
            params, ret = sub.methods[f.attr]
            nm = mangle(f.value.id)
            return self.args(e, params, env, lambda a: (
                f"match {nm} with\n| None => {self.on_exn('AttributeError')}\n| Some {o} =>\n"
                f"let '({r}, {o}) := {sub.name}_{f.attr} {' '.join(a)} {o} in\nlet {nm} := Some {o} in\n"
                f"match {r} with\n| Exn {ex} => {self.on_exn(ex)}\n| Val {x} =>\n{k('tt' if ret == 'none' else x, ret)}\nend\nend"))
        # <local object>.f.m(..): a method of an object the local object owns
        if isinstance(f.value, ast.Attribute) and isinstance(f.value.value, ast.Name) and f.value.value.id != "self" \
                and isinstance(env.get(f.value.value.id), tuple) and env[f.value.value.id][0] == "obj":
            owner = tr.classes[env[f.value.value.id][1]]
            fld = f.value.attr
            ft = owner.ftype(fld)
            if isinstance(ft, tuple) and ft[0] == "obj":
                sub = tr.classes[ft[1]]
                if f.attr not in sub.methods or f.attr == "__init__" or f.attr in sub.inout or f.attr in sub.static:
                    bad(e, "method of an owned object of a local object")
                params, ret = sub.methods[f.attr]
                nm = mangle(f.value.value.id)
                return self.args(e, params, env, lambda a: (
                    f"let '({r}, {o}) := {sub.name}_{f.attr} {' '.join(a)} ({owner.name}_{fld} {nm}) in\n"
                    f"let {nm} := set_{owner.name}_{fld} {o} {nm} in\n"
                    f"match {r} with\n| Exn {ex} => {self.on_exn(ex)}\n| Val {x} =>\n{k('tt' if ret == 'none' else x, ret)}\nend"))
        # self.f.m(..): a built-in container or an owned object
        if isinstance(f.value, ast.Attribute) and isinstance(f.value.value, ast.Name) and f.value.value.id == "self":
            fld = f.value.attr
            ft = self.info.ftype(fld)
            if isinstance(ft, tuple) and ft[0] == "dict" and f.attr == "update" and len(e.args) == 1 and not e.keywords and isinstance(e.args[0], ast.Dict) \
                    and len(e.args[0].keys) == 1 and e.args[0].keys[0] is not None:
                # d.update({k: v}): d[k] = v
                return self.expr(e.args[0].keys[0], env, lambda kv, kt: self.expr(e.args[0].values[0], env, lambda vv, vt: (
                    self.write_field(fld, f"(ad_set str_eqb {kv} {self.coerce(vv, vt, ft[2], e)} {self.read_field(fld)})", ft, lambda: k("tt", "none"))
                    if compat(kt, ft[1]) else bad(e, "dict.update key type"))))
            if ft == "od" and f.attr == "move_to_end" and len(e.args) == 1 and not e.keywords:
                return self.expr(e.args[0], env, lambda kv, kt: (
                    f"match od_move_to_end str_eqb {kv} {self.read_field(fld)} with\n| Exn {ex} => {self.on_exn(ex)}\n"
                    f"| Val {o} => {self.write_field(fld, o, 'od', lambda: k('tt', 'none'))}\nend" if kt == "str" else bad(e, "move_to_end key")))
            if (ft == "od" and f.attr == "popitem" and not e.args and len(e.keywords) == 1 and e.keywords[0].arg == "last"
                    and isinstance(e.keywords[0].value, ast.Constant) and e.keywords[0].value.value is False):
                return (f"match od_popitem_first {self.read_field(fld)} with\n| Exn {ex} => {self.on_exn(ex)}\n"
                        f"| Val ({x}, {o}) => {self.write_field(fld, o, 'od', lambda: k(x, ('pair', 'str', 'int')))}\nend")
            if isinstance(ft, tuple) and ft[0] == "obj" and f.attr in tr.classes[ft[1]].inout:
                # a method of the owned object that also changes messages / iterators passed to it (local names)
                sub = tr.classes[ft[1]]
                params, ret = sub.methods[f.attr]
                by_name = {kw.arg: kw.value for kw in e.keywords}
                actuals = [e.args[i] if i < len(e.args) else by_name.get(p) for i, (p, _) in enumerate(params)]
                if any(a is None for a in actuals) or len(e.args) + len(e.keywords) != len(params):
                    bad(e, "arguments")
                muts_a = [a for a, (_, pt) in zip(actuals, params) if is_mutable(pt)]
                if not all(isinstance(a, ast.Name) and a.id in env for a in muts_a) or len({a.id for a in muts_a}) != len(muts_a):
                    bad(e, "a message passed to be changed in place must be a local name")
                outs = [mangle(a.id) for a in muts_a]
                return self.args(e, params, env, lambda a: (
                    f"let '({', '.join([r, o] + outs)}) := {sub.name}_{f.attr} {' '.join(a)} {self.read_field(fld)} in\n"
                    + self.write_field(fld, o, ft, lambda: f"match {r} with\n| Exn {ex} => {self.on_exn(ex)}\n| Val {x} =>\n{k('tt' if ret == 'none' else x, ret)}\nend")))
            if isinstance(ft, tuple) and ft[0] == "obj":
                sub = tr.classes[ft[1]]
                if f.attr not in sub.methods or f.attr == "__init__":
                    bad(e, "unknown method of owned object")
                params, ret = sub.methods[f.attr]
                return self.args(e, params, env, lambda a: (
                    f"let '({r}, {o}) := {sub.name}_{f.attr} {' '.join(a)} {self.read_field(fld)} in\n"
                    + self.write_field(fld, o, ft, lambda: f"match {r} with\n| Exn {ex} => {self.on_exn(ex)}\n| Val {x} =>\n{k('tt' if ret == 'none' else x, ret)}\nend")))
        bad(e, "call")


class MethodMode(Mode):
    def __init__(self, tr, info, ret, muts=()):
        super().__init__(tr, info)
        self.ret = ret
        self.muts = list(muts)  # message in/out parameters: their current values go back with every result

    def wrap(self, o):
        return "(" + ", ".join([o, "self"] + [mangle(p) for p, _ in self.muts]) + ")"

    def ret_val(self, v, t):
        return self.wrap(f"Val {self.coerce(v, t, self.ret, None)}")

    def ret_exn(self, e):
        if any(p == "ys__" for p, _ in self.muts):  # the body of a generator (PEP 479)
            return self.wrap(f"Exn (gen_exn {e})")
        return self.wrap(f"Exn {e}")

    def fall_off(self):
        if self.ret == "none":
            return self.wrap("Val tt")
        if isinstance(self.ret, tuple) and self.ret[0] == "opt":
            return self.wrap("Val None")
        if self.ret == "any" and DYN:
            return self.wrap("Val O_None")
        bad(None, f"{self.info.name}: a method returning {self.ret} can end without a return")

    def read_field(self, f):
        return f"({self.info.name}_{f} self)"

    def write_field(self, f, v, t, rest):
        want = self.info.ftype(f)
        if want is None:
            bad(None, f"assignment to a field __init__ does not create: {f}")
        return f"let self := set_{self.info.name}_{f} {self.coerce(v, t, want, None)} self in\n{rest()}"

    def handler_fun(self, ss, env):
        ps = "".join(f" ({mangle(p)} : {coq_type(t)})" for p, t in self.muts)
        return f"(fun (exc__ : exn) (self : {self.info.name}){ps} =>\n{self.stmts(ss, env)})"

    def call_handler(self, h, e):
        return f"{h} {e} self" + "".join(f" {mangle(p)}" for p, _ in self.muts)

    def call_self(self, m, a, ret, r, ex, x, k):
        return (f"let '({r}, self) := {self.info.name}_{m} {' '.join(a)} self in\nmatch {r} with\n| Exn {ex} => {self.on_exn(ex)}\n"
                f"| Val {x} =>\n{k('tt' if ret == 'none' else x, ret)}\nend")


class FuncMode(Mode):
    """A module-level function: no object state; the result is outcome R."""

    def __init__(self, tr, ret, muts=()):
        super().__init__(tr, ClassInfo("<function>"))
        self.ret = ret
        self.muts = list(muts)  # in/out parameters: their current values go back with every result

    def wrap(self, o):
        return "(" + ", ".join([o] + [mangle(p) for p, _ in self.muts]) + ")" if self.muts else o

    def ret_val(self, v, t):
        return self.wrap(f"Val {self.coerce(v, t, self.ret, None)}")

    def ret_exn(self, e):
        if any(p == "ys__" for p, _ in self.muts):  # the body of a generator (PEP 479)
            return self.wrap(f"Exn (gen_exn {e})")
        return self.wrap(f"Exn {e}")

    def fall_off(self):
        if self.ret == "none":
            return self.wrap("Val tt")
        if isinstance(self.ret, tuple) and self.ret[0] == "opt":
            return self.wrap("Val None")
        bad(None, f"a function returning {self.ret} can end without a return")

    def read_field(self, f):
        bad(None, "self outside a class")

    def write_field(self, f, v, t, rest):
        bad(None, "self outside a class")

    def handler_fun(self, ss, env):
        ps = "".join(f" ({mangle(p)} : {coq_type(t)})" for p, t in self.muts)
        return f"(fun (exc__ : exn){ps} =>\n{self.stmts(ss, env)})"

    def call_handler(self, h, e):
        return f"{h} {e}" + "".join(f" {mangle(p)}" for p, _ in self.muts)

    def call_self(self, *a):
        bad(None, "self outside a class")


class InitMode(Mode):
    """__init__: the fields are locals until the end; the result is outcome Cls."""

    def ret_val(self, v, t):
        bad(None, "return inside __init__")

    def ret_exn(self, e):
        return f"Exn {e}"

    def fall_off(self):
        return f"Val (mk_{self.info.name} " + " ".join(f"self_{f}" for f, _ in self.info.fields) + ")"

    def read_field(self, f):
        if self.info.ftype(f) is None:
            bad(None, f"field {f} read before it is assigned")
        return f"self_{f}"

    def write_field(self, f, v, t, rest):
        if t == "none":
            bad(None, f"field {f} initialised with None: type unknown")
        old = self.info.ftype(f)
        if old is None:
            self.info.fields.append((f, t))
        elif old != t:
            bad(None, f"field {f} assigned values of two types")
        return f"let self_{f} := {v} in\n{rest()}"

    def handler_fun(self, ss, env):
        bad(None, "try inside __init__")

    def call_self(self, *a):
        bad(None, "method call inside __init__")


# ---------------------------------------------------------------------- modules
def module_consts(path: Path) -> dict[str, int]:
    out = {}
    for n in ast.parse(path.read_text()).body:
        if isinstance(n, ast.AnnAssign) and isinstance(n.target, ast.Name) and isinstance(n.value, ast.Constant) \
                and isinstance(n.value.value, int) and not isinstance(n.value.value, bool) and ast.unparse(n.annotation) in ("Final[int]", "int"):
            out[n.target.id] = n.value.value
        if isinstance(n, ast.Assign) and len(n.targets) == 1 and isinstance(n.targets[0], ast.Name) and isinstance(n.value, ast.Constant) \
                and isinstance(n.value.value, int) and not isinstance(n.value.value, bool):
            out[n.targets[0].id] = n.value.value
    return out


ALLOWED_IMPORTS = {"__future__", "collections", "dataclasses", "typing", "mypy_extensions", "pyjelly.errors", "pyjelly.options"}



CTX_STR = ("Context (S : strops).\nNotation K := (carrier S).\nNotation str_eqb := (s_eqb S).\nNotation str_is_empty := (s_is_empty S).\n"
           "Notation str_empty := (s_empty S).\nNotation str_add := (s_add S).\nNotation str_rpartition := (s_rpartition S).\nNotation str_lower := (s_lower S).\n"
           "Notation str_lit := (s_lit S).")
CTX_TOKENS = re.compile(r"\b(K|str_eqb|str_is_empty|str_empty|str_add|str_rpartition|str_lit)\b")
UNITS = {
    # unit -> source file, items to translate (None = every class of the file; a (class, [methods]) pair selects
    # methods), whether the definitions are parametric in the string structure S, the units it builds on
    "lookup_enc": {"src": "pyjelly/serialize/lookup.py", "items": None, "ctx": True, "uses": [], "gen": "LookupEncGen"},
    "lookup_dec": {"src": "pyjelly/parse/lookup.py", "items": None, "ctx": True, "uses": [], "gen": "LookupDecGen"},
    "hint": {"src": "pyjelly/parse/ioutils.py", "items": ["delimited_jelly_hint"], "ctx": False, "uses": [], "gen": "HintGen"},
    "options": {"src": "pyjelly/options.py", "ctx": True, "uses": [], "gen": "OptionsGen",
                "items": ["TRIPLES_ONLY_LOGICAL_TYPES", "validate_type_compatibility", "LookupPreset", "StreamTypes", "StreamParameters"]},
    "flows": {"src": "pyjelly/serialize/flows.py", "ctx": True, "uses": [], "gen": "FlowsGen",
              "items": [{"family": "FrameFlow", "userlist": True,
                         "classes": ["FrameFlow", "ManualFrameFlow", "BoundedFrameFlow", "FlatTriplesFrameFlow", "FlatQuadsFrameFlow",
                                     "GraphsFrameFlow", "DatasetsFrameFlow"]},
                        "FLOW_DISPATCH", "flow_for_type"]},
    "streams": {"src": "pyjelly/serialize/streams.py", "ctx": True, "uses": ["lookup_enc", "options", "encode", "flows"], "gen": "StreamsGen",
                "items": ["SerializerOptions",
                          {"family": "Stream", "classes": ["Stream", "TripleStream", "QuadStream", "GraphStream"]}]},
    "decode": {"src": "pyjelly/parse/decode.py", "ctx": True, "uses": ["lookup_dec", "options"], "gen": "DecodeGen",
               "items": ["ParserOptions", "options_from_frame",
                         # (the source annotates the decoded IRI handed to namespace_declaration as `str`; it is what adapter.iri returned)
                         {"opaque": "Adapter", "fields": {"options": "ParserOptions"}, "param_types": {"namespace_declaration.iri": "Any"}},
                         {"family": "Decoder", "classes": ["Decoder"],
                          "skip_fields": ["row_handlers", "term_handlers"],
                          "field_types": {"repeated_terms": "dict[str, object]"},
                          "param_types": {"decode_row.row": "pbany", "decode_term.term": "pbany"},
                          "inline": ["decode_statement"],
                          # (the source annotates the list of decoded terms as `Any`)
                          "return_types": {"decode_statement": "list[Any]"},
                          "yield_types": {"iter_rows": "Any | None"},
                          "skip": []}]},
    # the generic integration's adapters (what the Decoder calls back): the Adapter base class of decode.py and its five
    # subclasses as one family; the terms of generic_sink.py as the dynamic values
    "generic_sink": {"src": "pyjelly/integrations/generic/generic_sink.py", "ctx": True, "uses": [], "gen": "GenericSinkGen",
                     "items": [{"dyn": "obj", "src": "pyjelly/integrations/generic/generic_sink.py",
                                "classes": ["IRI", "BlankNode", "Literal", "Triple", "Quad", "Prefix"], "singletons": {"DefaultGraph": "_DefaultGraph"}},
                               ("GenericStatementSink", ["__init__", "add", "bind", "__iter__", "namespaces", "identifier", "store", "is_triples_sink"])]},
    "generic_parse": {"src": "pyjelly/integrations/generic/parse.py", "ctx": True, "uses": ["lookup_dec", "options", "decode", "generic_sink"],
                      "gen": "GenericParseGen",
                      "defines": ["Adapter", "Adapter_options", "Adapter_iri", "Adapter_default_graph", "Adapter_bnode", "Adapter_literal", "Adapter_triple",
                                  "Adapter_quad", "Adapter_graph_start", "Adapter_graph_end", "Adapter_namespace_declaration", "Adapter_quoted_triple",
                                  "Adapter_frame"],
                      "items": [
                          {"dyn": "obj", "imported": True, "src": "pyjelly/integrations/generic/generic_sink.py",
                           "classes": ["IRI", "BlankNode", "Literal", "Triple", "Quad", "Prefix"], "singletons": {"DefaultGraph": "_DefaultGraph"}},
                          {"function": "_adapter_missing", "src": "pyjelly/parse/decode.py"},
                          {"family": "Adapter", "extra_src": ["pyjelly/parse/decode.py"], "anchor": "GenericStatementSinkAdapter",
                           "classes": ["Adapter", "GenericStatementSinkAdapter", "GenericTriplesAdapter", "GenericQuadsBaseAdapter",
                                       "GenericQuadsAdapter", "GenericGraphsAdapter"],
                           "skip_fields": ["parsing_mode"], "drop_params": ["parsing_mode"], "then_deferred": True,
                           # (the source annotates the decoded IRI handed to namespace_declaration as `str` in the base class)
                           "param_types": {"namespace_declaration.iri": "Any"}},
                          "parse_triples_stream", "parse_quads_stream", "parse_jelly_flat", "parse_jelly_grouped", "parse_jelly_to_graph"],
                      "functions": {
                          # frame_metadata (a ContextVar the caller may pass to receive each frame's metadata) is left out: None
                          "parse_triples_stream": {"fixed_none": ["frame_metadata"], "param_types": {"frames": "list[jelly.RdfStreamFrame]"},
                                                   "returns": "Generator[list[Any | None]]"},
                          "parse_quads_stream": {"fixed_none": ["frame_metadata"], "param_types": {"frames": "list[jelly.RdfStreamFrame]"},
                                                 "returns": "Generator[list[Any | None]]"},
                          # the flat parser once options and frames have been read (get_options_and_frames: IO, not translated):
                          # called with frames and options given, it does not touch inp
                          "parse_jelly_flat": {"unused": ["inp"], "param_types": {"frames": "list[jelly.RdfStreamFrame]", "options": "ParserOptions",
                                                                                  "logical_type_strict": "bool"},
                                               "returns": "Generator[Any | None]"},
                          # the grouped parser: options and frames as get_options_and_frames (IO) returned them are handed in; the sink factory
                          # and the metadata variable at their defaults
                          "parse_jelly_grouped": {"unused": ["inp"], "fixed_none": ["frame_metadata"], "factories": {"sink_factory": "GenericStatementSink"},
                                                  "given": {"get_options_and_frames": [["options", "ParserOptions"], ["frames", "list[jelly.RdfStreamFrame]"]]},
                                                  "param_types": {"logical_type_strict": "bool"}, "ignore_locals": ["lt_name"],
                                                  "outside_if_raises": ["parse_triples_stream", "parse_quads_stream"],
                                                  "returns": "Generator[GenericStatementSink]"},
                          "parse_jelly_to_graph": {"unused": ["inp"], "factories": {"sink_factory": "GenericStatementSink"},
                                                   "given": {"get_options_and_frames": [["options", "ParserOptions"], ["frames", "list[jelly.RdfStreamFrame]"]]}}}},
    # the generic integration's term encoder: the two methods TermEncoder leaves to its subclasses, over the generic terms
    "generic_serialize": {"src": "pyjelly/integrations/generic/serialize.py", "ctx": True,
                          "uses": ["lookup_enc", "options", "encode", "flows", "streams", "generic_sink"],
                          # the drivers: a GenericStatementSink as data (the generator alternative of the annotation is not translated)
                          "functions": {
                              "namespace_declarations": {},
                              "triples_stream_frames": {"param_types": {"data": "GenericStatementSink", "stream": "Stream"}},
                              "quads_stream_frames": {"param_types": {"data": "GenericStatementSink", "stream": "Stream"}},
                              "graphs_stream_frames": {"param_types": {"data": "GenericStatementSink", "stream": "Stream"}},
                              "split_to_graphs": {"param_types": {"data": "list[Any]"}},
                              "stream_frames": {"singledispatch": True, "param_types": {"data": "GenericStatementSink", "stream": "Stream"}},
                              # the other alternative of the drivers' `data` union: a generator of statements (a list here)
                              "triples_stream_frames_gen": {"param_types": {"data": "list[Any]", "stream": "Stream"}},
                              "quads_stream_frames_gen": {"param_types": {"data": "list[Any]", "stream": "Stream"}, "raises_call": {"namespace_declarations": "AttributeError"}},
                              "graphs_stream_frames_gen": {"param_types": {"data": "list[Any]", "stream": "Stream"}, "raises_call": {"namespace_declarations": "AttributeError"}},
                              "stream_frames_gen": {"singledispatch": True, "param_types": {"data": "list[Any]", "stream": "Stream"},
                                                    "impl_map": {"triples_stream_frames": "triples_stream_frames_gen", "quads_stream_frames": "quads_stream_frames_gen",
                                                                 "graphs_stream_frames": "graphs_stream_frames_gen"}},
                              "flat_stream_to_frames": {"param_types": {"statements": "Iterator[Any]", "options": "SerializerOptions | None"},
                                                        "calls": {"stream_frames": "stream_frames_gen"}},
                              "grouped_stream_to_frames": {"param_types": {"sink_generator": "list[GenericStatementSink]", "options": "SerializerOptions | None"},
                                                           "local_types": {"stream": "Stream | None"}}},
                          "gen": "GenericSerializeGen", "explicit_T": True,
                          "variants": {"triples_stream_frames_gen": {"of": "triples_stream_frames"}, "quads_stream_frames_gen": {"of": "quads_stream_frames"},
                                       "graphs_stream_frames_gen": {"of": "graphs_stream_frames"}, "stream_frames_gen": {"of": "stream_frames"}},
                          "items": [
                              {"dyn": "obj", "imported": True, "src": "pyjelly/integrations/generic/generic_sink.py",
                               "classes": ["IRI", "BlankNode", "Literal", "Triple", "Quad", "Prefix"], "singletons": {"DefaultGraph": "_DefaultGraph"}},
                              {"extend": "TermEncoder", "subclass": "GenericSinkTermEncoder", "base_src": "pyjelly/serialize/encode.py",
                               "methods": ["encode_spo", "encode_graph"], "inline": ["get_iri_field", "get_literal_field", "get_triple_field"],
                               "recursive": {"method": "encode_spo", "through": ["TermEncoder_encode_quoted_triple"], "fuel": "term"}},
                              "namespace_declarations", "triples_stream_frames", "quads_stream_frames", "split_to_graphs", "graphs_stream_frames",
                              "guess_options", "guess_stream", "stream_frames", "grouped_stream_to_frames", "flat_stream_to_frames"]},
    # the rdflib integration's term encoder over rdflib's term objects as SPECIFIED here (URIRef, BNode, Literal: str subclasses; what
    # str(x), x.language, x.datatype give; `==`: same class and same string, for a Literal also equal language tags up to case and
    # equal datatypes; rdflib.graph.DATASET_DEFAULT_GRAPH_ID).  The specification is compared with the real rdflib by primcheck.py
    "rdflib_serialize": {"src": "pyjelly/integrations/rdflib/serialize.py", "ctx": True, "uses": ["lookup_enc", "options", "encode", "flows", "streams"],
                         "gen": "RdflibSerializeGen", "explicit_T": True,
                         # the drivers, once per kind of `data` (the stand-ins Graph / Dataset of translate/stubs/rdflib_containers.py, or a generator):
                         # the unsuffixed names take a Graph (triples) / a Dataset (quads, graphs)
                         "static_isinstance": [("Graph", "Graph", True), ("Graph", "Dataset", False), ("Dataset", "Graph", True), ("Dataset", "Dataset", True)],
                         "variants": {"namespace_declarations_ds": {"of": "namespace_declarations"}, "guess_options_ds": {"of": "guess_options"},
                                      "triples_stream_frames_ds": {"of": "triples_stream_frames"}, "triples_stream_frames_gen": {"of": "triples_stream_frames"},
                                      "quads_stream_frames_gen": {"of": "quads_stream_frames"},
                                      },
                         "functions": {
                             "guess_options": {"param_types": {"sink": "Graph"}},
                             "guess_options_ds": {"param_types": {"sink": "Dataset"}},
                             "namespace_declarations": {"param_types": {"store": "Graph", "stream": "Stream"}},
                             "namespace_declarations_ds": {"param_types": {"store": "Dataset", "stream": "Stream"}},
                             "triples_stream_frames": {"param_types": {"data": "Graph", "stream": "Stream"}},
                             "triples_stream_frames_ds": {"param_types": {"data": "Dataset", "stream": "Stream"}, "calls": {"namespace_declarations": "namespace_declarations_ds"}},
                             "triples_stream_frames_gen": {"param_types": {"data": "list[list[Any]]", "stream": "Stream"}},
                             "quads_stream_frames": {"param_types": {"data": "Dataset", "stream": "Stream"}, "calls": {"namespace_declarations": "namespace_declarations_ds"}},
                             "quads_stream_frames_gen": {"param_types": {"data": "list[list[Any]]", "stream": "Stream"}, "raises_call": {"namespace_declarations": "AttributeError"}},
                             "graphs_stream_frames": {"param_types": {"data": "Dataset", "stream": "Stream"}, "calls": {"namespace_declarations": "namespace_declarations_ds"}},
                             # stream_frames by kind of data: a Graph goes to the TripleStream implementation only (the others ask it for .quads() / .graphs())
                             "stream_frames": {"singledispatch": True, "param_types": {"data": "Dataset", "stream": "Stream"},
                                               "impl_map": {"triples_stream_frames": "triples_stream_frames_ds"}},
                             },
                         "items": [
                             {"dyn": "obj", "foreign": "rdflib", "module": "rdflib",
                              "classes": {"URIRef": [("value", "str")], "BNode": [("value", "str")],
                                          "Literal": [("lex", "str"), ("language", ("opt", "str")), ("datatype", ("opt", "str"))]},
                              "eq_lower": [("Literal", "language")],
                              "str": {"URIRef": "value", "BNode": "value", "Literal": "lex"},
                              # x.datatype is a URIRef or None: the field stands for its string, `x.datatype and str(x.datatype)` is the field
                              "str_valued": ["datatype"],
                              "constants": {"DATASET_DEFAULT_GRAPH_ID": ("URIRef", "urn:x-rdflib:default")}},
                             {"stub_class": "Graph", "src": "rdflib_containers.py", "methods": ["__init__", "__iter__", "namespaces"]},
                             {"stub_class": "Dataset", "src": "rdflib_containers.py", "methods": ["__init__", "graphs", "quads", "namespaces"]},
                             {"extend": "TermEncoder", "subclass": "RDFLibTermEncoder", "base_src": "pyjelly/serialize/encode.py",
                              "methods": ["encode_spo", "encode_graph"], "inline": ["get_iri_field", "get_literal_field", "get_triple_field"]},
                             "namespace_declarations", "triples_stream_frames", "quads_stream_frames", "graphs_stream_frames", "stream_frames", "guess_options"]},
    # the rdflib integration's adapters and flat parser over rdflib's term objects as SPECIFIED (URIRef / BNode: the string given;
    # Literal: the specified constructor rdflib_Literal, dyn.py) and the tuple classes Triple / Quad / Prefix of the file itself
    "rdflib_parse": {"src": "pyjelly/integrations/rdflib/parse.py", "ctx": True, "uses": ["lookup_dec", "options", "decode"],
                     "gen": "RdflibParseGen",
                     "defines": ["Adapter", "Adapter_options", "Adapter_iri", "Adapter_default_graph", "Adapter_bnode", "Adapter_literal", "Adapter_triple",
                                 "Adapter_quad", "Adapter_graph_start", "Adapter_graph_end", "Adapter_namespace_declaration", "Adapter_quoted_triple",
                                 "Adapter_frame"],
                     "items": [
                         {"dyn": "obj", "foreign": "rdflib", "module": "rdflib",
                          "classes": {"URIRef": [("value", "str")], "BNode": [("value", "str")],
                                      "Literal": [("lex", "str"), ("language", ("opt", "str")), ("datatype", ("opt", "str"))]},
                          "eq_lower": [("Literal", "language")],
                          "str": {"URIRef": "value", "BNode": "value", "Literal": "lex"},
                          "str_valued": ["datatype"],
                          "constants": {"DATASET_DEFAULT_GRAPH_ID": ("URIRef", "urn:x-rdflib:default")},
                          "any_names": ["Node", "GraphName"],
                          "tuple_src": "pyjelly/integrations/rdflib/parse.py", "tuple_classes": ["Triple", "Quad", "Prefix"],
                          "constructors": {"Literal": {"function": "rdflib_Literal", "fixed": {"normalize": False},
                                                       "params": [("lexical_or_value", "str"), ("lang", ("opt", "str")), ("datatype", ("opt", "str"))]}}},
                         {"function": "_adapter_missing", "src": "pyjelly/parse/decode.py"},
                         {"family": "Adapter", "extra_src": ["pyjelly/parse/decode.py"], "anchor": "RDFLibAdapter",
                          "classes": ["Adapter", "RDFLibAdapter", "RDFLibTriplesAdapter", "RDFLibQuadsBaseAdapter",
                                      "RDFLibQuadsAdapter", "RDFLibGraphsAdapter"],
                          "skip_fields": ["parsing_mode"], "drop_params": ["parsing_mode"], "then_deferred": True,
                          # (the decoder hands namespace_declaration the IRI already converted by self.iri: a URIRef, annotated `str`)
                          # and graph_start the decoded graph name: a term, annotated `str` (as is the field that keeps it)
                          "param_types": {"namespace_declaration.iri": "Any", "graph_start.graph_id": "Any"},
                          "field_types": {"_graph_id": "Any | None"}},
                         "parse_triples_stream", "parse_quads_stream", "parse_jelly_flat"],
                     "functions": {
                         "parse_triples_stream": {"fixed_none": ["frame_metadata"], "param_types": {"frames": "list[jelly.RdfStreamFrame]"},
                                                  "returns": "Generator[list[Any | None]]"},
                         "parse_quads_stream": {"fixed_none": ["frame_metadata"], "param_types": {"frames": "list[jelly.RdfStreamFrame]"},
                                                "returns": "Generator[list[Any | None]]"},
                         "parse_jelly_flat": {"unused": ["inp"], "param_types": {"frames": "list[jelly.RdfStreamFrame]", "options": "ParserOptions",
                                                                                 "logical_type_strict": "bool"},
                                              "returns": "Generator[Any | None]"}}},
    "encode": {"src": "pyjelly/serialize/encode.py", "ctx": True, "uses": ["lookup_enc", "options"], "gen": "EncodeGen",
               "items": ["split_iri", ("TermEncoder", ["__init__", "start_statement", "_entry_index", "encode_iri_indices", "encode_iri",
                                                       "encode_default_graph", "encode_literal", "set_bnode_field", "encode_quoted_triple"], ["encode_spo", "encode_graph"]),
                         "encode_namespace_declaration", "encode_options", "encode_spo", "encode_triple", "encode_quad"]},
}


class ForeignNames(ast.NodeTransformer):
    """The names of a specified library in the source: <module>.<Class> is the class; a constant of the library is the object the
    specification says; `x.f and str(x.f)` for a field f that stands for the string of what it holds is x.f."""

    def __init__(self, spec: dict):
        self.spec = spec

    def visit_Attribute(self, n):
        self.generic_visit(n)
        if isinstance(n.value, ast.Name) and n.value.id == self.spec["module"] and n.attr in self.spec["classes"]:
            return ast.copy_location(ast.Name(id=n.attr, ctx=n.ctx), n)
        return n

    def visit_Name(self, n):
        c = self.spec.get("constants", {}).get(n.id)
        if c is not None and isinstance(n.ctx, ast.Load):
            return ast.copy_location(ast.Call(func=ast.Name(id=c[0], ctx=ast.Load()), args=[ast.Constant(value=c[1])], keywords=[]), n)
        return n

    def visit_BoolOp(self, n):
        self.generic_visit(n)
        if isinstance(n.op, ast.And) and len(n.values) == 2:
            a, b = n.values
            if isinstance(a, ast.Attribute) and a.attr in self.spec.get("str_valued", ()) and isinstance(b, ast.Call) and isinstance(b.func, ast.Name) \
                    and b.func.id == "str" and len(b.args) == 1 and not b.keywords and ast.unparse(b.args[0]) == ast.unparse(a):
                return a
        return n


def singledispatch_body(tr, mod: ast.Module, node: ast.FunctionDef, orig: str, impl_map: dict) -> ast.FunctionDef:
    """`@singledispatch def f(x, ..): <default>` with `@f.register(C) def f_C(x, ..)` implementations (classes of one family): f as
    the choice functools.singledispatch makes -- the implementation registered for the nearest class in type(x)'s MRO, i.e. an
    isinstance chain from the most specific registered class to the least, then the default body.  (A generator when the
    implementations are: `yield from f_C(x, ..)`.)"""
    if [ast.unparse(d) for d in node.decorator_list] != ["singledispatch"]:
        bad(node, "the unit expects @singledispatch")
    regs = []
    for m in mod.body:
        if isinstance(m, ast.FunctionDef):
            for d in m.decorator_list:
                if isinstance(d, ast.Call) and ast.unparse(d.func) == f"{orig}.register" and len(d.args) == 1 and isinstance(d.args[0], ast.Name) and not d.keywords:
                    regs.append((d.args[0].id, impl_map.get(m.name, m.name)))  # (a copy of the dispatcher calls the copies of the implementations)
                elif ast.unparse(d).startswith(f"{orig}.register"):
                    bad(m, "register form")
    if not regs:
        bad(node, "no registered implementation")
    for c, fn in regs:
        if c not in getattr(tr, "class_tags", {}) or fn not in tr.functions:
            bad(node, f"{fn} registered for {c}: the class is not of a translated family or the function is not translated (list it before {node.name})")
    root = tr.class_tags[regs[0][0]][0]
    fam = tr.families[root]

    def depth(c):
        n_, d_ = c, 0
        while fam.parent.get(n_):
            n_, d_ = fam.parent[n_], d_ + 1
        return d_
    regs.sort(key=lambda r_: -depth(r_[0]))
    params = [a.arg for a in node.args.args]
    is_gen = isinstance(tr.functions[regs[0][1]][1], tuple) and tr.functions[regs[0][1]][1][0] == "gen"
    body: list = list(node.body)  # the default implementation
    for c, fn in reversed(regs):
        call = ast.Call(func=ast.Name(id=fn, ctx=ast.Load()), args=[ast.Name(id=p_, ctx=ast.Load()) for p_ in params], keywords=[])
        then = [ast.Expr(value=ast.YieldFrom(value=call)), ast.Return(value=None)] if is_gen else [ast.Return(value=call)]
        test = ast.Call(func=ast.Name(id="isinstance", ctx=ast.Load()), args=[ast.Name(id=params[0], ctx=ast.Load()), ast.Name(id=c, ctx=ast.Load())], keywords=[])
        body = [ast.If(test=test, body=then, orelse=body)]
    new = ast.FunctionDef(name=node.name, args=node.args, body=body, decorator_list=[], returns=node.returns, type_comment=None)
    ast.copy_location(new, node)
    ast.fix_missing_locations(new)
    return new


class FixedParams(ast.NodeTransformer):
    """Parameters the unit fixes: `f(**{"k": k} if k is not None else {})` with k fixed to None is f(); `factory()` is `C()`."""

    def __init__(self, fixed: set, factories: dict):
        self.fixed, self.factories = fixed, factories

    def visit_Call(self, n):
        self.generic_visit(n)
        if isinstance(n.func, ast.Name) and n.func.id in self.factories and not n.args and not n.keywords:
            return ast.copy_location(ast.Call(func=ast.Name(id=self.factories[n.func.id], ctx=ast.Load()), args=[], keywords=[]), n)
        kws = []
        for kw in n.keywords:
            if kw.arg is None:
                v = kw.value
                if isinstance(v, ast.IfExp) and isinstance(v.test, ast.Compare) and len(v.test.ops) == 1 and isinstance(v.test.left, ast.Name) \
                        and v.test.left.id in self.fixed and isinstance(v.test.comparators[0], ast.Constant) and v.test.comparators[0].value is None:
                    v = v.orelse if isinstance(v.test.ops[0], ast.IsNot) else v.body if isinstance(v.test.ops[0], ast.Is) else v
                if isinstance(v, ast.Dict) and all(isinstance(k_, ast.Constant) and isinstance(k_.value, str) for k_ in v.keys):
                    kws += [ast.keyword(arg=k_.value, value=x_) for k_, x_ in zip(v.keys, v.values)]
                    continue
            kws.append(kw)
        n.keywords = kws
        return n


class DropLocal(ast.NodeTransformer):
    def __init__(self, name: str):
        self.name = name

    def visit_Assign(self, n):
        if len(n.targets) == 1 and isinstance(n.targets[0], ast.Name) and n.targets[0].id == self.name:
            return None
        return n


def item_name(n):
    if isinstance(n, (ast.ClassDef, ast.FunctionDef)):
        return n.name
    if isinstance(n, ast.Assign) and len(n.targets) == 1 and isinstance(n.targets[0], ast.Name):
        return n.targets[0].id
    if isinstance(n, ast.AnnAssign) and isinstance(n.target, ast.Name):
        return n.target.id
    return None


def ctx_analysis(out: list[str], imported: dict[str, list[str]], any_ctx: bool, inherited: list[tuple[str, str]] = (), dyn: bool = False) -> tuple[dict[str, list[str]], list[str], list[tuple[str, str]]]:
    """Which section variables each definition depends on -- they become its leading arguments, in declaration
    order, once the section is closed (S first; T is implicit; then any_eqb and the virtual methods).
    Returns (dependencies of every definition, record constructors / projections for which S is made implicit,
    the extra context declarations of this unit)."""
    order = ["S"] + (["T", "any_eqb"] if any_ctx else [])
    var_deps: dict[str, set[str]] = {"S": {"S"}, "T": {"T"}, "any_eqb": {"T", "any_eqb"}}
    decls: list[tuple[str, str]] = [("T", "Context {T : Type} (any_eqb : T -> T -> bool).")] if any_ctx else []
    deps: dict[str, set[str]] = {}
    implicit: list[str] = []
    implicit_types: set[str] = {"T"}
    for v, decl in inherited:  # virtual methods declared by the units this one builds on: section variables here too
        if v == "T":
            continue
        order.append(v)
        var_deps[v] = {"S", "T"}
        decls.append((v, decl))

    def scan(body: str) -> set[str]:
        d: set[str] = set()
        if CTX_TOKENS.search(body):
            d.add("S")
        if re.search(r"\bT\b", body):
            d.add("S" if dyn else "T")  # in a unit with dynamic values T is the generated type obj, which is over K
        for v in order:
            if v not in ("S", "T") and re.search(r"(?<![\w.])" + re.escape(v) + r"\b", body):
                d |= var_deps[v] | {v}
        for n, dn in imported.items():
            if re.search(r"(?<![\w.])" + re.escape(n) + r"\b", body):
                d |= set(dn)
        for n, dn in deps.items():
            if re.search(r"(?<![\w.])" + re.escape(n) + r"\b", body):
                d |= dn
        return d

    for item in out:
        mt = re.match(r"Context \{(\w+) : Type\}\.$", item)
        if mt:
            v = mt.group(1)
            var_deps[v] = {v}
            order.append(v)
            decls.append((v, item))
            implicit_types.add(v)
            continue
        mc = re.match(r"Context \((\w+) : (.*)\)\.$", item, flags=re.S)
        if mc:
            v = mc.group(1)
            var_deps[v] = scan(mc.group(2))
            order.append(v)
            decls.append((v, item))
            continue
        m = re.match(r"(Record|Definition|Inductive|Fixpoint) (\w+)", item)
        if not m:
            continue
        d = scan(item[m.end():])
        if m.group(1) == "Inductive" and d:
            for c in re.findall(r"^\| (\w+)", item, flags=re.M):  # constructors
                deps[c] = d
                if dyn and d == {"S"}:
                    implicit.append(c)  # O_IRI {S}: usable in patterns where the type is imported
        if not d:
            continue
        deps[m.group(2)] = d
        if m.group(1) == "Record":
            mk = re.search(r":= (\w+) \{", item).group(1)
            projs = re.findall(r"[{;] (\w+) :", item)
            for x in [mk] + projs:
                deps[x] = d
            implicit += [mk] + projs
    ordered = {n: [v for v in order if v in d] for n, d in deps.items()}
    ctx_analysis.implicit_types = set(implicit_types)
    return ordered, implicit, decls


def run_unit(repo: Path, unit: str) -> tuple["Translator", set[str], list[str]]:
    """Translate one unit (and, for their signatures, the units it builds on)."""
    import pbdesc

    u = UNITS[unit]
    rel = u["src"]
    f = repo / rel
    ENUM_TYPES.clear()
    ENUM_TYPES.update(pbdesc.enums(repo / "pyjelly/jelly/rdf_pb2.py"))
    MESSAGES.clear()
    MESSAGES.update(pbdesc.messages(repo / "pyjelly/jelly/rdf_pb2.py"))
    opts = module_consts(repo / "pyjelly/options.py")
    tr = Translator(dict(opts) if rel == "pyjelly/options.py" else {})
    for n in ast.parse((repo / "pyjelly/options.py").read_text()).body:
        if isinstance(n, ast.Assign) and len(n.targets) == 1 and isinstance(n.targets[0], ast.Name) and isinstance(n.value, ast.Constant) \
                and isinstance(n.value.value, str) and n.value.value.isascii():
            tr.str_consts[n.targets[0].id] = n.value.value
    imported: dict[str, list[str]] = {}
    tr.abbrev_s: list[str] = []      # imported definitions that depend on S only
    tr.abbrev_more: list[str] = []   # ... on further section variables (declared in between)
    tr.import_decls: list[tuple[str, str]] = []
    tr.import_info: dict[str, tuple[str, list[str]]] = {}
    tr.deferred_abbrev: list[str] = []
    ext_specs = [i for i in (u["items"] or []) if isinstance(i, dict) and "extend" in i]
    tr.class_alias = {s_["subclass"]: s_["extend"] for s_ in ext_specs}

    defined_virtuals = {f"{s_['extend']}_{m_}" for s_ in ext_specs for m_ in s_["methods"]} | ({"any_eqb"} if ext_specs else set())
    defined_virtuals |= set(u.get("defines", ()))  # section variables of the units built on (an opaque class, its methods) that this unit defines
    tr.defined_virtuals = defined_virtuals
    dyn_unit = any(isinstance(i, dict) and "dyn" in i for i in (u["items"] or []))
    for dep in u["uses"]:
        dtr, dinfo = run_unit(repo, dep)
        only = u.get("uses_only", {}).get(dep)  # import only the named classes of that unit (none of its section variables)
        if only is not None:
            tr.classes.update({c: v for c, v in dtr.classes.items() if c in only})
            for n in sorted(dinfo["deps"]):
                if not any(n == c or n == f"mk_{c}" or n.startswith(f"{c}_") or n.startswith(f"set_{c}_") for c in only):
                    continue
                if n in dinfo["implicit"] and dinfo["deps"][n] == ["S"]:
                    continue
                vs = dinfo["deps"][n]
                if vs != ["S"]:
                    bad(None, f"{dep}.{n} depends on section variables: not importable alone")
                tr.abbrev_s.append(f"Notation {n} := ({UNITS[dep]['gen']}.{n} S).")
                imported[n] = vs
            continue
        tr.classes.update(dtr.classes)
        tr.functions.update(dtr.functions)
        for attr in ("families", "class_tags", "ctor_params"):
            if hasattr(dtr, attr):
                cur = getattr(tr, attr, {})
                cur.update(getattr(dtr, attr))
                setattr(tr, attr, cur)
        tr.dict_consts.update(dtr.dict_consts)
        for v, decl in dinfo["decls"]:
            if v not in [x for x, _ in tr.import_decls] and v not in defined_virtuals and not (v == "T" and (ext_specs or dyn_unit)):
                tr.import_decls.append((v, decl))
        for n in sorted(dinfo["deps"]):
            if n in dinfo["implicit"] and dinfo["deps"][n] == ["S"]:
                continue  # S is implicit there
            vs = dinfo["deps"][n]
            explicit = [v for v in vs if v != "T"]
            line = f"Notation {n} := ({UNITS[dep]['gen']}.{n} {' '.join(explicit)})."
            if set(vs) & defined_virtuals and any(v in dinfo.get("implicit_types", ()) for v in vs):
                # the type parameters too are defined here (T := obj, the opaque class := this unit's record): given explicitly
                line = f"Notation {n} := (@{UNITS[dep]['gen']}.{n} {' '.join('obj' if v == 'T' and dyn_unit else v for v in vs)})."
            elif "T" in vs and dyn_unit and "T" in dinfo.get("implicit_types", ()) and not any(v != "T" and v in dinfo.get("implicit_types", ()) for v in vs) \
                    and not set(vs) & defined_virtuals and u.get("explicit_T"):
                line = f"Notation {n} := (@{UNITS[dep]['gen']}.{n} {' '.join('obj' if v == 'T' else v for v in vs)})."  # T := obj, said outright
            tr.import_info[n] = (UNITS[dep]["gen"], vs)
            if set(vs) & defined_virtuals:
                tr.deferred_abbrev.append(line)  # after the definitions of the parameters it takes (extend.py)
            else:
                (tr.abbrev_s if vs == ["S"] else tr.abbrev_more).append(line)
            imported[n] = vs
        if dtr.uses_any or any(v == "T" for v, _ in dinfo["decls"]):
            tr.uses_any = tr.uses_any  # the importing unit declares T only if it needs it (see translate_unit)
    # re-establish this unit's globals (a dependency run overwrote them)
    STATIC_ISINSTANCE.clear()
    STATIC_ISINSTANCE.update({(a_, b_): v_ for a_, b_, v_ in u.get("static_isinstance", ())})
    TYPE_ALIASES.clear()
    INT_ENUMS.clear()
    DYN.clear()
    DYN_SINGLETONS.clear()
    DYN_ANY_NAMES.clear()
    NAMEDTUPLE_DYN.clear()
    items = u["items"]
    items = None if items is None else [i for i in items if not (isinstance(i, dict) and "extend" in i)]
    dyn_specs = [i for i in (items or []) if isinstance(i, dict) and "dyn" in i]
    ext_funcs = [i for i in (items or []) if isinstance(i, dict) and "function" in i]
    items = None if items is None else [i for i in items if not (isinstance(i, dict) and ("dyn" in i or "function" in i or "stub_class" in i))]
    tr.func_specs = u.get("functions", {})
    for spec in dyn_specs:
        import dyn
        tr.out.append(f"(* ---- dynamic values ({spec.get('src', 'specified: ' + str(spec.get('foreign')))}): {', '.join(spec['classes'])}; {', '.join(spec.get('singletons', {}))} *)")
        if spec.get("foreign"):
            if spec.get("constructors"):
                tr.out.append("Notation str_langtag_ok := (s_langtag_ok S).\nNotation str_rdflib_lex := (s_rdflib_lex S).")
            dyn.add_foreign_dyn(tr, spec, repo)
            tr.dyn_count = len(tr.out)
            tr.foreign = spec
        elif spec.get("imported"):
            n0 = len(tr.out)
            dyn.add_dyn(tr, repo, spec)  # fills the tables; the definitions are those of the unit imported from
            del tr.out[n0 - 1:]
            tr.abbrev_s.append("Notation T := obj.")
        else:
            dyn.add_dyn(tr, repo, spec)
            tr.dyn_count = len(tr.out)
    for spec in [i for i in (u["items"] or []) if isinstance(i, dict) and "stub_class" in i]:
        # a class of a library the unit does not translate, SPECIFIED by a stand-in written in the subset (translate/stubs/): translated like a
        # class of the repository; what it says about the library is trusted and compared with the real thing by the cross-check
        sp = Path(__file__).resolve().parent / "stubs" / spec["src"]
        node_ = next((n for n in ast.parse(sp.read_text()).body if isinstance(n, ast.ClassDef) and n.name == spec["stub_class"]), None)
        if node_ is None:
            bad(None, f"stubs/{spec['src']} does not define {spec['stub_class']}")
        tr.method_selection[node_.name] = list(spec["methods"])
        tr.virtual_methods[node_.name] = []
        tr.out.append(f"(* ---- class {node_.name} (translate/stubs/{spec['src']}: the specification of a class of a library) *)")
        tr.add_class(node_)
    for spec in ext_funcs:  # a function of another module that the unit's classes call
        fn = next((n for n in ast.parse((repo / spec["src"]).read_text()).body if isinstance(n, ast.FunctionDef) and n.name == spec["function"]), None)
        if fn is None:
            bad(None, f"{spec['src']} no longer defines {spec['function']}")
        tr.out.append(f"(* ---- def {fn.name} ({spec['src']}) *)")
        add_function(tr, fn)
    tr.consts.update(module_consts(f))
    opaque_specs = {i["opaque"]: i for i in (items or []) if isinstance(i, dict) and "opaque" in i}
    items = None if items is None else [i for i in items if not (isinstance(i, dict) and "opaque" in i)] + list(opaque_specs)
    fam_specs = [i for i in (items or []) if isinstance(i, dict)]
    fam_classes = {c: spec for spec in fam_specs for c in spec["classes"]}
    items = None if items is None else [i for i in items if not isinstance(i, dict)] + [spec.get("anchor", spec["classes"][0]) for spec in fam_specs]
    names = None if items is None else [i if isinstance(i, str) else i[0] for i in items]
    for i in items or []:
        if not isinstance(i, str):
            tr.method_selection[i[0]] = i[1] + (i[2] if len(i) > 2 else [])
            tr.virtual_methods[i[0]] = i[2] if len(i) > 2 else []
    for n in ast.parse(f.read_text()).body:
        if isinstance(n, ast.ClassDef) and [ast.unparse(b) for b in n.bases] == ["IntEnum"]:
            INT_ENUMS[n.name] = {st.targets[0].id: st.value.value for st in n.body
                                 if isinstance(st, ast.Assign) and isinstance(st.targets[0], ast.Name) and isinstance(st.value, ast.Constant)}
    mod = ast.parse(f.read_text())
    if getattr(tr, "foreign", None):
        mod = ForeignNames(tr.foreign).visit(mod)
        ast.fix_missing_locations(mod)
    chosen = []
    for n in mod.body:
        if isinstance(n, ast.AnnAssign) and isinstance(n.target, ast.Name) and ast.unparse(n.annotation) == "TypeAlias" and n.value is not None:
            TYPE_ALIASES[n.target.id] = n.value
        if isinstance(n, ast.ImportFrom) and n.module == "pyjelly.options":
            for a in n.names:
                if a.asname:
                    bad(n, "import alias")
                if a.name in opts:
                    tr.consts[a.name] = opts[a.name]
        if isinstance(n, ast.ImportFrom) and n.module and n.module.startswith("pyjelly.") and n.module != "pyjelly.options":
            mp = repo / (n.module.replace(".", "/") + ".py")
            if mp.exists():
                mc = module_consts(mp)
                for a in n.names:
                    if a.name in mc and not a.asname:
                        tr.consts[a.name] = mc[a.name]
                for cn in ast.parse(mp.read_text()).body:
                    if isinstance(cn, ast.AnnAssign) and isinstance(cn.target, ast.Name) and ast.unparse(cn.annotation) == "TypeAlias" \
                            and cn.value is not None and cn.target.id in [a.name for a in n.names]:
                        TYPE_ALIASES[cn.target.id] = cn.value  # a type alias of the module imported from
                    if isinstance(cn, ast.ClassDef) and [ast.unparse(b) for b in cn.bases] == ["IntEnum"] and cn.name in [a.name for a in n.names]:
                        INT_ENUMS[cn.name] = {st.targets[0].id: st.value.value for st in cn.body
                                              if isinstance(st, ast.Assign) and isinstance(st.targets[0], ast.Name) and isinstance(st.value, ast.Constant)}
        if names is None:
            # the whole file is the unit: nothing but imports, docstrings and classes may be there
            if isinstance(n, ast.ImportFrom):
                if n.module not in ALLOWED_IMPORTS:
                    bad(n, "import")
            elif isinstance(n, ast.ClassDef):
                chosen.append(n)
            elif not (isinstance(n, ast.Expr) and isinstance(n.value, ast.Constant)):
                bad(n, "module-level statement")
        elif item_name(n) in names:
            chosen.append(n)
    # a function translated a second time under another name, for another choice of its union-typed parameters (the spec of the new
    # name says which); calls inside the copy may be redirected to other copies
    for vname, vs in u.get("variants", {}).items():
        import copy
        src_fn = next((n for n in mod.body if isinstance(n, ast.FunctionDef) and n.name == vs["of"]), None)
        if src_fn is None:
            bad(None, f"{rel} no longer defines {vs['of']}")
        cp = copy.deepcopy(src_fn)
        cp.name = vname
        cp._variant_of = vs["of"]
        ren = vs.get("calls", {})
        for x in ast.walk(cp):
            if isinstance(x, ast.Call) and isinstance(x.func, ast.Name) and x.func.id in ren:
                x.func.id = ren[x.func.id]
        chosen.append(cp)
        names = list(names) + [vname]
    if names is not None:
        missing = set(names) - {item_name(n) for n in chosen}
        if missing:
            bad(None, f"{rel} no longer defines {sorted(missing)}")
        # dependencies first (an item that mentions another one comes after it)
        cn = {item_name(n) for n in chosen}

        def deps(n):
            parts = [n]
            if isinstance(n, ast.FunctionDef):
                parts = list(n.body) + [n.args]  # (not the decorators: `@f.register(C)` does not call f)
            got = {x.id for part in parts for x in ast.walk(part) if isinstance(x, ast.Name) and x.id in cn} - {item_name(n)}
            if isinstance(n, ast.FunctionDef):
                ren_ = u.get("functions", {}).get(n.name, {}).get("calls", {})
                got |= {ren_[x.id] for part in parts for x in ast.walk(part) if isinstance(x, ast.Name) and x.id in ren_} & cn
            if isinstance(n, ast.FunctionDef) and u.get("functions", {}).get(n.name, {}).get("singledispatch"):
                orig_ = getattr(n, "_variant_of", n.name)
                imap_ = u["functions"][n.name].get("impl_map", {})
                got |= {imap_.get(m.name, m.name) for m in mod.body if isinstance(m, ast.FunctionDef)
                        and any(ast.unparse(d).startswith(f"{orig_}.register") for d in m.decorator_list)} & cn
            return got

        ordered, rest = [], list(chosen)
        while rest:
            n = next((n for n in rest if deps(n) <= {item_name(m) for m in ordered}), None)
            if n is None:
                bad(None, "cyclic definitions")
            rest.remove(n)
            ordered.append(n)
        chosen = ordered
    raw_items = u["items"] or []
    first_ext = next((i for i, x in enumerate(raw_items) if isinstance(x, dict) and "extend" in x), len(raw_items))
    late = {x if isinstance(x, str) else x[0] for x in raw_items[first_ext:] if isinstance(x, (str, tuple))}  # listed after the extension: use its methods
    late |= set(u.get("variants", {}))
    chosen = [n for n in chosen if item_name(n) not in late] + [n for n in chosen if item_name(n) in late]
    ext_done = False

    def do_extensions():
        import extend
        for spec in ext_specs:
            tr.out.append(f"(* ---- class {spec['subclass']}({spec['extend']}) ({rel}): the methods that {spec['extend']} leaves to its subclasses *)")
            extend.add_extension(tr, repo, mod, spec, rel)
    for n in chosen:
        if item_name(n) in late and not ext_done:
            do_extensions()
            ext_done = True
        if isinstance(n, ast.ClassDef) and n.name in opaque_specs:
            OPAQUE.add(n.name)
            tr.out.append(f"(* ---- class {n.name} ({rel}): abstract here, the integrations' adapters are its subclasses *)")
            add_opaque_class(tr, n, opaque_specs[n.name].get("fields", {}), opaque_specs[n.name].get("param_types"))
            continue
        if isinstance(n, ast.ClassDef) and n.name in fam_classes:
            import family

            spec = fam_classes[n.name]
            extra = []
            for esrc in spec.get("extra_src", []):  # base classes defined in another module
                extra += [x for x in ast.parse((repo / esrc).read_text()).body if isinstance(x, ast.ClassDef) and x.name in spec["classes"]]
            nodes = extra + [x for x in mod.body if isinstance(x, ast.ClassDef) and x.name in spec["classes"]]
            if [x.name for x in nodes] != spec["classes"]:
                bad(n, f"{rel} no longer defines the classes {spec['classes']} in that order")
            tr.out.append(f"(* ---- class family {spec['family']} ({rel}): {', '.join(spec['classes'])} *)")
            family.add_family(tr, spec["family"], nodes, spec.get("userlist", False), rel, tuple(spec.get("skip", ())), spec)
            if spec.get("then_deferred"):
                tr.out += tr.deferred_abbrev  # the imported definitions that were waiting for this family's methods
                tr.deferred_abbrev = []
            continue
        if isinstance(n, (ast.Assign, ast.AnnAssign)) and isinstance(n.value, ast.Dict):
            # {jelly constant: class of a family}
            entries, vt = [], None
            for kk, vv in zip(n.value.keys, n.value.values):
                kc = None
                if isinstance(kk, ast.Attribute) and isinstance(kk.value, ast.Name) and kk.value.id == "jelly":
                    for vals in ENUM_TYPES.values():
                        if kk.attr in vals:
                            kc = vals[kk.attr]
                if kc is None or not (isinstance(vv, ast.Name) and vv.id in getattr(tr, "class_tags", {})):
                    bad(n, "dictionary constant")
                root, tag = tr.class_tags[vv.id]
                entries.append((str(kc), tag))
                vt = ("cls", root)
            tr.dict_consts[item_name(n)] = (entries, vt)
            continue
        if isinstance(n, ast.ClassDef):
            if (n.bases and [ast.unparse(b) for b in n.bases] != ["NamedTuple"]) or n.keywords:
                bad(n, "base classes")
            tr.out.append(f"(* ---- class {n.name} ({rel}) *)")
            tr.add_class(n)
        elif isinstance(n, ast.FunctionDef):
            tr.out.append(f"(* ---- def {n.name} ({rel}) *)")
            if tr.func_specs.get(n.name, {}).get("singledispatch"):
                n = singledispatch_body(tr, mod, n, getattr(n, "_variant_of", n.name), tr.func_specs[n.name].get("impl_map", {}))
            add_function(tr, n)
        elif isinstance(n, ast.Assign) and isinstance(n.value, ast.Set):
            tr.int_sets[item_name(n)] = list(n.value.elts)
        else:
            bad(n, "module-level item")
    if not ext_done:
        do_extensions()
    any_ctx = bool(u["ctx"]) and not getattr(tr, "dyn", False) and (
        tr.uses_any or any(re.search(r"\bT\b", o) for o in tr.out) or any(v == "T" for v, _ in tr.import_decls))
    deps, implicit, decls = ctx_analysis(tr.out, imported, any_ctx, tr.import_decls, dyn=getattr(tr, "dyn", False)) if u["ctx"] else ({}, [], [])
    return tr, {"deps": deps, "implicit": implicit, "decls": decls, "any": any_ctx,
                "implicit_types": getattr(ctx_analysis, "implicit_types", set()) if u["ctx"] else set()}


def translate_unit(repo: Path, unit: str) -> str:
    u = UNITS[unit]
    tr, info = run_unit(repo, unit)
    head = [
        f"(* GENERATED by /verif/translate/py2v.py from {u['src']} -- do not edit. *)",
        "From PJ.Tie Require Import PyPrims.",
    ]
    if u["uses"]:
        head.append("From PJ.Gen Require Import " + " ".join(UNITS[d]["gen"] for d in u["uses"]) + ".")
    head += ["Local Open Scope Z_scope.", "Local Open Scope bool_scope."]
    if not u["ctx"]:
        return "\n".join(head + tr.out) + "\n"
    own_virtual = {m.group(1) for o in tr.out for m in [re.match(r"Context \((\w+) :", o)] if m}
    # section variables: S; T and any_eqb when `object`-typed values occur; the virtual methods of the units this one
    # builds on (their own are declared where their class is)
    ctx_any = ["Context {T : Type} (any_eqb : T -> T -> bool)."] if info["any"] else []
    inherited = [decl for v, decl in tr.import_decls if v != "T" and v not in own_virtual]
    implicit = info["implicit"]
    tail = ["End Gen."] + [f"Arguments {n} {{S}}." for n in implicit if info["deps"].get(n) == ["S"]]
    explicit_s = sorted(n for n, vs in info["deps"].items() if n not in implicit and vs == ["S"])
    tail.append("(* definitions that take the string structure S as their first argument: " + " ".join(explicit_s) + " *)")
    more = sorted((n, vs) for n, vs in info["deps"].items() if n not in implicit and vs != ["S"])
    if more:
        tail.append("(* definitions with further leading arguments: " + "; ".join(f"{n} [{' '.join(v for v in vs if v != 'T')}]" for n, vs in more) + " *)")
    dc = getattr(tr, "dyn_count", 0)  # the dynamic values first: the imported definitions are abbreviated at T := obj, any_eqb := obj_eqb
    return "\n".join(head + ["Section Gen.", CTX_STR] + ctx_any + tr.out[:dc] + tr.abbrev_s + inherited + tr.abbrev_more + tr.out[dc:] + tail) + "\n"


def main() -> int:
    if len(sys.argv) != 3 or sys.argv[2] not in UNITS:
        print(__doc__, file=sys.stderr)
        print("units: " + ", ".join(UNITS), file=sys.stderr)
        return 2
    try:
        sys.stdout.write(translate_unit(Path(sys.argv[1]), sys.argv[2]))
    except Unsupported as e:
        print(f"py2v: unsupported source: {e}", file=sys.stderr)
        return 3
    except (OSError, SyntaxError) as e:
        print(f"py2v: cannot read the source: {e}", file=sys.stderr)
        return 3
    return 0


if __name__ == "__main__":
    import py2v  # one module instance (family.py imports this file by name)

    sys.exit(py2v.main())
