"""family.py -- a class hierarchy (single inheritance) translated as ONE record with a class tag.

    class FrameFlow(UserList[...]) / ManualFrameFlow(FrameFlow) / BoundedFrameFlow(FrameFlow) / ...

becomes

    Inductive FrameFlow_cls := K_FrameFlow | K_ManualFrameFlow | ...
    Record FrameFlow := { FrameFlow_cls_tag : FrameFlow_cls; <union of the fields any __init__ of the family assigns> }
    <Class>___init__ ...           one constructor per class (its __init__ resolved along the MRO, `super().__init__` inlined)
    FrameFlow_attr_<a> tag         class attributes, resolved along the MRO
    FrameFlow_<m> args self        one function per method name: `match tag with` over the implementations the classes resolve to

Dynamic dispatch (`self.flow.frame_from_bounds()`), `self.__class__.x`, `issubclass(c, B)`, class objects as values
(`flow_class = flow_for_type(..)`; `flow_class(logical_type=..)`) all become functions of the tag.
A family may derive from collections.UserList: the list is the field `data`, and `len(self)`, `not self`, `self.clear()`,
`obj.append(x)`, `obj.extend(xs)`, `rows=self` mean what they mean for the list.
"""
from __future__ import annotations

import ast

import py2v
from py2v import ClassInfo, InitMode, MethodMode, Translator, ann_type, bad, coq_type, is_mutable, mangle


def default_of(t) -> str:
    if t == "int":
        return "0"
    if t == "bool":
        return "false"
    if t == "str":
        return "str_empty"
    if isinstance(t, tuple) and t[0] in ("seq", "set", "iter"):
        return "[]"
    if isinstance(t, tuple) and t[0] == "opt":
        return "None"
    bad(None, f"a field of type {t} that some class of the family does not initialise")


class Family:
    def __init__(self, tr: Translator, root: str, nodes: list[ast.ClassDef], userlist: bool):
        self.tr, self.root, self.nodes, self.userlist = tr, root, {n.name: n for n in nodes}, userlist
        self.order = [n.name for n in nodes]
        self.parent: dict[str, str | None] = {}
        for n in nodes:
            bases = [ast.unparse(b) for b in n.bases]
            if n.name == root:
                if userlist and not (len(bases) == 1 and bases[0].startswith("UserList")):
                    bad(n, "root of a UserList family")
                if not userlist and bases:
                    bad(n, "base classes of the family root")
                self.parent[n.name] = None
            else:
                if len(bases) != 1 or bases[0] not in self.nodes:
                    bad(n, "a class of the family must derive from exactly one class of the family")
                self.parent[n.name] = bases[0]

    def mro(self, c: str) -> list[str]:
        out = []
        while c is not None:
            out.append(c)
            c = self.parent[c]
        return out

    def subclasses(self, c: str) -> list[str]:
        return [x for x in self.order if c in self.mro(x)]

    def resolve(self, c: str, name: str) -> tuple[str, ast.FunctionDef] | None:
        for k in self.mro(c):
            for n in self.nodes[k].body:
                if isinstance(n, ast.FunctionDef) and n.name == name:
                    return k, n
        return None

    def class_attr(self, c: str, name: str) -> ast.AST | None:
        for k in self.mro(c):
            for n in self.nodes[k].body:
                if isinstance(n, ast.Assign) and len(n.targets) == 1 and isinstance(n.targets[0], ast.Name) and n.targets[0].id == name:
                    return n.value
                if isinstance(n, ast.AnnAssign) and isinstance(n.target, ast.Name) and n.target.id == name and n.value is not None:
                    return n.value
        return None

    def tag(self, c: str) -> str:
        return f"K_{c}"


class FamilyInit(InitMode):
    """__init__ of one class of the family: `super().__init__(..)` is the parent's __init__ inlined; `self.__class__.a` is
    the class attribute of the class being constructed."""

    def __init__(self, tr, info, fam: Family, cls: str, collect_only: bool):
        super().__init__(tr, info)
        self.fam, self.cls, self.collect_only = fam, cls, collect_only
        self.level = cls  # the class whose __init__ body is being translated (for super())

    def fall_off(self):
        vals = [self.fam.tag(self.cls)]
        for f, t in self.info.fields:
            vals.append(f"self_{f}" if f in self.assigned else default_of(t))
        return f"Val (mk_{self.info.name} " + " ".join(vals) + ")"

    def write_field(self, f, v, t, rest):
        if f in self.fam.skip_fields:
            return rest()
        if f in self.fam.field_types:
            ft_ = self.fam.field_types[f]
            if t == "none" and isinstance(ft_, tuple) and ft_[0] == "opt":
                v = self.coerce(v, "none", ft_, None)  # None in a field the unit declares optional
            elif not py2v.compat(t, ft_):
                bad(None, f"field {f}: a value of type {t} where the unit declares {ft_}")
            t = ft_
        if t == "none" and f in self.fam.declared:
            t = self.fam.declared[f]
            v = self.coerce(v, "none", t, None)
        self.assigned.add(f)
        old = self.info.ftype(f)
        if old is None:
            if t == "none":
                bad(None, f"field {f} initialised with None: type unknown")
            self.info.fields.append((f, t))
        elif not py2v.compat(t, old):
            bad(None, f"field {f} assigned values of two types ({old}, {t})")
        return f"let self_{f} := {self.coerce(v, t, self.info.ftype(f), None)} in\n{rest()}"

    def read_field(self, f):
        if f not in self.assigned:
            bad(None, f"field {f} read before it is assigned")
        return f"self_{f}"

    def stmts(self, ss, env):
        # fields the unit leaves out (tables of bound methods: their use is translated as a dispatch on the type)
        if ss and isinstance(ss[0], (ast.Assign, ast.AnnAssign)):
            tgt = ss[0].targets[0] if isinstance(ss[0], ast.Assign) else ss[0].target
            if isinstance(tgt, ast.Attribute) and isinstance(tgt.value, ast.Name) and tgt.value.id == "self" and tgt.attr in self.fam.skip_fields:
                # only one form is left out: {t: getattr(self, name) for t, name in self.<TABLE>.items()} -- the bound
                # methods the class-level table names, keyed by type; using it is translated as a dispatch on the type
                import re
                if isinstance(ss[0].value, ast.Name) and ss[0].value.id in self.fam.drop_params:
                    return self.stmts(ss[1:], env)  # a parameter the unit leaves out, stored in a field it leaves out
                mt = re.fullmatch(r"\{t: getattr\(self, name\) for (?:t, name|\(t, name\)) in self\.(\w+)\.items\(\)\}", ast.unparse(ss[0].value))
                if not mt or mt.group(1) not in getattr(self.fam, "tables", {}):
                    bad(ss[0], "a field the unit leaves out must be a table of bound methods built from a class-level table")
                self.fam.handler_tables[tgt.attr] = mt.group(1)
                return self.stmts(ss[1:], env)
            if isinstance(ss[0], ast.AnnAssign) and isinstance(tgt, ast.Attribute) and isinstance(tgt.value, ast.Name) and tgt.value.id == "self" \
                    and tgt.attr in self.fam.field_types and ss[0].value is not None:
                plain = ast.Assign(targets=[tgt], value=ss[0].value)  # the unit gives this field's type; the source annotation is not read
                ast.copy_location(plain, ss[0])
                ast.fix_missing_locations(plain)
                return self.stmts([plain] + ss[1:], env)
        # super().__init__(args): the parent's body inlined, its parameters bound to the arguments
        if ss and isinstance(ss[0], ast.Expr) and isinstance(ss[0].value, ast.Call) and ast.unparse(ss[0].value.func) == "super().__init__":
            call, rest = ss[0].value, ss[1:]
            par = self.fam.parent[env.get("__level__", self.level)]
            if par is None:
                if not self.fam.userlist:
                    bad(call, "super().__init__ in the root")
                # collections.UserList.__init__(initlist): data = [] or the items of initlist
                if len(call.args) != 1 or call.keywords:
                    bad(call, "UserList.__init__ arguments")

                def k_ul(v, t):
                    if t == "none":
                        return self.write_field("data", "[]", ("seq", "?"), lambda: self.stmts(rest, env))
                    if isinstance(t, tuple) and t[0] == "opt" and isinstance(t[1], tuple) and t[1][0] in ("iter", "seq"):
                        return self.write_field("data", f"(match {v} with Some l_ => l_ | None => [] end)", ("seq", t[1][1]), lambda: self.stmts(rest, env))
                    bad(call, f"UserList initial items of type {t}")
                return self.expr(call.args[0], env, k_ul)
            owner, pdef = self.fam.resolve(par, "__init__")
            params = init_params(self.tr, pdef, self.fam.drop_params)
            by_name = {kw.arg: kw.value for kw in call.keywords}
            temps, binds = [], []
            for i, (p, pt, has_default) in enumerate(params):
                a = call.args[i] if i < len(call.args) else by_name.pop(p, None)
                if a is None:
                    if not has_default:
                        bad(call, f"missing argument {p}")
                    a = ast.Constant(value=None)
                t = self.tr.gensym("arg")
                temps.append(ast.Assign(targets=[ast.Name(id=t, ctx=ast.Store())], value=a))
                pa = next(x for x in (pdef.args.args[1:] + pdef.args.kwonlyargs) if x.arg == p)
                binds.append(ast.AnnAssign(target=ast.Name(id=p, ctx=ast.Store()), annotation=pa.annotation, value=ast.Name(id=t, ctx=ast.Load()), simple=1))
            if by_name and not pdef.args.kwarg:
                bad(call, "unexpected keyword arguments")
            # separate scopes: what the parent's body binds must not be what the rest of this body reads
            stored = {x.id for st in pdef.body for x in ast.walk(st) if isinstance(x, ast.Name) and isinstance(x.ctx, ast.Store)}
            loaded = {x.id for st in rest for x in ast.walk(st) if isinstance(x, ast.Name) and isinstance(x.ctx, ast.Load)}
            if stored & loaded:
                bad(call, f"the parent's __init__ rebinds {sorted(stored & loaded)}, which this __init__ reads afterwards")
            new = temps + binds
            for st in new:
                ast.copy_location(st, call)
                ast.fix_missing_locations(st)
            marker_enter = ast.Pass()
            marker_leave = ast.Pass()
            marker_enter._level = owner
            marker_leave._level = env.get("__level__", self.level)
            return self.stmts(new + [marker_enter] + list(pdef.body) + [marker_leave] + rest, env)
        if ss and isinstance(ss[0], ast.Pass) and hasattr(ss[0], "_level"):
            env2 = dict(env)
            env2["__level__"] = ss[0]._level
            return self.stmts(ss[1:], env2)
        return super().stmts(ss, env)

    def expr(self, e, env, k):
        # self.__class__.<attr>, or self.<attr> for a class attribute (not shadowed by an instance field)
        if isinstance(e, ast.Attribute) and (ast.unparse(e.value) == "self.__class__" or (
                isinstance(e.value, ast.Name) and e.value.id == "self" and e.attr not in self.assigned and self.info.ftype(e.attr) is None
                and e.attr in self.fam.attr_names)):
            v = self.fam.class_attr(self.cls, e.attr)
            if v is None:
                return self.on_exn("AttributeError")  # declared (annotated) on this class, given a value only by subclasses
            return self.expr(v, env, k)
        return super().expr(e, env, k)

    def call_self(self, m, a, ret, r, ex, x, k):
        """self.m(args) inside __init__: the method as this class resolves it, inlined (its locals renamed apart); the
        fields assigned so far are what it sees of self."""
        return inline_call(self, self.cls, m, a, ret, k)


def inline_call(mode, cls, m, a, ret, k, const_args=None):
    """The body of method m (as class cls resolves it) in place of the call: locals renamed apart, parameters bound to the
    argument terms `a` (or, for arguments that are constants / tuples of constants, substituted), `return v` continuing
    with k."""
    if True:
        self = mode
        res = self.fam.resolve(cls, m)
        if res is None:
            bad(None, f"unknown method {m}")
        d = res[1]
        n = self.tr.gensym("inl")
        local = {p.arg for p in d.args.args[1:] + d.args.kwonlyargs} | {y.id for st in d.body for y in ast.walk(st)
                                                                       if isinstance(y, ast.Name) and isinstance(y.ctx, ast.Store)}

        class Ren(ast.NodeTransformer):
            def visit_Name(self, node):
                if node.id in local:
                    return ast.copy_location(ast.Name(id=f"{n}_{node.id}", ctx=node.ctx), node)
                return node
        import copy

        body = [Ren().visit(copy.deepcopy(st)) for st in d.body]
        params = self.info.methods[m][0]
        const_args = const_args or {}
        pre = []
        for p, c in const_args.items():  # constant arguments: bound by an assignment the translator sees through
            asg = ast.Assign(targets=[ast.Name(id=f"{n}_{p}", ctx=ast.Store())], value=c)
            ast.fix_missing_locations(asg)
            pre.append(asg)
        body = pre + body
        lets = "".join(f"let {n}_{p} := {v} in\n" for (p, _), v in zip(params, a) if p not in const_args)
        env_c = {f"{n}_{p}": t for p, t in params if p not in const_args}
        env_c.update({kk: vv for kk, vv in getattr(self, "env_now", {}).items() if kk == "ys__"})
        saved = (self.ret_val, self.fall_off)

        def k2(v, t):
            cur = (self.ret_val, self.fall_off)
            self.ret_val, self.fall_off = saved
            try:
                return k(v, t)
            finally:
                self.ret_val, self.fall_off = cur

        self.ret_val = lambda v, t: k2(self.coerce(v, t, ret, None), ret)
        self.fall_off = (lambda: k2("tt", "none")) if ret == "none" else (lambda: bad(None, f"{m} can end without a return"))
        try:
            return lets + self.stmts(body, env_c)
        finally:
            self.ret_val, self.fall_off = saved


def init_params(tr: Translator, d: ast.FunctionDef, drop=()) -> list[tuple[str, object, bool]]:
    a = d.args
    if a.vararg or a.posonlyargs:
        bad(d, "parameter kinds")
    pos = a.args[1:]
    ndef = len(a.defaults)
    out = []
    for i, p in enumerate(pos):
        has_d = i >= len(pos) - ndef
        if p.arg in drop:
            if not has_d or i != len(pos) - 1:
                bad(d, f"the parameter {p.arg} the unit leaves out must be the last one and have a default")
            continue  # (any use other than storing it in a field the unit leaves out is an unknown name: refused)
        if has_d and not (isinstance(a.defaults[i - (len(pos) - ndef)], ast.Constant) and a.defaults[i - (len(pos) - ndef)].value is None):
            bad(d, "default other than None")
        out.append((p.arg, ann_type(p.annotation, tr.classes), has_d))
    for p, dflt in zip(a.kwonlyargs, a.kw_defaults):
        if dflt is not None and not (isinstance(dflt, ast.Constant) and dflt.value is None):
            bad(d, "default other than None")
        out.append((p.arg, ann_type(p.annotation, tr.classes), dflt is not None))
    return out


class FamilyMethod(MethodMode):
    def __init__(self, tr, info, ret, fam: Family, muts=()):
        super().__init__(tr, info, ret, muts)
        self.fam = fam

    def call(self, e, env, k):
        f = e.func
        # self.m(..) for a method the unit says to inline (its constant arguments are substituted: loops over them unroll)
        if isinstance(f, ast.Attribute) and isinstance(f.value, ast.Name) and f.value.id == "self" and f.attr in self.fam.inline:
            params, ret = self.info.methods[f.attr]
            by_name = {kw.arg: kw.value for kw in e.keywords}
            actuals = [e.args[i] if i < len(e.args) else by_name.get(p) for i, (p, _) in enumerate(params)]
            if any(x is None for x in actuals):
                bad(e, "arguments")
            consts = {p: x for (p, _), x in zip(params, actuals)
                      if isinstance(x, ast.Constant) or (isinstance(x, ast.Tuple) and all(isinstance(c, ast.Constant) for c in x.elts))}
            rest_params = [(p, t) for p, t in params if p not in consts]
            call2 = ast.Call(func=f, args=[x for (p, _), x in zip(params, actuals) if p not in consts], keywords=[])
            cls = self.fam.order[0] if len(self.fam.order) == 1 else None
            if cls is None:
                bad(e, "inlining in a family of several classes")

            def go(a):
                full = []
                it = iter(a)
                for p, _ in params:
                    full.append(None if p in consts else next(it))
                return inline_call(self, cls, f.attr, full, ret, k, consts)
            return self.args(call2, rest_params, env, go)
        if self.fam.userlist and isinstance(f, ast.Name) and f.id == "len" and len(e.args) == 1 and isinstance(e.args[0], ast.Name) and e.args[0].id == "self":
            return k(f"(seq_len {self.read_field('data')})", "int")
        return super().call(e, env, k)

    def expr(self, e, env, k):
        if isinstance(e, ast.Attribute) and ast.unparse(e.value) == "self.__class__":
            t = self.fam.attr_types.get(e.attr)
            if t is None:
                bad(e, "unknown class attribute")
            return k(f"({self.fam.root}_attr_{e.attr} ({self.fam.root}_cls_tag self))", t)
        if isinstance(e, ast.Attribute) and isinstance(e.value, ast.Name) and e.value.id == "self" and self.info.ftype(e.attr) is None \
                and e.attr in self.fam.attr_types:
            return k(f"({self.fam.root}_attr_{e.attr} ({self.fam.root}_cls_tag self))", self.fam.attr_types[e.attr])
        # a UserList used as the list it is: rows=self
        if self.fam.userlist and isinstance(e, ast.Name) and e.id == "self":
            return k(self.read_field("data"), self.info.ftype("data"))
        return super().expr(e, env, k)

    def cond(self, e, env, k):
        if self.fam.userlist and isinstance(e, ast.Name) and e.id == "self":
            return k(f"(negb (seq_len {self.read_field('data')} =? 0))")
        return super().cond(e, env, k)

    def call_self(self, m, a, ret, r, ex, x, k):
        if m in getattr(self, "open_rec", ()):  # a call back into the dispatcher this method is a handler of
            return (f"let '({r}, self) := rec__{m} {' '.join(a)} self in\nmatch {r} with\n| Exn {ex} => {self.on_exn(ex)}\n"
                    f"| Val {x} =>\n{k('tt' if ret == 'none' else x, ret)}\nend")
        return super().call_self(m, a, ret, r, ex, x, k)

    def stmts(self, ss, env):
        if self.fam.userlist and ss and isinstance(ss[0], ast.Expr) and isinstance(ss[0].value, ast.Call) and ast.unparse(ss[0].value.func) == "self.clear" \
                and not ss[0].value.args and not ss[0].value.keywords:
            return self.write_field("data", "[]", self.info.ftype("data"), lambda: self.stmts(ss[1:], env))
        return super().stmts(ss, env)


def inline_properties(nodes: list[ast.ClassDef]) -> None:
    """@property def p(self): return <pure expression over self>  --  every `self.p` becomes that expression."""
    import copy

    props = {}
    for n in nodes:
        for m in n.body:
            if isinstance(m, ast.FunctionDef) and [ast.unparse(d) for d in m.decorator_list] == ["property"]:
                body = [st for st in m.body if not (isinstance(st, ast.Expr) and isinstance(st.value, ast.Constant))]
                if len(body) == 1 and isinstance(body[0], ast.Return) and body[0].value is not None and py2v.is_pure(body[0].value):
                    props[m.name] = body[0].value

    class Sub(ast.NodeTransformer):
        def visit_Attribute(self, node):
            self.generic_visit(node)
            if isinstance(node.value, ast.Name) and node.value.id == "self" and node.attr in props and isinstance(node.ctx, ast.Load):
                return ast.copy_location(copy.deepcopy(props[node.attr]), node)
            return node
    for n in nodes:
        n.body = [m for m in n.body if not (isinstance(m, ast.FunctionDef) and m.name in props)]
        for i, m in enumerate(n.body):
            n.body[i] = ast.fix_missing_locations(Sub().visit(m))


def effect_properties(nodes: list[ast.ClassDef]) -> None:
    """A property that is not a pure expression and is only ever *evaluated* (`self.p` as a statement, for the exception it
    may raise) is a method called at those points."""
    props = {m.name for n in nodes for m in n.body
             if isinstance(m, ast.FunctionDef) and [ast.unparse(d) for d in m.decorator_list] == ["property"]}
    if not props:
        return
    for n in nodes:
        for m in n.body:
            if isinstance(m, ast.FunctionDef) and m.name in props:
                m.decorator_list = []
                continue
            for st in ast.walk(m):
                for fld, val in ast.iter_fields(st):
                    vals = val if isinstance(val, list) else [val]
                    for i, x in enumerate(vals):
                        if isinstance(x, ast.Expr) and isinstance(x.value, ast.Attribute) and isinstance(x.value.value, ast.Name) \
                                and x.value.value.id == "self" and x.value.attr in props:
                            x.value = ast.fix_missing_locations(ast.copy_location(ast.Call(func=x.value, args=[], keywords=[]), x.value))
            for x in ast.walk(m):
                if isinstance(x, ast.Attribute) and isinstance(x.value, ast.Name) and x.value.id == "self" and x.attr in props:
                    par_ok = any(isinstance(c, ast.Call) and c.func is x for c in ast.walk(m))
                    if not par_ok:
                        bad(x, f"the value of the property {x.attr} is used")


def add_family(tr: Translator, root: str, nodes: list[ast.ClassDef], userlist: bool, rel: str, skip: tuple = (), spec: dict | None = None) -> None:
    spec = spec or {}
    inline_properties(nodes)
    effect_properties(nodes)
    fam = Family(tr, root, nodes, userlist)
    fam.skip = set(skip)
    fam.skip_fields = set(spec.get("skip_fields", ()))
    fam.drop_params = set(spec.get("drop_params", ()))
    fam.inline = set(spec.get("inline", ()))
    fam.param_types = spec.get("param_types", {})
    fam.yield_types = spec.get("yield_types", {})
    fam.return_types = spec.get("return_types", {})
    fam.handler_tables = {}
    fam.declared = {}
    fam.field_types = {f: ann_type(ast.parse(a, mode="eval").body, tr.classes) for f, a in spec.get("field_types", {}).items()}
    info = ClassInfo(root)
    info.family = fam
    tr.families = getattr(tr, "families", {})
    tr.families[root] = fam
    for c in fam.order:
        tr.classes[c] = info  # every class of the family is the same record
    tr.class_tags = getattr(tr, "class_tags", {})
    for c in fam.order:
        tr.class_tags[c] = (root, fam.tag(c))
    # ---- class-level statements
    attr_names: list[str] = []
    for c in fam.order:
        for n in fam.nodes[c].body:
            if isinstance(n, ast.FunctionDef):
                decos = [ast.unparse(d) for d in n.decorator_list]
                if not set(decos) <= {"override", "classmethod", "property", "abstractmethod"}:
                    bad(n, "decorator")
                continue
            if isinstance(n, ast.Expr) and isinstance(n.value, ast.Constant) and isinstance(n.value.value, str):
                continue
            if isinstance(n, ast.AnnAssign) and n.value is None:
                if isinstance(n.target, ast.Name) and n.target.id not in fam.field_types:
                    try:
                        fam.declared[n.target.id] = ann_type(n.annotation, tr.classes)  # a field declared at class level
                    except py2v.Unsupported:
                        pass
                continue
            if isinstance(n, (ast.Assign, ast.AnnAssign)):
                nm = n.targets[0].id if isinstance(n, ast.Assign) else n.target.id
                if isinstance(n.value, ast.Dict):
                    fam.tables = getattr(fam, "tables", {})
                    fam.tables[nm] = n.value
                    continue
                if nm not in attr_names:
                    attr_names.append(nm)
                continue
            bad(n, "class-level statement")
    info.methods["__init__"] = ([], ("obj", root))
    # ---- methods: one function per name, dispatching on the tag
    names: list[str] = []
    for c in fam.order:
        for n in fam.nodes[c].body:
            if isinstance(n, ast.FunctionDef) and n.name not in names and n.name not in ("__init__", "__repr__") and n.name not in fam.skip \
                    and "classmethod" not in [ast.unparse(d) for d in n.decorator_list]:
                names.append(n.name)
    sigs = {}
    for m in names:
        sig = None
        for c in fam.order:
            r = fam.resolve(c, m)
            if r is None:
                continue
            d = r[1]
            a = d.args
            if a.vararg or a.kwarg or a.posonlyargs or a.kwonlyargs or any(not (isinstance(x, ast.Constant) and x.value is None) for x in a.defaults):
                bad(d, "parameter kinds / defaults")  # (a default of None is allowed: a call that leaves the argument out is refused where it is made)
            def ptype(p):
                ov = fam.param_types.get(f"{m}.{p.arg}")
                return ann_type(ast.parse(ov, mode="eval").body if ov else p.annotation, tr.classes)
            rt = ann_type(ast.parse(fam.yield_types[m], mode="eval").body, tr.classes) if m in fam.yield_types else \
                ann_type(ast.parse(fam.return_types[m], mode="eval").body if m in fam.return_types else d.returns, tr.classes)
            if m in fam.yield_types:
                rt = ("gen", rt)
            elif any(isinstance(y, (ast.Yield, ast.YieldFrom)) for st in d.body for y in ast.walk(st)) and isinstance(rt, tuple) and rt[0] == "iter":
                rt = ("gen", rt[1])
            s = ([(p.arg, ptype(p)) for p in a.args[1:]], rt)
            if sig is not None and sig != s and py2v.DYN and sig[0] == s[0] and {sig[1], s[1]} == {"any", "none"}:
                s = (s[0], "any")  # an override annotated `-> None` of a method returning Any: it returns the value None
            elif sig is not None and sig != s:
                bad(d, "an override with another signature")
            sig = s
        sigs[m] = sig
        info.methods[m] = sig
    fam.attr_names = attr_names
    for m in fam.inline:  # an inlined method that only reads the messages it is given
        d = fam.resolve(fam.order[0], m)[1]
        if not any(py2v.param_is_written(p, d.body, t[1]) for p, t in sigs[m][0] if isinstance(t, tuple) and t[0] == "pb"):
            py2v.READER_METHODS.add(m)
    # ---- pass 1: the fields (union over the constructors)
    fam.attr_types = {}
    ctor_defs = {}
    for c in fam.order:
        r = fam.resolve(c, "__init__")
        if r is None:
            bad(fam.nodes[c], "no __init__ in the family")
        ctor_defs[c] = r
    for collect in (True, False):
        if not collect:
            # record, setters, tag
            tr.out.append(f"Inductive {root}_cls := " + " | ".join(fam.tag(c) for c in fam.order) + ".")
            tr.out.append(f"Definition {root}_cls_eqb (a b : {root}_cls) : bool :=\nmatch a, b with\n" +
                          "\n".join(f"| {fam.tag(c)}, {fam.tag(c)} => true" for c in fam.order) + ("\n| _, _ => false" if len(fam.order) > 1 else "") + "\nend.")
            fields = [("cls_tag", None)] + list(info.fields)
            tr.out.append(f"Record {root} := mk_{root} {{ {root}_cls_tag : {root}_cls; " + "; ".join(f"{root}_{f} : {coq_type(t)}" for f, t in info.fields) + " }.")
            allf = [f"{root}_cls_tag"] + [f"{root}_{f}" for f, _ in info.fields]
            for i, (f, t) in enumerate(info.fields):
                args = " ".join(("v" if j == i + 1 else f"({g} self)") for j, g in enumerate(allf))
                tr.out.append(f"Definition set_{root}_{f} (v : {coq_type(t)}) (self : {root}) : {root} := mk_{root} {args}.")
            # class attributes (those whose value the subset can express)
            fam.abstract = set()
            for a in attr_names:
                vals, ty = {}, None
                missing = []
                for c in fam.order:
                    v = fam.class_attr(c, a)
                    if v is None:
                        missing.append(c)
                        continue
                    got = const_value(tr, v)
                    if got is None:
                        vals = None
                        break
                    vals[c] = got[0]
                    ty = got[1]
                if vals:
                    # a class that only declares the attribute is abstract: its __init__ raises AttributeError before any
                    # object exists (checked below), so the value given here for its tag is never looked at
                    fam.abstract |= set(missing)
                    some = next(iter(vals.values()))
                    fam.attr_types[a] = ty
                    tr.out.append(f"Definition {root}_attr_{a} (c : {root}_cls) : {coq_type(ty)} :=\nmatch c with\n" +
                                  "\n".join(f"| {fam.tag(c)} => {vals.get(c, some)}" for c in fam.order) + "\nend.")
        for c in fam.order:
            owner, d = ctor_defs[c]
            params = init_params(tr, d, fam.drop_params)
            mode = FamilyInit(tr, info, fam, c, collect)
            mode.assigned = set()
            mode.level = owner
            env = {p: t for p, t, _ in params}
            body = mode.stmts(d.body, env)
            if not collect:
                if c in fam.abstract and "Val (mk_" in body:
                    bad(d, f"{c} lacks a class attribute its subclasses define, yet its __init__ can return an object")
                ps = " ".join(f"({mangle(p)} : {coq_type(t)})" for p, t, _ in params)
                tr.out.append(f"Definition {c}___init__ {ps} : outcome {root} :=\n{body}.")
                tr.ctor_params = getattr(tr, "ctor_params", {})
                tr.ctor_params[c] = params
    # callees first
    done: set[str] = set()
    disp = {m: d for m in names if (d := dispatch_of(tr, fam, m)) is not None}

    def callees_of(m):
        out = set()
        if m in disp:
            return {h for _, h in disp[m][1]}
        for c in fam.order:
            r = fam.resolve(c, m)
            if r:
                out |= {x.func.attr for x in ast.walk(r[1]) if isinstance(x, ast.Call) and isinstance(x.func, ast.Attribute)
                        and isinstance(x.func.value, ast.Name) and x.func.value.id == "self" and x.func.attr in names}
                out |= {i for x in ast.walk(r[1]) if isinstance(x, ast.Call) and isinstance(x.func, ast.Attribute)
                        and isinstance(x.func.value, ast.Name) and x.func.value.id == "self" and x.func.attr in fam.inline
                        for i in callees_of(x.func.attr)}
        return out - set(fam.inline)
    for m in disp:
        for _, h in disp[m][1]:
            if h not in names:
                bad(None, f"{root}.{m}: the table names {h}, which is not a translated method")
    while len(done) < len(names):
        progressed = False
        for m in names:
            if m in done:
                continue
            if m in fam.inline:
                done.add(m)
                progressed = True
                continue
            if callees_of(m) - {m} <= done:
                if m in disp:
                    emit_dispatch(tr, fam, info, m, sigs[m], disp[m], set())
                else:
                    emit_method(tr, fam, info, m, sigs[m])
                done.add(m)
                progressed = True
        if progressed:
            continue
        # a dispatcher some of whose handlers call it back: the handlers take the dispatcher as a parameter (rec__),
        # the dispatcher is a Fixpoint on explicit fuel (Python: the interpreter's recursion limit), and the handlers are
        # then closed over it
        for m in disp:
            if m in done:
                continue
            opened = {h for h in callees_of(m) - done if callees_of(h) - done <= {m}}
            if not (callees_of(m) - done <= opened):
                continue
            for h in sorted(opened):
                emit_method(tr, fam, info, h, sigs[h], open_rec={m: sigs[m]})
            emit_dispatch(tr, fam, info, m, sigs[m], disp[m], opened)
            for h in sorted(opened):
                ps = " ".join(f"({mangle(p)} : {coq_type(t)})" for p, t in sigs[h][0])
                tr.out.append(f"Definition {root}_{h} {ps} (self : {root}) := {root}_{h}_open {root}_{m} {' '.join(mangle(p) for p, _ in sigs[h][0])} self.")
            done |= opened | {m}
            progressed = True
            break
        if not progressed:
            bad(None, "recursive methods in the family")


def dispatch_of(tr, fam, m):
    """The table-dispatch idiom, or None:
         h = self.<handlers>.get(type(x)); if h is None: [msg = ..;] raise TypeError(..) [from None]; return h(x)
    where <handlers> is a field the unit leaves out (checked, in __init__, to be the bound methods a class-level table
    names).  Gives (parameter, [(type name, method name)])."""
    if len(fam.order) != 1:
        return None
    r = fam.resolve(fam.order[0], m)
    body = [st for st in r[1].body if not (isinstance(st, ast.Expr) and isinstance(st.value, ast.Constant))]
    if len(body) != 3 or len(r[1].args.args) != 2:
        return None
    x = r[1].args.args[1].arg
    a, c, ret = body
    import re
    mt = isinstance(a, ast.Assign) and len(a.targets) == 1 and isinstance(a.targets[0], ast.Name) and \
        re.fullmatch(rf"self\.(\w+)\.get\(type\({x}\)\)", ast.unparse(a.value))
    if not mt or mt.group(1) not in fam.skip_fields:
        return None
    h = a.targets[0].id
    if not (isinstance(c, ast.If) and ast.unparse(c.test) == f"{h} is None" and not c.orelse and isinstance(c.body[-1], ast.Raise)
            and isinstance(c.body[-1].exc, ast.Call) and ast.unparse(c.body[-1].exc.func) == "TypeError"
            and all(isinstance(st, ast.Assign) and isinstance(st.value, ast.JoinedStr) for st in c.body[:-1])):
        bad(c, "dispatch idiom: the miss branch")
    if not (isinstance(ret, ast.Return) and ast.unparse(ret.value) == f"{h}({x})"):
        bad(ret, "dispatch idiom: the call")
    field = mt.group(1)
    if field not in fam.handler_tables:
        bad(a, f"{field} is not built in __init__ from a class-level table")
    table = fam.tables[fam.handler_tables[field]]
    rows = []
    for kk, vv in zip(table.keys, table.values):
        if isinstance(kk, ast.Attribute) and isinstance(kk.value, ast.Name) and kk.value.id == "jelly" and kk.attr in py2v.MESSAGES:
            kn = kk.attr
        elif isinstance(kk, ast.Name) and kk.id == "str":
            kn = "str"
        else:
            bad(kk, "handler table key")
        if not (isinstance(vv, ast.Constant) and isinstance(vv.value, str)):
            bad(vv, "handler table value")
        rows.append((kn, vv.value))
    if len({kn for kn, _ in rows}) != len(rows):
        bad(table, "handler table with a repeated key")
    return x, rows


def emit_dispatch(tr, fam, info, m, sig, disp, opened) -> None:
    """type(x) looked up in the table; the handler called with x.  With `opened` non-empty the dispatcher is the Fixpoint
    the opened handlers call back (fuel: one more than the nesting depth of x always suffices)."""
    params, ret = sig
    root = fam.root
    x, rows = disp
    if len(params) != 1 or params[0][1] != ("pb", "*"):
        bad(None, f"{root}.{m}: the unit must declare the dispatched parameter as pbany")
    xm = mangle(x)
    py2v.READER_METHODS.add(m)
    fn = f"{root}_{m}_fuel fuel__" if opened else None
    code = "(Exn TypeError, self)"
    for kn, h in reversed(rows):
        hp, hr = info.methods[h]
        if h in info.inout or len(hp) != 1:
            bad(None, f"{root}.{h}: a handler takes the one message and changes only self")
        pt = hp[0][1]
        if kn == "str":
            if pt != "str":
                bad(None, f"{root}.{h}: handler of str")
            arg = f"(pb_as_str str_empty {xm})"
        else:
            if not (isinstance(pt, tuple) and pt[0] == "pb" and pt[1] in (kn, "*")):
                bad(None, f"{root}.{h}: handler of {kn} takes {pt}")
            arg = xm
        call = f"{root}_{h}_open ({fn}) {arg} self" if h in opened else f"{root}_{h} {arg} self"
        if hr == ret:
            br = call
        elif hr == "none" and isinstance(ret, tuple) and ret[0] == "opt":
            br = f"(let '(r__, self) := {call} in\nmatch r__ with Exn e__ => (Exn e__, self) | Val _ => (Val None, self) end)"
        elif isinstance(ret, tuple) and ret[0] == "opt" and py2v.compat(hr, ret[1]):
            br = f"(let '(r__, self) := {call} in\nmatch r__ with Exn e__ => (Exn e__, self) | Val v__ => (Val (Some v__), self) end)"
        else:
            bad(None, f"{root}.{h} returns {hr}, {m} returns {ret}")
        code = f'if String.eqb (pb_kind {xm}) "{kn}"%string then {br}\nelse {code}'
    rt = f"outcome {coq_type(ret)} * {root}"
    if opened:
        tr.out.append(f"Fixpoint {root}_{m}_fuel (fuel__ : nat) ({xm} : {coq_type(params[0][1])}) (self : {root}) {{struct fuel__}} : {rt} :=\n"
                      f"match fuel__ with\n| O => (Exn RecursionError, self)\n| Datatypes.S fuel__ =>\n{code}\nend.")
        tr.out.append(f"Definition {root}_{m} ({xm} : {coq_type(params[0][1])}) (self : {root}) : {rt} :=\n"
                      f"{root}_{m}_fuel (Datatypes.S (pb_depth {xm})) {xm} self.")
    else:
        tr.out.append(f"Definition {root}_{m} ({xm} : {coq_type(params[0][1])}) (self : {root}) : {rt} :=\n{code}.")


def emit_method(tr, fam: Family, info, m: str, sig, open_rec=None) -> None:
    params, ret = sig
    root = fam.root
    defs = [fam.resolve(c, m)[1] for c in fam.order if fam.resolve(c, m)]
    # a message parameter that no implementation writes to (or hands on) is read-only: not an in/out parameter
    def only_unpacked(p):
        """Every use of the Iterable parameter is `*p` or an argument of chain(..): taken as the sequence the caller passes (a
        one-shot iterator would be consumed by it)."""
        for d in defs:
            ok = set()
            for x in ast.walk(d):
                if isinstance(x, ast.Starred) and isinstance(x.value, ast.Name) and x.value.id == p:
                    ok.add(id(x.value))
                if isinstance(x, ast.Call) and isinstance(x.func, ast.Name) and x.func.id == "chain":
                    ok |= {id(a) for a in x.args if isinstance(a, ast.Name) and a.id == p}
            if any(isinstance(x, ast.Name) and x.id == p and id(x) not in ok for st in d.body for x in ast.walk(st)):
                return False
        return True
    muts = [(p, t) for p, t in params if is_mutable(t) and not (t[0] == "pb" and not any(py2v.param_is_written(p, d.body, t[1]) for d in defs))
            and not (t[0] == "iter" and only_unpacked(p))]
    if not muts:
        py2v.READER_METHODS.add(m)
    if muts:
        if not all(t[0] in ("pb", "iter") for _, t in muts):
            bad(None, f"{root}.{m}: a method that changes a table or a collection passed to it")
        info.inout.add(m)
    env0 = {p: t for p, t in params}
    info.method_outs = getattr(info, "method_outs", {})
    info.method_outs[m] = [p for p, _ in muts]  # the in/out parameters the translated method returns after self, in order
    ret, muts, env0, pre = py2v.generator_parts(ret, muts, env0)
    if pre:
        info.inout.add(m)
        info.generators = getattr(info, "generators", {})
        info.generators[m] = env0["ys__"][1]
    groups: dict[int, list[str]] = {}
    bodies: dict[int, str] = {}
    for c in fam.order:
        r = fam.resolve(c, m)
        if r is None:
            key = -1
            bodies[key] = "(" + ", ".join(["Exn AttributeError", "self"] + [mangle(p) for p, _ in muts]) + ")"  # no such method on that class
        else:
            key = id(r[1])
            if key not in bodies:
                mode = FamilyMethod(tr, info, ret, fam, muts)
                mode.open_rec = open_rec or {}
                bodies[key] = mode.stmts(r[1].body, dict(env0))
        groups.setdefault(key, []).append(c)
    ps = " ".join(f"({mangle(p)} : {coq_type(t)})" for p, t in params)
    if len(groups) == 1:
        body = next(iter(bodies.values()))
    else:
        body = f"match {root}_cls_tag self with\n" + "\n".join(
            "| " + " | ".join(fam.tag(c) for c in cs) + f" =>\n{bodies[k]}" for k, cs in groups.items()) + "\nend"
    rt = f"outcome {coq_type(ret)} * {root}" + "".join(f" * {coq_type(t)}" for _, t in muts)
    if open_rec:
        if muts or pre:
            bad(None, f"{root}.{m}: a handler that calls the dispatcher back and changes a message")
        rps = " ".join(f"(rec__{d} : {' -> '.join(coq_type(t) for _, t in dsig[0])} -> {root} -> outcome {coq_type(dsig[1])} * {root})" for d, dsig in open_rec.items())
        tr.out.append(f"Definition {root}_{m}_open {rps} {ps} (self : {root}) : {rt} :=\n{body}.")
        return
    tr.out.append(f"Definition {root}_{m} {ps} (self : {root}) : {rt} :=\n{pre}{body}.")


def const_value(tr: Translator, v: ast.AST):
    """A class attribute the subset can express: an int constant, a jelly enum member, a class of a family."""
    if isinstance(v, ast.Constant) and isinstance(v.value, int) and not isinstance(v.value, bool):
        return f"({v.value})", "int"
    if isinstance(v, ast.Attribute) and isinstance(v.value, ast.Name) and v.value.id == "jelly":
        for vals in py2v.ENUM_TYPES.values():
            if v.attr in vals:
                return f"({vals[v.attr]})", "int"
    if isinstance(v, ast.Name) and v.id in getattr(tr, "class_tags", {}):
        root, tag = tr.class_tags[v.id]
        return tag, ("cls", root)
    return None
