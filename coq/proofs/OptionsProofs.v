(* OptionsProofs.v -- C13: header fidelity and stream-type validation. *)
From Coq Require Import Arith Lia.
From PJ.Model Require Import Base Lookup Terms Wire Encoder Streams Decoder Spec.

(* the options row a stream writes is what the reader is told *)
Theorem header_fidelity (c : stream_class) (ig : integ) (o : soptions) (s : stream) (rows : list row) (md : list (str * str)) (d : bool) :
  stream_new c ig o = Ok s ->
  options_from_frame {| f_rows := options_row s :: rows; f_meta := md |} d =
  Ok {| po_phys := physical_type c; po_logical := st_logical s;
        po_maxn := so_maxn o; po_maxp := so_maxp o; po_maxd := so_maxd o;
        po_name := p_name (so_params o); po_gen := p_gen (so_params o); po_star := p_star (so_params o);
        po_version := if p_nd (so_params o) then 2 else 1; po_delimited := d; po_nd := p_nd (so_params o) |}.
Proof.
  unfold stream_new. destruct (negb (preset_ok (so_maxn o) (so_maxp o) (so_maxd o))) eqn:Hp; [discriminate|].
  unfold bind. destruct (match so_flow o with Some f => Ok f | None => infer_flow c o end) as [fl|e]; [|discriminate].
  destruct (negb (type_compat (physical_type c) (fl_logical fl))) eqn:Hc; [discriminate|].
  intros H; inversion H; subst; clear H.
  unfold options_from_frame, first_options, options_row, bind; cbn.
  rewrite Hc, Hp. unfold params_version, MAX_VERSION.
  destruct (p_nd (so_params o)); reflexivity.
Qed.

(* version 2 exactly when namespace declarations are enabled *)
Theorem header_version (s : stream) :
  match options_row s with
  | ROptions w => o_version w = 2 <-> p_nd (so_params (st_opts s)) = true
  | _ => False
  end.
Proof. unfold options_row, params_version; cbn. destruct (p_nd _); split; intros; try reflexivity; discriminate. Qed.

(* the code's compatibility check is the specification's table, on every enum pair *)
Definition all_pairs : list (N * N) :=
  list_prod [1; 2; 3] [0; 1; 2; 3; 4; 13; 14; 114].

Theorem compat_is_spec_table :
  forallb (fun pl => Bool.eqb (type_compat (fst pl) (snd pl)) (spec_compat (fst pl) (snd pl))) all_pairs = true.
Proof. vm_compute. reflexivity. Qed.

Theorem compat_is_spec (p l : N) : In (p, l) all_pairs -> type_compat p l = spec_compat p l.
Proof.
  intros H. pose proof compat_is_spec_table as T. rewrite forallb_forall in T.
  specialize (T _ H). cbn in T. now apply Bool.eqb_prop.
Qed.

(* the same function guards construction and parsing *)
Theorem forbidden_pair_rejected_both_sides (c : stream_class) (ig : integ) (o : soptions) (fl : flow) (w : woptions) (rows : list row) (md : list (str * str)) (d : bool) :
  (so_flow o = Some fl /\ type_compat (physical_type c) (fl_logical fl) = false -> exists e, stream_new c ig o = Err e) /\
  (type_compat (o_phys w) (o_logical w) = false -> exists e, options_from_frame {| f_rows := ROptions w :: rows; f_meta := md |} d = Err e).
Proof.
  split.
  - intros [Hf Hc]. unfold stream_new. destruct (negb (preset_ok _ _ _)); [eauto|]. rewrite Hf. cbn [bind]. rewrite Hc. cbn. eauto.
  - intros Hc. unfold options_from_frame, first_options, bind; cbn. rewrite Hc. cbn. eauto.
Qed.

(* bounds *)
Theorem small_name_table_rejected_both_sides (c : stream_class) (ig : integ) (o : soptions) (w : woptions) (rows : list row) (md : list (str * str)) (d : bool) :
  (so_maxn o < 8 -> stream_new c ig o = Err Conformance) /\
  (o_maxn w < 8 -> exists e, options_from_frame {| f_rows := ROptions w :: rows; f_meta := md |} d = Err e).
Proof.
  split.
  - intros H. unfold stream_new, preset_ok, MIN_NAME_LOOKUP_SIZE. apply N.ltb_lt in H. now rewrite H.
  - intros H. unfold options_from_frame, first_options, bind, preset_ok, MIN_NAME_LOOKUP_SIZE; cbn.
    destruct (negb (type_compat _ _)); [eauto|]. apply N.ltb_lt in H. rewrite H. cbn. eauto.
Qed.

(* strict logical-type checking *)
Theorem strict_flat_exact (po : poptions) : strict_flat_ok po = true <-> (po_logical po = 1 \/ po_logical po = 2).
Proof.
  unfold strict_flat_ok, logical_flat. rewrite orb_true_iff, !N.eqb_eq. tauto.
Qed.

Theorem strict_grouped_exact (po : poptions) :
  strict_grouped_ok po = true <-> (po_logical po <> 0 /\ po_logical po <> 1 /\ po_logical po <> 2).
Proof.
  unfold strict_grouped_ok, logical_flat. rewrite negb_true_iff, !orb_false_iff, !N.eqb_neq. tauto.
Qed.

(* without strict checking the logical type never influences what is parsed: the decoder
   reads it only in validate_stream_options, against itself *)
Theorem nonstrict_ignores_logical (ig : integ) (ak : adapter_kind) (po po' : poptions) (r : row) (st : dstate) :
  (forall o, r <> ROptions o) ->
  decode_row ig ak po r st = decode_row ig ak po' r st.
Proof. intros H. destruct r; try reflexivity. exfalso. eapply H. reflexivity. Qed.

(* tables larger than 4096 are refused when a stream is created and when a header is read *)
Theorem large_tables_rejected_both_sides (c : stream_class) (ig : integ) (o : soptions) (w : woptions) (rows : list row) (md : list (str * str)) (d : bool) :
  (4096 < so_maxn o \/ 4096 < so_maxp o \/ 4096 < so_maxd o -> stream_new c ig o = Err Conformance) /\
  (4096 < o_maxn w \/ 4096 < o_maxp w \/ 4096 < o_maxd w -> exists e, options_from_frame {| f_rows := ROptions w :: rows; f_meta := md |} d = Err e).
Proof.
  assert (G : forall a b c0, 4096 < a \/ 4096 < b \/ 4096 < c0 -> preset_ok a b c0 = false).
  { intros a b c0 H. unfold preset_ok, MAX_LOOKUP_SIZE. destruct (a <? MIN_NAME_LOOKUP_SIZE); [reflexivity|]. cbn [negb andb].
    destruct (N.leb_spec a 4096); [|reflexivity]. destruct (N.leb_spec b 4096); [|reflexivity]. destruct (N.leb_spec c0 4096); [|reflexivity]. lia. }
  split.
  - intros H. unfold stream_new. now rewrite (G _ _ _ H).
  - intros H. unfold options_from_frame, first_options, bind; cbn.
    destruct (negb (type_compat _ _)); [eauto|]. rewrite (G _ _ _ H). cbn. eauto.
Qed.

(* a stream that could be created has tables the reader accepts *)
Lemma stream_new_tables_ok (c : stream_class) (ig : integ) (o : soptions) (s : stream) :
  stream_new c ig o = Ok s -> so_maxn o <= 4096 /\ so_maxp o <= 4096 /\ so_maxd o <= 4096.
Proof.
  unfold stream_new. destruct (negb (preset_ok (so_maxn o) (so_maxp o) (so_maxd o))) eqn:E; [discriminate|]. intros _.
  apply negb_false_iff in E. unfold preset_ok, MAX_LOOKUP_SIZE in E.
  apply andb_prop in E. destruct E as [E Ed]. apply andb_prop in E. destruct E as [E Ep]. apply andb_prop in E. destruct E as [_ En].
  apply N.leb_le in En, Ep, Ed. auto.
Qed.
