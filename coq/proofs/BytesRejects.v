(* BytesRejects.v -- C16 from bytes: a well-formed but invalid stream (one frame), serialised, is
   rejected by the parser model having yielded exactly the events before the violation. *)
From Coq Require Import Arith Lia.
From PJ.Model Require Import Base Terms Wire Encoder Decoder Spec.
From PJ.Proofs Require Import HintProofs WireProofs WireRT DecoderProofs DecoderSound DecoderRejects BytesE2E.

Lemma flat_obs_one ig ak po f st :
  flat_obs (decode_frames ig ak po [f] st) = rows_obs ig ak po (f_rows f) st.
Proof. rewrite (flat_is_rows ig ak po [f] st). cbn [flat_map]. now rewrite app_nil_r. Qed.

Theorem invalid_bytes_rejected_delimited (f : frame) (i : nat) (c : vclass) (evs : list event) (grouped : bool) :
  f_rows f <> [] -> run (f_rows f) = Invalid i c evs -> catalogued c = true ->
  wf_frame f -> small f ->
  let r := parse_stream Generic grouped false (write_delimited [f]) in
  flat_events r = evs /\ exists e, pr_end r = PRaise e.
Proof.
  intros Hne Hrun Hc Hwf Hsmall r. subst r.
  destruct (decoder_rejects (f_rows f) i c evs (f_meta f) true Hne Hrun Hc) as [e He].
  assert (Hf : {| f_rows := f_rows f; f_meta := f_meta f |} = f) by (destruct f; reflexivity).
  unfold decode_all in He. rewrite Hf in He.
  assert (Hlong : (3 <= length (write_delimited [f]))%nat).
  { apply write_delimited_long. cbn [flat_map]. rewrite app_nil_r. exact Hne. }
  assert (Hhint : hint (firstn 3 (write_delimited [f])) = true) by (apply write_delimited_detected; [now right|exact Hlong]).
  assert (Hread : read_frames (write_delimited [f]) = ([f], FiEof)).
  { apply read_frames_delimited_wf. constructor; [split; assumption|constructor]. }
  unfold parse_stream, parse_stream_h, get_options_and_frames_h. rewrite Hhint, Hread.
  cbn [skip_empty]. destruct (f_rows f) as [|r0 rest] eqn:Er; [contradiction|]. cbn [is_nil].
  destruct (options_from_frame f true) as [po|e0]; cbn [bind].
  - cbn [andb]. destruct (route (po_phys po)) as [ak|e1].
    + destruct (decoder_new po) as [st|e2].
      * cbv zeta. pose proof (flat_obs_one Generic ak po f st) as Ho. rewrite Er in Ho. rewrite He in Ho.
        split; [exact (f_equal fst Ho)|]. cbn [pr_end].
        assert (Hl : last_err (decode_frames Generic ak po [f] st) = Some e) by exact (f_equal snd Ho). rewrite Hl. eauto.
      * inversion He; subst. split; [reflexivity|eexists; reflexivity].
    + inversion He; subst. split; [reflexivity|eexists; reflexivity].
  - inversion He; subst. split; [reflexivity|eexists; reflexivity].
Qed.
