(* BytesRejects.v -- C16 from bytes: a well-formed but invalid stream (one frame), serialised, is
   rejected by the parser model having yielded exactly the events before the violation. *)
From Coq Require Import Arith Lia.
From PJ.Model Require Import Base Terms Wire Encoder Decoder Spec.
From PJ.Proofs Require Import HintProofs WireProofs WireRT DecoderProofs DecoderSound DecoderRejects BytesE2E.

Lemma flat_obs_one ig ak po f st :
  flat_obs (decode_frames ig ak po [f] st) = rows_obs ig ak po (f_rows f) st.
Proof. rewrite (flat_is_rows ig ak po [f] st). cbn [flat_map]. now rewrite app_nil_r. Qed.

Theorem invalid_bytes_rejected_delimited (f : frame) (i : nat) (c : vclass) (evs : list event) (grouped : bool) :
  f_rows f <> [] -> run (f_rows f) = Invalid i c evs -> catalogued c = true ->
  wf_frame f -> small f ->
  let r := parse_stream Generic grouped false (write_delimited [f]) in
  flat_events r = evs /\ exists e, pr_end r = PRaise e.
Proof.
  intros Hne Hrun Hc Hwf Hsmall r. subst r.
  destruct (decoder_rejects (f_rows f) i c evs (f_meta f) true Hne Hrun Hc) as [e He].
  assert (Hf : {| f_rows := f_rows f; f_meta := f_meta f |} = f) by (destruct f; reflexivity).
  unfold decode_all in He. rewrite Hf in He.
  assert (Hlong : (3 <= length (write_delimited [f]))%nat).
  { apply write_delimited_long. cbn [flat_map]. rewrite app_nil_r. exact Hne. }
  assert (Hhint : hint (firstn 3 (write_delimited [f])) = true) by (apply write_delimited_detected; [now right|exact Hlong]).
  assert (Hread : read_frames (write_delimited [f]) = ([f], FiEof)).
  { apply read_frames_delimited_wf. constructor; [split; assumption|constructor]. }
  unfold parse_stream, parse_stream_h, get_options_and_frames_h. rewrite Hhint, Hread.
  cbn [skip_empty]. destruct (f_rows f) as [|r0 rest] eqn:Er; [contradiction|]. cbn [is_nil].
  destruct (options_from_frame f true) as [po|e0]; cbn [bind].
  - cbn [andb]. destruct (route (po_phys po)) as [ak|e1].
    + destruct (decoder_new po) as [st|e2].
      * cbv zeta. pose proof (flat_obs_one Generic ak po f st) as Ho. rewrite Er in Ho. rewrite He in Ho.
        split; [exact (f_equal fst Ho)|]. cbn [pr_end].
        assert (Hl : last_err (decode_frames Generic ak po [f] st) = Some e) by exact (f_equal snd Ho). rewrite Hl. eauto.
      * inversion He; subst. split; [reflexivity|eexists; reflexivity].
    + inversion He; subst. split; [reflexivity|eexists; reflexivity].
  - inversion He; subst. split; [reflexivity|eexists; reflexivity].
Qed.

(* ---- any number of frames ---- *)
Lemma options_same_first (f g : frame) (d : bool) r tl tl' :
  f_rows f = r :: tl -> f_rows g = r :: tl' -> options_from_frame f d = options_from_frame g d.
Proof. intros Hf Hg. unfold options_from_frame, first_options. rewrite Hf, Hg. reflexivity. Qed.

Theorem invalid_bytes_rejected (f : frame) (rest : list frame) (i : nat) (c : vclass) (evs : list event) (grouped : bool) :
  f_rows f <> [] -> run_frames (f :: rest) = Invalid i c evs -> catalogued c = true ->
  Forall wf_frame (f :: rest) -> Forall small (f :: rest) ->
  let r := parse_stream Generic grouped false (write_delimited (f :: rest)) in
  flat_events r = evs /\ exists e, pr_end r = PRaise e.
Proof.
  intros Hne Hrun Hc Hwf Hsmall r. subst r. unfold run_frames in Hrun.
  assert (Hrows : flat_map f_rows (f :: rest) <> []).
  { cbn [flat_map]. destruct (f_rows f); [contradiction|discriminate]. }
  destruct (decoder_rejects _ i c evs (f_meta f) true Hrows Hrun Hc) as [e He].
  unfold decode_all in He.
  assert (Hlong : (3 <= length (write_delimited (f :: rest)))%nat) by (apply write_delimited_long; exact Hrows).
  assert (Hhint : hint (firstn 3 (write_delimited (f :: rest))) = true) by (apply write_delimited_detected; [now right|exact Hlong]).
  assert (Hread : read_frames (write_delimited (f :: rest)) = (f :: rest, FiEof)).
  { apply read_frames_delimited_wf. clear -Hwf Hsmall. induction (f :: rest) as [|g gs IH]; [constructor|].
    inversion Hwf; inversion Hsmall; subst. constructor; [split; assumption|now apply IH]. }
  unfold parse_stream, parse_stream_h, get_options_and_frames_h. rewrite Hhint, Hread.
  cbn [skip_empty]. destruct (f_rows f) as [|r0 tl] eqn:Er; [contradiction|]. cbn [is_nil].
  assert (Hopt : options_from_frame {| f_rows := flat_map f_rows (f :: rest); f_meta := f_meta f |} true = options_from_frame f true).
  { eapply options_same_first; [|exact Er]. cbn [f_rows flat_map]. rewrite Er. reflexivity. }
  rewrite Hopt in He.
  destruct (options_from_frame f true) as [po|e0]; cbn [bind].
  - cbn [andb]. destruct (route (po_phys po)) as [ak|e1].
    + destruct (decoder_new po) as [st|e2].
      * cbv zeta. pose proof (flat_is_rows Generic ak po (f :: rest) st) as Ho. rewrite He in Ho.
        split; [exact (f_equal fst Ho)|]. cbn [pr_end].
        assert (Hl : last_err (decode_frames Generic ak po (f :: rest) st) = Some e) by exact (f_equal snd Ho). rewrite Hl. eauto.
      * inversion He; subst. split; [reflexivity|eexists; reflexivity].
    + inversion He; subst. split; [reflexivity|eexists; reflexivity].
  - inversion He; subst. split; [reflexivity|eexists; reflexivity].
Qed.
