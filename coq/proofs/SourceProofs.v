(* SourceProofs.v -- C09: the header a non-seekable source yields does not depend on how the
   transport chunks its reads. *)
From Coq Require Import Arith Lia.
From PJ.Model Require Import Base Terms Wire Encoder Streams Decoder Source.

(* one raw read of a non-empty rest with want >= 1 returns between 1 and want bytes *)
Lemma raw_read_spec want sched rest :
  (1 <= want)%nat ->
  exists n, (1 <= n <= want)%nat /\
            raw_read want sched rest = (firstn n rest, tl sched, skipn n rest).
Proof.
  intros Hw. unfold raw_read.
  exists (Nat.min want (Nat.max 1 (match sched with s :: _ => s | [] => 1%nat end))).
  split; [lia|reflexivity].
Qed.

Lemma firstn_app_skipn {A} (n m : nat) (l : list A) :
  firstn n l ++ firstn m (skipn n l) = firstn (n + m) l.
Proof.
  revert l; induction n as [|n IH]; intros l; cbn; [reflexivity|].
  destruct l as [|x l]; cbn; [now rewrite firstn_nil|]. now rewrite IH.
Qed.

Lemma skipn_skipn {A} (n m : nat) (l : list A) : skipn m (skipn n l) = skipn (n + m) l.
Proof.
  revert l; induction n as [|n IH]; intros l; cbn; [reflexivity|].
  destruct l as [|x l]; cbn; [now rewrite skipn_nil|]. apply IH.
Qed.

(* the loop invariant: have = firstn k b, rest = skipn k b, k <= 3 *)
Lemma read_header_inv (fuel k : nat) (sched : list nat) (b : list N) :
  (k <= 3)%nat -> (k <= length b)%nat -> (3 - k < fuel)%nat ->
  read_header fuel (firstn k b) sched (skipn k b) = (firstn 3 b, skipn 3 b).
Proof.
  revert k sched; induction fuel as [|fuel IH]; intros k sched Hk Hkb Hf; [lia|].
  cbn [read_header]. rewrite firstn_length_le by exact Hkb.
  destruct (Nat.leb_spec 3 k) as [H3|H3].
  - assert (k = 3%nat) by lia. subst k. reflexivity.
  - destruct (raw_read_spec (3 - k) sched (skipn k b)) as (n & Hn & Hr); [lia|]. rewrite Hr.
    destruct (firstn n (skipn k b)) as [|c cs] eqn:Hc.
    + (* nothing more to read: the input ended *)
      assert (Hlen : length (skipn k b) = 0%nat).
      { destruct (skipn k b) as [|y ys] eqn:E; [reflexivity|]. destruct n; [lia|]. cbn in Hc. discriminate. }
      rewrite skipn_length in Hlen.
      assert (length b = k) by lia.
      rewrite (firstn_all2 (n := 3) b) by lia. rewrite (firstn_all2 (n := k) b) by lia.
      rewrite (skipn_all2 (n := 3) b) by lia. rewrite (skipn_all2 (n := k) b) by lia. reflexivity.
    + rewrite <- Hc. rewrite firstn_app_skipn, skipn_skipn.
      assert (Hlen : (length (firstn n (skipn k b)) <= n)%nat) by apply firstn_le_length.
      destruct (Nat.le_gt_cases (k + n) (length b)) as [Hle|Hgt].
      * apply IH; lia.
      * (* the read reached the end of the input: k + n > length b *)
        rewrite (firstn_all2 (n := k + n) b) by lia. rewrite (skipn_all2 (n := k + n) b) by lia.
        destruct fuel as [|fuel']; [lia|]. cbn [read_header].
        destruct (Nat.leb_spec 3 (length b)) as [Hb3|Hb3].
        -- exfalso. lia.
        -- destruct (raw_read_spec (3 - length b) (tl sched) []) as (n' & Hn' & Hr'); [lia|].
           rewrite Hr'. rewrite firstn_nil.
           rewrite (firstn_all2 (n := 3) b) by lia. rewrite (skipn_all2 (n := 3) b) by lia. reflexivity.
Qed.

Theorem read_header_any_schedule (sched : list nat) (b : list N) :
  read_header 4 [] sched b = (firstn 3 b, skipn 3 b).
Proof. apply (read_header_inv 4 0 sched b); cbn; lia. Qed.

Theorem acquire_raw (sched : list nat) (b : list N) : acquire (Raw sched b) = acquire (Buffer b).
Proof. cbn [acquire]. rewrite read_header_any_schedule. now rewrite firstn_skipn. Qed.

Theorem parse_source_independent (ig : integ) (grouped strict : bool) (sched : list nat) (b : list N) :
  parse_source ig grouped strict (Raw sched b) = parse_source ig grouped strict (Buffer b) /\
  parse_source ig grouped strict (Seekable b) = parse_source ig grouped strict (Buffer b) /\
  parse_source ig grouped strict (Buffer b) = parse_stream ig grouped strict b.
Proof.
  unfold parse_source. rewrite acquire_raw. cbn [acquire]. repeat split; reflexivity.
Qed.

(* the premise is inhabited: one byte at a time *)
Example dribble_one_byte :
  read_header 4 [] [1; 1; 1]%nat [10; 20; 30; 40] = ([10; 20; 30], [40]).
Proof. reflexivity. Qed.
