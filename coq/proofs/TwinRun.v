(* TwinRun.v -- C15, the serializers: a whole run of the triples / quads driver over an rdflib stream is, event for event, the run
   over its generic twin (the same stream with the generic term dispatchers) on RDF 1.1 statements -- accepted statements, refused
   ones, the exception that ends the run, and the stream left behind.  Hence two streams made from the same options, one per
   integration, fed the same statements, emit the same frames (the same_options_same_frames theorems). *)
From Coq Require Import Arith Lia.
From PJ.Model Require Import Base Lookup Terms Wire Encoder Streams Decoder.
From PJ.Proofs Require Import AgreeProofs EncoderProofs EncRdflib EncRdflibQuads.

Lemma twin_enroll s : enroll (twin s) = twin (enroll s).
Proof. destruct s as [c ig o e f r en fa l]. unfold enroll, twin. cbn. destruct en; reflexivity. Qed.

Lemma twin_with_flow s f : with_flow (twin s) f = twin (with_flow s f).
Proof. reflexivity. Qed.

Lemma twin_namespace name iri s :
  namespace_declaration name iri (twin s) = let '(s', r) := namespace_declaration name iri s in (twin s', r).
Proof.
  unfold namespace_declaration. cbn [twin st_failed st_enc st_rep st_flow]. destruct (st_failed s); [reflexivity|].
  destruct (encode_namespace_declaration name iri (st_enc s)) as [[t' rows]|e]; reflexivity.
Qed.

Lemma twin_declare_all ns : forall s, declare_all ns (twin s) = let '(s', r) := declare_all ns s in (twin s', r).
Proof.
  induction ns as [|[name iri] ns IH]; intros s; cbn [declare_all]; [reflexivity|].
  rewrite twin_namespace. destruct (namespace_declaration name iri s) as [s' [u|e]]; [apply IH | reflexivity].
Qed.

Lemma twin_ns_phase always d s : ns_phase always d (twin s) = let '(s', r) := ns_phase always d s in (twin s', r).
Proof.
  unfold ns_phase. cbn [twin st_opts]. destruct (p_nd _); [|reflexivity]. destruct (d_is_sink d); [apply twin_declare_all|].
  destruct always; reflexivity.
Qed.

Lemma twin_finish gf s : finish gf (twin s) = let '(s', evs) := finish gf s in (twin s', evs).
Proof.
  unfold finish. cbn [twin st_flow]. destruct (if gf then _ else _) as [fl1 fr1]. destruct (to_stream_frame fl1) as [fl2 fr2]. reflexivity.
Qed.

(* one statement: accepted or refused alike *)
Lemma twin_stream_triple tr s : st_integ s = Rdflib -> forallb term_rdf11 tr = true ->
  stream_triple tr (twin s) = (let '(s1, r) := stream_triple tr s in (twin s1, r)) /\ st_integ (fst (stream_triple tr s)) = Rdflib.
Proof.
  intros Hig H11. unfold stream_triple, refuse. cbn [twin st_failed st_integ st_enc st_rep st_flow]. rewrite Hig.
  destruct (st_failed s); [split; [reflexivity | exact Hig]|]. rewrite (encode_triple_agree _ _ _ H11).
  destruct (encode_triple Rdflib tr (st_enc s) (st_rep s)) as [[[t' rp'] rows]|]; [|split; [reflexivity | exact Hig]].
  destruct (frame_from_bounds _) as [fl fr']. split; [reflexivity | exact Hig].
Qed.

Lemma twin_feed_triples stmts : forall s, st_integ s = Rdflib -> stmts_rdf11 stmts = true ->
  feed stream_triple stmts (twin s) = (let '(s', evs, ok) := feed stream_triple stmts s in (twin s', evs, ok)) /\
  st_integ (fst (fst (feed stream_triple stmts s))) = Rdflib.
Proof.
  induction stmts as [|st rest IH]; intros s Hig H11; cbn [feed]; [split; [reflexivity | exact Hig]|].
  cbn [stmts_rdf11 forallb] in H11. apply andb_prop in H11. destruct H11 as [Hst Hrest].
  destruct (twin_stream_triple st s Hig Hst) as [Et Hi1]. rewrite Et.
  destruct (stream_triple st s) as [s1 [fr|e]]; cbn [fst] in Hi1; [|split; [reflexivity | exact Hi1]].
  destruct (IH s1 Hi1 Hrest) as [E2 Hi2]. rewrite E2.
  destruct (feed stream_triple rest s1) as [[s2 evs] ok]. cbn [fst] in *. split; [reflexivity | exact Hi2].
Qed.

Lemma ns_phase_integ always d s : st_integ (fst (ns_phase always d s)) = st_integ s.
Proof.
  unfold ns_phase. destruct (p_nd _); [|reflexivity]. destruct (d_is_sink d); [|destruct always; reflexivity].
  generalize (d_namespaces d) as ns. intros ns. revert s. induction ns as [|[name iri] ns IH]; intros s; cbn [declare_all]; [reflexivity|].
  unfold namespace_declaration. destruct (st_failed s); [reflexivity|].
  destruct (encode_namespace_declaration name iri (st_enc s)) as [[t' rows]|e]; [|reflexivity].
  rewrite IH. reflexivity.
Qed.

(* the whole triples driver *)
Theorem twin_triples_run (d : sdata) (s : stream) : st_integ s = Rdflib -> stmts_rdf11 (d_stmts d) = true ->
  triples_stream_frames d (twin s) = let '(s', evs) := triples_stream_frames d s in (twin s', evs).
Proof.
  intros Hig H11. unfold triples_stream_frames. cbv zeta. rewrite twin_enroll, twin_ns_phase.
  pose proof (ns_phase_integ false d (enroll s)) as Hi0.
  destruct (ns_phase false d (enroll s)) as [s1 [u|e]]; [|reflexivity]. cbn [fst] in Hi0.
  assert (Hi1 : st_integ s1 = Rdflib). { rewrite Hi0. unfold enroll. destruct (st_enrolled s); exact Hig. }
  destruct (twin_feed_triples (d_stmts d) s1 Hi1 H11) as [E _]. rewrite E.
  destruct (feed stream_triple (d_stmts d) s1) as [[s2 evs] ok]. destruct ok; [|reflexivity].
  rewrite twin_finish. destruct (finish true s2) as [s3 fin]. reflexivity.
Qed.

(* two streams from the same options, one per integration: the generic one is the twin of the rdflib one *)
Lemma stream_new_twin c o s : stream_new c Rdflib o = Ok s -> stream_new c Generic o = Ok (twin s).
Proof.
  unfold stream_new. destruct (negb _); [discriminate|]. unfold bind.
  destruct (match so_flow o with Some f => Ok f | None => infer_flow c o end) as [f|]; [|discriminate].
  destruct (negb _); [discriminate|]. intros H; inversion H; subst. reflexivity.
Qed.

(* C15, serializers, TRIPLES: the rdflib triples driver over a Graph (or a generator) and the generic triples driver over the
   corresponding data, on streams made from the same options, do the same -- event for event *)
Theorem same_options_same_frames_triples (o : soptions) (sr sg : stream) (d : rdata) :
  stream_new TripleStream Rdflib o = Ok sr -> stream_new TripleStream Generic o = Ok sg ->
  rd_kind d <> RDataset -> stmts_rdf11 (rd_stmts d) = true ->
  snd (triples_stream_frames (sdata_of d) sg) = snd (rdf_triples_stream_frames d sr).
Proof.
  intros Hr Hg Hk H11. rewrite (stream_new_twin _ _ _ Hr) in Hg. injection Hg as <-.
  rewrite (rdf_triples_as_generic d sr Hk).
  assert (Hig : st_integ sr = Rdflib).
  { unfold stream_new in Hr. destruct (negb _); [discriminate|]. unfold bind in Hr.
    destruct (match so_flow o with Some f => Ok f | None => infer_flow TripleStream o end); [|discriminate].
    destruct (negb _); [discriminate|]. inversion Hr; reflexivity. }
  rewrite (twin_triples_run (sdata_of d) sr Hig H11). destruct (triples_stream_frames (sdata_of d) sr) as [s' evs]. reflexivity.
Qed.

(* ---------- QUADS: the generic twin remembers the default graph as its own term (rep_inv) and is fed quad_inv of each statement
   (the default graph's IRI stands for the default graph); runs that end normally ---------- *)
Definition twinq (s : stream) : stream :=
  {| st_class := st_class s; st_integ := Generic; st_opts := st_opts s; st_enc := st_enc s;
     st_flow := st_flow s; st_rep := rep_inv (st_rep s); st_enrolled := st_enrolled s; st_failed := st_failed s;
     st_logical := st_logical s |}.

Lemma twinq_enroll s : enroll (twinq s) = twinq (enroll s).
Proof. destruct s as [c ig o e f r en fa l]. unfold enroll, twinq. cbn. destruct en; reflexivity. Qed.

Lemma twinq_namespace name iri s :
  namespace_declaration name iri (twinq s) = let '(s', r) := namespace_declaration name iri s in (twinq s', r).
Proof.
  unfold namespace_declaration. cbn [twinq st_failed st_enc st_rep st_flow]. destruct (st_failed s); [reflexivity|].
  destruct (encode_namespace_declaration name iri (st_enc s)) as [[t' rows]|e]; reflexivity.
Qed.

Lemma twinq_declare_all ns : forall s, declare_all ns (twinq s) = let '(s', r) := declare_all ns s in (twinq s', r).
Proof.
  induction ns as [|[name iri] ns IH]; intros s; cbn [declare_all]; [reflexivity|].
  rewrite twinq_namespace. destruct (namespace_declaration name iri s) as [s' [u|e]]; [apply IH | reflexivity].
Qed.

Lemma declare_all_keeps ns : forall s s' r, declare_all ns s = (s', r) -> st_integ s' = st_integ s /\ st_rep s' = st_rep s.
Proof.
  induction ns as [|[name iri] ns IH]; intros s s' r; cbn [declare_all]; [intros H; inversion H; auto|].
  unfold namespace_declaration. destruct (st_failed s); [intros H; inversion H; auto|].
  destruct (encode_namespace_declaration name iri (st_enc s)) as [[t' rows]|e]; [|intros H; inversion H; auto].
  intros H. destruct (IH _ _ _ H) as [H1 H2]. auto.
Qed.

Lemma twinq_finish gf s : finish gf (twinq s) = let '(s', evs) := finish gf s in (twinq s', evs).
Proof.
  unfold finish. cbn [twinq st_flow]. destruct (if gf then _ else _) as [fl1 fr1]. destruct (to_stream_frame fl1) as [fl2 fr2]. reflexivity.
Qed.

Lemma twinq_stream_quad st s s1 fr : st_integ s = Rdflib -> spo_rdf11 st = true -> rep_ok (st_rep s) ->
  stream_quad st s = (s1, Ok fr) ->
  stream_quad (quad_inv st) (twinq s) = (twinq s1, Ok fr) /\ st_integ s1 = Rdflib /\ rep_ok (st_rep s1).
Proof.
  intros Hig H11 Hok. unfold stream_quad, refuse. cbn [twinq st_failed st_integ st_enc st_rep st_flow]. rewrite Hig.
  destruct (st_failed s); [discriminate|].
  destruct (encode_quad Rdflib st (st_enc s) (st_rep s)) as [[[t' rp'] rows]|] eqn:E; [|discriminate].
  destruct (encode_quad_rdflib _ _ _ _ _ _ H11 Hok E) as [Eg Hok']. rewrite Eg.
  destruct (frame_from_bounds _) as [fl fr']. intros H; inversion H; subst. split; [reflexivity|]. split; [exact Hig | exact Hok'].
Qed.

Lemma twinq_feed_quads stmts : forall s s' evs, st_integ s = Rdflib -> forallb spo_rdf11 stmts = true -> rep_ok (st_rep s) ->
  feed stream_quad stmts s = (s', evs, true) ->
  feed stream_quad (map quad_inv stmts) (twinq s) = (twinq s', evs, true).
Proof.
  induction stmts as [|st rest IH]; intros s s' evs Hig H11 Hok; cbn [feed map]; [intros H; inversion H; reflexivity|].
  cbn [forallb] in H11. apply andb_prop in H11. destruct H11 as [Hst Hrest].
  destruct (stream_quad st s) as [s1 [fr|e]] eqn:E; [|intros H; inversion H].
  destruct (twinq_stream_quad _ _ _ _ Hig Hst Hok E) as (Et & Hi1 & Hok1). rewrite Et.
  destruct (feed stream_quad rest s1) as [[s2 evs2] ok2] eqn:E2. intros H; inversion H; subst.
  rewrite (IH _ _ _ Hi1 Hrest Hok1 E2). reflexivity.
Qed.

(* corresponding generic data: the same bindings, each quad with the default graph's IRI read as the default graph *)
Definition sdata_inv (d : rdata) : sdata :=
  {| d_is_sink := match rd_kind d with RGen => false | _ => true end;
     d_namespaces := rd_namespaces d; d_stmts := map quad_inv (rd_stmts d) |}.

Lemma rdf_ns_phase_quads d s : rdf_ns_phase false d s = ns_phase true (sdata_inv d) s.
Proof. unfold rdf_ns_phase, ns_phase, sdata_inv. cbn. destruct (p_nd _); [|reflexivity]. destruct (rd_kind d); reflexivity. Qed.

Theorem twinq_quads_run (d : rdata) (s s' : stream) (evs : list tev) :
  st_integ s = Rdflib -> forallb spo_rdf11 (rd_stmts d) = true -> rep_ok (st_rep s) ->
  rdf_quads_stream_frames d s = (s', evs) -> raised evs = None ->
  quads_stream_frames (sdata_inv d) (twinq s) = (twinq s', evs).
Proof.
  intros Hig H11 Hok. unfold rdf_quads_stream_frames, quads_stream_frames. cbv zeta.
  rewrite twinq_enroll, rdf_ns_phase_quads.
  assert (Hns : ns_phase true (sdata_inv d) (twinq (enroll s)) = let '(s1, r) := ns_phase true (sdata_inv d) (enroll s) in (twinq s1, r)).
  { unfold ns_phase. cbn [twinq st_opts]. destruct (p_nd _); [|reflexivity]. destruct (d_is_sink (sdata_inv d)); [apply twinq_declare_all | reflexivity]. }
  rewrite Hns.
  assert (Hkeep : st_integ (fst (ns_phase true (sdata_inv d) (enroll s))) = Rdflib /\ rep_ok (st_rep (fst (ns_phase true (sdata_inv d) (enroll s))))).
  { assert (Hi0 : st_integ (enroll s) = Rdflib /\ st_rep (enroll s) = st_rep s) by (unfold enroll; destruct (st_enrolled s); auto).
    unfold ns_phase. destruct (p_nd _); [|cbn [fst]; destruct Hi0 as [-> ->]; auto].
    destruct (d_is_sink (sdata_inv d)); [|cbn [fst]; destruct Hi0 as [-> ->]; auto].
    destruct (declare_all (d_namespaces (sdata_inv d)) (enroll s)) as [s1 r] eqn:Ed. cbn [fst].
    destruct (declare_all_keeps _ _ _ _ Ed) as [H1 H2]. rewrite H1, H2. destruct Hi0 as [-> ->]. auto. }
  destruct (ns_phase true (sdata_inv d) (enroll s)) as [s1 [u|e]]; cbn [fst] in Hkeep; [|intros H; inversion H; subst; discriminate].
  destruct Hkeep as [Hi1 Hok1].
  destruct (feed stream_quad (rd_stmts d) s1) as [[s2 evs2] ok] eqn:Ef. destruct ok.
  - cbn [sdata_inv d_stmts]. rewrite (twinq_feed_quads _ _ _ _ Hi1 H11 Hok1 Ef). rewrite twinq_finish.
    destruct (finish false s2) as [s3 fin]. intros H _; inversion H; subst. reflexivity.
  - intros H Hr; inversion H; subst. exfalso. exact (feed_not_ok_raises _ _ _ _ _ Ef Hr).
Qed.

Lemma stream_new_twinq c o s : stream_new c Rdflib o = Ok s -> stream_new c Generic o = Ok (twinq s) /\ st_integ s = Rdflib /\ rep_ok (st_rep s).
Proof.
  unfold stream_new. destruct (negb _); [discriminate|]. unfold bind.
  destruct (match so_flow o with Some f => Ok f | None => infer_flow c o end) as [f|]; [|discriminate].
  destruct (negb _); [discriminate|]. intros H; inversion H; subst. split; [reflexivity|]. split; [reflexivity | exact I].
Qed.

(* C15, serializers, QUADS: an rdflib quads run that ends normally and the generic quads run over the corresponding data, on streams
   made from the same options, emit the same events *)
Theorem same_options_same_frames_quads (o : soptions) (sr sr' sg : stream) (d : rdata) (evs : list tev) :
  stream_new QuadStream Rdflib o = Ok sr -> stream_new QuadStream Generic o = Ok sg ->
  forallb spo_rdf11 (rd_stmts d) = true ->
  rdf_quads_stream_frames d sr = (sr', evs) -> raised evs = None ->
  snd (quads_stream_frames (sdata_inv d) sg) = evs.
Proof.
  intros Hr Hg H11 Hrun Hraise. destruct (stream_new_twinq _ _ _ Hr) as (Hg' & Hig & Hok). rewrite Hg' in Hg. injection Hg as <-.
  rewrite (twinq_quads_run d sr sr' evs Hig H11 Hok Hrun Hraise). reflexivity.
Qed.
