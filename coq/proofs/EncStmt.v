(* EncStmt.v -- one statement: the rows the writer emits for a triple or quad are accepted by the
   referee and denote exactly the (normalised) statement, with every entry row deferred before
   the statement row; the invariant between statements is re-established. *)
From Coq Require Import Arith Lia.
From PJ.Model Require Import Base Lookup Terms Encoder Spec.
From PJ.Proofs Require Import Mirror MirrorRun Recency DecoderSound EncLookup Den EncoderProofs EncTerm.

(* ---- equality of API terms ---- *)
Lemma opt_str_eqb_true a b : opt_eqb str_eqb a b = true -> a = b.
Proof.
  destruct a, b; cbn; intros H; try discriminate; [|reflexivity].
  destruct (str_eqb_spec s s0); [subst; reflexivity|discriminate].
Qed.

Lemma term_eqb_true a : forall b, term_eqb a b = true -> a = b.
Proof.
  induction a as [x|x|l g d|s IHs p IHp o IHo| |]; intros [y|y|l2 g2 d2|s2 p2 o2| |]; cbn; intros H; try discriminate; try reflexivity.
  - destruct (str_eqb_spec x y); [subst; reflexivity|discriminate].
  - destruct (str_eqb_spec x y); [subst; reflexivity|discriminate].
  - apply andb_prop in H. destruct H as [H H3]. apply andb_prop in H. destruct H as [H1 H2].
    destruct (str_eqb_spec l l2); [subst|discriminate].
    apply opt_str_eqb_true in H2, H3. subst. reflexivity.
  - apply andb_prop in H. destruct H as [H H3]. apply andb_prop in H. destruct H as [H1 H2].
    rewrite (IHs _ H1), (IHp _ H2), (IHo _ H3). reflexivity.
Qed.

(* ---- the invariant between statements ---- *)
Definition onorm (o : option term) : option term := match o with Some t => Some (norm t) | None => None end.

Record JS (t : tenc) (rp : repeated) (ss : sstate) : Prop := {
  js_n : InvT (t_names t) (s_names ss) (s_la_n ss);
  js_p : (lmax (t_prefixes t) = 0 /\ e_last_reused (t_prefixes t) = 0 /\ l_data (e_lookup (t_prefixes t)) = []) \/
         InvT (t_prefixes t) (s_prefixes ss) (s_la_p ss);
  js_d : (lmax (t_datatypes t) = 0 /\ l_data (e_lookup (t_datatypes t)) = []) \/
         InvT (t_datatypes t) (s_datatypes ss) (s_la_d ss);
  js_lp : s_last_pid ss = e_last_reused (t_prefixes t);
  js_ln : s_last_nid ss = e_last_reused (t_names t);
  js_s : s_ps ss = onorm (Encoder.r_s rp); js_pp : s_pp ss = onorm (Encoder.r_p rp);
  js_o : s_po ss = onorm (Encoder.r_o rp); js_g : s_pg ss = onorm (Encoder.r_g rp) }.

Lemma JS_start t rp ss : JS t rp ss -> J (start_statement t) ss.
Proof.
  intros [A B C _ _ _ _ _ _]. refine {| j_n := _; j_wn := _; j_p := _; j_d := _ |}; cbn.
  - exact A.
  - apply wk_start.
  - destruct B as [B|B]; [now left|right; split; [exact B|apply wk_start]].
  - destruct C as [C|C]; [now left|right; split; [exact C|apply wk_start]].
Qed.

(* the referee's tables resolve every touched key of the writer *)
Lemma J_resolves t ss :
  J t ss ->
  (forall k i, KNt t k -> fNt t k = Some i -> tget i (s_names ss) = SOk k) /\
  (forall k i, KPt t k -> fPt t k = Some i -> tget i (s_prefixes ss) = SOk k /\ 1 <= i) /\
  (forall k i, KDt t k -> fDt t k = Some i -> tget i (s_datatypes ss) = SOk k).
Proof.
  intros [Jn _ Jp Jd]. split; [|split].
  - intros k i _ Hf. exact (proj1 (live_entry_resolves _ _ _ _ _ Jn Hf)).
  - intros k i _ Hf. destruct Jp as [[_ [_ He]]|[Jp _]].
    + unfold fPt in Hf. rewrite He in Hf. discriminate.
    + exact (live_entry_resolves _ _ _ _ _ Jp Hf).
  - intros k i _ Hf. destruct Jd as [[_ He]|[Jd _]].
    + unfold fDt in Hf. rewrite He in Hf. discriminate.
    + exact (proj1 (live_entry_resolves _ _ _ _ _ Jd Hf)).
Qed.

(* one slot: what the writer did (encode or elide) *)
Inductive slot_done (t0 t1 : tenc) (prev : option term) (tm : term) : option wterm -> option term -> Prop :=
| SlotEnc w : DenT t1 (Lt t0) w (norm tm) (Lt t1) -> w <> WDefault -> slot_done t0 t1 prev tm (Some w) (Some tm)
| SlotRep : prev = Some tm -> t1 = t0 -> slot_done t0 t1 prev tm None prev.

Lemma encode_slot_valid (prev : option term) (tm : term) (t t' : tenc) (rows : list row) (w : option wterm) (prev' : option term) (ss : sstate) :
  J t ss -> encode_slot Generic prev tm t = Ok (t', rows, w, prev') ->
  exists ss1, steps rows ss = SOk (ss1, []) /\ J t' ss1 /\ nontab_eq ss ss1 /\ Stable t t' /\
              slot_done t t' prev tm w prev' /\ onorm prev' = Some (norm tm).
Proof.
  intros HJ. unfold encode_slot. destruct (differs prev tm) eqn:Ed.
  - unfold bind. destruct (encode_spo_term Generic tm t) as [[[t1 r1] w1]|e] eqn:E; [|discriminate].
    intros H; inversion H; subst t' rows w prev'; clear H.
    destruct (encode_spo_term_valid _ _ _ _ _ _ HJ E) as (ss1 & S1 & J1 & N1 & D1 & St1 & W1).
    exists ss1. repeat (split; [assumption|]). split; [now constructor|reflexivity].
  - intros H; inversion H; subst t' rows w prev'; clear H.
    unfold differs in Ed. destruct prev as [p0|]; [|discriminate]. apply negb_false_iff in Ed. apply term_eqb_true in Ed. subst p0.
    exists ss. split; [reflexivity|]. split; [exact HJ|]. split; [apply nontab_refl|]. split; [apply stable_refl|].
    split; [now constructor|reflexivity].
Qed.

Lemma encode_gslot_valid (prev : option term) (tm : term) (t t' : tenc) (rows : list row) (w : option wterm) (prev' : option term) (ss : sstate) :
  J t ss -> encode_gslot Generic prev tm t = Ok (t', rows, w, prev') ->
  exists ss1, steps rows ss = SOk (ss1, []) /\ J t' ss1 /\ nontab_eq ss ss1 /\ Stable t t' /\
              (match w with
               | Some w' => DenT t' (Lt t) w' (norm tm) (Lt t') /\ wf_pos true w'
               | None => prev = Some tm /\ t' = t
               end) /\ onorm prev' = Some (norm tm).
Proof.
  intros HJ. unfold encode_gslot. destruct (differs prev tm) eqn:Ed.
  - unfold bind. destruct (encode_graph_term Generic tm t) as [[[t1 r1] w1]|e] eqn:E; [|discriminate].
    intros H; inversion H; subst t' rows w prev'; clear H.
    destruct (encode_graph_term_valid _ _ _ _ _ _ HJ E) as (ss1 & S1 & J1 & N1 & D1 & St1 & W1).
    exists ss1. repeat (split; [assumption|]). split; [split; assumption|reflexivity].
  - intros H; inversion H; subst t' rows w prev'; clear H.
    unfold differs in Ed. destruct prev as [p0|]; [|discriminate]. apply negb_false_iff in Ed. apply term_eqb_true in Ed. subst p0.
    exists ss. split; [reflexivity|]. split; [exact HJ|]. split; [apply nontab_refl|]. split; [apply stable_refl|].
    split; [split; reflexivity|reflexivity].
Qed.

(* the referee resolves a slot against the final tables of the statement *)
Lemma slot_resolves (t0 t1 t3 : tenc) (prev : option term) (tm : term) (w : option wterm) (prev' : option term) (ss : sstate) :
  slot_done t0 t1 prev tm w prev' -> Stable t1 t3 -> J t3 ss ->
  s_last_pid ss = fst (Lt t0) -> s_last_nid ss = snd (Lt t0) ->
  exists ss', slot false w (onorm prev) ss = SOk (ss', norm tm) /\ frame_eq ss ss' /\
              s_last_pid ss' = fst (Lt t1) /\ s_last_nid ss' = snd (Lt t1).
Proof.
  intros Hd St HJ HLp HLn. destruct Hd as [w D W|Hp Ht].
  - destruct (J_resolves _ _ HJ) as (RN & RP & RD).
    pose proof (DenT_stable _ _ _ _ _ _ St D) as D3.
    destruct (Den_sound _ _ _ _ _ _ _ _ _ _ D3 false ss W RN RP RD HLp HLn) as (ss' & E & F & P & Nn).
    exists ss'. cbn [slot]. auto.
  - subst prev t1. cbn [slot onorm]. exists ss. split; [reflexivity|]. split; [apply frame_refl|auto].
Qed.

Lemma J_frame t ss ss' : J t ss -> frame_eq ss ss' -> J t ss'.
Proof.
  intros [A B C D] F. unfold frame_eq in F. destruct F as (F0 & F1 & F2 & F3 & F4 & F5 & F6 & _).
  refine {| j_n := _; j_wn := B; j_p := _; j_d := _ |}.
  - rewrite F1, F4. exact A.
  - destruct C as [C|[C1 C2]]; [now left|right]. rewrite F2, F5. auto.
  - destruct D as [D|[D1 D2]]; [now left|right]. rewrite F3, F6. auto.
Qed.

(* ---- a triple: the part common to TRIPLES streams and to triples inside a graph ---- *)
Lemma encode_triple_core (terms : list term) (t t' : tenc) (rp rp' : repeated) (rows : list row) (ss : sstate) :
  JS t rp ss ->
  encode_triple Generic terms t rp = Ok (t', rp', rows) ->
  exists s p o rest ws wp wo entries s3 sc,
    terms = s :: p :: o :: rest /\ rows = entries ++ [RTriple ws wp wo] /\
    steps entries ss = SOk (s3, []) /\ nontab_eq ss s3 /\
    spo ws wp wo s3 = SOk (sc, norm s, norm p, norm o) /\ frame_eq s3 sc /\
    JS t' rp' (upd_prev sc (Some (norm s)) (Some (norm p)) (Some (norm o)) (s_pg sc)).
Proof.
  intros HJS. unfold encode_triple, bind, nth_term.
  destruct terms as [|s [|p [|o rest]]]; cbn [nth_error]; try discriminate.
  - destruct (encode_slot Generic (Encoder.r_s rp) s (start_statement t)) as [[[[? ?] ?] ?]|]; discriminate.
  - destruct (encode_slot Generic (Encoder.r_s rp) s (start_statement t)) as [[[[t1 ?] ?] ?]|]; [|discriminate].
    destruct (encode_slot Generic (Encoder.r_p rp) p t1) as [[[[? ?] ?] ?]|]; discriminate.
  - pose proof (JS_start _ _ _ HJS) as J0.
    destruct (encode_slot Generic (Encoder.r_s rp) s (start_statement t)) as [[[[t1 r1] ws] ps]|] eqn:Es; [|discriminate].
    destruct (encode_slot_valid _ _ _ _ _ _ _ _ J0 Es) as (s1 & S1 & J1 & N1 & St1 & D1 & P1).
    destruct (encode_slot Generic (Encoder.r_p rp) p t1) as [[[[t2 r2] wp] pp]|] eqn:Ep; [|discriminate].
    destruct (encode_slot_valid _ _ _ _ _ _ _ _ J1 Ep) as (s2 & S2 & J2 & N2 & St2 & D2 & P2).
    destruct (encode_slot Generic (Encoder.r_o rp) o t2) as [[[[t3 r3] wo] po]|] eqn:Eo; [|discriminate].
    destruct (encode_slot_valid _ _ _ _ _ _ _ _ J2 Eo) as (s3 & S3 & J3 & N3 & St3 & D3 & P3).
    intros H; inversion H; subst t' rp' rows; clear H.
    assert (Hent : steps (r1 ++ r2 ++ r3) ss = SOk (s3, [])) by (rewrite steps_app, S1, steps_app, S2, S3; reflexivity).
    assert (Nall : nontab_eq ss s3) by (eapply nontab_trans; [exact N1|]; eapply nontab_trans; eassumption).
    destruct HJS as [A B C HLp HLn Hps Hpp Hpo Hpg].
    pose proof Nall as Nall'. unfold nontab_eq in Nall'. destruct Nall' as (NO & NP & NN & NS & NPp & NPo & NG & NOp).
    assert (HL0p : s_last_pid s3 = fst (Lt (start_statement t))) by (cbn; congruence).
    assert (HL0n : s_last_nid s3 = snd (Lt (start_statement t))) by (cbn; congruence).
    destruct (slot_resolves _ _ t3 _ _ _ _ s3 D1 (stable_trans _ _ _ St2 St3) J3 HL0p HL0n) as (sa & Ea & Fa & Pa & Na).
    pose proof (J_frame _ _ _ J3 Fa) as J3a.
    destruct (slot_resolves _ _ t3 _ _ _ _ sa D2 St3 J3a Pa Na) as (sb & Eb & Fb & Pb & Nb).
    pose proof (J_frame _ _ _ J3a Fb) as J3b.
    destruct (slot_resolves _ _ t3 _ _ _ _ sb D3 (stable_refl _) J3b Pb Nb) as (sc & Ec & Fc & Pc & Nc).
    pose proof (J_frame _ _ _ J3b Fc) as J3c.
    assert (Fall : frame_eq s3 sc) by (eapply frame_trans; [exact Fa|]; eapply frame_trans; eassumption).
    exists s, p, o, rest, ws, wp, wo, (r1 ++ r2 ++ r3), s3, sc.
    split; [reflexivity|]. split; [now rewrite <- !app_assoc|]. split; [exact Hent|]. split; [exact Nall|].
    split; [|split; [exact Fall|]].
    + unfold spo, sbind. rewrite NS, Hps, Ea. cbn iota beta. rewrite NPp, Hpp, Eb. cbn iota beta. rewrite NPo, Hpo, Ec. reflexivity.
    + destruct J3c as [Jn _ Jp Jd]. unfold frame_eq in Fall.
      refine {| js_n := _; js_p := _; js_d := _; js_lp := _; js_ln := _; js_s := _; js_pp := _; js_o := _; js_g := _ |}; cbn.
      * exact Jn.
      * destruct Jp as [Jp|[Jp _]]; [now left|now right].
      * destruct Jd as [Jd|[Jd _]]; [now left|now right].
      * exact Pc.
      * exact Nc.
      * congruence.
      * congruence.
      * congruence.
      * destruct Fall as (_ & _ & _ & _ & _ & _ & _ & _ & _ & _ & Fg & _). congruence.
Qed.

(* ---- a triple of a TRIPLES stream ---- *)
Theorem encode_triple_valid (terms : list term) (t t' : tenc) (rp rp' : repeated) (rows : list row) (ss : sstate) :
  JS t rp ss -> phys ss = 1 ->
  encode_triple Generic terms t rp = Ok (t', rp', rows) ->
  exists s p o rest ss',
    terms = s :: p :: o :: rest /\
    steps rows ss = SOk (ss', [ETriple (norm s) (norm p) (norm o)]) /\
    JS t' rp' ss' /\ s_opts ss' = s_opts ss /\ s_open ss' = s_open ss.
Proof.
  intros HJS Hphys Henc.
  destruct (encode_triple_core _ _ _ _ _ _ _ HJS Henc) as (s & p & o & rest & ws & wp & wo & entries & s3 & sc & Ht & Hr & Hent & Nall & Hspo & Fall & HJ').
  exists s, p, o, rest. eexists. split; [exact Ht|]. subst rows.
  unfold nontab_eq in Nall. destruct Nall as (NO & _ & _ & _ & _ & _ & _ & NOp).
  unfold frame_eq in Fall. destruct Fall as (F0 & _ & _ & _ & _ & _ & _ & _ & _ & _ & _ & Fo).
  split; [|split; [exact HJ'|split; cbn; congruence]].
  rewrite steps_app, Hent. cbn [steps step]. unfold phys in *. rewrite NO, Hphys. cbn [N.eqb Pos.eqb].
  unfold sbind. rewrite Hspo. reflexivity.
Qed.

(* ---- a triple inside an open graph of a GRAPHS stream ---- *)
Theorem encode_triple_valid_in_graph (terms : list term) (t t' : tenc) (rp rp' : repeated) (rows : list row) (ss : sstate) (g0 : term) :
  JS t rp ss -> phys ss = 3 -> s_open ss = Some g0 ->
  encode_triple Generic terms t rp = Ok (t', rp', rows) ->
  exists s p o rest ss',
    terms = s :: p :: o :: rest /\
    steps rows ss = SOk (ss', [EQuad (norm s) (norm p) (norm o) g0]) /\
    JS t' rp' ss' /\ s_opts ss' = s_opts ss /\ s_open ss' = Some g0.
Proof.
  intros HJS Hphys Hopen Henc.
  destruct (encode_triple_core _ _ _ _ _ _ _ HJS Henc) as (s & p & o & rest & ws & wp & wo & entries & s3 & sc & Ht & Hr & Hent & Nall & Hspo & Fall & HJ').
  exists s, p, o, rest. eexists. split; [exact Ht|]. subst rows.
  unfold nontab_eq in Nall. destruct Nall as (NO & _ & _ & _ & _ & _ & _ & NOp).
  unfold frame_eq in Fall. destruct Fall as (F0 & _ & _ & _ & _ & _ & _ & _ & _ & _ & _ & Fo).
  split; [|split; [exact HJ'|split; cbn; congruence]].
  rewrite steps_app, Hent. cbn [steps step]. unfold phys in *. rewrite NO, Hphys. cbn [N.eqb Pos.eqb].
  rewrite NOp, Hopen. unfold sbind. rewrite Hspo. reflexivity.
Qed.

(* ---- a quad ---- *)
Theorem encode_quad_valid (terms : list term) (t t' : tenc) (rp rp' : repeated) (rows : list row) (ss : sstate) :
  JS t rp ss -> phys ss = 2 ->
  encode_quad Generic terms t rp = Ok (t', rp', rows) ->
  exists s p o g rest ss',
    terms = s :: p :: o :: g :: rest /\
    steps rows ss = SOk (ss', [EQuad (norm s) (norm p) (norm o) (norm g)]) /\
    JS t' rp' ss' /\ s_opts ss' = s_opts ss /\ s_open ss' = s_open ss.
Proof.
  intros HJS Hphys. unfold encode_quad, bind, nth_term.
  destruct terms as [|s [|p [|o [|g rest]]]]; cbn [nth_error]; try discriminate.
  - destruct (encode_slot Generic (Encoder.r_s rp) s (start_statement t)) as [[[[? ?] ?] ?]|]; discriminate.
  - destruct (encode_slot Generic (Encoder.r_s rp) s (start_statement t)) as [[[[t1 ?] ?] ?]|]; [|discriminate].
    destruct (encode_slot Generic (Encoder.r_p rp) p t1) as [[[[? ?] ?] ?]|]; discriminate.
  - destruct (encode_slot Generic (Encoder.r_s rp) s (start_statement t)) as [[[[t1 ?] ?] ?]|]; [|discriminate].
    destruct (encode_slot Generic (Encoder.r_p rp) p t1) as [[[[t2 ?] ?] ?]|]; [|discriminate].
    destruct (encode_slot Generic (Encoder.r_o rp) o t2) as [[[[? ?] ?] ?]|]; discriminate.
  - pose proof (JS_start _ _ _ HJS) as J0.
    destruct (encode_slot Generic (Encoder.r_s rp) s (start_statement t)) as [[[[t1 r1] ws] ps]|] eqn:Es; [|discriminate].
    destruct (encode_slot_valid _ _ _ _ _ _ _ _ J0 Es) as (s1 & S1 & J1 & N1 & St1 & D1 & P1).
    destruct (encode_slot Generic (Encoder.r_p rp) p t1) as [[[[t2 r2] wp] pp]|] eqn:Ep; [|discriminate].
    destruct (encode_slot_valid _ _ _ _ _ _ _ _ J1 Ep) as (s2 & S2 & J2 & N2 & St2 & D2 & P2).
    destruct (encode_slot Generic (Encoder.r_o rp) o t2) as [[[[t3 r3] wo] po]|] eqn:Eo; [|discriminate].
    destruct (encode_slot_valid _ _ _ _ _ _ _ _ J2 Eo) as (s3 & S3 & J3 & N3 & St3 & D3 & P3).
    destruct (encode_gslot Generic (Encoder.r_g rp) g t3) as [[[[t4 r4] wg] pg]|] eqn:Eg; [|discriminate].
    destruct (encode_gslot_valid _ _ _ _ _ _ _ _ J3 Eg) as (s4 & S4 & J4 & N4 & St4 & D4 & P4).
    intros H; inversion H; subst t' rp' rows; clear H.
    exists s, p, o, g, rest.
    assert (Hent : steps (r1 ++ r2 ++ r3 ++ r4) ss = SOk (s4, [])) by (rewrite steps_app, S1, steps_app, S2, steps_app, S3, S4; reflexivity).
    assert (Nall : nontab_eq ss s4).
    { eapply nontab_trans; [exact N1|]. eapply nontab_trans; [exact N2|]. eapply nontab_trans; eassumption. }
    destruct HJS as [A B C HLp HLn Hps Hpp Hpo Hpg].
    unfold nontab_eq in Nall. destruct Nall as (NO & NP & NN & NS & NPp & NPo & NG & NOp).
    assert (HL0p : s_last_pid s4 = fst (Lt (start_statement t))) by (cbn; congruence).
    assert (HL0n : s_last_nid s4 = snd (Lt (start_statement t))) by (cbn; congruence).
    destruct (slot_resolves _ _ t4 _ _ _ _ s4 D1 (stable_trans _ _ _ St2 (stable_trans _ _ _ St3 St4)) J4 HL0p HL0n) as (sa & Ea & Fa & Pa & Na).
    pose proof (J_frame _ _ _ J4 Fa) as J4a.
    destruct (slot_resolves _ _ t4 _ _ _ _ sa D2 (stable_trans _ _ _ St3 St4) J4a Pa Na) as (sb & Eb & Fb & Pb & Nb).
    pose proof (J_frame _ _ _ J4a Fb) as J4b.
    destruct (slot_resolves _ _ t4 _ _ _ _ sb D3 St4 J4b Pb Nb) as (sc & Ec & Fc & Pc & Nc).
    pose proof (J_frame _ _ _ J4b Fc) as J4c.
    (* the graph slot *)
    assert (Hg : exists sd, slot true wg (onorm (Encoder.r_g rp)) sc = SOk (sd, norm g) /\ frame_eq sc sd /\
                            s_last_pid sd = fst (Lt t4) /\ s_last_nid sd = snd (Lt t4)).
    { destruct wg as [wg'|].
      - destruct D4 as [D4 W4]. destruct (J_resolves _ _ J4c) as (RN & RP & RD).
        destruct (Den_sound _ _ _ _ _ _ _ _ _ _ D4 true sc W4 RN RP RD Pc Nc) as (sd & E & F & P & Nn).
        exists sd. cbn [slot]. auto.
      - destruct D4 as [Hp Ht]. subst t4. rewrite Hp. cbn [slot onorm]. exists sc. split; [reflexivity|]. split; [apply frame_refl|auto]. }
    destruct Hg as (sd & Ed & Fd & Pd & Nd).
    pose proof (J_frame _ _ _ J4c Fd) as J4d.
    assert (Fabc : frame_eq s4 sc) by (eapply frame_trans; [exact Fa|]; eapply frame_trans; eassumption).
    assert (Fall : frame_eq s4 sd) by (eapply frame_trans; eassumption).
    eexists. split; [reflexivity|]. split; [|split; [|split]].
    + replace (r1 ++ r2 ++ r3 ++ r4 ++ [RQuad ws wp wo wg]) with ((r1 ++ r2 ++ r3 ++ r4) ++ [RQuad ws wp wo wg]) by (now rewrite <- !app_assoc).
      rewrite steps_app, Hent. cbn [steps step].
      unfold phys in *. rewrite NO, Hphys. cbn [N.eqb Pos.eqb]. unfold spo, sbind.
      rewrite NS, Hps, Ea. cbn iota beta. rewrite NPp, Hpp, Eb. cbn iota beta. rewrite NPo, Hpo, Ec. cbn iota beta.
      unfold frame_eq in Fabc. destruct Fabc as (_ & _ & _ & _ & _ & _ & _ & _ & _ & _ & Fg & _).
      rewrite Fg, NG, Hpg, Ed. cbn. reflexivity.
    + destruct J4d as [Jn _ Jp Jd]. unfold frame_eq in Fall.
      refine {| js_n := _; js_p := _; js_d := _; js_lp := _; js_ln := _; js_s := _; js_pp := _; js_o := _; js_g := _ |}; cbn.
      * exact Jn.
      * destruct Jp as [Jp|[Jp _]]; [now left|now right].
      * destruct Jd as [Jd|[Jd _]]; [now left|now right].
      * exact Pd.
      * exact Nd.
      * congruence.
      * congruence.
      * congruence.
      * congruence.
    + cbn. unfold frame_eq in Fall. destruct Fall as (F0 & _). congruence.
    + cbn. unfold frame_eq in Fall. destruct Fall as (_ & _ & _ & _ & _ & _ & _ & _ & _ & _ & _ & Fo). congruence.
Qed.
