(* EncStream.v -- C03 / C01 / C18 for whole streams: whatever the generic TripleStream / QuadStream
   hands out -- any flow kind, frame size, table sizes down to where the guard refuses -- is accepted
   by the Spec referee and denotes exactly the (normalised) input statements, in order. *)
From Coq Require Import Arith Lia.
From PJ.Model Require Import Base Lookup Terms Encoder Streams Spec.
From PJ.Proofs Require Import Mirror MirrorRun DecoderSound EncLookup Den EncoderProofs FlowProofs EncTerm EncStmt OptionsProofs.

(* ---- steps vs run_from ---- *)
Lemma steps_run_from rows : forall i ss acc ss' evs,
  steps rows ss = SOk (ss', evs) -> run_from i rows ss acc = Valid (acc ++ evs).
Proof.
  induction rows as [|r rows IH]; intros i ss acc ss' evs; cbn [steps run_from].
  - intros H; inversion H; subst. now rewrite app_nil_r.
  - destruct (step r ss) as [[s1 e1]|]; [|discriminate].
    destruct (steps rows s1) as [[s2 e2]|] eqn:E; [|discriminate]. intros H; inversion H; subst.
    rewrite (IH _ _ _ _ _ E). now rewrite app_assoc.
Qed.

(* the events a list of statements denotes *)
Definition event_of_triple (st : list term) : list event :=
  match st with s :: p :: o :: _ => [ETriple (norm s) (norm p) (norm o)] | _ => [] end.
Definition event_of_quad (st : list term) : list event :=
  match st with s :: p :: o :: g :: _ => [EQuad (norm s) (norm p) (norm o) (norm g)] | _ => [] end.

(* ---- all statements of an input ---- *)
Lemma stream_triple_encode terms s s' fr :
  stream_triple terms s = (s', Ok fr) ->
  encode_triple (st_integ s) terms (st_enc s) (st_rep s) = Ok (st_enc s', st_rep s', appended_triple terms s) /\ st_integ s' = st_integ s.
Proof.
  unfold stream_triple, appended_triple. destruct (st_failed s); [discriminate|].
  destruct (encode_triple _ _ _ _) as [[[t' rp'] rows]|]; [|discriminate].
  destruct (frame_from_bounds _). intros H; inversion H; subst; cbn. auto.
Qed.

Lemma stream_quad_encode terms s s' fr :
  stream_quad terms s = (s', Ok fr) ->
  encode_quad (st_integ s) terms (st_enc s) (st_rep s) = Ok (st_enc s', st_rep s', appended_quad terms s) /\ st_integ s' = st_integ s.
Proof.
  unfold stream_quad, appended_quad. destruct (st_failed s); [discriminate|].
  destruct (encode_quad _ _ _ _) as [[[t' rp'] rows]|]; [|discriminate].
  destruct (frame_from_bounds _). intros H; inversion H; subst; cbn. auto.
Qed.

Theorem triples_all_valid (stmts : list (list term)) : forall (s s' : stream) (evs : list tev) (ss : sstate),
  st_integ s = Generic -> JS (st_enc s) (st_rep s) ss -> phys ss = 1 ->
  feed stream_triple stmts s = (s', evs, true) ->
  exists ss', steps (appended_all stream_triple appended_triple stmts s) ss = SOk (ss', flat_map event_of_triple stmts).
Proof.
  induction stmts as [|st rest IH]; intros s s' evs ss Hig HJ Hph; cbn [feed appended_all flat_map].
  - intros _. exists ss. reflexivity.
  - destruct (stream_triple st s) as [s1 [fr|e]] eqn:E; [|intros H; inversion H].
    destruct (feed stream_triple rest s1) as [[s2 evs2] ok2] eqn:E2. intros H; inversion H; subst.
    destruct (stream_triple_encode _ _ _ _ E) as [Henc Hig1]. rewrite Hig in Henc.
    destruct (encode_triple_valid _ _ _ _ _ _ _ HJ Hph Henc) as (a & b & c & tl & ss1 & Hst & Hsteps & HJ1 & Ho & _).
    assert (Hph1 : phys ss1 = 1) by (unfold phys in *; congruence).
    destruct (IH _ _ _ ss1 (eq_trans Hig1 Hig) HJ1 Hph1 E2) as [ss2 Hrest].
    exists ss2. rewrite steps_app, Hsteps, Hrest. subst st. reflexivity.
Qed.

Theorem quads_all_valid (stmts : list (list term)) : forall (s s' : stream) (evs : list tev) (ss : sstate),
  st_integ s = Generic -> JS (st_enc s) (st_rep s) ss -> phys ss = 2 ->
  feed stream_quad stmts s = (s', evs, true) ->
  exists ss', steps (appended_all stream_quad appended_quad stmts s) ss = SOk (ss', flat_map event_of_quad stmts).
Proof.
  induction stmts as [|st rest IH]; intros s s' evs ss Hig HJ Hph; cbn [feed appended_all flat_map].
  - intros _. exists ss. reflexivity.
  - destruct (stream_quad st s) as [s1 [fr|e]] eqn:E; [|intros H; inversion H].
    destruct (feed stream_quad rest s1) as [[s2 evs2] ok2] eqn:E2. intros H; inversion H; subst.
    destruct (stream_quad_encode _ _ _ _ E) as [Henc Hig1]. rewrite Hig in Henc.
    destruct (encode_quad_valid _ _ _ _ _ _ _ HJ Hph Henc) as (a & b & c & g & tl & ss1 & Hst & Hsteps & HJ1 & Ho & _).
    assert (Hph1 : phys ss1 = 2) by (unfold phys in *; congruence).
    destruct (IH _ _ _ ss1 (eq_trans Hig1 Hig) HJ1 Hph1 E2) as [ss2 Hrest].
    exists ss2. rewrite steps_app, Hsteps, Hrest. subst st. reflexivity.
Qed.

(* ---- the start: a fresh stream against the referee's start state ---- *)
Definition cfg_ok (o : soptions) (logical : N) : Prop :=
  so_maxn o <= 4096 /\ so_maxp o <= 4096 /\ so_maxd o <= 4096 /\ known_logical logical = true.

Lemma InvT_init size : 1 <= size -> InvT (lenc_init size) (repeat None (N.to_nat size)) 0.
Proof. intros H. unfold InvT. split; [exact (inv_init size H)|apply conv_init]. Qed.

Lemma JS_init maxn maxp maxd (ss : sstate) :
  8 <= maxn ->
  s_names ss = repeat None (N.to_nat maxn) -> s_prefixes ss = repeat None (N.to_nat maxp) -> s_datatypes ss = repeat None (N.to_nat maxd) ->
  s_la_n ss = 0 -> s_la_p ss = 0 -> s_la_d ss = 0 -> s_last_pid ss = 0 -> s_last_nid ss = 0 ->
  s_ps ss = None -> s_pp ss = None -> s_po ss = None -> s_pg ss = None ->
  JS (tenc_init maxn maxp maxd) repeated_init ss.
Proof.
  intros Hn E1 E2 E3 L1 L2 L3 P N0 A B C D.
  refine {| js_n := _; js_p := _; js_d := _; js_lp := _; js_ln := _; js_s := _; js_pp := _; js_o := _; js_g := _ |}; cbn; auto.
  - rewrite E1, L1. apply InvT_init. lia.
  - destruct (N.eq_dec maxp 0) as [->|Hne]; [left; cbn; auto|right]. rewrite E2, L2. apply InvT_init. lia.
  - destruct (N.eq_dec maxd 0) as [->|Hne]; [left; cbn; auto|right]. rewrite E3, L3. apply InvT_init. lia.
Qed.

Lemma start_of_stream (c : stream_class) (o : soptions) (s : stream) :
  stream_new c Generic o = Ok s -> cfg_ok o (st_logical s) ->
  exists w ss0, options_row s = ROptions w /\ start w = SOk ss0 /\
                JS (st_enc s) (st_rep s) ss0 /\ phys ss0 = physical_type c /\ st_integ s = Generic /\
                fl_rows (st_flow (enroll s)) = fl_rows (st_flow s) ++ [ROptions w] /\
                st_enc (enroll s) = st_enc s /\ st_rep (enroll s) = st_rep s /\ st_integ (enroll s) = Generic /\
                st_opts (enroll s) = st_opts s /\ o_version w = params_version (so_params o) /\ st_opts s = o.
Proof.
  intros Hnew (Hn & Hp & Hd & Hk). unfold stream_new in Hnew.
  destruct (negb (preset_ok (so_maxn o) (so_maxp o) (so_maxd o))) eqn:Epre; [discriminate|]. unfold bind in Hnew.
  destruct (match so_flow o with Some f => Ok f | None => infer_flow c o end) as [fl|]; [|discriminate].
  destruct (negb (type_compat (physical_type c) (fl_logical fl))) eqn:Ec; [discriminate|].
  inversion Hnew; subst s; clear Hnew. cbn in Hk.
  apply negb_false_iff in Epre, Ec. unfold preset_ok, MIN_NAME_LOOKUP_SIZE in Epre.
  apply andb_prop in Epre. destruct Epre as [Epre _]. apply andb_prop in Epre. destruct Epre as [Epre _]. apply andb_prop in Epre. destruct Epre as [Epre _].
  apply negb_true_iff, N.ltb_ge in Epre.
  eexists. eexists. split; [reflexivity|]. unfold options_row; cbn. unfold start; cbn.
  assert (Hphys : (1 <=? physical_type c) && (physical_type c <=? 3) = true) by (destruct c; reflexivity).
  rewrite Hphys. cbn [negb].
  assert (Hver : (2 <? params_version (so_params o)) = false) by (unfold params_version; destruct (p_nd _); reflexivity).
  rewrite Hver.
  assert (Hspec : spec_compat (physical_type c) (fl_logical fl) = true).
  { unfold known_logical in Hk. rewrite !orb_true_iff, !N.eqb_eq in Hk.
    assert (Hin : In (physical_type c, fl_logical fl) all_pairs).
    { destruct c; cbn; destruct Hk as [[[[[[[Hl|Hl]|Hl]|Hl]|Hl]|Hl]|Hl]|Hl]; rewrite Hl; vm_compute; tauto. }
    rewrite <- (compat_is_spec _ _ Hin). exact Ec. }
  replace ((so_maxn o <? 8) || (4096 <? so_maxn o) || (4096 <? so_maxp o) || (4096 <? so_maxd o)
           || negb (known_logical (fl_logical fl)) || negb (spec_compat (physical_type c) (fl_logical fl))) with false.
  2:{ symmetry. rewrite Hk, Hspec. cbn.
      replace (so_maxn o <? 8) with false by (symmetry; apply N.ltb_ge; lia).
      replace (4096 <? so_maxn o) with false by (symmetry; apply N.ltb_ge; lia).
      replace (4096 <? so_maxp o) with false by (symmetry; apply N.ltb_ge; lia).
      replace (4096 <? so_maxd o) with false by (symmetry; apply N.ltb_ge; lia). reflexivity. }
  split; [reflexivity|]. split; [|split; [reflexivity|split; [reflexivity|]]].
  - apply JS_init; cbn; auto.
  - unfold enroll; cbn. repeat split; reflexivity.
Qed.

(* ---- whole streams (declarations off) ---- *)
Theorem triples_stream_valid (o : soptions) (s s' : stream) (d : sdata) (evs : list tev) :
  stream_new TripleStream Generic o = Ok s -> cfg_ok o (st_logical s) ->
  p_nd (so_params o) = false -> fl_rows (st_flow s) = [] ->
  triples_stream_frames d s = (s', evs) -> raised evs = None ->
  run (flat_map f_rows (emitted evs)) = Valid (flat_map event_of_triple (d_stmts d)).
Proof.
  intros Hnew Hcfg Hnd Hfresh Hrun Hraise.
  destruct (start_of_stream _ _ _ Hnew Hcfg) as (w & ss0 & Hrow & Hstart & HJ & Hph & Hig & Hfl & Henc & Hrep & Hig' & Hopts & Hver & Ho).
  pose proof (triples_stream_rows _ _ _ _ Hrun Hraise) as Hrows.
  assert (Hns : ns_phase false d (enroll s) = (enroll s, Ok tt)) by (apply ns_phase_off; rewrite Hopts, Ho; exact Hnd).
  rewrite Hns in Hrows. cbn [fst] in Hrows. rewrite Hfl, Hfresh in Hrows. cbn [app] in Hrows.
  rewrite <- emitted_rows_is_concat, Hrows. cbn [run]. rewrite Hstart.
  (* the feed succeeded *)
  unfold triples_stream_frames in Hrun. rewrite Hns in Hrun.
  destruct (feed stream_triple (d_stmts d) (enroll s)) as [[s2 evs2] ok] eqn:Efeed.
  destruct ok.
  - assert (HJ' : JS (st_enc (enroll s)) (st_rep (enroll s)) ss0) by (rewrite Henc, Hrep; exact HJ).
    destruct (triples_all_valid _ _ _ _ ss0 Hig' HJ' Hph Efeed) as [ss' Hsteps].
    rewrite (steps_run_from _ 1 _ [] _ _ Hsteps). reflexivity.
  - inversion Hrun; subst. exfalso. eapply feed_not_ok_raises; eauto.
Qed.

Theorem quads_stream_valid (o : soptions) (s s' : stream) (d : sdata) (evs : list tev) :
  stream_new QuadStream Generic o = Ok s -> cfg_ok o (st_logical s) ->
  p_nd (so_params o) = false -> fl_rows (st_flow s) = [] ->
  quads_stream_frames d s = (s', evs) -> raised evs = None ->
  run (flat_map f_rows (emitted evs)) = Valid (flat_map event_of_quad (d_stmts d)).
Proof.
  intros Hnew Hcfg Hnd Hfresh Hrun Hraise.
  destruct (start_of_stream _ _ _ Hnew Hcfg) as (w & ss0 & Hrow & Hstart & HJ & Hph & Hig & Hfl & Henc & Hrep & Hig' & Hopts & Hver & Ho).
  pose proof (quads_stream_rows _ _ _ _ Hrun Hraise) as Hrows.
  assert (Hns : ns_phase true d (enroll s) = (enroll s, Ok tt)) by (apply ns_phase_off; rewrite Hopts, Ho; exact Hnd).
  rewrite Hns in Hrows. cbn [fst] in Hrows. rewrite Hfl, Hfresh in Hrows. cbn [app] in Hrows.
  rewrite <- emitted_rows_is_concat, Hrows. cbn [run]. rewrite Hstart.
  unfold quads_stream_frames in Hrun. rewrite Hns in Hrun.
  destruct (feed stream_quad (d_stmts d) (enroll s)) as [[s2 evs2] ok] eqn:Efeed.
  destruct ok.
  - assert (HJ' : JS (st_enc (enroll s)) (st_rep (enroll s)) ss0) by (rewrite Henc, Hrep; exact HJ).
    destruct (quads_all_valid _ _ _ _ ss0 Hig' HJ' Hph Efeed) as [ss' Hsteps].
    rewrite (steps_run_from _ 1 _ [] _ _ Hsteps). reflexivity.
  - inversion Hrun; subst. exfalso. eapply feed_not_ok_raises; eauto.
Qed.
