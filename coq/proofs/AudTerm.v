(* AudTerm.v -- C19 at the level of one term: the entry rows the writer emits for an IRI / literal /
   term are clean (not redundant, sequential ids in zero form), and the wire term itself uses the
   zero forms of prefix and name ids wherever it could. *)
From Coq Require Import Arith Lia.
From PJ.Model Require Import Base Lookup Terms Encoder Spec Audit.
From PJ.Proofs Require Import Mirror MirrorRun Recency DecoderSound EncLookup Den EncoderProofs EncTerm AuditBase.

(* steps is a function *)
Lemma Clean_state rows s lg s1 lg1 s2 evs : Clean rows s lg s1 lg1 -> steps rows s = SOk (s2, evs) -> s1 = s2.
Proof. intros H Hs. destruct (Clean_steps _ _ _ _ _ H) as [e He]. congruence. Qed.

(* ---- entry rows ---- *)
Lemma entry_row_clean id k T la : resident k T = false -> (id = 0 \/ id <> la + 1) -> clean (audit_entry id k T la).
Proof.
  intros Hr Hz. unfold clean, audit_entry; cbn. rewrite Hr. repeat split.
  destruct Hz as [->|Hne]; [reflexivity|]. destruct (id =? 0); [reflexivity|]. cbn.
  destruct (N.eqb_spec id (la + 1)); [contradiction|reflexivity].
Qed.

Lemma Clean_name ss lg id k T' la' :
  entry id k (s_names ss) (s_la_n ss) = SOk (T', la') -> resident k (s_names ss) = false ->
  (id = 0 \/ id <> s_la_n ss + 1) -> Clean [RName id k] ss lg (upd_names ss T' la') lg.
Proof.
  intros He Hr Hz. apply (Clean_one (RName id k) ss lg (upd_names ss T' la') []).
  - cbn [step]. unfold sbind. rewrite He. reflexivity.
  - unfold row_counters. cbn [gs_counters fst audit_row]. rewrite cadd_zero_r. now apply entry_row_clean.
Qed.
Lemma Clean_prefix ss lg id k T' la' :
  entry id k (s_prefixes ss) (s_la_p ss) = SOk (T', la') -> resident k (s_prefixes ss) = false ->
  (id = 0 \/ id <> s_la_p ss + 1) -> Clean [RPrefix id k] ss lg (upd_prefixes ss T' la') lg.
Proof.
  intros He Hr Hz. apply (Clean_one (RPrefix id k) ss lg (upd_prefixes ss T' la') []).
  - cbn [step]. unfold sbind. rewrite He. reflexivity.
  - unfold row_counters. cbn [gs_counters fst audit_row]. rewrite cadd_zero_r. now apply entry_row_clean.
Qed.
Lemma Clean_datatype ss lg id k T' la' :
  entry id k (s_datatypes ss) (s_la_d ss) = SOk (T', la') -> resident k (s_datatypes ss) = false ->
  (id = 0 \/ id <> s_la_d ss + 1) -> Clean [RDatatype id k] ss lg (upd_datatypes ss T' la') lg.
Proof.
  intros He Hr Hz. apply (Clean_one (RDatatype id k) ss lg (upd_datatypes ss T' la') []).
  - cbn [step]. unfold sbind. rewrite He. reflexivity.
  - unfold row_counters. cbn [gs_counters fst audit_row]. rewrite cadd_zero_r. now apply entry_row_clean.
Qed.

(* the optional entry row of an entry_index call *)
Lemma opt_name_clean tb tb' keys keys' k oe ss lg :
  InvT tb (s_names ss) (s_la_n ss) -> Wk tb keys -> entry_index tb keys k = Ok (tb', keys', oe) ->
  exists ss1, Clean (match oe with Some id => [RName id k] | None => [] end) ss lg ss1 lg.
Proof.
  intros HI HW He. destruct (entry_index_spec _ _ _ _ _ _ _ _ HI HW He) as (Hent & _).
  destruct oe as [id|].
  - destruct Hent as (T' & la' & Hen & _). destruct (entry_index_audit _ _ _ _ _ _ _ _ HI He) as [Hr Hz].
    eexists. eapply Clean_name; eauto.
  - eexists. apply Clean_nil.
Qed.
Lemma opt_prefix_clean tb tb' keys keys' k oe ss lg :
  InvT tb (s_prefixes ss) (s_la_p ss) -> Wk tb keys -> entry_index tb keys k = Ok (tb', keys', oe) ->
  exists ss1, Clean (match oe with Some id => [RPrefix id k] | None => [] end) ss lg ss1 lg /\
              s_names ss1 = s_names ss /\ s_la_n ss1 = s_la_n ss.
Proof.
  intros HI HW He. destruct (entry_index_spec _ _ _ _ _ _ _ _ HI HW He) as (Hent & _).
  destruct oe as [id|].
  - destruct Hent as (T' & la' & Hen & _). destruct (entry_index_audit _ _ _ _ _ _ _ _ HI He) as [Hr Hz].
    eexists. split; [eapply Clean_prefix; eauto|]. cbn. auto.
  - eexists. split; [apply Clean_nil|]. auto.
Qed.
Lemma opt_datatype_clean tb tb' keys keys' k oe ss lg :
  InvT tb (s_datatypes ss) (s_la_d ss) -> Wk tb keys -> entry_index tb keys k = Ok (tb', keys', oe) ->
  exists ss1, Clean (match oe with Some id => [RDatatype id k] | None => [] end) ss lg ss1 lg.
Proof.
  intros HI HW He. destruct (entry_index_spec _ _ _ _ _ _ _ _ HI HW He) as (Hent & _).
  destruct oe as [id|].
  - destruct Hent as (T' & la' & Hen & _). destruct (entry_index_audit _ _ _ _ _ _ _ _ HI He) as [Hr Hz].
    eexists. eapply Clean_datatype; eauto.
  - eexists. apply Clean_nil.
Qed.

(* ---- one IRI: rows clean ---- *)
Theorem encode_iri_clean (iri : str) (t t' : tenc) (rows : list row) (p n : N) (ss : sstate) (lg : option term) :
  J t ss -> encode_iri iri t = Ok (t', rows, p, n) -> exists ss1, Clean rows ss lg ss1 lg.
Proof.
  intros [Jn Jwn Jp Jd]. unfold encode_iri. destruct (split_iri iri) as [prefix name0]. unfold bind.
  destruct (lmax (t_prefixes t) =? 0) eqn:Ep0.
  - destruct (entry_index (t_names t) (t_nkeys t) iri) as [[[nms nkeys] ne]|e] eqn:En; [|discriminate].
    destruct (lift KeyErr (encode_prefix_term_index str_eqb (is_nil prefix) prefix (t_prefixes t))) as [[pfx2 pidx]|]; [|discriminate].
    destruct (lift KeyErr (encode_name_term_index str_eqb iri nms)) as [[nms2 nidx]|]; [|discriminate].
    intros H; inversion H; subst. cbn [app]. eapply opt_name_clean; eauto.
  - apply N.eqb_neq in Ep0. destruct Jp as [[Hz _]|[Jp Jwp]]; [contradiction|].
    destruct (entry_index (t_prefixes t) (t_pkeys t) prefix) as [[[pfx pkeys] pe]|e] eqn:Epe; [|discriminate]. cbn [bind].
    destruct (entry_index (t_names t) (t_nkeys t) name0) as [[[nms nkeys] ne]|e] eqn:En; [|discriminate].
    destruct (lift KeyErr (encode_prefix_term_index str_eqb (is_nil prefix) prefix pfx)) as [[pfx2 pidx]|]; [|discriminate].
    destruct (lift KeyErr (encode_name_term_index str_eqb name0 nms)) as [[nms2 nidx]|]; [|discriminate].
    intros H; inversion H; subst.
    destruct (opt_prefix_clean _ _ _ _ _ _ ss lg Jp Jwp Epe) as (sa & Ca & Hna & Hla).
    assert (Jn' : InvT (t_names t) (s_names sa) (s_la_n sa)) by (rewrite Hna, Hla; exact Jn).
    destruct (opt_name_clean _ _ _ _ _ _ sa lg Jn' Jwn En) as (sb & Cb).
    exists sb. eapply Clean_app; eauto.
Qed.

(* ---- zero forms of the ids in the wire term ---- *)
Lemma entry_index_lr tb tb' keys keys' k oe : entry_index tb keys k = Ok (tb', keys', oe) -> e_last_reused tb' = e_last_reused tb.
Proof.
  unfold entry_index. destruct (_ <? _); [discriminate|]. unfold encode_entry_index.
  destruct (move_to_end str_eqb k (e_lookup tb)); [intros H; inversion H; reflexivity|].
  destruct (insert k (e_lookup tb)) as [[l' i]|]; [|discriminate]. intros H; inversion H; reflexivity.
Qed.

Definition zf (lp ln p n : N) : Prop := (p = 0 \/ p <> lp) /\ (n = 0 \/ n <> ln + 1).

Theorem encode_iri_zero (iri : str) (t t' : tenc) (rows : list row) (p n : N) :
  encode_iri iri t = Ok (t', rows, p, n) -> zf (e_last_reused (t_prefixes t)) (e_last_reused (t_names t)) p n.
Proof.
  unfold encode_iri. destruct (split_iri iri) as [prefix name0]. unfold bind.
  destruct (lmax (t_prefixes t) =? 0) eqn:Ep0.
  - destruct (entry_index (t_names t) (t_nkeys t) iri) as [[[nms nkeys] ne]|e] eqn:En; [|discriminate].
    unfold encode_prefix_term_index. unfold lmax in Ep0. rewrite Ep0. cbn [lift].
    destruct (encode_name_term_index str_eqb iri nms) as [[nms2 nidx]|] eqn:Et; [|discriminate]. cbn [lift].
    intros H; inversion H; subst. split; [now left|].
    rewrite <- (entry_index_lr _ _ _ _ _ _ En).
    destruct (name_id_zero_form _ _ _ _ Et) as [[-> _]|[Hn Hne]]; [now left|right; exact Hne].
  - destruct (entry_index (t_prefixes t) (t_pkeys t) prefix) as [[[pfx pkeys] pe]|e] eqn:Epe; [|discriminate]. cbn [bind].
    destruct (entry_index (t_names t) (t_nkeys t) name0) as [[[nms nkeys] ne]|e] eqn:En; [|discriminate].
    destruct (encode_prefix_term_index str_eqb (is_nil prefix) prefix pfx) as [[pfx2 pidx]|] eqn:Etp; [|discriminate]. cbn [lift].
    destruct (encode_name_term_index str_eqb name0 nms) as [[nms2 nidx]|] eqn:Etn; [|discriminate]. cbn [lift].
    intros H; inversion H; subst. split.
    + rewrite <- (entry_index_lr _ _ _ _ _ _ Epe).
      destruct (prefix_id_zero_form _ _ _ _ Etp) as [->|[Hp [Hz|Hne]]]; [now left| |right; exact Hne].
      destruct (N.eq_dec p 0) as [->|Hp0]; [now left|right; congruence].
    + rewrite <- (entry_index_lr _ _ _ _ _ _ En).
      destruct (name_id_zero_form _ _ _ _ Etn) as [[-> _]|[Hn Hne]]; [now left|right; exact Hne].
Qed.

(* ---- one literal ---- *)
Theorem encode_literal_clean (lex : str) (lang dt : option str) (t t' : tenc) (rows : list row) (w : wterm) (ss : sstate) (lg : option term) :
  J t ss -> encode_literal lex lang dt t = Ok (t', rows, w) -> exists ss1, Clean rows ss lg ss1 lg.
Proof.
  intros [Jn Jwn Jp Jd]. unfold encode_literal, bind.
  destruct (truthy dt) as [d|].
  - destruct (str_eqb d xsd_string).
    + intros H; inversion H; subst. eexists. apply Clean_nil.
    + destruct (lmax (t_datatypes t) =? 0) eqn:Ed0; [discriminate|]. apply N.eqb_neq in Ed0.
      destruct Jd as [[Hz _]|[Jd Jwd]]; [contradiction|].
      destruct (entry_index (t_datatypes t) (t_dkeys t) d) as [[[dts dkeys] oe]|e] eqn:Ee; [|discriminate]. cbn [bind].
      destruct (lift KeyErr (encode_datatype_term_index str_eqb d dts)) as [[dts2 idx]|]; [|discriminate].
      intros H; inversion H; subst. eapply opt_datatype_clean; eauto.
  - intros H; inversion H; subst. eexists. apply Clean_nil.
Qed.

(* ---- zero forms along a wire term ---- *)
Definition azero (w : wterm) (lp ln : N) : Prop := fst (fst (audit_wterm w lp ln)) = 0.

Lemma azero_iri lp ln p n : zf lp ln p n -> azero (WIri p n) lp ln.
Proof.
  intros [Hp Hn]. unfold azero. cbn.
  assert (A : b2n (negb (p =? 0) && (p =? lp)) = 0).
  { destruct Hp as [->|Hne]; [reflexivity|]. destruct (p =? 0); [reflexivity|]. cbn. destruct (N.eqb_spec p lp); [contradiction|reflexivity]. }
  assert (B : b2n (negb (n =? 0) && (n =? ln + 1)) = 0).
  { destruct Hn as [->|Hne]; [reflexivity|]. destruct (n =? 0); [reflexivity|]. cbn. destruct (N.eqb_spec n (ln + 1)); [contradiction|reflexivity]. }
  rewrite A, B. reflexivity.
Qed.

(* the audit threads the "previous IRI" ids exactly as the denotation does *)
Lemma den_thread fN fP fD (KN KP KD : str -> Prop) L w tm L' :
  Den fN fP fD KN KP KD L w tm L' ->
  snd (fst (audit_wterm w (fst L) (snd L))) = fst L' /\ snd (audit_wterm w (fst L) (snd L)) = snd L'.
Proof.
  induction 1; cbn [audit_wterm fst snd]; try (split; reflexivity).
  - subst. split; reflexivity.
  - destruct L as [lp ln], L1 as [lp1 ln1], L2 as [lp2 ln2], L3 as [lp3 ln3]. cbn [fst snd] in *.
    destruct IHDen1 as [A1 A2], IHDen2 as [B1 B2], IHDen3 as [C1 C2].
    destruct (audit_wterm a lp ln) as [[z1 x1] y1]. cbn [fst snd] in *. subst x1 y1.
    destruct (audit_wterm b lp1 ln1) as [[z2 x2] y2]. cbn [fst snd] in *. subst x2 y2.
    destruct (audit_wterm c lp2 ln2) as [[z3 x3] y3]. cbn [fst snd] in *. subst x3 y3. auto.
Qed.

Definition pL (t : tenc) : N := e_last_reused (t_prefixes t).
Definition nL (t : tenc) : N := e_last_reused (t_names t).

Lemma azero_triple a b c lp ln lp1 ln1 lp2 ln2 :
  azero a lp ln -> snd (fst (audit_wterm a lp ln)) = lp1 -> snd (audit_wterm a lp ln) = ln1 ->
  azero b lp1 ln1 -> snd (fst (audit_wterm b lp1 ln1)) = lp2 -> snd (audit_wterm b lp1 ln1) = ln2 ->
  azero c lp2 ln2 -> azero (WTriple (Some a) (Some b) (Some c)) lp ln.
Proof.
  unfold azero. cbn [audit_wterm].
  destruct (audit_wterm a lp ln) as [[z1 x1] y1]. cbn [fst snd]. intros -> -> ->.
  destruct (audit_wterm b lp1 ln1) as [[z2 x2] y2]. cbn [fst snd]. intros -> -> ->.
  destruct (audit_wterm c lp2 ln2) as [[z3 x3] y3]. cbn [fst snd]. intros ->. reflexivity.
Qed.

(* ---- one term in an s/p/o slot ---- *)
Theorem encode_spo_term_clean (tm : term) : forall (t t' : tenc) (rows : list row) (w : wterm) (ss : sstate) (lg : option term),
  J t ss -> encode_spo_term Generic tm t = Ok (t', rows, w) ->
  exists ss1, Clean rows ss lg ss1 lg /\ azero w (pL t) (nL t).
Proof.
  induction tm as [iri|l|lex lang dt|a IHa b IHb c IHc| |]; intros t t' rows w ss lg HJ; cbn [encode_spo_term]; try discriminate.
  - unfold bind. destruct (encode_iri iri t) as [[[[t1 r1] p] n]|e] eqn:E; [|discriminate].
    intros H; inversion H; subst t' rows w; clear H.
    destruct (encode_iri_clean _ _ _ _ _ _ _ lg HJ E) as [ss1 C1]. exists ss1. split; [exact C1|].
    apply azero_iri. exact (encode_iri_zero _ _ _ _ _ _ E).
  - intros H; inversion H; subst. exists ss. split; [apply Clean_nil|reflexivity].
  - intros H. destruct (encode_literal_clean _ _ _ _ _ _ _ _ lg HJ H) as [ss1 C1]. exists ss1. split; [exact C1|].
    unfold encode_literal, bind in H.
    destruct (match truthy dt with Some d => _ | None => _ end) as [[[t0 r0] dtid]|]; [|discriminate]. inversion H; subst. reflexivity.
  - unfold bind.
    destruct (encode_spo_term Generic a t) as [[[t1 r1] ws]|] eqn:Ea; [|discriminate].
    destruct (encode_spo_term Generic b t1) as [[[t2 r2] wp]|] eqn:Eb; [|discriminate].
    destruct (encode_spo_term Generic c t2) as [[[t3 r3] wo]|] eqn:Ec; [|discriminate].
    intros H; inversion H; subst t' rows w; clear H.
    destruct (encode_spo_term_valid a _ _ _ _ _ HJ Ea) as (sa & Sa & Ja & _ & Da & _).
    destruct (encode_spo_term_valid b _ _ _ _ _ Ja Eb) as (sb & Sb & Jb & _ & Db & _).
    destruct (IHa _ _ _ _ _ lg HJ Ea) as (sa' & Ca & Za). pose proof (Clean_state _ _ _ _ _ _ _ Ca Sa); subst sa'.
    destruct (IHb _ _ _ _ _ lg Ja Eb) as (sb' & Cb & Zb). pose proof (Clean_state _ _ _ _ _ _ _ Cb Sb); subst sb'.
    destruct (IHc _ _ _ _ _ lg Jb Ec) as (sc & Cc & Zc).
    exists sc. split; [eapply Clean_app; [exact Ca|eapply Clean_app; eauto]|].
    destruct (den_thread _ _ _ _ _ _ _ _ _ _ Da) as [Ta1 Ta2]. destruct (den_thread _ _ _ _ _ _ _ _ _ _ Db) as [Tb1 Tb2].
    unfold Lt in *. cbn [fst snd] in *.
    eapply azero_triple; eauto.
Qed.

(* ---- a graph term ---- *)
Theorem encode_graph_term_clean (tm : term) (t t' : tenc) (rows : list row) (w : wterm) (ss : sstate) (lg : option term) :
  J t ss -> encode_graph_term Generic tm t = Ok (t', rows, w) ->
  exists ss1, Clean rows ss lg ss1 lg /\ azero w (pL t) (nL t).
Proof.
  intros HJ. destruct tm as [iri|l|lex lang dt|a b c| |]; cbn [encode_graph_term]; try discriminate.
  - unfold bind. destruct (encode_iri iri t) as [[[[t1 r1] p] n]|e] eqn:E; [|discriminate].
    intros H; inversion H; subst t' rows w; clear H.
    destruct (encode_iri_clean _ _ _ _ _ _ _ lg HJ E) as [ss1 C1]. exists ss1. split; [exact C1|].
    apply azero_iri. exact (encode_iri_zero _ _ _ _ _ _ E).
  - intros H; inversion H; subst. exists ss. split; [apply Clean_nil|reflexivity].
  - intros H. destruct (encode_literal_clean _ _ _ _ _ _ _ _ lg HJ H) as [ss1 C1]. exists ss1. split; [exact C1|].
    unfold encode_literal, bind in H.
    destruct (match truthy dt with Some d => _ | None => _ end) as [[[t0 r0] dtid]|]; [|discriminate]. inversion H; subst. reflexivity.
  - intros H; inversion H; subst. exists ss. split; [apply Clean_nil|reflexivity].
Qed.
