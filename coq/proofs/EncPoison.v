(* EncPoison.v -- C20 over whole runs: a TripleStream / QuadStream driven statement by statement with
   catch-and-continue.  Up to the first rejected statement everything is accepted and valid; the
   rejection adds no row and closes the stream; every later statement is refused without a trace;
   so what is written, flushed at the end, denotes exactly the statements accepted before the
   first failure -- a valid prefix, never corrupt. *)
From Coq Require Import Arith Lia.
From PJ.Model Require Import Base Lookup Terms Encoder Streams Spec.
From PJ.Proofs Require Import Mirror MirrorRun DecoderSound EncLookup Den EncoderProofs FlowProofs EncTerm EncStmt EncStream.

(* catch-and-continue driving *)
Fixpoint drive (step : list term -> stream -> step_result) (stmts : list (list term)) (s : stream) : stream * list tev :=
  match stmts with
  | [] => (s, [])
  | st :: rest =>
    match step st s with
    | (s', Ok fr) => let '(s'', evs) := drive step rest s' in (s'', emit_opt fr ++ evs)
    | (s', Err e) => let '(s'', evs) := drive step rest s' in (s'', Raise e :: evs)
    end
  end.

(* the statements accepted before the first rejection *)
Fixpoint accepted (step : list term -> stream -> step_result) (stmts : list (list term)) (s : stream) : list (list term) :=
  match stmts with
  | [] => []
  | st :: rest =>
    match step st s with
    | (s', Ok _) => st :: accepted step rest s'
    | (_, Err _) => []
    end
  end.

(* once failed, driving changes nothing and emits nothing *)
Lemma drive_failed_triple stmts s : st_failed s = true ->
  fst (drive stream_triple stmts s) = s /\ emitted_rows (snd (drive stream_triple stmts s)) = [].
Proof.
  intros Hf. induction stmts as [|st rest IH]; cbn [drive]; [auto|].
  destruct (failed_stream_refuses st s Hf) as [H1 _]. rewrite H1.
  destruct (drive stream_triple rest s) as [s'' evs] eqn:E. cbn in *. exact IH.
Qed.

Lemma drive_failed_quad stmts s : st_failed s = true ->
  fst (drive stream_quad stmts s) = s /\ emitted_rows (snd (drive stream_quad stmts s)) = [].
Proof.
  intros Hf. induction stmts as [|st rest IH]; cbn [drive]; [auto|].
  destruct (failed_stream_refuses st s Hf) as [_ H1]. rewrite H1.
  destruct (drive stream_quad rest s) as [s'' evs] eqn:E. cbn in *. exact IH.
Qed.

Theorem drive_triples_valid (stmts : list (list term)) : forall (s : stream) (ss : sstate),
  st_integ s = Generic -> JS (st_enc s) (st_rep s) ss -> phys ss = 1 ->
  let '(s', evs) := drive stream_triple stmts s in
  exists rows ss',
    emitted_rows evs ++ fl_rows (st_flow s') = fl_rows (st_flow s) ++ rows /\
    steps rows ss = SOk (ss', flat_map event_of_triple (accepted stream_triple stmts s)).
Proof.
  induction stmts as [|st rest IH]; intros s ss Hig HJ Hph; cbn [drive accepted].
  - exists [], ss. cbn. now rewrite app_nil_r.
  - destruct (stream_triple st s) as [s1 [fr|e]] eqn:E.
    + destruct (stream_triple_encode _ _ _ _ E) as [Henc Hig1]. rewrite Hig in Henc.
      destruct (encode_triple_valid _ _ _ _ _ _ _ HJ Hph Henc) as (a & b & c & tl & ss1 & Hst & Hsteps & HJ1 & Ho & _).
      assert (Hph1 : phys ss1 = 1) by (unfold phys in *; congruence).
      specialize (IH s1 ss1 (eq_trans Hig1 Hig) HJ1 Hph1).
      destruct (drive stream_triple rest s1) as [s2 evs2]. destruct IH as (rows & ss2 & Hc & Hs).
      exists (appended_triple st s ++ rows), ss2. split.
      * rewrite emitted_rows_app, emitted_rows_emit_opt. rewrite <- app_assoc, Hc. rewrite app_assoc.
        rewrite (stream_triple_conserves _ _ _ _ E). now rewrite <- app_assoc.
      * cbn [flat_map]. rewrite steps_app, Hsteps, Hs. subst st. reflexivity.
    + (* the first rejection: nothing appended, stream closed, the rest refused *)
      destruct (rejection_closes st s s1 e (or_introl E)) as (Hf & Hfl & _ & _).
      destruct (drive_failed_triple rest s1 Hf) as [H1 H2].
      destruct (drive stream_triple rest s1) as [s2 evs2]. cbn in H1, H2. subst s2.
      exists [], ss. cbn [emitted_rows]. rewrite H2, Hfl. cbn. now rewrite app_nil_r.
Qed.

Theorem drive_quads_valid (stmts : list (list term)) : forall (s : stream) (ss : sstate),
  st_integ s = Generic -> JS (st_enc s) (st_rep s) ss -> phys ss = 2 ->
  let '(s', evs) := drive stream_quad stmts s in
  exists rows ss',
    emitted_rows evs ++ fl_rows (st_flow s') = fl_rows (st_flow s) ++ rows /\
    steps rows ss = SOk (ss', flat_map event_of_quad (accepted stream_quad stmts s)).
Proof.
  induction stmts as [|st rest IH]; intros s ss Hig HJ Hph; cbn [drive accepted].
  - exists [], ss. cbn. now rewrite app_nil_r.
  - destruct (stream_quad st s) as [s1 [fr|e]] eqn:E.
    + destruct (stream_quad_encode _ _ _ _ E) as [Henc Hig1]. rewrite Hig in Henc.
      destruct (encode_quad_valid _ _ _ _ _ _ _ HJ Hph Henc) as (a & b & c & g & tl & ss1 & Hst & Hsteps & HJ1 & Ho & _).
      assert (Hph1 : phys ss1 = 2) by (unfold phys in *; congruence).
      specialize (IH s1 ss1 (eq_trans Hig1 Hig) HJ1 Hph1).
      destruct (drive stream_quad rest s1) as [s2 evs2]. destruct IH as (rows & ss2 & Hc & Hs).
      exists (appended_quad st s ++ rows), ss2. split.
      * rewrite emitted_rows_app, emitted_rows_emit_opt. rewrite <- app_assoc, Hc. rewrite app_assoc.
        rewrite (stream_quad_conserves _ _ _ _ E). now rewrite <- app_assoc.
      * cbn [flat_map]. rewrite steps_app, Hsteps, Hs. subst st. reflexivity.
    + destruct (rejection_closes st s s1 e (or_intror E)) as (Hf & Hfl & _ & _).
      destruct (drive_failed_quad rest s1 Hf) as [H1 H2].
      destruct (drive stream_quad rest s1) as [s2 evs2]. cbn in H1, H2. subst s2.
      exists [], ss. cbn [emitted_rows]. rewrite H2, Hfl. cbn. now rewrite app_nil_r.
Qed.

(* the whole run from a fresh stream, with the final flush: what was written is Valid and denotes
   exactly the statements accepted before the first rejection *)
Theorem catch_and_continue_triples (o : soptions) (s : stream) (stmts : list (list term)) :
  stream_new TripleStream Generic o = Ok s -> cfg_ok o (st_logical s) -> fl_rows (st_flow s) = [] ->
  let '(s', evs) := drive stream_triple stmts (enroll s) in
  run (emitted_rows evs ++ fl_rows (st_flow s')) = Valid (flat_map event_of_triple (accepted stream_triple stmts (enroll s))).
Proof.
  intros Hnew Hcfg Hfresh.
  destruct (start_of_stream _ _ _ Hnew Hcfg) as (w & ss0 & Hrow & Hstart & HJ & Hph & Hig & Hfl & Henc & Hrep & Hig' & Hopts & Hver & Ho).
  assert (HJ' : JS (st_enc (enroll s)) (st_rep (enroll s)) ss0) by (rewrite Henc, Hrep; exact HJ).
  pose proof (drive_triples_valid stmts (enroll s) ss0 Hig' HJ' Hph) as H.
  destruct (drive stream_triple stmts (enroll s)) as [s' evs]. destruct H as (rows & ss' & Hc & Hs).
  rewrite Hc, Hfl, Hfresh. cbn [app run]. rewrite Hstart. rewrite (steps_run_from _ 1 _ [] _ _ Hs). reflexivity.
Qed.

Theorem catch_and_continue_quads (o : soptions) (s : stream) (stmts : list (list term)) :
  stream_new QuadStream Generic o = Ok s -> cfg_ok o (st_logical s) -> fl_rows (st_flow s) = [] ->
  let '(s', evs) := drive stream_quad stmts (enroll s) in
  run (emitted_rows evs ++ fl_rows (st_flow s')) = Valid (flat_map event_of_quad (accepted stream_quad stmts (enroll s))).
Proof.
  intros Hnew Hcfg Hfresh.
  destruct (start_of_stream _ _ _ Hnew Hcfg) as (w & ss0 & Hrow & Hstart & HJ & Hph & Hig & Hfl & Henc & Hrep & Hig' & Hopts & Hver & Ho).
  assert (HJ' : JS (st_enc (enroll s)) (st_rep (enroll s)) ss0) by (rewrite Henc, Hrep; exact HJ).
  pose proof (drive_quads_valid stmts (enroll s) ss0 Hig' HJ' Hph) as H.
  destruct (drive stream_quad stmts (enroll s)) as [s' evs]. destruct H as (rows & ss' & Hc & Hs).
  rewrite Hc, Hfl, Hfresh. cbn [app run]. rewrite Hstart. rewrite (steps_run_from _ 1 _ [] _ _ Hs). reflexivity.
Qed.
