(* EncRdflibQuads.v -- C02 for Datasets: the rdflib QuadStream / GraphStream serializers are valid.
   rdflib names the default graph by an IRI (urn:x-rdflib:default); the writer turns it into the
   default-graph wire term.  So an rdflib run over quads is a generic run over the same quads with
   that IRI read as the DefaultGraph term ([quad_inv]), the only difference in state being the
   spelling of the remembered graph term. *)
From Coq Require Import Arith Lia.
From PJ.Model Require Import Base Lookup Terms Encoder Streams Spec.
From PJ.Proofs Require Import Mirror MirrorRun DecoderSound EncLookup Den EncoderProofs FlowProofs AgreeProofs EncTerm EncStmt EncStream EncRdflib OptionsProofs.

Local Opaque rdflib_default_graph.

Definition gcorr_inv (g : term) : term :=
  match g with TIri i => if str_eqb i rdflib_default_graph then TDefault else g | _ => g end.
Definition rdf_graph_ok (g : term) : bool := match g with TIri _ | TBnode _ => true | _ => false end.
Definition quad_inv (st : list term) : list term :=
  match st with s :: p :: o :: g :: rest => s :: p :: o :: gcorr_inv g :: rest | _ => st end.
Definition rep_inv (rp : repeated) : repeated :=
  {| Encoder.r_s := Encoder.r_s rp; Encoder.r_p := Encoder.r_p rp; Encoder.r_o := Encoder.r_o rp; Encoder.r_g := option_map gcorr_inv (Encoder.r_g rp) |}.
Definition rep_ok (rp : repeated) : Prop :=
  match Encoder.r_g rp with Some g => rdf_graph_ok g = true | None => True end.

Lemma str_eqb_sym a b : str_eqb a b = str_eqb b a.
Proof. destruct (str_eqb_spec a b), (str_eqb_spec b a); congruence. Qed.
Lemma str_eqb_refl a : str_eqb a a = true.
Proof. destruct (str_eqb_spec a a); congruence. Qed.

Lemma term_eqb_gcorr a b : rdf_graph_ok a = true -> rdf_graph_ok b = true ->
  term_eqb (gcorr_inv a) (gcorr_inv b) = term_eqb a b.
Proof.
  destruct a as [x|x| | | |], b as [y|y| | | |]; cbn; try discriminate; intros _ _; try reflexivity.
  - destruct (str_eqb_spec x rdflib_default_graph) as [->|Hx], (str_eqb_spec y rdflib_default_graph) as [->|Hy]; cbn.
    + now rewrite str_eqb_refl.
    + destruct (str_eqb_spec rdflib_default_graph y); congruence.
    + destruct (str_eqb_spec x rdflib_default_graph); congruence.
    + reflexivity.
  - destruct (str_eqb x rdflib_default_graph); reflexivity.
  - destruct (str_eqb y rdflib_default_graph); reflexivity.
Qed.

Lemma encode_graph_term_rdflib g t x :
  encode_graph_term Rdflib g t = Ok x -> rdf_graph_ok g = true /\ encode_graph_term Generic (gcorr_inv g) t = Ok x.
Proof.
  destruct g; cbn; try discriminate; intros H; (split; [reflexivity|]).
  - destruct (str_eqb iri rdflib_default_graph); exact H.
  - exact H.
Qed.

Lemma encode_gslot_rdflib prev g t t' rows w pg :
  (match prev with Some x => rdf_graph_ok x = true | None => True end) ->
  encode_gslot Rdflib prev g t = Ok (t', rows, w, pg) ->
  encode_gslot Generic (option_map gcorr_inv prev) (gcorr_inv g) t = Ok (t', rows, w, option_map gcorr_inv pg) /\
  (match pg with Some x => rdf_graph_ok x = true | None => True end).
Proof.
  intros Hprev. unfold encode_gslot.
  destruct (differs prev g) eqn:Ed.
  - unfold bind. destruct (encode_graph_term Rdflib g t) as [[[t1 r1] w1]|] eqn:E; [|discriminate].
    intros H; inversion H; subst. destruct (encode_graph_term_rdflib _ _ _ E) as [Hok Hg].
    assert (Hd : differs (option_map gcorr_inv prev) (gcorr_inv g) = true).
    { destruct prev as [x|]; cbn in *; [|reflexivity]. now rewrite term_eqb_gcorr. }
    rewrite Hd, Hg. cbn. split; [reflexivity|exact Hok].
  - destruct prev as [x|]; cbn in Ed; [|discriminate]. apply Bool.negb_false_iff in Ed.
    intros H; inversion H; subst.
    assert (Hx : g = x).
    { symmetry. apply term_eqb_true. exact Ed. }
    subst g. cbn [option_map differs]. rewrite term_eqb_gcorr by assumption. rewrite Ed. cbn. split; [reflexivity|exact Hprev].
Qed.

Definition spo_rdf11 (st : list term) : bool := forallb term_rdf11 (firstn 3 st).

Lemma encode_quad_rdflib terms t rp t' rp' rows :
  spo_rdf11 terms = true -> rep_ok rp ->
  encode_quad Rdflib terms t rp = Ok (t', rp', rows) ->
  encode_quad Generic (quad_inv terms) t (rep_inv rp) = Ok (t', rep_inv rp', rows) /\ rep_ok rp'.
Proof.
  intros H11 Hok. unfold encode_quad, bind, nth_term.
  destruct terms as [|s [|p [|o [|g rest]]]]; cbn [nth_error quad_inv]; try discriminate.
  - destruct (encode_slot Rdflib (Encoder.r_s rp) s (start_statement t)) as [[[[? ?] ?] ?]|]; discriminate.
  - destruct (encode_slot Rdflib (Encoder.r_s rp) s (start_statement t)) as [[[[t1 ?] ?] ?]|]; [|discriminate].
    destruct (encode_slot Rdflib (Encoder.r_p rp) p t1) as [[[[? ?] ?] ?]|]; discriminate.
  - destruct (encode_slot Rdflib (Encoder.r_s rp) s (start_statement t)) as [[[[t1 ?] ?] ?]|]; [|discriminate].
    destruct (encode_slot Rdflib (Encoder.r_p rp) p t1) as [[[[t2 ?] ?] ?]|]; [|discriminate].
    destruct (encode_slot Rdflib (Encoder.r_o rp) o t2) as [[[[? ?] ?] ?]|]; discriminate.
  - unfold spo_rdf11 in H11. cbn [firstn forallb] in H11.
    apply andb_prop in H11. destruct H11 as [Hs H11]. apply andb_prop in H11. destruct H11 as [Hp H11].
    apply andb_prop in H11. destruct H11 as [Ho _].
    cbn [rep_inv Encoder.r_s Encoder.r_p Encoder.r_o Encoder.r_g].
    rewrite encode_slot_agree by assumption.
    destruct (encode_slot Rdflib (Encoder.r_s rp) s (start_statement t)) as [[[[t1 r1] ws] ps]|]; [|discriminate].
    rewrite encode_slot_agree by assumption.
    destruct (encode_slot Rdflib (Encoder.r_p rp) p t1) as [[[[t2 r2] wp] pp]|]; [|discriminate].
    rewrite encode_slot_agree by assumption.
    destruct (encode_slot Rdflib (Encoder.r_o rp) o t2) as [[[[t3 r3] wo] po]|]; [|discriminate].
    destruct (encode_gslot Rdflib (Encoder.r_g rp) g t3) as [[[[t4 r4] wg] pg]|] eqn:Eg; [|discriminate].
    intros H; inversion H; subst.
    destruct (encode_gslot_rdflib _ _ _ _ _ _ _ Hok Eg) as [Hg Hok'].
    rewrite Hg. split; [reflexivity|exact Hok'].
Qed.

Theorem quads_all_valid_rdflib (stmts : list (list term)) : forall (s s' : stream) (evs : list tev) (ss : sstate),
  st_integ s = Rdflib -> forallb spo_rdf11 stmts = true -> rep_ok (st_rep s) ->
  JS (st_enc s) (rep_inv (st_rep s)) ss -> phys ss = 2 ->
  feed stream_quad stmts s = (s', evs, true) ->
  exists ss', steps (appended_all stream_quad appended_quad stmts s) ss = SOk (ss', flat_map event_of_quad (map quad_inv stmts)).
Proof.
  induction stmts as [|st rest IH]; intros s s' evs ss Hig H11 Hok HJ Hph; cbn [feed appended_all flat_map map].
  - intros _. exists ss. reflexivity.
  - cbn [forallb] in H11. apply andb_prop in H11. destruct H11 as [Hst11 Hrest11].
    destruct (stream_quad st s) as [s1 [fr|e]] eqn:E; [|intros H; inversion H].
    destruct (feed stream_quad rest s1) as [[s2 evs2] ok2] eqn:E2. intros H; inversion H; subst.
    destruct (stream_quad_encode _ _ _ _ E) as [Henc Hig1]. rewrite Hig in Henc.
    destruct (encode_quad_rdflib _ _ _ _ _ _ Hst11 Hok Henc) as [Hgen Hok1].
    destruct (encode_quad_valid _ _ _ _ _ _ _ HJ Hph Hgen) as (a & b & c & g & tl & ss1 & Hst & Hsteps & HJ1 & Ho & _).
    assert (Hph1 : phys ss1 = 2) by (unfold phys in *; congruence).
    destruct (IH _ _ _ ss1 (eq_trans Hig1 Hig) Hrest11 Hok1 HJ1 Hph1 E2) as [ss2 Hrest].
    exists ss2. rewrite steps_app, Hsteps, Hrest. rewrite Hst. reflexivity.
Qed.

Lemma rdf_quads_as_generic (d : rdata) (s : stream) : p_nd (so_params (st_opts (enroll s))) = false ->
  rdf_quads_stream_frames d s = quads_stream_frames (sdata_of d) s.
Proof.
  intros Hnd. unfold rdf_quads_stream_frames, quads_stream_frames, rdf_ns_phase, ns_phase. rewrite Hnd. reflexivity.
Qed.

Theorem rdf_quads_stream_valid (o : soptions) (s s' : stream) (d : rdata) (evs : list tev) :
  stream_new QuadStream Rdflib o = Ok s -> cfg_ok o (st_logical s) ->
  p_nd (so_params o) = false -> fl_rows (st_flow s) = [] ->
  forallb spo_rdf11 (rd_stmts d) = true ->
  rdf_quads_stream_frames d s = (s', evs) -> raised evs = None ->
  run (flat_map f_rows (emitted evs)) = Valid (flat_map event_of_quad (map quad_inv (rd_stmts d))).
Proof.
  intros Hnew Hcfg Hnd Hfresh H11 Hrun Hraise.
  destruct (start_of_stream_rdflib _ _ _ Hnew Hcfg) as (sg & Hg & He & Hr & Hf & Hl & Hop & Hrow & Hig).
  assert (Hcfg' : cfg_ok o (st_logical sg)) by (rewrite Hl; exact Hcfg).
  destruct (start_of_stream _ _ _ Hg Hcfg') as (w & ss0 & Hrow' & Hstart & HJ & Hph & _ & _ & _ & Hrep0 & _ & _ & Hver & Ho).
  assert (Hopts : st_opts (enroll s) = o).
  { unfold enroll. destruct (st_enrolled s); cbn; congruence. }
  rewrite (rdf_quads_as_generic d s) in Hrun by (rewrite Hopts; exact Hnd).
  pose proof (quads_stream_rows _ _ _ _ Hrun Hraise) as Hrows.
  assert (Hns : ns_phase true (sdata_of d) (enroll s) = (enroll s, Ok tt)) by (apply ns_phase_off; rewrite Hopts; exact Hnd).
  rewrite Hns in Hrows. cbn [fst] in Hrows.
  assert (Henr : st_enrolled s = false).
  { unfold stream_new in Hnew. destruct (negb _); [discriminate|]. unfold bind in Hnew.
    destruct (match so_flow o with Some f => Ok f | None => infer_flow QuadStream o end); [|discriminate].
    destruct (negb _); [discriminate|]. inversion Hnew; reflexivity. }
  assert (Hflow : fl_rows (st_flow (enroll s)) = [ROptions w]).
  { unfold enroll. rewrite Henr. cbn. rewrite Hfresh. cbn. rewrite <- Hrow. f_equal. exact Hrow'. }
  rewrite Hflow in Hrows. cbn [app] in Hrows.
  rewrite <- emitted_rows_is_concat, Hrows. cbn [run]. rewrite Hstart.
  unfold quads_stream_frames in Hrun. rewrite Hns in Hrun. cbn [sdata_of d_stmts] in *.
  destruct (feed stream_quad (rd_stmts d) (enroll s)) as [[s2 evs2] ok] eqn:Efeed.
  destruct ok.
  - assert (Hrep : st_rep (enroll s) = repeated_init).
    { unfold enroll. rewrite Henr. cbn. unfold stream_new in Hnew. destruct (negb _); [discriminate|]. unfold bind in Hnew.
      destruct (match so_flow o with Some f => Ok f | None => infer_flow QuadStream o end); [|discriminate].
      destruct (negb _); [discriminate|]. inversion Hnew; reflexivity. }
    assert (HJ' : JS (st_enc (enroll s)) (rep_inv (st_rep (enroll s))) ss0).
    { rewrite Hrep. unfold enroll. rewrite Henr. cbn. rewrite <- He.
      replace (rep_inv repeated_init) with (st_rep sg); [exact HJ|].
      unfold stream_new in Hg. destruct (negb _); [discriminate|]. unfold bind in Hg.
      destruct (match so_flow o with Some f => Ok f | None => infer_flow QuadStream o end); [|discriminate].
      destruct (negb _); [discriminate|]. inversion Hg; reflexivity. }
    assert (Hig' : st_integ (enroll s) = Rdflib) by (unfold enroll; rewrite Henr; cbn; exact Hig).
    assert (Hok0 : rep_ok (st_rep (enroll s))) by (rewrite Hrep; exact I).
    destruct (quads_all_valid_rdflib _ _ _ _ ss0 Hig' H11 Hok0 HJ' Hph Efeed) as [ss' Hsteps].
    rewrite (steps_run_from _ 1 _ [] _ _ Hsteps). reflexivity.
  - inversion Hrun; subst. exfalso. eapply feed_not_ok_raises; eauto.
Qed.

(* ---------- GraphStream over a Dataset ---------- *)
From PJ.Proofs Require Import EncGraphs.

Definition twin (s : stream) : stream :=
  {| st_class := st_class s; st_integ := Generic; st_opts := st_opts s; st_enc := st_enc s;
     st_flow := st_flow s; st_rep := st_rep s; st_enrolled := st_enrolled s; st_failed := st_failed s;
     st_logical := st_logical s |}.

Lemma stream_triple_twin tr s s1 fr : st_integ s = Rdflib -> forallb term_rdf11 tr = true ->
  stream_triple tr s = (s1, Ok fr) -> stream_triple tr (twin s) = (twin s1, Ok fr) /\ st_integ s1 = Rdflib.
Proof.
  intros Hig H11. unfold stream_triple, refuse. cbn [twin st_failed st_integ st_enc st_rep st_flow]. rewrite Hig.
  destruct (st_failed s); [discriminate|]. rewrite (encode_triple_agree _ _ _ H11).
  destruct (encode_triple Rdflib tr (st_enc s) (st_rep s)) as [[[t' rp'] rows]|]; [|discriminate].
  destruct (frame_from_bounds _) as [fl fr']. intros H; inversion H; subst. split; [reflexivity|exact Hig].
Qed.

Lemma graph_triples_twin ts : forall s s' evs, st_integ s = Rdflib -> stmts_rdf11 ts = true ->
  graph_triples ts s = (s', evs, true) -> graph_triples ts (twin s) = (twin s', evs, true) /\ st_integ s' = Rdflib.
Proof.
  induction ts as [|tr rest IH]; intros s s' evs Hig H11; cbn [graph_triples].
  - intros H; inversion H; subst. auto.
  - cbn [stmts_rdf11 forallb] in H11. apply andb_prop in H11. destruct H11 as [Htr Hrest].
    destruct (stream_triple tr s) as [s1 [fr|e]] eqn:E; [|intros H; inversion H].
    destruct (stream_triple_twin _ _ _ _ Hig Htr E) as [Et Hig1]. rewrite Et.
    destruct (graph_triples rest s1) as [[s2 evs2] ok2] eqn:E2. intros H; inversion H; subst.
    destruct (IH _ _ _ Hig1 Hrest E2) as [Ht2 Hig2]. rewrite Ht2. auto.
Qed.

Lemma stream_graph_twin g ts s s' evs : st_integ s = Rdflib -> stmts_rdf11 ts = true ->
  stream_graph g ts s = (s', evs, true) ->
  stream_graph (gcorr_inv g) ts (twin s) = (twin s', evs, true) /\ st_integ s' = Rdflib.
Proof.
  intros Hig H11. unfold stream_graph. cbn [twin st_failed st_integ st_enc st_rep st_flow]. rewrite Hig.
  destruct (st_failed s) eqn:F; [intros H; inversion H|].
  unfold encode_graph_start, bind.
  destruct (encode_graph_term Rdflib g (start_statement (st_enc s))) as [[[t1 r1] w1]|] eqn:Eg; [|intros H; inversion H].
  destruct (encode_graph_term_rdflib _ _ _ Eg) as [_ Hg]. rewrite Hg.
  set (s1 := with_enc s t1 (st_rep s) (flow_extend (st_flow s) (r1 ++ [RGraphStart (Some w1)]))).
  change (with_enc (twin s) t1 (st_rep s) (flow_extend (st_flow s) (r1 ++ [RGraphStart (Some w1)]))) with (twin s1).
  destruct (graph_triples ts s1) as [[s2 evs2] ok] eqn:Et. destruct ok; [|intros H; inversion H].
  assert (Hig1 : st_integ s1 = Rdflib) by exact Hig.
  destruct (graph_triples_twin _ _ _ _ Hig1 H11 Et) as [Htw Hig2]. rewrite Htw.
  cbn [twin st_flow]. destruct (frame_from_bounds _) as [fl fr]. intros H; inversion H; subst. split; [reflexivity|exact Hig2].
Qed.

Definition graphs_inv (gs : list (term * list (list term))) := map (fun gts => (gcorr_inv (fst gts), snd gts)) gs.
Definition graphs_rdf11 (gs : list (term * list (list term))) : bool := forallb (fun gts => stmts_rdf11 (snd gts)) gs.

(* the rdflib loop over Dataset.graphs() is the generic loop on the twin, up to Pull events *)
Lemma feed_graphs_twin gs : forall first s s' evs, st_integ s = Rdflib -> graphs_rdf11 gs = true ->
  feed_graphs gs s = (s', evs, true) ->
  exists evs', feed_graphs_generic first (graphs_inv gs) (twin s) = (twin s', evs', true) /\ emitted_rows evs' = emitted_rows evs.
Proof.
  induction gs as [|[g ts] rest IH]; intros first s s' evs Hig H11; cbn [feed_graphs feed_graphs_generic graphs_inv map fst snd].
  - intros H; inversion H; subst. exists []. auto.
  - cbn [graphs_rdf11 forallb snd] in H11. apply andb_prop in H11. destruct H11 as [Hts Hrest].
    destruct (stream_graph g ts s) as [[s1 evs1] ok1] eqn:E. destruct ok1; [|intros H; inversion H].
    destruct (stream_graph_twin _ _ _ _ _ Hig Hts E) as [Et Hig1]. rewrite Et.
    destruct (feed_graphs rest s1) as [[s2 evs2] ok2] eqn:E2. intros H; inversion H; subst.
    destruct (IH false _ _ _ Hig1 Hrest E2) as (evs' & Hf & He). fold (graphs_inv rest). rewrite Hf.
    eexists. split; [reflexivity|]. rewrite !emitted_rows_app, emitted_rows_pulls, He. reflexivity.
Qed.

Lemma feed_graphs_not_ok gs : forall s s' evs, feed_graphs gs s = (s', evs, false) -> raised evs <> None.
Proof.
  induction gs as [|[g ts] gs IH]; intros s s' evs; cbn [feed_graphs].
  - intros H; inversion H.
  - destruct (stream_graph g ts s) as [[s1 evs1] ok1] eqn:E. destruct ok1.
    + destruct (feed_graphs gs s1) as [[s2 evs2] ok2] eqn:E2. intros H; inversion H; subst.
      rewrite raised_app. destruct (raised evs1); [discriminate|]. eapply IH; eauto.
    + intros H; inversion H; subst. eapply stream_graph_not_ok; eauto.
Qed.

Theorem rdf_graphs_stream_valid (o : soptions) (s s' : stream) (d : rdata) (evs : list tev) :
  stream_new GraphStream Rdflib o = Ok s -> cfg_ok o (st_logical s) ->
  p_nd (so_params o) = false -> fl_rows (st_flow s) = [] ->
  graphs_rdf11 (rd_graphs d) = true ->
  rdf_graphs_stream_frames d s = (s', evs) -> raised evs = None ->
  run (flat_map f_rows (emitted evs)) = Valid (flat_map run_events (graphs_inv (rd_graphs d))).
Proof.
  intros Hnew Hcfg Hnd Hfresh H11 Hrun Hraise.
  destruct (start_of_stream_rdflib _ _ _ Hnew Hcfg) as (sg & Hg & He & Hr & Hf & Hl & Hop & Hrow & Hig).
  assert (Hcfg' : cfg_ok o (st_logical sg)) by (rewrite Hl; exact Hcfg).
  destruct (start_of_stream _ _ _ Hg Hcfg') as (w & ss0 & Hrow' & Hstart & HJ & Hph & _ & _ & _ & _ & _ & _ & Hver & Ho).
  assert (Hopts : st_opts (enroll s) = o).
  { unfold enroll. destruct (st_enrolled s); cbn; congruence. }
  assert (Henr : st_enrolled s = false).
  { unfold stream_new in Hnew. destruct (negb _); [discriminate|]. unfold bind in Hnew.
    destruct (match so_flow o with Some f => Ok f | None => infer_flow GraphStream o end); [|discriminate].
    destruct (negb _); [discriminate|]. inversion Hnew; reflexivity. }
  assert (Hflow : fl_rows (st_flow (enroll s)) = [ROptions w]).
  { unfold enroll. rewrite Henr. cbn. rewrite Hfresh. cbn. rewrite <- Hrow. f_equal. exact Hrow'. }
  assert (Hig' : st_integ (enroll s) = Rdflib) by (unfold enroll; rewrite Henr; cbn; exact Hig).
  assert (HJ' : JS (st_enc (twin (enroll s))) (st_rep (twin (enroll s))) ss0).
  { unfold enroll. rewrite Henr. cbn. rewrite <- He, <- Hr. exact HJ. }
  unfold rdf_graphs_stream_frames, rdf_ns_phase in Hrun. rewrite Hopts, Hnd in Hrun.
  rewrite <- emitted_rows_is_concat.
  destruct (feed_graphs (rd_graphs d) (enroll s)) as [[s2 evs2] ok] eqn:Efeed. destruct ok.
  - destruct (finish false s2) as [s3 fin] eqn:F. inversion Hrun; subst s' evs; clear Hrun.
    destruct (feed_graphs_twin _ true _ _ _ Hig' H11 Efeed) as (evs' & Hf' & Hev).
    destruct (feed_graphs_generic_valid _ _ (twin (enroll s)) _ _ ss0 (eq_refl : st_integ (twin (enroll s)) = Generic) HJ' Hph Hf') as (ss' & Hsteps & Hcons).
    pose proof (finish_conserves _ _ _ _ F) as H2. pose proof (finish_flushes _ _ _ _ F) as H3.
    rewrite H3, app_nil_r in H2.
    rewrite !emitted_rows_app, H2.
    assert (Hpre : emitted_rows (match rd_kind d with RGen => Pull :: pulls (length (rd_stmts d)) | _ => [] end) = []).
    { destruct (rd_kind d); try reflexivity. apply (emitted_rows_pulls (S (length (rd_stmts d)))). }
    rewrite Hpre. cbn [app]. rewrite <- Hev. cbn [twin st_flow] in Hcons. rewrite Hcons, Hflow. cbn [app run]. rewrite Hstart.
    rewrite (steps_run_from _ 1 _ [] _ _ Hsteps). reflexivity.
  - inversion Hrun; subst. exfalso. rewrite raised_app in Hraise.
    assert (Hpre : raised (match rd_kind d with RGen => Pull :: pulls (length (rd_stmts d)) | _ => [] end) = None).
    { destruct (rd_kind d); try reflexivity. apply (pulls_raised (S (length (rd_stmts d)))). }
    rewrite Hpre in Hraise. eapply feed_graphs_not_ok; eauto.
Qed.
