(* EncRdflib.v -- C02: the rdflib serializer (a second, hand-written copy of the generators with its
   own term dispatcher) is valid too: on RDF 1.1 statements its term encoder coincides with the
   generic one, and for a Graph (or a generator of triples) its generator does what the generic
   one does. *)
From Coq Require Import Arith Lia.
From PJ.Model Require Import Base Lookup Terms Encoder Streams Spec.
From PJ.Proofs Require Import Mirror MirrorRun DecoderSound EncLookup Den EncoderProofs FlowProofs AgreeProofs EncTerm EncStmt EncStream OptionsProofs.

Definition stmts_rdf11 (stmts : list (list term)) : bool := forallb (forallb term_rdf11) stmts.

Theorem triples_all_valid_rdflib (stmts : list (list term)) : forall (s s' : stream) (evs : list tev) (ss : sstate),
  st_integ s = Rdflib -> stmts_rdf11 stmts = true -> JS (st_enc s) (st_rep s) ss -> phys ss = 1 ->
  feed stream_triple stmts s = (s', evs, true) ->
  exists ss', steps (appended_all stream_triple appended_triple stmts s) ss = SOk (ss', flat_map event_of_triple stmts).
Proof.
  induction stmts as [|st rest IH]; intros s s' evs ss Hig H11 HJ Hph; cbn [feed appended_all flat_map].
  - intros _. exists ss. reflexivity.
  - cbn [stmts_rdf11 forallb] in H11. apply andb_prop in H11. destruct H11 as [Hst11 Hrest11].
    destruct (stream_triple st s) as [s1 [fr|e]] eqn:E; [|intros H; inversion H].
    destruct (feed stream_triple rest s1) as [[s2 evs2] ok2] eqn:E2. intros H; inversion H; subst.
    destruct (stream_triple_encode _ _ _ _ E) as [Henc Hig1]. rewrite Hig in Henc.
    rewrite <- (encode_triple_agree _ _ _ Hst11) in Henc.
    destruct (encode_triple_valid _ _ _ _ _ _ _ HJ Hph Henc) as (a & b & c & tl & ss1 & Hst & Hsteps & HJ1 & Ho & _).
    assert (Hph1 : phys ss1 = 1) by (unfold phys in *; congruence).
    destruct (IH _ _ _ ss1 (eq_trans Hig1 Hig) Hrest11 HJ1 Hph1 E2) as [ss2 Hrest].
    exists ss2. rewrite steps_app, Hsteps, Hrest. subst st. reflexivity.
Qed.

(* the rdflib generator over a Graph / a generator of triples is the generic generator *)
Definition sdata_of (d : rdata) : sdata :=
  {| d_is_sink := match rd_kind d with RGen => false | _ => true end;
     d_namespaces := rd_namespaces d; d_stmts := rd_stmts d |}.

Lemma rdf_ns_phase_as_generic d s : rdf_ns_phase true d s = ns_phase false (sdata_of d) s.
Proof. unfold rdf_ns_phase, ns_phase, sdata_of; cbn. destruct (p_nd _); [|reflexivity]. destruct (rd_kind d); reflexivity. Qed.

Theorem rdf_triples_as_generic (d : rdata) (s : stream) :
  rd_kind d <> RDataset -> rdf_triples_stream_frames d s = triples_stream_frames (sdata_of d) s.
Proof.
  intros Hk. unfold rdf_triples_stream_frames, triples_stream_frames. rewrite rdf_ns_phase_as_generic.
  destruct (ns_phase false (sdata_of d) (enroll s)) as [s1 [u|e]]; [|reflexivity].
  replace (match rd_kind d with RDataset => map snd (rd_graphs d) | _ => [rd_stmts d] end) with [rd_stmts d]
    by (destruct (rd_kind d); [reflexivity|contradiction|reflexivity]).
  cbn [rdf_feed_triple_graphs sdata_of d_stmts].
  destruct (feed stream_triple (rd_stmts d) s1) as [[s2 evs] ok]. destruct ok; [|reflexivity].
  unfold finish. destruct (frame_from_graph (st_flow s2)) as [fl fr]. cbn [st_flow with_flow].
  destruct (to_stream_frame fl) as [fl2 fr2]. rewrite app_nil_r. now rewrite <- app_assoc.
Qed.

(* a fresh rdflib stream starts like a generic one *)
Lemma start_of_stream_rdflib (c : stream_class) (o : soptions) (s : stream) :
  stream_new c Rdflib o = Ok s -> cfg_ok o (st_logical s) ->
  exists sg, stream_new c Generic o = Ok sg /\ st_enc sg = st_enc s /\ st_rep sg = st_rep s /\ st_flow sg = st_flow s /\
             st_logical sg = st_logical s /\ st_opts sg = st_opts s /\ options_row sg = options_row s /\ st_integ s = Rdflib.
Proof.
  intros Hnew _. unfold stream_new in *. destruct (negb (preset_ok (so_maxn o) (so_maxp o) (so_maxd o))); [discriminate|]. unfold bind in *.
  destruct (match so_flow o with Some f => Ok f | None => infer_flow c o end) as [fl|]; [|discriminate].
  destruct (negb (type_compat (physical_type c) (fl_logical fl))); [discriminate|].
  inversion Hnew; subst s. eexists. split; [reflexivity|]. cbn. repeat split; reflexivity.
Qed.

Theorem rdf_triples_stream_valid (o : soptions) (s s' : stream) (d : rdata) (evs : list tev) :
  stream_new TripleStream Rdflib o = Ok s -> cfg_ok o (st_logical s) ->
  p_nd (so_params o) = false -> fl_rows (st_flow s) = [] ->
  rd_kind d <> RDataset -> stmts_rdf11 (rd_stmts d) = true ->
  rdf_triples_stream_frames d s = (s', evs) -> raised evs = None ->
  run (flat_map f_rows (emitted evs)) = Valid (flat_map event_of_triple (rd_stmts d)).
Proof.
  intros Hnew Hcfg Hnd Hfresh Hk H11 Hrun Hraise.
  destruct (start_of_stream_rdflib _ _ _ Hnew Hcfg) as (sg & Hg & He & Hr & Hf & Hl & Hop & Hrow & Hig).
  assert (Hcfg' : cfg_ok o (st_logical sg)) by (rewrite Hl; exact Hcfg).
  destruct (start_of_stream _ _ _ Hg Hcfg') as (w & ss0 & Hrow' & Hstart & HJ & Hph & _ & _ & _ & _ & _ & _ & Hver & Ho).
  rewrite (rdf_triples_as_generic d s Hk) in Hrun.
  pose proof (triples_stream_rows _ _ _ _ Hrun Hraise) as Hrows.
  assert (Hopts : st_opts (enroll s) = o).
  { unfold enroll. destruct (st_enrolled s); cbn; congruence. }
  assert (Hns : ns_phase false (sdata_of d) (enroll s) = (enroll s, Ok tt)) by (apply ns_phase_off; rewrite Hopts; exact Hnd).
  rewrite Hns in Hrows. cbn [fst] in Hrows.
  assert (Henr : st_enrolled s = false).
  { unfold stream_new in Hnew. destruct (negb _); [discriminate|]. unfold bind in Hnew.
    destruct (match so_flow o with Some f => Ok f | None => infer_flow TripleStream o end); [|discriminate].
    destruct (negb _); [discriminate|]. inversion Hnew; reflexivity. }
  assert (Hflow : fl_rows (st_flow (enroll s)) = [ROptions w]).
  { unfold enroll. rewrite Henr. cbn. rewrite Hfresh. cbn. rewrite <- Hrow. f_equal. exact Hrow'. }
  rewrite Hflow in Hrows. cbn [app] in Hrows.
  rewrite <- emitted_rows_is_concat, Hrows. cbn [run]. rewrite Hstart.
  unfold triples_stream_frames in Hrun. rewrite Hns in Hrun. cbn [sdata_of d_stmts] in *.
  destruct (feed stream_triple (rd_stmts d) (enroll s)) as [[s2 evs2] ok] eqn:Efeed.
  destruct ok.
  - assert (HJ' : JS (st_enc (enroll s)) (st_rep (enroll s)) ss0).
    { unfold enroll. rewrite Henr. cbn. rewrite <- He, <- Hr. exact HJ. }
    assert (Hig' : st_integ (enroll s) = Rdflib) by (unfold enroll; rewrite Henr; cbn; exact Hig).
    destruct (triples_all_valid_rdflib _ _ _ _ ss0 Hig' H11 HJ' Hph Efeed) as [ss' Hsteps].
    rewrite (steps_run_from _ 1 _ [] _ _ Hsteps). reflexivity.
  - inversion Hrun; subst. exfalso. eapply feed_not_ok_raises; eauto.
Qed.
