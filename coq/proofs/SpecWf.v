(* SpecWf.v -- every stream the referee accepts is wire-well-formed: all ids and option values
   are below 2^32 (in fact at most 4096 / within the enumerations) and terms sit where the schema
   allows them.  With WireRT this gives: a Spec-valid stream survives serialisation and parsing. *)
From Coq Require Import Arith Lia.
From PJ.Model Require Import Base Terms Wire Spec.
From PJ.Proofs Require Import TermInd WireProofs WireRT.

Local Open Scope N_scope.

Record Tb (s : sstate) : Prop := {
  tb_n : nlen (s_names s) <= 4096;
  tb_p : nlen (s_prefixes s) <= 4096;
  tb_d : nlen (s_datatypes s) <= 4096;
  tb_o : wf_options (s_opts s) }.

Lemma tset_length n v t : length (tset n v t) = length t.
Proof. revert n. induction t as [|x t IH]; intros [|n]; cbn; try reflexivity. now rewrite IH. Qed.

Lemma tget_ok i t v : tget i t = SOk v -> i <= nlen t.
Proof.
  unfold tget, in_table. destruct (1 <=? i) eqn:E1; cbn; [|discriminate].
  destruct (i <=? nlen t) eqn:E2; [|discriminate]. intros _. now apply N.leb_le.
Qed.

Lemma entry_ok id v t la t' la' : entry id v t la = SOk (t', la') -> nlen t' = nlen t /\ id <= nlen t.
Proof.
  unfold entry, in_table. destruct (N.eqb_spec id 0) as [->|Hne].
  - destruct ((1 <=? la + 1) && (la + 1 <=? nlen t)); [|discriminate]. intros H; inversion H; subst.
    unfold nlen. rewrite tset_length. split; [reflexivity|lia].
  - destruct (1 <=? id); cbn; [|discriminate]. destruct (id <=? nlen t) eqn:E; [|discriminate].
    intros H; inversion H; subst. unfold nlen. rewrite tset_length. split; [reflexivity|]. apply N.leb_le in E. exact E.
Qed.

Lemma Tb_upd_iri s p n : Tb s -> Tb (upd_iri s p n).
Proof. intros [A B C D]. constructor; assumption. Qed.

Lemma iri_ok p n s s' x : Tb s -> iri p n s = SOk (s', x) -> Tb s' /\ p <= 4096 /\ n <= 4096.
Proof.
  intros HT. unfold iri, sbind.
  destruct (tget _ (s_names s)) as [name|] eqn:En; [|discriminate].
  destruct (if (if p =? 0 then s_last_pid s else p) =? 0 then SOk [] else tget (if p =? 0 then s_last_pid s else p) (s_prefixes s)) as [prefix|] eqn:Ep; [|discriminate].
  intros H; inversion H; subst. split; [now apply Tb_upd_iri|]. destruct HT as [A B C D]. split.
  - destruct (N.eqb_spec p 0) as [->|Hne]; [lia|].
    destruct (N.eqb_spec p 0); [contradiction|]. apply tget_ok in Ep. lia.
  - apply tget_ok in En. destruct (N.eqb_spec n 0) as [->|Hne]; lia.
Qed.

Lemma literal_ok lex k s t : Tb s -> literal lex k s = SOk t -> wf_kind k.
Proof.
  intros [A B C D]. destruct k as [|tg|dt_id]; cbn; try (intros; exact I).
  destruct (dt_id =? 0); [discriminate|]. destruct (is_nil (s_datatypes s)); [discriminate|].
  unfold sbind. destruct (tget dt_id (s_datatypes s)) eqn:E; [|discriminate]. intros _. apply tget_ok in E. lia.
Qed.

Lemma lt32 n : n <= 4096 -> n < 2 ^ 32.
Proof. intros H. eapply N.le_lt_trans; [exact H|]. reflexivity. Qed.

Lemma sterm_ok : forall w graph s s' t, Tb s -> sterm graph w s = SOk (s', t) ->
  Tb s' /\ (if graph then wf_graph (Some w) else wf_spo w).
Proof.
  apply (wterm_ind' (fun w => forall graph s s' t, Tb s -> sterm graph w s = SOk (s', t) ->
    Tb s' /\ (if graph then wf_graph (Some w) else wf_spo w))).
  - intros p n graph s s' t HT. cbn [sterm]. unfold sbind. destruct (iri p n s) as [[s1 i]|] eqn:E; [|discriminate].
    intros H; inversion H; subst. destruct (iri_ok _ _ _ _ _ HT E) as (T1 & Hp & Hn).
    split; [exact T1|]. destruct graph; cbn; split; now apply lt32.
  - intros l graph s s' t HT. cbn [sterm]. intros H; inversion H; subst. split; [exact HT|]. destruct graph; exact I.
  - intros lex k graph s s' t HT. cbn [sterm]. unfold sbind. destruct (literal lex k s) eqn:E; [|discriminate].
    intros H; inversion H; subst. split; [exact HT|]. pose proof (literal_ok _ _ _ _ HT E). destruct graph; assumption.
  - intros graph s s' t HT. cbn [sterm]. destruct graph; [|discriminate]. intros H; inversion H; subst. split; [exact HT|exact I].
  - intros a b c Ha Hb Hc graph s s' t HT. cbn [sterm]. destruct graph; [discriminate|].
    destruct a as [a'|]; [|discriminate]. destruct b as [b'|]; [|discriminate]. destruct c as [c'|]; [|discriminate].
    unfold sbind.
    destruct (sterm false a' s) as [[s1 ta]|] eqn:E1; [|discriminate].
    destruct (sterm false b' s1) as [[s2 tb]|] eqn:E2; [|discriminate].
    destruct (sterm false c' s2) as [[s3 tc]|] eqn:E3; [|discriminate].
    intros H; inversion H; subst. cbn [OP] in *.
    destruct (Ha _ _ _ _ HT E1) as [T1 W1]. destruct (Hb _ _ _ _ T1 E2) as [T2 W2]. destruct (Hc _ _ _ _ T2 E3) as [T3 W3].
    split; [exact T3|]. cbn [wf_spo]. auto.
Qed.

Lemma slot_ok graph w prev s s' t : Tb s -> slot graph w prev s = SOk (s', t) ->
  Tb s' /\ (if graph then wf_graph w else wf_slot w).
Proof.
  intros HT. destruct w as [w'|]; cbn [slot].
  - intros H. apply sterm_ok in H; [|exact HT]. destruct graph; exact H.
  - destruct prev; [|discriminate]. intros H; inversion H; subst. split; [exact HT|]. destruct graph; exact I.
Qed.

Lemma spo_ok a b c s s' ta tb tc : Tb s -> spo a b c s = SOk (s', ta, tb, tc) ->
  Tb s' /\ wf_slot a /\ wf_slot b /\ wf_slot c.
Proof.
  intros HT. unfold spo, sbind.
  destruct (slot false a (s_ps s) s) as [[s1 xa]|] eqn:E1; [|discriminate].
  destruct (slot false b (s_pp s) s1) as [[s2 xb]|] eqn:E2; [|discriminate].
  destruct (slot false c (s_po s) s2) as [[s3 xc]|] eqn:E3; [|discriminate].
  intros H; inversion H; subst.
  destruct (slot_ok _ _ _ _ _ _ HT E1) as [T1 W1]. destruct (slot_ok _ _ _ _ _ _ T1 E2) as [T2 W2].
  destruct (slot_ok _ _ _ _ _ _ T2 E3) as [T3 W3]. auto.
Qed.

Lemma woptions_eqb_eq a b : woptions_eqb a b = true ->
  o_phys a = o_phys b /\ o_maxn a = o_maxn b /\ o_maxp a = o_maxp b /\ o_maxd a = o_maxd b /\
  o_logical a = o_logical b /\ o_version a = o_version b.
Proof.
  unfold woptions_eqb. rewrite !Bool.andb_true_iff. intros [[[[[[[[_ H2] _] _] H5] H6] H7] H8] H9].
  repeat split; now apply N.eqb_eq.
Qed.

Lemma step_ok r s s' evs : Tb s -> step r s = SOk (s', evs) -> Tb s' /\ wf_row r.
Proof.
  intros HT. pose proof HT as [A B C D]. destruct r as [o|id v|id v|id v|a b c|a b c g|g| |name p n|]; cbn [step wf_row].
  - destruct (woptions_eqb o (s_opts s)) eqn:E; [|discriminate]. intros H; inversion H; subst. split; [exact HT|].
    apply woptions_eqb_eq in E. destruct E as (E1 & E2 & E3 & E4 & E5 & E6). unfold wf_options in *. rewrite E1, E2, E3, E4, E5, E6. exact D.
  - unfold sbind. destruct (entry id v (s_prefixes s) (s_la_p s)) as [[t la]|] eqn:E; [|discriminate].
    intros H; inversion H; subst. destruct (entry_ok _ _ _ _ _ _ E) as [L I]. split; [|apply lt32; lia].
    constructor; cbn; try assumption. lia.
  - unfold sbind. destruct (entry id v (s_names s) (s_la_n s)) as [[t la]|] eqn:E; [|discriminate].
    intros H; inversion H; subst. destruct (entry_ok _ _ _ _ _ _ E) as [L I]. split; [|apply lt32; lia].
    constructor; cbn; try assumption. lia.
  - unfold sbind. destruct (entry id v (s_datatypes s) (s_la_d s)) as [[t la]|] eqn:E; [|discriminate].
    intros H; inversion H; subst. destruct (entry_ok _ _ _ _ _ _ E) as [L I]. split; [|apply lt32; lia].
    constructor; cbn; try assumption. lia.
  - (* triple *)
    assert (G : forall s1 ta tb tc, spo a b c s = SOk (s1, ta, tb, tc) ->
              Tb (upd_prev s1 (Some ta) (Some tb) (Some tc) (s_pg s1)) /\ wf_slot a /\ wf_slot b /\ wf_slot c).
    { intros s1 ta tb tc E. destruct (spo_ok _ _ _ _ _ _ _ _ HT E) as ([A1 B1 C1 D1] & W). split; [constructor; assumption|exact W]. }
    destruct (phys s =? 1).
    + unfold sbind. destruct (spo a b c s) as [[[[s1 ta] tb] tc]|] eqn:E; [|discriminate].
      intros H; inversion H; subst. exact (G _ _ _ _ eq_refl).
    + destruct (phys s =? 3); [|discriminate]. destruct (s_open s); [|discriminate].
      unfold sbind. destruct (spo a b c s) as [[[[s1 ta] tb] tc]|] eqn:E; [|discriminate].
      intros H; inversion H; subst. exact (G _ _ _ _ eq_refl).
  - (* quad *)
    destruct (phys s =? 2); [|discriminate]. unfold sbind.
    destruct (spo a b c s) as [[[[s1 ta] tb] tc]|] eqn:E; [|discriminate].
    destruct (slot true g (s_pg s1) s1) as [[s2 tg]|] eqn:Eg; [|discriminate].
    intros H; inversion H; subst.
    destruct (spo_ok _ _ _ _ _ _ _ _ HT E) as (T1 & Wa & Wb & Wc).
    destruct (slot_ok _ _ _ _ _ _ T1 Eg) as ([A2 B2 C2 D2] & Wg). split; [constructor; assumption|auto].
  - (* graph start *)
    destruct (phys s =? 3); [|discriminate]. destruct g as [w|]; [|discriminate]. unfold sbind.
    destruct (sterm true w s) as [[s1 tg]|] eqn:E; [|discriminate]. intros H; inversion H; subst.
    destruct (sterm_ok _ _ _ _ _ HT E) as ([A1 B1 C1 D1] & W). split; [constructor; assumption|exact W].
  - destruct (phys s =? 3); [|discriminate]. destruct (s_open s); [|discriminate]. intros H; inversion H; subst.
    split; [constructor; assumption|exact I].
  - destruct (o_version (s_opts s) <? 2); [discriminate|]. unfold sbind.
    destruct (iri p n s) as [[s1 i]|] eqn:E; [|discriminate]. intros H; inversion H; subst.
    destruct (iri_ok _ _ _ _ _ HT E) as (T1 & Hp & Hn). split; [exact T1|split; now apply lt32].
  - discriminate.
Qed.

Lemma run_from_ok rows : forall i s acc evs, Tb s -> run_from i rows s acc = Valid evs -> Forall wf_row rows.
Proof.
  induction rows as [|r rows IH]; intros i s acc evs HT; cbn [run_from]; [constructor|].
  destruct (step r s) as [[s' e]|] eqn:E; [|discriminate]. intros H.
  destruct (step_ok _ _ _ _ HT E) as [T1 W]. constructor; [exact W|]. eapply IH; eauto.
Qed.

Lemma start_ok o s : start o = SOk s -> Tb s /\ wf_options o.
Proof.
  unfold start. destruct (negb _) eqn:E1; [discriminate|]. destruct (2 <? o_version o) eqn:E2; [discriminate|].
  destruct (_ || _) eqn:E3; [discriminate|]. intros H; inversion H; subst; clear H.
  rewrite !Bool.orb_false_iff in E3. destruct E3 as [[[[[F1 F2] F3] F4] F5] F6].
  apply Bool.negb_false_iff in E1, F5. apply Bool.andb_true_iff in E1. destruct E1 as [P1 P2].
  apply N.leb_le in P2. apply N.ltb_ge in E2, F2, F3, F4.
  assert (HL : o_logical o <= 114).
  { unfold known_logical in F5. rewrite !Bool.orb_true_iff in F5.
    repeat (destruct F5 as [F5|F5]; [|apply N.eqb_eq in F5; lia]). apply N.eqb_eq in F5; lia. }
  assert (W : wf_options o) by (unfold wf_options; repeat split; apply lt32; lia).
  split; [|exact W]. constructor; cbn; try exact W; unfold nlen; rewrite repeat_length, N2Nat.id; assumption.
Qed.

(* every stream the referee accepts is wire-well-formed *)
Theorem spec_valid_wf rows evs : run rows = Valid evs -> Forall wf_row rows.
Proof.
  unfold run. destruct rows as [|[o| | | | | | | | |] rest]; try discriminate.
  destruct (start o) as [s|] eqn:E; [|discriminate]. intros H.
  destruct (start_ok _ _ E) as [T W]. constructor; [exact W|]. eapply run_from_ok; eauto.
Qed.
