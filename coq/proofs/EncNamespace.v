(* EncNamespace.v -- C14: namespace declarations are accepted by the referee as Prefix events with
   the declared name and IRI, in order, and leave the inter-statement invariant in place -- so the
   statements that follow are encoded exactly as without declarations. *)
From Coq Require Import Arith Lia.
From PJ.Model Require Import Base Lookup Terms Encoder Streams Spec.
From PJ.Proofs Require Import Mirror MirrorRun DecoderSound EncLookup Den EncoderProofs FlowProofs EncTerm EncStmt EncStream.

Theorem encode_namespace_valid (name iri : str) (t t' : tenc) (rp : repeated) (rows : list row) (ss : sstate) :
  JS t rp ss -> 2 <= o_version (s_opts ss) ->
  encode_namespace_declaration name iri t = Ok (t', rows) ->
  exists ss', steps rows ss = SOk (ss', [EPrefix name iri]) /\ JS t' rp ss' /\ s_opts ss' = s_opts ss /\ s_open ss' = s_open ss.
Proof.
  intros HJS Hver. unfold encode_namespace_declaration, bind.
  pose proof (JS_start _ _ _ HJS) as J0.
  destruct (encode_iri iri (start_statement t)) as [[[[t1 r1] p] n]|] eqn:E; [|discriminate].
  intros H; inversion H; subst t' rows; clear H.
  destruct (encode_iri_valid _ _ _ _ _ _ _ J0 E) as (s1 & S1 & J1 & N1 & D1 & St1).
  destruct HJS as [A B C HLp HLn Hps Hpp Hpo Hpg].
  unfold nontab_eq in N1. destruct N1 as (NO & NP & NN & NS & NPp & NPo & NG & NOp).
  destruct (J_resolves _ _ J1) as (RN & RP & RD).
  assert (HL0p : s_last_pid s1 = fst (Lt (start_statement t))) by (cbn; congruence).
  assert (HL0n : s_last_nid s1 = snd (Lt (start_statement t))) by (cbn; congruence).
  assert (Wf : wf_pos false (WIri p n)) by (unfold wf_pos; discriminate).
  destruct (Den_sound _ _ _ _ _ _ _ _ _ _ D1 false s1 Wf RN RP RD HL0p HL0n) as (s2 & E2 & F2 & P2 & N2).
  cbn [sterm] in E2. unfold sbind in E2. destruct (Spec.iri p n s1) as [[s2' i2]|] eqn:Ei; [|discriminate].
  inversion E2; subst s2' i2; clear E2.
  exists s2. split; [|split; [|split]].
  - rewrite steps_app, S1. cbn [steps step].
    replace (o_version (s_opts s1) <? 2) with false by (symmetry; apply N.ltb_ge; rewrite NO; exact Hver).
    unfold sbind. rewrite Ei. reflexivity.
  - pose proof (J_frame _ _ _ J1 F2) as J2. destruct J2 as [Jn _ Jp Jd]. unfold frame_eq in F2.
    refine {| js_n := _; js_p := _; js_d := _; js_lp := _; js_ln := _; js_s := _; js_pp := _; js_o := _; js_g := _ |}; cbn.
    + exact Jn.
    + destruct Jp as [Jp|[Jp _]]; [now left|now right].
    + destruct Jd as [Jd|[Jd _]]; [now left|now right].
    + exact P2.
    + exact N2.
    + intuition congruence.
    + intuition congruence.
    + intuition congruence.
    + intuition congruence.
  - unfold frame_eq in F2. intuition congruence.
  - unfold frame_eq in F2. intuition congruence.
Qed.

(* all declarations of a sink, through the stream *)
Definition ns_event (kv : str * str) : event := EPrefix (fst kv) (snd kv).

Theorem declare_all_valid (ns : list (str * str)) : forall (s s' : stream) (ss : sstate),
  st_integ s = Generic -> JS (st_enc s) (st_rep s) ss -> 2 <= o_version (s_opts ss) ->
  declare_all ns s = (s', Ok tt) ->
  exists rows ss',
    fl_rows (st_flow s') = fl_rows (st_flow s) ++ rows /\
    steps rows ss = SOk (ss', map ns_event ns) /\ JS (st_enc s') (st_rep s') ss' /\
    s_opts ss' = s_opts ss /\ st_integ s' = Generic /\ st_opts s' = st_opts s /\ st_class s' = st_class s.
Proof.
  induction ns as [|[name iri] ns IH]; intros s s' ss Hig HJ Hver; cbn [declare_all].
  - intros H; inversion H; subst. exists [], ss. rewrite app_nil_r.
    split; [reflexivity|]. split; [reflexivity|]. split; [exact HJ|]. auto.
  - destruct (namespace_declaration name iri s) as [s1 [u|e]] eqn:E; [|discriminate].
    unfold namespace_declaration in E. destruct (st_failed s); [discriminate|].
    destruct (encode_namespace_declaration name iri (st_enc s)) as [[t1 r1]|] eqn:En; [|discriminate].
    inversion E; subst s1; clear E. intros Hrest.
    destruct (encode_namespace_valid _ _ _ _ _ _ _ HJ Hver En) as (ss1 & S1 & J1 & O1 & _).
    assert (Hver1 : 2 <= o_version (s_opts ss1)) by (rewrite O1; exact Hver).
    destruct (IH (with_enc s t1 (st_rep s) (flow_extend (st_flow s) r1)) s' ss1 Hig J1 Hver1 Hrest) as (rows & ss2 & Hfl & S2 & J2 & O2 & Hig2 & Hop2 & Hcl2).
    exists (r1 ++ rows), ss2. cbn in Hfl. split; [rewrite Hfl; now rewrite app_assoc|].
    split; [rewrite steps_app, S1, S2; reflexivity|]. split; [exact J2|]. split; [congruence|]. auto.
Qed.

(* ---- whole streams with declarations (a sink with bindings) ---- *)
Definition ns_events (o : soptions) (d : sdata) : list event :=
  if p_nd (so_params o) && d_is_sink d then map ns_event (d_namespaces d) else [].

Theorem triples_stream_valid_ns (o : soptions) (s s' : stream) (d : sdata) (evs : list tev) :
  stream_new TripleStream Generic o = Ok s -> cfg_ok o (st_logical s) -> fl_rows (st_flow s) = [] ->
  triples_stream_frames d s = (s', evs) -> raised evs = None ->
  run (flat_map f_rows (emitted evs)) = Valid (ns_events o d ++ flat_map event_of_triple (d_stmts d)).
Proof.
  intros Hnew Hcfg Hfresh Hrun Hraise.
  destruct (start_of_stream _ _ _ Hnew Hcfg) as (w & ss0 & Hrow & Hstart & HJ & Hph & Hig & Hfl & Henc & Hrep & Hig' & Hopts & Hver & Ho).
  pose proof (triples_stream_rows _ _ _ _ Hrun Hraise) as Hrows.
  unfold triples_stream_frames in Hrun.
  assert (HJ' : JS (st_enc (enroll s)) (st_rep (enroll s)) ss0) by (rewrite Henc, Hrep; exact HJ).
  assert (Hso : s_opts ss0 = w).
  { unfold start in Hstart. repeat match type of Hstart with (if ?c then _ else _) = _ => destruct c; [discriminate|] end. inversion Hstart; reflexivity. }
  (* the namespace phase *)
  assert (Hns : exists s1 rows ss1,
             ns_phase false d (enroll s) = (s1, Ok tt) /\ fl_rows (st_flow s1) = fl_rows (st_flow (enroll s)) ++ rows /\
             steps rows ss0 = SOk (ss1, ns_events o d) /\ JS (st_enc s1) (st_rep s1) ss1 /\ s_opts ss1 = s_opts ss0 /\ st_integ s1 = Generic).
  { unfold ns_phase, ns_events. rewrite Hopts, Ho.
    destruct (p_nd (so_params o)) eqn:End; cbn [andb].
    - destruct (d_is_sink d) eqn:Esink.
      + destruct (declare_all (d_namespaces d) (enroll s)) as [s1 [[]|e]] eqn:Ed.
        * assert (Hv2 : 2 <= o_version (s_opts ss0)) by (rewrite Hso, Hver; unfold params_version; rewrite End; lia).
          destruct (declare_all_valid _ _ _ ss0 Hig' HJ' Hv2 Ed) as (rows & ss1 & A & B & C & D & E & _).
          exists s1, rows, ss1. auto 10.
        * exfalso. unfold ns_phase in Hrun. rewrite Hopts, Ho, End, Esink, Ed in Hrun. inversion Hrun; subst. cbn in Hraise. discriminate.
      + exists (enroll s), [], ss0. rewrite app_nil_r.
        split; [reflexivity|]. split; [reflexivity|]. split; [reflexivity|]. split; [exact HJ'|]. auto.
    - exists (enroll s), [], ss0. rewrite app_nil_r.
      split; [reflexivity|]. split; [reflexivity|]. split; [reflexivity|]. split; [exact HJ'|]. auto. }
  destruct Hns as (s1 & nsrows & ss1 & Hphase & Hfl1 & Hsteps1 & HJ1 & Ho1 & Hig1).
  rewrite Hphase in Hrows, Hrun. cbn [fst] in Hrows. rewrite Hfl1, Hfl, Hfresh in Hrows. cbn [app] in Hrows.
  rewrite <- emitted_rows_is_concat, Hrows. cbn [run]. rewrite Hstart.
  destruct (feed stream_triple (d_stmts d) s1) as [[s2 evs2] ok] eqn:Efeed.
  destruct ok.
  - assert (Hph1 : phys ss1 = 1) by (unfold phys in *; rewrite Ho1; exact Hph).
    destruct (triples_all_valid _ _ _ _ ss1 Hig1 HJ1 Hph1 Efeed) as [ss' Hsteps].
    assert (Hall : steps (nsrows ++ appended_all stream_triple appended_triple (d_stmts d) s1) ss0 =
                   SOk (ss', ns_events o d ++ flat_map event_of_triple (d_stmts d))) by (rewrite steps_app, Hsteps1, Hsteps; reflexivity).
    rewrite (steps_run_from _ 1 _ [] _ _ Hall). reflexivity.
  - inversion Hrun; subst. exfalso. eapply feed_not_ok_raises; eauto.
Qed.
