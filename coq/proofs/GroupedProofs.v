(* GroupedProofs.v -- C07, writing: with a grouped logical type (GraphsFrameFlow on a TripleStream,
   DatasetsFrameFlow on a QuadStream) each input graph / dataset serialized through the shared
   stream comes out as exactly one frame holding all its rows -- or none when it appended nothing. *)
From Coq Require Import Arith Lia.
From PJ.Model Require Import Base Lookup Terms Encoder Streams Api.
From PJ.Proofs Require Import EncoderProofs FlowProofs.

Definition unbounded (s : stream) : Prop := is_bounded (fl_kind (st_flow s)) = false.

Lemma frame_from_bounds_unbounded f : is_bounded (fl_kind f) = false -> frame_from_bounds f = (f, None).
Proof. intros H. unfold frame_from_bounds. now rewrite H. Qed.

Lemma stream_triple_unbounded terms s s' fr :
  unbounded s -> stream_triple terms s = (s', Ok fr) ->
  fr = None /\ fl_kind (st_flow s') = fl_kind (st_flow s) /\ fl_rows (st_flow s') = fl_rows (st_flow s) ++ appended_triple terms s.
Proof.
  intros Hu. unfold stream_triple, appended_triple. destruct (st_failed s); [discriminate|].
  destruct (encode_triple _ _ _ _) as [[[t' rp'] rows]|]; [|discriminate].
  rewrite frame_from_bounds_unbounded by exact Hu. intros H; inversion H; subst; cbn. auto.
Qed.

Lemma stream_quad_unbounded terms s s' fr :
  unbounded s -> stream_quad terms s = (s', Ok fr) ->
  fr = None /\ fl_kind (st_flow s') = fl_kind (st_flow s) /\ fl_rows (st_flow s') = fl_rows (st_flow s) ++ appended_quad terms s.
Proof.
  intros Hu. unfold stream_quad, appended_quad. destruct (st_failed s); [discriminate|].
  destruct (encode_quad _ _ _ _) as [[[t' rp'] rows]|]; [|discriminate].
  rewrite frame_from_bounds_unbounded by exact Hu. intros H; inversion H; subst; cbn. auto.
Qed.

(* feeding an unbounded flow hands out nothing *)
Lemma feed_unbounded (step : list term -> stream -> step_result) (stmts : list (list term)) : forall (s s' : stream) (evs : list tev),
  (forall t x x' fr, unbounded x -> step t x = (x', Ok fr) -> fr = None /\ fl_kind (st_flow x') = fl_kind (st_flow x)) ->
  unbounded s -> feed step stmts s = (s', evs, true) ->
  emitted evs = [] /\ fl_kind (st_flow s') = fl_kind (st_flow s).
Proof.
  induction stmts as [|st rest IH]; intros s s' evs Hstep Hu; cbn [feed].
  - intros H; inversion H; subst. cbn. auto.
  - destruct (step st s) as [s1 [fr|e]] eqn:E; [|intros H; inversion H].
    destruct (Hstep _ _ _ _ Hu E) as [-> Hk].
    destruct (feed step rest s1) as [[s2 evs2] ok2] eqn:E2. intros H; inversion H; subst.
    assert (Hu1 : unbounded s1) by (unfold unbounded in *; now rewrite Hk).
    destruct (IH _ _ _ Hstep Hu1 E2) as [He Hk2]. cbn. split; [exact He|congruence].
Qed.

(* the end of a graph: one frame with everything, or nothing *)
Definition one_frame (rows : list row) : list frame := match rows with [] => [] | _ => [mkframe rows] end.

Lemma finish_graphs s s' evs :
  fl_kind (st_flow s) = FGraphs -> finish true s = (s', evs) -> emitted evs = one_frame (fl_rows (st_flow s)).
Proof.
  intros Hk. unfold finish, frame_from_graph. rewrite Hk. unfold to_stream_frame at 1.
  destruct (fl_rows (st_flow s)) as [|r rows] eqn:E.
  - unfold to_stream_frame. rewrite E. intros H; inversion H; reflexivity.
  - cbn. intros H; inversion H; reflexivity.
Qed.

Lemma finish_datasets s s' evs :
  fl_kind (st_flow s) = FDatasets -> finish false s = (s', evs) -> emitted evs = one_frame (fl_rows (st_flow s)).
Proof.
  intros Hk. unfold finish, frame_from_dataset. rewrite Hk. unfold to_stream_frame at 1.
  destruct (fl_rows (st_flow s)) as [|r rows] eqn:E.
  - unfold to_stream_frame. rewrite E. intros H; inversion H; reflexivity.
  - cbn. intros H; inversion H; reflexivity.
Qed.

Lemma emitted_app a b : emitted (a ++ b) = emitted a ++ emitted b.
Proof. induction a as [|x a IH]; cbn; [reflexivity|]. destruct x; cbn; now rewrite ?IH. Qed.

Lemma ns_phase_kind always d s s' r : ns_phase always d s = (s', r) -> fl_kind (st_flow s') = fl_kind (st_flow s).
Proof.
  unfold ns_phase. destruct (p_nd _); [|intros H; inversion H; reflexivity].
  destruct (d_is_sink d).
  - revert s s' r. induction (d_namespaces d) as [|[n i] ns IH]; intros s s' r; cbn [declare_all]; [intros H; inversion H; reflexivity|].
    unfold namespace_declaration. destruct (st_failed s); [intros H; inversion H; reflexivity|].
    destruct (encode_namespace_declaration _ _ _) as [[t' rows]|]; [|intros H; inversion H; reflexivity].
    intros H. apply IH in H. cbn in H. exact H.
  - destruct always; intros H; inversion H; reflexivity.
Qed.

Lemma enroll_kind s : fl_kind (st_flow (enroll s)) = fl_kind (st_flow s).
Proof. unfold enroll. destruct (st_enrolled s); reflexivity. Qed.

(* one sink through a TripleStream with a GraphsFrameFlow *)
Theorem grouped_triples_one_frame (d : sdata) (s s' : stream) (evs : list tev) :
  fl_kind (st_flow s) = FGraphs ->
  triples_stream_frames d s = (s', evs) -> raised evs = None ->
  emitted evs = one_frame (emitted_rows evs) /\ fl_rows (st_flow s') = [] /\ fl_kind (st_flow s') = FGraphs.
Proof.
  intros Hk Hrun Hraise. pose proof (triples_stream_frames_flushes _ _ _ _ Hrun Hraise) as Hflush.
  unfold triples_stream_frames in Hrun.
  destruct (ns_phase false d (enroll s)) as [s1 [u|e]] eqn:En; [|inversion Hrun; subst; cbn in Hraise; discriminate].
  assert (Hk1 : fl_kind (st_flow s1) = FGraphs) by (rewrite (ns_phase_kind _ _ _ _ _ En), enroll_kind; exact Hk).
  destruct (feed stream_triple (d_stmts d) s1) as [[s2 evs2] ok] eqn:E. destruct ok.
  - destruct (finish true s2) as [s3 fin] eqn:F. inversion Hrun; subst s' evs; clear Hrun.
    assert (Hu1 : unbounded s1) by (unfold unbounded; now rewrite Hk1).
    destruct (feed_unbounded stream_triple _ _ _ _ (fun t x x' fr Hu Hs => let '(conj a (conj b _)) := stream_triple_unbounded t x x' fr Hu Hs in conj a b) Hu1 E) as [He Hk2].
    rewrite Hk1 in Hk2. pose proof (finish_graphs _ _ _ Hk2 F) as Hf.
    rewrite emitted_app, He, Hf. cbn [app].
    (* the rows of that one frame are everything that was emitted *)
    assert (Hrows : emitted_rows (evs2 ++ fin) = fl_rows (st_flow s2)).
    { rewrite emitted_rows_app. rewrite (emitted_rows_is_concat evs2), He. cbn.
      pose proof (finish_conserves _ _ _ _ F) as Hc. rewrite Hflush, app_nil_r in Hc. exact Hc. }
    rewrite Hrows. split; [reflexivity|]. split; [exact Hflush|].
    unfold finish in F. unfold frame_from_graph in F. rewrite Hk2 in F.
    pose proof (to_stream_frame_kind (st_flow s2)) as [K1 _]. destruct (to_stream_frame (st_flow s2)) as [fl1 fr1].
    pose proof (to_stream_frame_kind fl1) as [K2 _]. destruct (to_stream_frame fl1) as [fl2 fr2].
    inversion F; subst. cbn in *. congruence.
  - inversion Hrun; subst. exfalso. eapply feed_not_ok_raises; eauto.
Qed.

(* all sinks of a grouped write through one shared TripleStream *)
Fixpoint per_sink_rows (sinks : list sdata) (s : stream) : list (list row) :=
  match sinks with
  | [] => []
  | d :: rest => let '(s', evs) := triples_stream_frames d s in emitted_rows evs :: per_sink_rows rest s'
  end.

(* the stream class never changes *)
Lemma stream_triple_class terms s s' r : stream_triple terms s = (s', r) -> st_class s' = st_class s.
Proof.
  unfold stream_triple. destruct (st_failed s); [intros H; inversion H; reflexivity|].
  destruct (encode_triple _ _ _) as [[[t' rp'] rows]|e]; [|intros H; inversion H; reflexivity].
  destruct (frame_from_bounds _) as [fl fr]. intros H; inversion H; reflexivity.
Qed.

Lemma feed_class (step : list term -> stream -> step_result) stmts : forall s s' evs ok,
  (forall t x x' r, step t x = (x', r) -> st_class x' = st_class x) ->
  feed step stmts s = (s', evs, ok) -> st_class s' = st_class s.
Proof.
  induction stmts as [|st rest IH]; intros s s' evs ok Hstep; cbn [feed].
  - intros H; inversion H; reflexivity.
  - destruct (step st s) as [s1 [fr|e]] eqn:E.
    + destruct (feed step rest s1) as [[s2 evs2] ok2] eqn:E2. intros H; inversion H; subst.
      rewrite (IH _ _ _ _ Hstep E2). eapply Hstep; eauto.
    + intros H; inversion H; subst. eapply Hstep; eauto.
Qed.

Lemma ns_phase_class always d s s' r : ns_phase always d s = (s', r) -> st_class s' = st_class s.
Proof.
  unfold ns_phase. destruct (p_nd _); [|intros H; inversion H; reflexivity].
  destruct (d_is_sink d).
  - revert s s' r. induction (d_namespaces d) as [|[n i] ns IH]; intros s s' r; cbn [declare_all]; [intros H; inversion H; reflexivity|].
    unfold namespace_declaration. destruct (st_failed s); [intros H; inversion H; reflexivity|].
    destruct (encode_namespace_declaration _ _ _) as [[t' rows]|]; [|intros H; inversion H; reflexivity].
    intros H. apply IH in H. cbn in H. exact H.
  - destruct always; intros H; inversion H; reflexivity.
Qed.

Lemma enroll_class s : st_class (enroll s) = st_class s.
Proof. unfold enroll. destruct (st_enrolled s); reflexivity. Qed.

Lemma finish_class b s s' evs : finish b s = (s', evs) -> st_class s' = st_class s.
Proof.
  unfold finish. destruct (if b then _ else _) as [fl fr]. destruct (to_stream_frame fl) as [fl2 fr2].
  intros H; inversion H; reflexivity.
Qed.

Lemma triples_stream_frames_class d s s' evs : triples_stream_frames d s = (s', evs) -> st_class s' = st_class s.
Proof.
  unfold triples_stream_frames.
  destruct (ns_phase false d (enroll s)) as [s1 [u|e]] eqn:En.
  - destruct (feed stream_triple (d_stmts d) s1) as [[s2 evs2] ok] eqn:E.
    pose proof (feed_class _ _ _ _ _ _ stream_triple_class E) as C2.
    pose proof (ns_phase_class _ _ _ _ _ En) as C1. rewrite enroll_class in C1.
    destruct ok.
    + destruct (finish true s2) as [s3 fin] eqn:F. intros H; inversion H; subst.
      rewrite (finish_class _ _ _ _ F). congruence.
    + intros H; inversion H; subst. congruence.
  - intros H; inversion H; subst. rewrite (ns_phase_class _ _ _ _ _ En). apply enroll_class.
Qed.

Theorem grouped_write_one_frame_per_sink (sinks : list sdata) : forall (s s' : stream) (evs : list tev),
  st_class s = TripleStream -> fl_kind (st_flow s) = FGraphs ->
  grouped_frames sinks s = (s', evs) -> raised evs = None ->
  emitted evs = flat_map one_frame (per_sink_rows sinks s).
Proof.
  induction sinks as [|d rest IH]; intros s s' evs Hc Hk; cbn [grouped_frames per_sink_rows flat_map].
  - intros H _; inversion H; reflexivity.
  - unfold stream_frames. rewrite Hc.
    destruct (triples_stream_frames d s) as [s1 evs1] eqn:E.
    assert (Hc1 : st_class s1 = TripleStream) by (rewrite (triples_stream_frames_class _ _ _ _ E); exact Hc).
    destruct (raised evs1) eqn:Er.
    + intros H Hr; inversion H; subst. congruence.
    + destruct (grouped_frames rest s1) as [s2 evs2] eqn:E2. intros H Hr; inversion H; subst.
      destruct (grouped_triples_one_frame _ _ _ _ Hk E Er) as (H1 & _ & Hk1).
      rewrite raised_app, Er in Hr.
      rewrite emitted_app, H1, (IH _ _ _ Hc1 Hk1 E2 Hr). reflexivity.
Qed.

(* ---------- the QuadStream / DatasetsFrameFlow analogue ---------- *)
Lemma stream_quad_class terms s s' r : stream_quad terms s = (s', r) -> st_class s' = st_class s.
Proof.
  unfold stream_quad. destruct (st_failed s); [intros H; inversion H; reflexivity|].
  destruct (encode_quad _ _ _) as [[[t' rp'] rows]|e]; [|intros H; inversion H; reflexivity].
  destruct (frame_from_bounds _) as [fl fr]. intros H; inversion H; reflexivity.
Qed.

Lemma quads_stream_frames_class d s s' evs : quads_stream_frames d s = (s', evs) -> st_class s' = st_class s.
Proof.
  unfold quads_stream_frames.
  destruct (ns_phase true d (enroll s)) as [s1 [u|e]] eqn:En.
  - destruct (feed stream_quad (d_stmts d) s1) as [[s2 evs2] ok] eqn:E.
    pose proof (feed_class _ _ _ _ _ _ stream_quad_class E) as C2.
    pose proof (ns_phase_class _ _ _ _ _ En) as C1. rewrite enroll_class in C1.
    destruct ok.
    + destruct (finish false s2) as [s3 fin] eqn:F. intros H; inversion H; subst.
      rewrite (finish_class _ _ _ _ F). congruence.
    + intros H; inversion H; subst. congruence.
  - intros H; inversion H; subst. rewrite (ns_phase_class _ _ _ _ _ En). apply enroll_class.
Qed.

Theorem grouped_quads_one_frame (d : sdata) (s s' : stream) (evs : list tev) :
  fl_kind (st_flow s) = FDatasets ->
  quads_stream_frames d s = (s', evs) -> raised evs = None ->
  emitted evs = one_frame (emitted_rows evs) /\ fl_rows (st_flow s') = [] /\ fl_kind (st_flow s') = FDatasets.
Proof.
  intros Hk Hrun Hraise. pose proof (quads_stream_frames_flushes _ _ _ _ Hrun Hraise) as Hflush.
  unfold quads_stream_frames in Hrun.
  destruct (ns_phase true d (enroll s)) as [s1 [u|e]] eqn:En; [|inversion Hrun; subst; cbn in Hraise; discriminate].
  assert (Hk1 : fl_kind (st_flow s1) = FDatasets) by (rewrite (ns_phase_kind _ _ _ _ _ En), enroll_kind; exact Hk).
  destruct (feed stream_quad (d_stmts d) s1) as [[s2 evs2] ok] eqn:E. destruct ok.
  - destruct (finish false s2) as [s3 fin] eqn:F. inversion Hrun; subst s' evs; clear Hrun.
    assert (Hu1 : unbounded s1) by (unfold unbounded; now rewrite Hk1).
    destruct (feed_unbounded stream_quad _ _ _ _ (fun t x x' fr Hu Hs => let '(conj a (conj b _)) := stream_quad_unbounded t x x' fr Hu Hs in conj a b) Hu1 E) as [He Hk2].
    rewrite Hk1 in Hk2. pose proof (finish_datasets _ _ _ Hk2 F) as Hf.
    rewrite emitted_app, He, Hf. cbn [app].
    assert (Hrows : emitted_rows (evs2 ++ fin) = fl_rows (st_flow s2)).
    { rewrite emitted_rows_app. rewrite (emitted_rows_is_concat evs2), He. cbn.
      pose proof (finish_conserves _ _ _ _ F) as Hc. rewrite Hflush, app_nil_r in Hc. exact Hc. }
    rewrite Hrows. split; [reflexivity|]. split; [exact Hflush|].
    unfold finish in F. unfold frame_from_dataset in F. rewrite Hk2 in F.
    pose proof (to_stream_frame_kind (st_flow s2)) as [K1 _]. destruct (to_stream_frame (st_flow s2)) as [fl1 fr1].
    pose proof (to_stream_frame_kind fl1) as [K2 _]. destruct (to_stream_frame fl1) as [fl2 fr2].
    inversion F; subst. cbn in *. congruence.
  - inversion Hrun; subst. exfalso. eapply feed_not_ok_raises; eauto.
Qed.

Fixpoint per_sink_rows_q (sinks : list sdata) (s : stream) : list (list row) :=
  match sinks with
  | [] => []
  | d :: rest => let '(s', evs) := quads_stream_frames d s in emitted_rows evs :: per_sink_rows_q rest s'
  end.

Theorem grouped_write_one_frame_per_sink_quads (sinks : list sdata) : forall (s s' : stream) (evs : list tev),
  st_class s = QuadStream -> fl_kind (st_flow s) = FDatasets ->
  grouped_frames sinks s = (s', evs) -> raised evs = None ->
  emitted evs = flat_map one_frame (per_sink_rows_q sinks s).
Proof.
  induction sinks as [|d rest IH]; intros s s' evs Hc Hk; cbn [grouped_frames per_sink_rows_q flat_map].
  - intros H _; inversion H; reflexivity.
  - unfold stream_frames. rewrite Hc.
    destruct (quads_stream_frames d s) as [s1 evs1] eqn:E.
    assert (Hc1 : st_class s1 = QuadStream) by (rewrite (quads_stream_frames_class _ _ _ _ E); exact Hc).
    destruct (raised evs1) eqn:Er.
    + intros H Hr; inversion H; subst. congruence.
    + destruct (grouped_frames rest s1) as [s2 evs2] eqn:E2. intros H Hr; inversion H; subst.
      destruct (grouped_quads_one_frame _ _ _ _ Hk E Er) as (H1 & _ & Hk1).
      rewrite raised_app, Er in Hr.
      rewrite emitted_app, H1, (IH _ _ _ Hc1 Hk1 E2 Hr). reflexivity.
Qed.
