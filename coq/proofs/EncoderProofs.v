(* EncoderProofs.v -- structural facts about the serializer model: end-of-input always flushes (C06),
   a bounded flow never holds frame_size rows between statements (C11), a failed statement closes
   the stream and leaves the flow untouched (C20), repeated terms and resident entries are not
   re-sent (C19), nothing namespace-related is written with the option off (C14), the guard refuses
   a statement that outgrows a table (C18), and split_iri loses nothing (C01). *)
From Coq Require Import Arith Lia.
From PJ.Model Require Import Base Lookup Terms Encoder Streams.

(* ---------- split_iri ---------- *)
Lemma rpartition_app sep s a b : rpartition sep s = Some (a, b) -> a ++ sep :: b = s.
Proof.
  revert a b; induction s as [|c s IH]; intros a b; cbn; [discriminate|].
  destruct (rpartition sep s) as [[a' b']|] eqn:E.
  - intros H; inversion H; subst. cbn. f_equal. now apply IH.
  - destruct (N.eqb_spec c sep) as [->|]; [|discriminate]. intros H; inversion H; subst. reflexivity.
Qed.

Theorem split_iri_app (iri : str) : let '(p, n) := split_iri iri in p ++ n = iri.
Proof.
  unfold split_iri.
  destruct (rpartition 35 iri) as [[a b]|] eqn:E1.
  - rewrite <- app_assoc. cbn. now apply rpartition_app.
  - destruct (rpartition 47 iri) as [[a b]|] eqn:E2.
    + rewrite <- app_assoc. cbn. now apply rpartition_app.
    + reflexivity.
Qed.

(* ---------- flows ---------- *)
Lemma to_stream_frame_empties (f : flow) : fl_rows (fst (to_stream_frame f)) = [].
Proof. unfold to_stream_frame. destruct (fl_rows f) eqn:E; cbn; [exact E|reflexivity]. Qed.

Lemma to_stream_frame_kind (f : flow) :
  fl_kind (fst (to_stream_frame f)) = fl_kind f /\ fl_frame_size (fst (to_stream_frame f)) = fl_frame_size f.
Proof. unfold to_stream_frame. destruct (fl_rows f); cbn; auto. Qed.

(* no row is lost or invented by a flush: frame rows ++ remaining rows = rows before *)
Lemma to_stream_frame_conserves (f : flow) :
  (match snd (to_stream_frame f) with Some fr => f_rows fr | None => [] end)
    ++ fl_rows (fst (to_stream_frame f)) = fl_rows f.
Proof. unfold to_stream_frame. destruct (fl_rows f) eqn:E; cbn; [exact E|now rewrite app_nil_r]. Qed.

(* C11: a bounded flow with frame_size >= 1 holds fewer than frame_size rows after every check *)
Theorem frame_from_bounds_pending (f : flow) :
  is_bounded (fl_kind f) = true -> 1 <= fl_frame_size f ->
  nlen (fl_rows (fst (frame_from_bounds f))) < fl_frame_size f.
Proof.
  intros Hb Hfs. unfold frame_from_bounds. rewrite Hb.
  destruct (fl_frame_size f <=? nlen (fl_rows f)) eqn:E.
  - rewrite to_stream_frame_empties. unfold nlen; cbn. lia.
  - cbn. apply N.leb_gt in E. exact E.
Qed.

Lemma frame_from_bounds_kind (f : flow) :
  fl_kind (fst (frame_from_bounds f)) = fl_kind f /\ fl_frame_size (fst (frame_from_bounds f)) = fl_frame_size f.
Proof.
  unfold frame_from_bounds. destruct (is_bounded (fl_kind f)); [|cbn; auto].
  destruct (_ <=? _); [apply to_stream_frame_kind|cbn; auto].
Qed.

(* frame_size "or DEFAULT": never 0 in a constructed flow *)
Lemma flow_new_frame_size k l fs : 1 <= fl_frame_size (flow_new k l fs).
Proof. unfold flow_new; cbn. destruct (fs =? 0) eqn:E; [unfold DEFAULT_FRAME_SIZE; lia|apply N.eqb_neq in E; lia]. Qed.

Definition pending_ok (s : stream) : Prop :=
  nlen (fl_rows (st_flow s)) < fl_frame_size (st_flow s).

Definition bounded_stream (s : stream) : Prop :=
  is_bounded (fl_kind (st_flow s)) = true /\ 1 <= fl_frame_size (st_flow s).

Theorem stream_triple_pending (terms : list term) (s s' : stream) (fr : option frame) :
  bounded_stream s -> stream_triple terms s = (s', Ok fr) -> pending_ok s' /\ bounded_stream s'.
Proof.
  intros [Hb Hfs]. unfold stream_triple. destruct (st_failed s); [discriminate|].
  destruct (encode_triple _ _ _ _) as [[[t' rp'] rows]|e]; [|discriminate].
  destruct (frame_from_bounds (flow_extend (st_flow s) rows)) as [fl fr'] eqn:E.
  intros H; inversion H; subst. unfold pending_ok, bounded_stream; cbn.
  pose proof (frame_from_bounds_pending (flow_extend (st_flow s) rows)) as Hp.
  pose proof (frame_from_bounds_kind (flow_extend (st_flow s) rows)) as [Hk Hs].
  rewrite E in *. cbn in *. rewrite Hk, Hs. auto.
Qed.

Theorem stream_quad_pending (terms : list term) (s s' : stream) (fr : option frame) :
  bounded_stream s -> stream_quad terms s = (s', Ok fr) -> pending_ok s' /\ bounded_stream s'.
Proof.
  intros [Hb Hfs]. unfold stream_quad. destruct (st_failed s); [discriminate|].
  destruct (encode_quad _ _ _ _) as [[[t' rp'] rows]|e]; [|discriminate].
  destruct (frame_from_bounds (flow_extend (st_flow s) rows)) as [fl fr'] eqn:E.
  intros H; inversion H; subst. unfold pending_ok, bounded_stream; cbn.
  pose proof (frame_from_bounds_pending (flow_extend (st_flow s) rows)) as Hp.
  pose proof (frame_from_bounds_kind (flow_extend (st_flow s) rows)) as [Hk Hs].
  rewrite E in *. cbn in *. rewrite Hk, Hs. auto.
Qed.

(* every statement of a fed input leaves the bound in place: the invariant over whole runs *)
Theorem feed_pending (step : list term -> stream -> step_result) (stmts : list (list term)) (s s' : stream)
        (evs : list tev) (ok : bool) :
  (forall t x x' fr, bounded_stream x -> step t x = (x', Ok fr) -> pending_ok x' /\ bounded_stream x') ->
  (forall t x x' e, step t x = (x', Err e) -> st_flow x' = st_flow x) ->
  bounded_stream s -> pending_ok s -> feed step stmts s = (s', evs, ok) -> pending_ok s' /\ bounded_stream s'.
Proof.
  intros Hstep Herr. revert s s' evs ok; induction stmts as [|st rest IH]; intros s s' evs ok Hb Hp; cbn [feed].
  - intros H; inversion H; subst; auto.
  - destruct (step st s) as [s1 [fr|e]] eqn:E.
    + destruct (Hstep _ _ _ _ Hb E) as [Hp1 Hb1].
      destruct (feed step rest s1) as [[s2 evs2] ok2] eqn:E2. intros H; inversion H; subst.
      eapply IH; eauto.
    + intros H; inversion H; subst. pose proof (Herr _ _ _ _ E) as Hfl.
      unfold pending_ok, bounded_stream in *. rewrite Hfl. auto.
Qed.

(* ---------- C20: rejection closes the stream ---------- *)
Theorem failed_stream_refuses (terms : list term) (s : stream) :
  st_failed s = true ->
  stream_triple terms s = (s, Err JAssertion) /\ stream_quad terms s = (s, Err JAssertion).
Proof. intros H. unfold stream_triple, stream_quad, refuse. rewrite H. auto. Qed.

Theorem failed_stream_refuses_all (s : stream) (g : term) (ts : list (list term)) (n i : str) :
  st_failed s = true ->
  stream_graph g ts s = (s, [Raise JAssertion], false) /\ namespace_declaration n i s = (s, Err JAssertion).
Proof. intros H. unfold stream_graph, namespace_declaration. rewrite H. auto. Qed.

Theorem rejection_closes (terms : list term) (s s' : stream) (e : exn) :
  stream_triple terms s = (s', Err e) \/ stream_quad terms s = (s', Err e) ->
  st_failed s' = true /\ st_flow s' = st_flow s /\ st_enc s' = st_enc s /\ st_rep s' = st_rep s.
Proof.
  unfold stream_triple, stream_quad, refuse. intros [H|H]; destruct (st_failed s) eqn:F.
  - inversion H; subst; auto.
  - destruct (encode_triple _ _ _ _) as [[[t' rp'] rows]|e'].
    + destruct (frame_from_bounds _); discriminate.
    + inversion H; subst; cbn; auto.
  - inversion H; subst; auto.
  - destruct (encode_quad _ _ _ _) as [[[t' rp'] rows]|e'].
    + destruct (frame_from_bounds _); discriminate.
    + inversion H; subst; cbn; auto.
Qed.

Lemma step_err_keeps_flow_triple t x x' e : stream_triple t x = (x', Err e) -> st_flow x' = st_flow x.
Proof. intros H. now destruct (rejection_closes t x x' e (or_introl H)) as (_ & Hf & _). Qed.
Lemma step_err_keeps_flow_quad t x x' e : stream_quad t x = (x', Err e) -> st_flow x' = st_flow x.
Proof. intros H. now destruct (rejection_closes t x x' e (or_intror H)) as (_ & Hf & _). Qed.

(* once failed, always failed, and nothing more is ever appended *)
Definition op_is_flush (op : list term + unit) : bool := match op with inr _ => true | inl _ => false end.

Theorem failed_forever (stmts : list (list term)) (s s' : stream) (evs : list tev) (ok : bool) :
  st_failed s = true -> stmts <> [] ->
  feed stream_triple stmts s = (s', evs, ok) -> s' = s /\ ok = false /\ emitted evs = [].
Proof.
  intros Hf Hne. destruct stmts as [|st rest]; [contradiction|]. cbn [feed].
  destruct (failed_stream_refuses st s Hf) as [H1 _]. rewrite H1.
  intros H; inversion H; subst. cbn. auto.
Qed.

(* ---------- C06: end of input flushes everything ---------- *)
Theorem finish_flushes (b : bool) (s s' : stream) (evs : list tev) :
  finish b s = (s', evs) -> fl_rows (st_flow s') = [].
Proof.
  unfold finish.
  destruct (if b then frame_from_graph (st_flow s) else frame_from_dataset (st_flow s)) as [fl1 fr1].
  pose proof (to_stream_frame_empties fl1) as He.
  destruct (to_stream_frame fl1) as [fl2 fr2]. cbn in He.
  intros H; inversion H; subst. cbn. exact He.
Qed.

Lemma raised_app a b : raised (a ++ b) = match raised a with Some e => Some e | None => raised b end.
Proof. induction a as [|x a IH]; cbn; [reflexivity|]. destruct x; auto. Qed.

Lemma raised_emit_opt o : raised (emit_opt o) = None.
Proof. destruct o; reflexivity. Qed.

Lemma feed_not_ok_raises step stmts s s' evs :
  feed step stmts s = (s', evs, false) -> raised evs <> None.
Proof.
  revert s s' evs; induction stmts as [|st rest IH]; intros s s' evs; cbn [feed].
  - intros H; inversion H.
  - destruct (step st s) as [s1 [fr|e]].
    + destruct (feed step rest s1) as [[s2 evs2] ok2] eqn:E. intros H; inversion H; subst.
      cbn [raised]. rewrite raised_app, raised_emit_opt. eapply IH; eauto.
    + intros H; inversion H; subst. cbn. discriminate.
Qed.

Theorem triples_stream_frames_flushes (d : sdata) (s s' : stream) (evs : list tev) :
  triples_stream_frames d s = (s', evs) -> raised evs = None -> fl_rows (st_flow s') = [].
Proof.
  unfold triples_stream_frames.
  destruct (ns_phase false d (enroll s)) as [s1 [u|e]]; [|intros H; inversion H; subst; cbn; discriminate].
  destruct (feed stream_triple (d_stmts d) s1) as [[s2 evs2] ok] eqn:E.
  destruct ok.
  - destruct (finish true s2) as [s3 fin] eqn:F. intros H _; inversion H; subst. eapply finish_flushes; eauto.
  - intros H Hr; inversion H; subst. exfalso. eapply feed_not_ok_raises; eauto.
Qed.

Theorem quads_stream_frames_flushes (d : sdata) (s s' : stream) (evs : list tev) :
  quads_stream_frames d s = (s', evs) -> raised evs = None -> fl_rows (st_flow s') = [].
Proof.
  unfold quads_stream_frames.
  destruct (ns_phase true d (enroll s)) as [s1 [u|e]]; [|intros H; inversion H; subst; cbn; discriminate].
  destruct (feed stream_quad (d_stmts d) s1) as [[s2 evs2] ok] eqn:E.
  destruct ok.
  - destruct (finish false s2) as [s3 fin] eqn:F. intros H _; inversion H; subst. eapply finish_flushes; eauto.
  - intros H Hr; inversion H; subst. exfalso. eapply feed_not_ok_raises; eauto.
Qed.

Lemma graph_triples_not_ok ts s s' evs : graph_triples ts s = (s', evs, false) -> raised evs <> None.
Proof.
  revert s s' evs; induction ts as [|t ts IH]; intros s s' evs; cbn [graph_triples].
  - intros H; inversion H.
  - destruct (stream_triple t s) as [s1 [fr|e]].
    + destruct (graph_triples ts s1) as [[s2 evs2] ok2] eqn:E. intros H; inversion H; subst.
      rewrite raised_app, raised_emit_opt. eapply IH; eauto.
    + intros H; inversion H; subst. cbn. discriminate.
Qed.

Lemma stream_graph_not_ok g ts s s' evs : stream_graph g ts s = (s', evs, false) -> raised evs <> None.
Proof.
  unfold stream_graph. destruct (st_failed s); [intros H; inversion H; subst; cbn; discriminate|].
  destruct (encode_graph_start _ _ _) as [[t' rows]|e]; [|intros H; inversion H; subst; cbn; discriminate].
  destruct (graph_triples ts _) as [[s2 evs2] ok] eqn:E. destruct ok.
  - destruct (frame_from_bounds _). intros H; inversion H.
  - intros H; inversion H; subst. eapply graph_triples_not_ok; eauto.
Qed.

Lemma pulls_raised n : raised (pulls n) = None.
Proof. induction n; cbn; auto. Qed.

Lemma feed_graphs_generic_not_ok first gs s s' evs :
  feed_graphs_generic first gs s = (s', evs, false) -> raised evs <> None.
Proof.
  revert first s s' evs; induction gs as [|[g ts] gs IH]; intros first s s' evs; cbn [feed_graphs_generic].
  - intros H; inversion H.
  - destruct (stream_graph g ts s) as [[s1 evs1] ok1] eqn:E. destruct ok1.
    + destruct (feed_graphs_generic false gs s1) as [[s2 evs2] ok2] eqn:E2. intros H; inversion H; subst.
      rewrite !raised_app, pulls_raised. destruct (raised evs1); [discriminate|]. eapply IH; eauto.
    + intros H; inversion H; subst. rewrite raised_app, pulls_raised. eapply stream_graph_not_ok; eauto.
Qed.

Theorem graphs_stream_frames_flushes (d : sdata) (s s' : stream) (evs : list tev) :
  graphs_stream_frames_generic d s = (s', evs) -> raised evs = None -> fl_rows (st_flow s') = [].
Proof.
  unfold graphs_stream_frames_generic.
  destruct (ns_phase true d (enroll s)) as [s1 [u|e]]; [|intros H; inversion H; subst; cbn; discriminate].
  destruct (d_stmts d) as [|st0 rest].
  - destruct (finish false s1) as [s3 fin] eqn:F. intros H _; inversion H; subst. eapply finish_flushes; eauto.
  - destruct (feed_graphs_generic true _ s1) as [[s2 evs2] ok] eqn:E. destruct ok.
    + destruct (finish false s2) as [s3 fin] eqn:F. intros H _; inversion H; subst. eapply finish_flushes; eauto.
    + intros H Hr; inversion H; subst. exfalso. eapply feed_graphs_generic_not_ok; eauto.
Qed.

Theorem stream_frames_flushes (d : sdata) (s s' : stream) (evs : list tev) :
  stream_frames d s = (s', evs) -> raised evs = None -> fl_rows (st_flow s') = [].
Proof.
  unfold stream_frames. destruct (st_class s).
  - apply triples_stream_frames_flushes.
  - apply quads_stream_frames_flushes.
  - apply graphs_stream_frames_flushes.
Qed.

(* ---------- C19: local compression facts ---------- *)
Theorem repeated_term_elided (ig : integ) (tm : term) (prev : option term) (t : tenc) :
  differs prev tm = false -> encode_slot ig prev tm t = Ok (t, [], None, prev).
Proof. intros H. unfold encode_slot. now rewrite H. Qed.

Theorem resident_key_not_resent (k : str) (e e' : slenc) (oe : option N) :
  find str_eqb k (l_data (e_lookup e)) <> None ->
  encode_entry_index str_eqb k e = Some (e', oe) -> oe = None.
Proof.
  intros Hf. unfold encode_entry_index, move_to_end.
  destruct (find str_eqb k (l_data (e_lookup e))); [|contradiction].
  intros H; inversion H; reflexivity.
Qed.

Theorem sequential_entry_uses_zero (k : str) (e e' : slenc) (id : N) :
  encode_entry_index str_eqb k e = Some (e', Some id) ->
  id = 0 \/ (id <> e_last_assigned e + 1 /\ id = e_last_assigned e').
Proof.
  unfold encode_entry_index. destruct (move_to_end _ _ _); [discriminate|].
  destruct (insert k (e_lookup e)) as [[l' i]|]; [|discriminate].
  destruct (i =? e_last_assigned e + 1) eqn:E; intros H; inversion H; subst; cbn; [now left|].
  right. apply N.eqb_neq in E. auto.
Qed.

(* ---------- C14: with the option off nothing namespace-related happens ---------- *)
Theorem ns_phase_off (always : bool) (d : sdata) (s : stream) :
  p_nd (so_params (st_opts s)) = false -> ns_phase always d s = (s, Ok tt).
Proof. intros H. unfold ns_phase. now rewrite H. Qed.

Theorem version_iff_declarations (p : sparams) : params_version p = 2 <-> p_nd p = true.
Proof. unfold params_version. destruct (p_nd p); split; intros; try reflexivity; try discriminate. Qed.

(* ---------- C18: the guard ---------- *)
Theorem guard_refuses (table : slenc) (keys : list str) (k : str) :
  lmax table < nlen (set_add k keys) -> entry_index table keys k = Err Conformance.
Proof. intros H. unfold entry_index. apply N.ltb_lt in H. now rewrite H. Qed.

Theorem guard_counts (table : slenc) (keys keys' : list str) (k : str) (t' : slenc) (oe : option N) :
  entry_index table keys k = Ok (t', keys', oe) -> nlen keys' <= lmax table /\ mem_str k keys' = true.
Proof.
  unfold entry_index. destruct (lmax table <? nlen (set_add k keys)) eqn:E; [discriminate|].
  destruct (encode_entry_index _ _ _) as [[t1 oe1]|]; [|discriminate].
  intros H; inversion H; subst. apply N.ltb_ge in E. split; [exact E|].
  unfold set_add. destruct (mem_str k keys) eqn:M; [exact M|]. cbn.
  assert (Hr : forall a, str_eqb a a = true).
  { induction a as [|x a IH]; cbn; [reflexivity|]. now rewrite N.eqb_refl, IH. }
  now rewrite Hr.
Qed.

(* ---------- C19: zero forms of term ids ---------- *)
Theorem name_id_zero_form (k : str) (e e' : slenc) (id : N) :
  encode_name_term_index str_eqb k e = Some (e', id) ->
  (id = 0 /\ e_last_reused e' = e_last_reused e + 1) \/ (id = e_last_reused e' /\ id <> e_last_reused e + 1).
Proof.
  unfold encode_name_term_index. destruct (encode_term_index str_eqb k e) as [[e1 cur]|] eqn:E; [|discriminate].
  assert (Hlr : e_last_reused e1 = cur).
  { unfold encode_term_index in E. destruct (move_to_end _ _ _); [|discriminate]. destruct (find _ _ _); [|discriminate]. inversion E; reflexivity. }
  destruct (cur =? e_last_reused e + 1) eqn:Ec; intros H; inversion H; subst.
  - left. apply N.eqb_eq in Ec. split; [reflexivity|congruence].
  - right. apply N.eqb_neq in Ec. split; congruence.
Qed.

Theorem prefix_id_zero_form (k : str) (e e' : slenc) (id : N) :
  encode_prefix_term_index str_eqb (is_nil k) k e = Some (e', id) ->
  id = 0 \/ (id = e_last_reused e' /\ (e_last_reused e = 0 \/ id <> e_last_reused e)).
Proof.
  unfold encode_prefix_term_index. destruct (l_max (e_lookup e) =? 0); [intros H; inversion H; now left|].
  destruct (is_nil k && (e_last_reused e =? 0)); [intros H; inversion H; now left|].
  destruct (encode_term_index str_eqb k e) as [[e1 cur]|] eqn:E; [|discriminate].
  assert (Hlr : e_last_reused e1 = cur).
  { unfold encode_term_index in E. destruct (move_to_end _ _ _); [|discriminate]. destruct (find _ _ _); [|discriminate]. inversion E; reflexivity. }
  destruct (e_last_reused e =? 0) eqn:Ez.
  - intros H; inversion H; subst. right. apply N.eqb_eq in Ez. split; [congruence|now left].
  - destruct (cur =? e_last_reused e) eqn:Ec; intros H; inversion H; subst; [now left|].
    right. apply N.eqb_neq in Ec. split; [congruence|now right].
Qed.

(* every row of a statement other than its entry rows is the statement row itself: the output is
   never larger than one entry per key use plus one row per statement *)
Theorem iri_rows_bounded (iri : str) (t t' : tenc) (rows : list row) (p n : N) :
  encode_iri iri t = Ok (t', rows, p, n) -> (length rows <= 2)%nat.
Proof.
  unfold encode_iri. destruct (split_iri iri) as [prefix name0]. unfold bind.
  destruct (lmax (t_prefixes t) =? 0).
  - destruct (entry_index _ _ _) as [[[? ?] ne]|]; [|discriminate].
    destruct (lift _ _) as [[? ?]|]; [|discriminate]. destruct (lift _ _) as [[? ?]|]; [|discriminate].
    intros H; inversion H; subst. destruct ne; cbn; lia.
  - destruct (entry_index _ _ _) as [[[? ?] pe]|]; [|discriminate]. cbn [bind].
    destruct (entry_index _ _ _) as [[[? ?] ne]|]; [|discriminate].
    destruct (lift _ _) as [[? ?]|]; [|discriminate]. destruct (lift _ _) as [[? ?]|]; [|discriminate].
    intros H; inversion H; subst. destruct pe, ne; cbn; lia.
Qed.
