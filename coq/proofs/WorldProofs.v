(* WorldProofs.v -- C12: in a world whose only state is the list of component states, every
   component does under any interleaving exactly what it does alone. *)
From Coq Require Import Arith Lia.
From PJ.Model Require Import Base World.

Section W.
Context {S Op Out : Type} (step : Op -> S -> S * Out).

Lemma nth_update_same i (x : S) w : (i < length w)%nat -> nth_error (update i x w) i = Some x.
Proof. revert w; induction i as [|i IH]; intros [|y w]; cbn; intros H; try lia; [reflexivity|apply IH; lia]. Qed.

Lemma nth_update_other i j (x : S) w : i <> j -> nth_error (update i x w) j = nth_error w j.
Proof.
  revert j w; induction i as [|i IH]; intros j [|y w] H; cbn; try reflexivity.
  - destruct j; [lia|reflexivity].
  - destruct j; [reflexivity|]. cbn. apply IH. lia.
Qed.

Lemma update_length i (x : S) w : length (update i x w) = length w.
Proof. revert w; induction i as [|i IH]; intros [|y w]; cbn; auto. Qed.

Theorem isolation (ops : list (nat * Op)) (w : list S) (i : nat) (s : S) :
  nth_error w i = Some s ->
  nth_error (fst (wrun step ops w)) i = Some (fst (run_alone step (ops_of i ops) s)) /\
  outs_of i (snd (wrun step ops w)) = snd (run_alone step (ops_of i ops) s).
Proof.
  revert w s; induction ops as [|[j op] rest IH]; intros w s Hs.
  - cbn. auto.
  - cbn [wrun]. unfold wstep. cbn [fst snd]. unfold ops_of. cbn [filter fst].
    destruct (Nat.eqb_spec j i) as [->|Hne].
    + rewrite Hs. cbn [map snd run_alone].
      destruct (step op s) as [s1 o] eqn:E.
      assert (Hlt : (i < length w)%nat) by (apply nth_error_Some; congruence).
      specialize (IH (update i s1 w) s1 (nth_update_same i s1 w Hlt)).
      unfold ops_of in IH.
      destruct (wrun step rest (update i s1 w)) as [w'' outs].
      destruct (run_alone step (map snd (filter (fun iop => Nat.eqb (fst iop) i) rest)) s1) as [s' outs_i].
      cbn [fst snd] in *. destruct IH as [H1 H2]. split; [exact H1|].
      unfold outs_of. cbn [filter fst]. rewrite Nat.eqb_refl. cbn [map snd]. f_equal. exact H2.
    + destruct (nth_error w j) as [sj|] eqn:Ej.
      * destruct (step op sj) as [sj' o].
        assert (Hs' : nth_error (update j sj' w) i = Some s) by (rewrite nth_update_other; assumption).
        specialize (IH _ _ Hs'). unfold ops_of in IH.
        destruct (wrun step rest (update j sj' w)) as [w'' outs]. cbn [fst snd] in *.
        destruct IH as [H1 H2]. split; [exact H1|].
        unfold outs_of. cbn [filter fst]. destruct (Nat.eqb_spec j i); [contradiction|]. exact H2.
      * specialize (IH _ _ Hs). unfold ops_of in IH.
        destruct (wrun step rest w) as [w'' outs]. cbn [fst snd] in *. exact IH.
Qed.
End W.
