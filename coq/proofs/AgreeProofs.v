(* AgreeProofs.v -- C15 / C02: the two integrations are two copies that agree on RDF 1.1 data. *)
From Coq Require Import Arith Lia.
From PJ.Model Require Import Base Lookup Terms Wire Encoder Streams Decoder.
From PJ.Proofs Require Import TermInd.

(* wire terms without quoted triples *)
Fixpoint no_quoted (w : wterm) : bool := match w with WTriple _ _ _ => false | _ => true end.
(* ... whose language tag, if there is one, rdflib's constructor accepts (every well-formed BCP 47 tag is) *)
Definition lang_ok (w : wterm) : bool := match w with WLit _ (LkLang t) => is_nil t || valid_langtag t | _ => true end.
Definition wt_ok (w : wterm) : bool := no_quoted w && lang_ok w.
Definition no_quoted_opt (o : option wterm) : bool := match o with Some w => wt_ok w | None => true end.

(* What the rdflib integration's reader hands out for a term the stream denotes: the term rdflib's constructor builds -- the lexical
   form of an xsd:token / xsd:normalizedString literal REWRITTEN (Terms.rdflib_lex), everything else as it is. *)
Definition rview (t : term) : term :=
  match t with TLit lex None dt => TLit (rdflib_lex dt lex) None dt | _ => t end.
Definition eview (e : event) : event :=
  match e with
  | ETriple s p o => ETriple (rview s) (rview p) (rview o)
  | EQuad s p o g => EQuad (rview s) (rview p) (rview o) (rview g)
  | EPrefix n i => EPrefix n i
  end.
(* the reader's state: same tables; the remembered terms are the ones that were handed out *)
Definition vst (st : dstate) : dstate :=
  {| ds_names := ds_names st; ds_prefixes := ds_prefixes st; ds_datatypes := ds_datatypes st;
     ds_s := option_map rview (ds_s st); ds_p := option_map rview (ds_p st); ds_o := option_map rview (ds_o st);
     ds_g := option_map rview (ds_g st); ds_graph := option_map rview (ds_graph st) |}.
Definition vres {X} (f : dstate -> X -> X) (r : res (dstate * X)) : res (dstate * X) :=
  match r with Ok (st, x) => Ok (vst st, f st x) | Err e => Err e end.

Lemma decode_literal_view lex k st : lang_ok (WLit lex k) = true ->
  decode_literal Rdflib lex k (vst st) = match decode_literal Generic lex k st with Ok (st', t) => Ok (vst st', rview t) | Err e => Err e end.
Proof.
  intros H. unfold decode_literal. destruct k as [|t|id]; cbn [lang_ok] in H.
  - reflexivity.
  - destruct t as [|c t]; [reflexivity|]. cbn [is_nil orb] in H. cbn [is_nil mk_literal bind]. rewrite H. reflexivity.
  - cbn [vst ds_datatypes]. destruct (nlen _ =? 0); [reflexivity|].
    destruct (decode_datatype_term_index id (ds_datatypes st)) as [[d' dt]|]; reflexivity.
Qed.

Lemma decode_term_view (w : wterm) (st : dstate) : wt_ok w = true ->
  decode_term Rdflib w (vst st) = match decode_term Generic w st with Ok (st', t) => Ok (vst st', rview t) | Err e => Err e end.
Proof.
  unfold wt_ok. intros H. apply andb_prop in H. destruct H as [Hq Hl].
  destruct w as [pi ni|l|lex k| |a b c]; cbn [decode_term no_quoted] in *; try discriminate.
  - unfold decode_iri, lift, bind. cbn [vst ds_names ds_prefixes].
    destruct (decode_name_term_index ni (ds_names st)) as [[n' name]|]; [|reflexivity].
    destruct (decode_prefix_term_index pi (ds_prefixes st)) as [[p' prefix]|]; reflexivity.
  - reflexivity.
  - apply decode_literal_view. exact Hl.
  - reflexivity.
Qed.

Lemma decode_slot_view (w : option wterm) prev st : no_quoted_opt w = true ->
  decode_slot Rdflib w (option_map rview prev) (vst st) =
  match decode_slot Generic w prev st with Ok (st', t) => Ok (vst st', rview t) | Err e => Err e end.
Proof. destruct w as [w|]; cbn [no_quoted_opt decode_slot]; intros H; [now apply decode_term_view|]. destruct prev; reflexivity. Qed.

Definition row_rdf11 (r : row) : bool :=
  match r with
  | RTriple s p o => no_quoted_opt s && no_quoted_opt p && no_quoted_opt o
  | RQuad s p o g => no_quoted_opt s && no_quoted_opt p && no_quoted_opt o && no_quoted_opt g
  | RGraphStart g => no_quoted_opt g
  | _ => true
  end.

Lemma decode_spo_view s p o st :
  no_quoted_opt s = true -> no_quoted_opt p = true -> no_quoted_opt o = true ->
  decode_spo Rdflib s p o (vst st) =
  match decode_spo Generic s p o st with Ok (st', ts, tp, to) => Ok (vst st', rview ts, rview tp, rview to) | Err e => Err e end.
Proof.
  intros Hs Hp Ho. unfold decode_spo, bind.
  change (ds_s (vst st)) with (option_map rview (ds_s st)). rewrite (decode_slot_view s _ _ Hs).
  destruct (decode_slot Generic s (ds_s st) st) as [[s1 ts]|]; [|reflexivity].
  change (ds_p (vst st)) with (option_map rview (ds_p st)). rewrite (decode_slot_view p _ _ Hp).
  destruct (decode_slot Generic p (ds_p st) s1) as [[s2 tp]|]; [|reflexivity].
  change (ds_o (vst st)) with (option_map rview (ds_o st)). rewrite (decode_slot_view o _ _ Ho).
  destruct (decode_slot Generic o (ds_o st) s2) as [[s3 to]|]; reflexivity.
Qed.

(* row by row: on RDF 1.1 rows the rdflib decoder does what the generic one does, and hands out the VIEW of what that one hands out *)
Theorem decode_row_view (ak : adapter_kind) (po : poptions) (r : row) (st : dstate) :
  row_rdf11 r = true ->
  decode_row Rdflib ak po r (vst st) =
  match decode_row Generic ak po r st with Ok (st', evs) => Ok (vst st', map eview evs) | Err e => Err e end.
Proof.
  destruct r; cbn [row_rdf11 decode_row]; intros H.
  - destruct (validate_stream_options po o); reflexivity.
  - unfold bind. cbn [vst ds_prefixes]. destruct (assign id v (ds_prefixes st)); reflexivity.
  - unfold bind. cbn [vst ds_names]. destruct (assign id v (ds_names st)); reflexivity.
  - unfold bind. cbn [vst ds_datatypes]. destruct (assign id v (ds_datatypes st)); reflexivity.
  - apply andb_prop in H. destruct H as [H Ho]. apply andb_prop in H. destruct H as [Hs Hp].
    rewrite decode_spo_view by assumption. unfold bind.
    destruct (decode_spo Generic s p o st) as [[[[st1 ts] tp] to]|]; [|reflexivity].
    destruct ak; try reflexivity. cbn [vst ds_graph]. destruct (ds_graph st1); reflexivity.
  - apply andb_prop in H. destruct H as [H Hg]. apply andb_prop in H. destruct H as [H Ho].
    apply andb_prop in H. destruct H as [Hs Hp]. rewrite decode_spo_view by assumption. unfold bind.
    destruct (decode_spo Generic s p o st) as [[[[st1 ts] tp] to]|]; [|reflexivity].
    change (ds_g (vst st1)) with (option_map rview (ds_g st1)). rewrite (decode_slot_view g _ _ Hg).
    destruct (decode_slot Generic g (ds_g st1) st1) as [[st2 tg]|]; [|reflexivity].
    destruct ak; reflexivity.
  - destruct g as [w|]; [|reflexivity]. cbn [no_quoted_opt] in H. rewrite (decode_term_view w st H). unfold bind.
    destruct (decode_term Generic w st) as [[st' tg]|]; [|reflexivity]. destruct ak; reflexivity.
  - destruct ak; reflexivity.
  - unfold decode_iri, lift, bind. cbn [vst ds_names ds_prefixes].
    destruct (decode_name_term_index name_id (ds_names st)) as [[n' nm]|]; [|reflexivity].
    destruct (decode_prefix_term_index prefix_id (ds_prefixes st)) as [[p' prefix]|]; reflexivity.
  - reflexivity.
Qed.

Theorem decode_rows_view (ak : adapter_kind) (po : poptions) (rows : list row) (st : dstate) :
  forallb row_rdf11 rows = true ->
  decode_rows Rdflib ak po rows (vst st) =
  let '(st', out, err) := decode_rows Generic ak po rows st in (vst st', map eview out, err).
Proof.
  revert st; induction rows as [|r rows IH]; intros st; cbn [forallb decode_rows]; [reflexivity|].
  intros H. apply andb_prop in H. destruct H as [Hr Hrest].
  rewrite (decode_row_view _ _ _ _ Hr). destruct (decode_row Generic ak po r st) as [[st' evs]|]; [|reflexivity].
  rewrite (IH _ Hrest). destruct (decode_rows Generic ak po rows st') as [[st'' out] err]. rewrite map_app. reflexivity.
Qed.

Definition fview (fr : frame_result) : frame_result := let '(md, evs, err) := fr in (md, map eview evs, err).

Theorem decode_frames_view (ak : adapter_kind) (po : poptions) (fs : list frame) (st : dstate) :
  forallb (fun f => forallb row_rdf11 (f_rows f)) fs = true ->
  decode_frames Rdflib ak po fs (vst st) = map fview (decode_frames Generic ak po fs st).
Proof.
  revert st; induction fs as [|f fs IH]; intros st; cbn [forallb decode_frames]; [reflexivity|].
  intros H. apply andb_prop in H. destruct H as [Hf Hrest].
  rewrite (decode_rows_view _ _ _ _ Hf). destruct (decode_rows Generic ak po (f_rows f) st) as [[st' out] err].
  cbn [map fview]. destruct err; [reflexivity|]. now rewrite IH.
Qed.

(* a state that remembers no term (a new decoder's) is its own view *)
Lemma vst_fresh st : ds_s st = None -> ds_p st = None -> ds_o st = None -> ds_g st = None -> ds_graph st = None -> vst st = st.
Proof. destruct st; cbn. intros -> -> -> -> ->. reflexivity. Qed.

(* terms rdflib can hold: its constructor leaves them as they are and accepts their language tag (every literal of an rdflib
   Graph is one: it was built by that constructor) *)
Definition term_rdflib (t : term) : bool :=
  match t with
  | TLit lex None dt => str_eqb (rdflib_lex dt lex) lex
  | TLit lex (Some l) None => is_nil l || valid_langtag l
  | TLit _ (Some _) (Some _) => false
  | _ => true
  end.

Lemma str_eqb_true (a : str) : forall b, str_eqb a b = true -> a = b.
Proof.
  induction a as [|x a IH]; intros [|y b]; cbn; intros H; try discriminate; [reflexivity|].
  apply andb_prop in H. destruct H as [H1 H2]. apply N.eqb_eq in H1. subst. f_equal. now apply IH.
Qed.

Lemma rview_fixed t : term_rdflib t = true -> rview t = t.
Proof.
  destruct t as [x|x|lex [l|] dt|s p o| |]; cbn; try reflexivity. intros H. apply str_eqb_true in H. now rewrite H.
Qed.

(* the two readers hand out the same where everything the generic reader hands out is a term rdflib can hold *)
Definition result_fixed (fr : frame_result) : Prop := Forall (fun e => eview e = e) (snd (fst fr)).

Lemma map_fixed {X} (f : X -> X) (l : list X) : Forall (fun x => f x = x) l -> map f l = l.
Proof. induction 1 as [|x l Hx _ IH]; cbn; [reflexivity|]. now rewrite Hx, IH. Qed.

Theorem decode_frames_agree (ak : adapter_kind) (po : poptions) (fs : list frame) (st : dstate) :
  forallb (fun f => forallb row_rdf11 (f_rows f)) fs = true -> vst st = st ->
  Forall result_fixed (decode_frames Generic ak po fs st) ->
  decode_frames Rdflib ak po fs st = decode_frames Generic ak po fs st.
Proof.
  intros Hf Hst Hfix. rewrite <- Hst at 1. rewrite (decode_frames_view ak po fs st Hf).
  apply map_fixed. induction Hfix as [|[[md evs] err] frs H _ IH]; constructor; [|exact IH].
  unfold result_fixed in H. cbn [fst snd] in H. cbn [fview]. now rewrite (map_fixed _ _ H).
Qed.

(* ... and NOT in general: a valid RDF 1.1 stream on which they differ (the literal "  a"^^xsd:token) *)
Definition token_stream : list frame :=
  [mkframe [RDatatype 1 xsd_token; RTriple (Some (WBnode [115])) (Some (WBnode [112])) (Some (WLit [32; 32; 97] (LkDt 1)))]].
Definition token_po : poptions :=
  {| po_phys := 1; po_logical := 1; po_maxn := 8; po_maxp := 0; po_maxd := 4; po_name := []; po_gen := false; po_star := false;
     po_version := 1; po_delimited := true; po_nd := false |}.

Theorem readers_differ_on_token_literals :
  exists st, decoder_new token_po = Ok st /\
    forallb (fun f => forallb row_rdf11 (f_rows f)) token_stream = true /\
    decode_frames Generic ATriples token_po token_stream st = [([], [ETriple (TBnode [115]) (TBnode [112]) (TLit [32; 32; 97] None (Some xsd_token))], None)] /\
    decode_frames Rdflib ATriples token_po token_stream st = [([], [ETriple (TBnode [115]) (TBnode [112]) (TLit [97] None (Some xsd_token))], None)].
Proof. eexists. split; [vm_compute; reflexivity|]. split; [vm_compute; reflexivity|]. split; vm_compute; reflexivity. Qed.

(* the serializers: API terms of RDF 1.1 (no quoted triples; the default graph is its own term) *)
Fixpoint term_rdf11 (t : term) : bool := match t with TTriple _ _ _ => false | _ => true end.

Theorem encode_spo_term_agree (tm : term) (t : tenc) :
  term_rdf11 tm = true -> encode_spo_term Generic tm t = encode_spo_term Rdflib tm t.
Proof. destruct tm; cbn; intros; try reflexivity; discriminate. Qed.

(* graph names: the generic DefaultGraph corresponds to rdflib's default-graph IRI *)
Definition graph_corr (g : term) : term :=
  match g with TDefault => TIri rdflib_default_graph | _ => g end.

Theorem encode_graph_term_agree (g : term) (t : tenc) :
  match g with
  | TDefault | TBnode _ => True
  | TIri i => str_eqb i rdflib_default_graph = false
  | _ => False
  end ->
  encode_graph_term Generic g t = encode_graph_term Rdflib (graph_corr g) t.
Proof.
  destruct g; cbn; intros H; try reflexivity; try contradiction.
  now rewrite H.
Qed.

Theorem encode_slot_agree (prev : option term) (tm : term) (t : tenc) :
  term_rdf11 tm = true -> encode_slot Generic prev tm t = encode_slot Rdflib prev tm t.
Proof. intros H. unfold encode_slot. destruct (differs prev tm); [|reflexivity]. now rewrite encode_spo_term_agree. Qed.

Theorem encode_triple_agree (terms : list term) (t : tenc) (rp : repeated) :
  forallb term_rdf11 terms = true -> encode_triple Generic terms t rp = encode_triple Rdflib terms t rp.
Proof.
  intros H. unfold encode_triple, bind, nth_term.
  destruct terms as [|s [|p [|o rest]]]; cbn [nth_error]; try reflexivity;
    cbn [forallb] in H; repeat (apply andb_prop in H; destruct H as [? H]).
  - now rewrite encode_slot_agree.
  - rewrite encode_slot_agree by assumption.
    destruct (encode_slot Rdflib (r_s rp) s (start_statement t)) as [[[[t1 r1] ws] ps]|]; [|reflexivity].
    now rewrite encode_slot_agree.
  - rewrite encode_slot_agree by assumption.
    destruct (encode_slot Rdflib (r_s rp) s (start_statement t)) as [[[[t1 r1] ws] ps]|]; [|reflexivity].
    rewrite encode_slot_agree by assumption.
    destruct (encode_slot Rdflib (r_p rp) p t1) as [[[[t2 r2] wp] pp]|]; [|reflexivity].
    now rewrite encode_slot_agree.
Qed.
