(* AgreeProofs.v -- C15 / C02: the two integrations are two copies that agree on RDF 1.1 data. *)
From Coq Require Import Arith Lia.
From PJ.Model Require Import Base Lookup Terms Wire Encoder Streams Decoder.
From PJ.Proofs Require Import TermInd.

(* wire terms without quoted triples *)
Fixpoint no_quoted (w : wterm) : bool := match w with WTriple _ _ _ => false | _ => true end.
Definition no_quoted_opt (o : option wterm) : bool := match o with Some w => no_quoted w | None => true end.

Lemma decode_term_agree (w : wterm) (st : dstate) :
  no_quoted w = true -> decode_term Generic w st = decode_term Rdflib w st.
Proof. destruct w; cbn; intros; try reflexivity; discriminate. Qed.

Lemma decode_slot_agree (w : option wterm) prev st :
  no_quoted_opt w = true -> decode_slot Generic w prev st = decode_slot Rdflib w prev st.
Proof. destruct w as [w|]; cbn; intros H; [now apply decode_term_agree|reflexivity]. Qed.

Definition row_rdf11 (r : row) : bool :=
  match r with
  | RTriple s p o => no_quoted_opt s && no_quoted_opt p && no_quoted_opt o
  | RQuad s p o g => no_quoted_opt s && no_quoted_opt p && no_quoted_opt o && no_quoted_opt g
  | RGraphStart g => no_quoted_opt g
  | _ => true
  end.

Lemma decode_spo_agree s p o st :
  no_quoted_opt s = true -> no_quoted_opt p = true -> no_quoted_opt o = true ->
  decode_spo Generic s p o st = decode_spo Rdflib s p o st.
Proof.
  intros Hs Hp Ho. unfold decode_spo, bind. rewrite (decode_slot_agree s _ _ Hs).
  destruct (decode_slot Rdflib s (ds_s st) st) as [[s1 ts]|]; [|reflexivity].
  rewrite (decode_slot_agree p _ _ Hp).
  destruct (decode_slot Rdflib p (ds_p st) s1) as [[s2 tp]|]; [|reflexivity].
  rewrite (decode_slot_agree o _ _ Ho). reflexivity.
Qed.

(* row by row, the generic and the rdflib decoder do the same on RDF 1.1 rows *)
Theorem decode_row_agree (ak : adapter_kind) (po : poptions) (r : row) (st : dstate) :
  row_rdf11 r = true -> decode_row Generic ak po r st = decode_row Rdflib ak po r st.
Proof.
  destruct r; cbn [row_rdf11 decode_row]; intros H; try reflexivity.
  - apply andb_prop in H. destruct H as [H Ho]. apply andb_prop in H. destruct H as [Hs Hp].
    now rewrite decode_spo_agree.
  - apply andb_prop in H. destruct H as [H Hg]. apply andb_prop in H. destruct H as [H Ho].
    apply andb_prop in H. destruct H as [Hs Hp]. rewrite decode_spo_agree by assumption.
    unfold bind. destruct (decode_spo Rdflib s p o st) as [[[[st1 ts] tp] to]|]; [|reflexivity].
    now rewrite decode_slot_agree.
  - destruct g as [w|]; [|reflexivity]. cbn in H. now rewrite decode_term_agree.
Qed.

Theorem decode_rows_agree (ak : adapter_kind) (po : poptions) (rows : list row) (st : dstate) :
  forallb row_rdf11 rows = true -> decode_rows Generic ak po rows st = decode_rows Rdflib ak po rows st.
Proof.
  revert st; induction rows as [|r rows IH]; intros st; cbn [forallb decode_rows]; [reflexivity|].
  intros H. apply andb_prop in H. destruct H as [Hr Hrest].
  rewrite (decode_row_agree _ _ _ _ Hr). destruct (decode_row Rdflib ak po r st) as [[st' evs]|]; [|reflexivity].
  now rewrite IH.
Qed.

Theorem decode_frames_agree (ak : adapter_kind) (po : poptions) (fs : list frame) (st : dstate) :
  forallb (fun f => forallb row_rdf11 (f_rows f)) fs = true ->
  decode_frames Generic ak po fs st = decode_frames Rdflib ak po fs st.
Proof.
  revert st; induction fs as [|f fs IH]; intros st; cbn [forallb decode_frames]; [reflexivity|].
  intros H. apply andb_prop in H. destruct H as [Hf Hrest].
  rewrite (decode_rows_agree _ _ _ _ Hf). destruct (decode_rows Rdflib ak po (f_rows f) st) as [[st' out] err].
  destruct err; [reflexivity|]. now rewrite IH.
Qed.

(* the serializers: API terms of RDF 1.1 (no quoted triples; the default graph is its own term) *)
Fixpoint term_rdf11 (t : term) : bool := match t with TTriple _ _ _ => false | _ => true end.

Theorem encode_spo_term_agree (tm : term) (t : tenc) :
  term_rdf11 tm = true -> encode_spo_term Generic tm t = encode_spo_term Rdflib tm t.
Proof. destruct tm; cbn; intros; try reflexivity; discriminate. Qed.

(* graph names: the generic DefaultGraph corresponds to rdflib's default-graph IRI *)
Definition graph_corr (g : term) : term :=
  match g with TDefault => TIri rdflib_default_graph | _ => g end.

Theorem encode_graph_term_agree (g : term) (t : tenc) :
  match g with
  | TDefault | TBnode _ => True
  | TIri i => str_eqb i rdflib_default_graph = false
  | _ => False
  end ->
  encode_graph_term Generic g t = encode_graph_term Rdflib (graph_corr g) t.
Proof.
  destruct g; cbn; intros H; try reflexivity; try contradiction.
  now rewrite H.
Qed.

Theorem encode_slot_agree (prev : option term) (tm : term) (t : tenc) :
  term_rdf11 tm = true -> encode_slot Generic prev tm t = encode_slot Rdflib prev tm t.
Proof. intros H. unfold encode_slot. destruct (differs prev tm); [|reflexivity]. now rewrite encode_spo_term_agree. Qed.

Theorem encode_triple_agree (terms : list term) (t : tenc) (rp : repeated) :
  forallb term_rdf11 terms = true -> encode_triple Generic terms t rp = encode_triple Rdflib terms t rp.
Proof.
  intros H. unfold encode_triple, bind, nth_term.
  destruct terms as [|s [|p [|o rest]]]; cbn [nth_error]; try reflexivity;
    cbn [forallb] in H; repeat (apply andb_prop in H; destruct H as [? H]).
  - now rewrite encode_slot_agree.
  - rewrite encode_slot_agree by assumption.
    destruct (encode_slot Rdflib (r_s rp) s (start_statement t)) as [[[[t1 r1] ws] ps]|]; [|reflexivity].
    now rewrite encode_slot_agree.
  - rewrite encode_slot_agree by assumption.
    destruct (encode_slot Rdflib (r_s rp) s (start_statement t)) as [[[[t1 r1] ws] ps]|]; [|reflexivity].
    rewrite encode_slot_agree by assumption.
    destruct (encode_slot Rdflib (r_p rp) p t1) as [[[[t2 r2] wp] pp]|]; [|reflexivity].
    now rewrite encode_slot_agree.
Qed.
