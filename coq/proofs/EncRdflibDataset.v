(* EncRdflibDataset.v -- C02: the rdflib TripleStream over a Dataset (graph by graph, a frame cut at
   each graph boundary when the flow is a GraphsFrameFlow) writes a valid stream denoting the triples
   of all graphs, in iteration order. *)
From Coq Require Import Arith Lia.
From PJ.Model Require Import Base Lookup Terms Encoder Streams Spec.
From PJ.Proofs Require Import Mirror MirrorRun DecoderSound EncLookup Den EncoderProofs FlowProofs AgreeProofs EncTerm EncStmt EncStream EncRdflib OptionsProofs.

(* triples_all_valid_rdflib, also returning the invariant at the end *)
Theorem triples_all_valid_rdflib_js (stmts : list (list term)) : forall (s s' : stream) (evs : list tev) (ss : sstate),
  st_integ s = Rdflib -> stmts_rdf11 stmts = true -> JS (st_enc s) (st_rep s) ss -> phys ss = 1 ->
  feed stream_triple stmts s = (s', evs, true) ->
  exists ss', steps (appended_all stream_triple appended_triple stmts s) ss = SOk (ss', flat_map event_of_triple stmts) /\
              JS (st_enc s') (st_rep s') ss' /\ phys ss' = 1 /\ st_integ s' = Rdflib.
Proof.
  induction stmts as [|st rest IH]; intros s s' evs ss Hig H11 HJ Hph; cbn [feed appended_all flat_map].
  - intros H; inversion H; subst. exists ss. auto.
  - cbn [stmts_rdf11 forallb] in H11. apply andb_prop in H11. destruct H11 as [Hst11 Hrest11].
    destruct (stream_triple st s) as [s1 [fr|e]] eqn:E; [|intros H; inversion H].
    destruct (feed stream_triple rest s1) as [[s2 evs2] ok2] eqn:E2. intros H; inversion H; subst.
    destruct (stream_triple_encode _ _ _ _ E) as [Henc Hig1]. rewrite Hig in Henc.
    rewrite <- (encode_triple_agree _ _ _ Hst11) in Henc.
    destruct (encode_triple_valid _ _ _ _ _ _ _ HJ Hph Henc) as (a & b & c & tl & ss1 & Hst & Hsteps & HJ1 & Ho & _).
    assert (Hph1 : phys ss1 = 1) by (unfold phys in *; congruence).
    destruct (IH _ _ _ ss1 (eq_trans Hig1 Hig) Hrest11 HJ1 Hph1 E2) as (ss2 & Hrest & HJ2 & Hph2 & Hig2).
    exists ss2. split; [rewrite steps_app, Hsteps, Hrest; subst st; reflexivity|auto].
Qed.

(* the rows appended while feeding graph after graph *)
Fixpoint rdf_graphs_rows (graphs : list (list (list term))) (s : stream) : list row :=
  match graphs with
  | [] => []
  | g :: rest =>
    match feed stream_triple g s with
    | (s1, _, true) =>
      appended_all stream_triple appended_triple g s ++
      rdf_graphs_rows rest (with_flow s1 (fst (frame_from_graph (st_flow s1))))
    | _ => []
    end
  end.

Lemma rdf_feed_conserves (graphs : list (list (list term))) : forall (s s' : stream) (evs : list tev),
  rdf_feed_triple_graphs graphs s = (s', evs, true) ->
  emitted_rows evs ++ fl_rows (st_flow s') = fl_rows (st_flow s) ++ rdf_graphs_rows graphs s.
Proof.
  induction graphs as [|g rest IH]; intros s s' evs; cbn [rdf_feed_triple_graphs rdf_graphs_rows].
  - intros H; inversion H; subst. cbn. now rewrite app_nil_r.
  - destruct (feed stream_triple g s) as [[s1 evs1] ok] eqn:E. destruct ok; [|intros H; inversion H].
    pose proof (frame_from_graph_conserves (st_flow s1)) as Hc.
    destruct (frame_from_graph (st_flow s1)) as [fl fr] eqn:Ef. cbn [fst snd] in *.
    destruct (rdf_feed_triple_graphs rest (with_flow s1 fl)) as [[s2 evs2] ok2] eqn:E2. intros H; inversion H; subst.
    pose proof (feed_conserves stream_triple appended_triple _ _ _ _ stream_triple_conserves E) as H1.
    specialize (IH _ _ _ E2). cbn [with_flow st_flow] in IH.
    rewrite !emitted_rows_app, emitted_rows_emit_opt. rewrite <- !app_assoc. rewrite IH.
    rewrite (app_assoc (rows_of_opt fr)). rewrite Hc. rewrite app_assoc, H1. now rewrite <- app_assoc.
Qed.

Lemma rdf_feed_not_ok (graphs : list (list (list term))) : forall s s' evs,
  rdf_feed_triple_graphs graphs s = (s', evs, false) -> raised evs <> None.
Proof.
  induction graphs as [|g rest IH]; intros s s' evs; cbn [rdf_feed_triple_graphs].
  - intros H; inversion H.
  - destruct (feed stream_triple g s) as [[s1 evs1] ok] eqn:E. destruct ok.
    + destruct (frame_from_graph (st_flow s1)) as [fl fr].
      destruct (rdf_feed_triple_graphs rest (with_flow s1 fl)) as [[s2 evs2] ok2] eqn:E2. intros H; inversion H; subst.
      rewrite !raised_app. destruct (raised evs1); [discriminate|]. rewrite raised_emit_opt. eapply IH; eauto.
    + intros H; inversion H; subst. eapply feed_not_ok_raises; eauto.
Qed.

Theorem rdf_graphs_all_valid (graphs : list (list (list term))) : forall (s s' : stream) (evs : list tev) (ss : sstate),
  st_integ s = Rdflib -> forallb stmts_rdf11 graphs = true -> JS (st_enc s) (st_rep s) ss -> phys ss = 1 ->
  rdf_feed_triple_graphs graphs s = (s', evs, true) ->
  exists ss', steps (rdf_graphs_rows graphs s) ss = SOk (ss', flat_map event_of_triple (concat graphs)).
Proof.
  induction graphs as [|g rest IH]; intros s s' evs ss Hig H11 HJ Hph; cbn [rdf_feed_triple_graphs rdf_graphs_rows concat flat_map].
  - intros _. exists ss. reflexivity.
  - cbn [forallb] in H11. apply andb_prop in H11. destruct H11 as [Hg Hrest].
    destruct (feed stream_triple g s) as [[s1 evs1] ok] eqn:E. destruct ok; [|intros H; inversion H].
    destruct (frame_from_graph (st_flow s1)) as [fl fr] eqn:Ef. cbn [fst].
    destruct (rdf_feed_triple_graphs rest (with_flow s1 fl)) as [[s2 evs2] ok2] eqn:E2. intros H; inversion H; subst.
    destruct (triples_all_valid_rdflib_js _ _ _ _ ss Hig Hg HJ Hph E) as (ss1 & S1 & J1 & Hph1 & Hig1).
    destruct (IH (with_flow s1 fl) _ _ ss1 Hig1 Hrest J1 Hph1 E2) as (ss2 & S2).
    exists ss2. rewrite steps_app, S1, S2. now rewrite flat_map_app.
Qed.

Theorem rdf_triples_dataset_stream_valid (o : soptions) (s s' : stream) (d : rdata) (evs : list tev) :
  stream_new TripleStream Rdflib o = Ok s -> cfg_ok o (st_logical s) ->
  p_nd (so_params o) = false -> fl_rows (st_flow s) = [] ->
  rd_kind d = RDataset -> forallb stmts_rdf11 (map snd (rd_graphs d)) = true ->
  rdf_triples_stream_frames d s = (s', evs) -> raised evs = None ->
  run (flat_map f_rows (emitted evs)) = Valid (flat_map event_of_triple (concat (map snd (rd_graphs d)))).
Proof.
  intros Hnew Hcfg Hnd Hfresh Hk H11 Hrun Hraise.
  destruct (start_of_stream_rdflib _ _ _ Hnew Hcfg) as (sg & Hg & He & Hr & Hf & Hl & Hop & Hrow & Hig).
  assert (Hcfg' : cfg_ok o (st_logical sg)) by (rewrite Hl; exact Hcfg).
  destruct (start_of_stream _ _ _ Hg Hcfg') as (w & ss0 & Hrow' & Hstart & HJ & Hph & _ & _ & _ & _ & _ & _ & Hver & Ho).
  assert (Hopts : st_opts (enroll s) = o).
  { unfold enroll. destruct (st_enrolled s); cbn; congruence. }
  assert (Henr : st_enrolled s = false).
  { unfold stream_new in Hnew. destruct (negb _); [discriminate|]. unfold bind in Hnew.
    destruct (match so_flow o with Some f => Ok f | None => infer_flow TripleStream o end); [|discriminate].
    destruct (negb _); [discriminate|]. inversion Hnew; reflexivity. }
  assert (Hflow : fl_rows (st_flow (enroll s)) = [ROptions w]).
  { unfold enroll. rewrite Henr. cbn. rewrite Hfresh. cbn. rewrite <- Hrow. f_equal. exact Hrow'. }
  assert (Hig' : st_integ (enroll s) = Rdflib) by (unfold enroll; rewrite Henr; cbn; exact Hig).
  assert (HJ' : JS (st_enc (enroll s)) (st_rep (enroll s)) ss0).
  { unfold enroll. rewrite Henr. cbn. rewrite <- He, <- Hr. exact HJ. }
  unfold rdf_triples_stream_frames, rdf_ns_phase in Hrun. rewrite Hopts, Hnd, Hk in Hrun.
  rewrite <- emitted_rows_is_concat.
  destruct (rdf_feed_triple_graphs (map snd (rd_graphs d)) (enroll s)) as [[s2 evs2] ok] eqn:Efeed. destruct ok.
  - pose proof (to_stream_frame_conserves (st_flow s2)) as Hc.
    destruct (to_stream_frame (st_flow s2)) as [fl fr] eqn:Et. inversion Hrun; subst s' evs; clear Hrun. cbn [fst snd] in Hc.
    pose proof (rdf_feed_conserves _ _ _ _ Efeed) as Hcons.
    destruct (rdf_graphs_all_valid _ _ _ _ ss0 Hig' H11 HJ' Hph Efeed) as [ss' Hsteps].
    assert (Hfl : fl_rows fl = []).
    { unfold to_stream_frame in Et. destruct (fl_rows (st_flow s2)) eqn:Er; inversion Et; subst; [exact Er|reflexivity]. }
    rewrite emitted_rows_app, emitted_rows_emit_opt.
    assert (Hall : emitted_rows evs2 ++ rows_of_opt fr = [ROptions w] ++ rdf_graphs_rows (map snd (rd_graphs d)) (enroll s)).
    { rewrite <- Hflow, <- Hcons. f_equal. rewrite <- Hc, Hfl. now rewrite app_nil_r. }
    rewrite Hall. cbn [app run]. rewrite Hstart. rewrite (steps_run_from _ 1 _ [] _ _ Hsteps). reflexivity.
  - inversion Hrun; subst. exfalso. eapply rdf_feed_not_ok; eauto.
Qed.
