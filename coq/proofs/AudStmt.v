(* AudStmt.v -- C19 at the level of one statement: every row of an encoded triple / quad / graph
   start / namespace declaration is clean, provided the API terms are in normal form (a literal typed
   xsd:string and the same plain literal are different API terms with the same wire form; mixing
   the two spellings is the one way to make the writer re-send an equal term). *)
From Coq Require Import Arith Lia.
From PJ.Model Require Import Base Lookup Terms Encoder Spec Audit.
From PJ.Proofs Require Import Mirror MirrorRun Recency DecoderSound EncLookup Den EncoderProofs EncTerm EncStmt AuditBase AudTerm.

Definition nrm (tm : term) : Prop := norm tm = tm.
Definition onrm (o : option term) : Prop := match o with Some x => nrm x | None => True end.
Definition rp_nrm (rp : repeated) : Prop :=
  onrm (Encoder.r_s rp) /\ onrm (Encoder.r_p rp) /\ onrm (Encoder.r_o rp) /\ onrm (Encoder.r_g rp).

(* ---- slots ---- *)
Lemma encode_slot_clean (prev : option term) (tm : term) (t t' : tenc) (rows : list row) (w : option wterm) (prev' : option term) (ss : sstate) (lg : option term) :
  J t ss -> encode_slot Generic prev tm t = Ok (t', rows, w, prev') ->
  exists ss1, Clean rows ss lg ss1 lg /\
    match w with Some w' => azero w' (pL t) (nL t) /\ differs prev tm = true /\ prev' = Some tm | None => prev' = prev end.
Proof.
  intros HJ. unfold encode_slot. destruct (differs prev tm) eqn:Ed.
  - unfold bind. destruct (encode_spo_term Generic tm t) as [[[t1 r1] w1]|e] eqn:E; [|discriminate].
    intros H; inversion H; subst. destruct (encode_spo_term_clean _ _ _ _ _ _ lg HJ E) as (ss1 & C & Z). exists ss1. auto.
  - intros H; inversion H; subst. exists ss. split; [apply Clean_nil|reflexivity].
Qed.

Lemma encode_gslot_clean (prev : option term) (tm : term) (t t' : tenc) (rows : list row) (w : option wterm) (prev' : option term) (ss : sstate) (lg : option term) :
  J t ss -> encode_gslot Generic prev tm t = Ok (t', rows, w, prev') ->
  exists ss1, Clean rows ss lg ss1 lg /\
    match w with Some w' => azero w' (pL t) (nL t) /\ differs prev tm = true /\ prev' = Some tm | None => prev' = prev end.
Proof.
  intros HJ. unfold encode_gslot. destruct (differs prev tm) eqn:Ed.
  - unfold bind. destruct (encode_graph_term Generic tm t) as [[[t1 r1] w1]|e] eqn:E; [|discriminate].
    intros H; inversion H; subst. destruct (encode_graph_term_clean _ _ _ _ _ _ lg HJ E) as (ss1 & C & Z). exists ss1. auto.
  - intros H; inversion H; subst. exists ss. split; [apply Clean_nil|reflexivity].
Qed.

(* the audit of one slot of the statement row: no missed zero, ids threaded like the writer's *)
Lemma slot_zero t0 t1 prev tm w prev' :
  slot_done t0 t1 prev tm w prev' ->
  match w with Some w' => azero w' (pL t0) (nL t0) | None => True end ->
  audit_slot w (pL t0) (nL t0) = (0, pL t1, nL t1).
Proof.
  intros [w' D W|Hp Ht] Hz.
  - cbn [audit_slot]. destruct (den_thread _ _ _ _ _ _ _ _ _ _ D) as [A B]. unfold azero in Hz. unfold Lt in *. cbn [fst snd] in *.
    unfold pL, nL in *. destruct (audit_wterm w' _ _) as [[z x] y]. cbn [fst snd] in *. congruence.
  - subst. reflexivity.
Qed.

Lemma gslot_zero t0 t1 prev tm w :
  match w with
  | Some w' => DenT t1 (Lt t0) w' (norm tm) (Lt t1) /\ wf_pos true w'
  | None => prev = Some tm /\ t1 = t0
  end ->
  match w with Some w' => azero w' (pL t0) (nL t0) | None => True end ->
  fst (fst (audit_slot w (pL t0) (nL t0))) = 0.
Proof.
  destruct w as [w'|]; [|reflexivity]. intros [D _] Hz. exact Hz.
Qed.

(* no missed elision: a term that was written differs from the previous one *)
Lemma missed_zero (w : option wterm) (prev : option term) (tm : term) :
  (match w with Some _ => differs prev tm = true | None => True end) -> onrm prev -> nrm tm ->
  missed w (norm tm) (onorm prev) = 0.
Proof.
  intros Hd Hp Ht. destruct w as [w'|]; [|reflexivity]. destruct prev as [p|]; [|reflexivity]. cbn [missed onorm].
  cbn in Hp. unfold nrm in *. rewrite Hp, Ht. unfold differs in Hd. apply Bool.negb_true_iff in Hd. now rewrite Hd.
Qed.

Lemma onrm_next (w : option wterm) (prev prev' : option term) (tm : term) (P : wterm -> Prop) :
  match w with Some w' => P w' /\ differs prev tm = true /\ prev' = Some tm | None => prev' = prev end ->
  onrm prev -> nrm tm -> onrm prev'.
Proof. destruct w; [intros (_ & _ & ->) _ H; exact H|intros -> H _; exact H]. Qed.

Lemma slot_facts (w : option wterm) (prev prev' : option term) (tm : term) (lp ln : N) :
  match w with Some w' => azero w' lp ln /\ differs prev tm = true /\ prev' = Some tm | None => prev' = prev end ->
  match w with Some w' => azero w' lp ln | None => True end /\
  match w with Some _ => differs prev tm = true | None => True end.
Proof. destruct w; [intros (A & B & _); auto|auto]. Qed.

(* ---- a triple (in a TRIPLES stream or inside a graph): [ss'] is where the referee ends up ---- *)
Theorem encode_triple_clean (terms : list term) (t t' : tenc) (rp rp' : repeated) (rows : list row)
    (ss ss' : sstate) (evs : list event) (lg : option term) :
  JS t rp ss -> Forall nrm terms -> rp_nrm rp ->
  encode_triple Generic terms t rp = Ok (t', rp', rows) ->
  steps rows ss = SOk (ss', evs) -> JS t' rp' ss' ->
  Clean rows ss lg ss' lg /\ rp_nrm rp'.
Proof.
  intros HJS Hn (Ns & Np & No & Ng). unfold encode_triple, bind, nth_term.
  destruct terms as [|s [|p [|o rest]]]; cbn [nth_error]; try discriminate.
  - destruct (encode_slot Generic (Encoder.r_s rp) s (start_statement t)) as [[[[? ?] ?] ?]|]; discriminate.
  - destruct (encode_slot Generic (Encoder.r_s rp) s (start_statement t)) as [[[[t1 ?] ?] ?]|]; [|discriminate].
    destruct (encode_slot Generic (Encoder.r_p rp) p t1) as [[[[? ?] ?] ?]|]; discriminate.
  - pose proof (JS_start _ _ _ HJS) as J0.
    inversion Hn as [|? ? Hns Hn1]; subst. inversion Hn1 as [|? ? Hnp Hn2]; subst. inversion Hn2 as [|? ? Hno _]; subst.
    destruct (encode_slot Generic (Encoder.r_s rp) s (start_statement t)) as [[[[t1 r1] ws] ps]|] eqn:Es; [|discriminate].
    destruct (encode_slot_valid _ _ _ _ _ _ _ _ J0 Es) as (s1 & S1 & J1 & N1 & St1 & D1 & P1).
    destruct (encode_slot_clean _ _ _ _ _ _ _ _ lg J0 Es) as (s1' & C1 & F1). pose proof (Clean_state _ _ _ _ _ _ _ C1 S1); subst s1'.
    destruct (encode_slot Generic (Encoder.r_p rp) p t1) as [[[[t2 r2] wp] pp]|] eqn:Ep; [|discriminate].
    destruct (encode_slot_valid _ _ _ _ _ _ _ _ J1 Ep) as (s2 & S2 & J2 & N2 & St2 & D2 & P2).
    destruct (encode_slot_clean _ _ _ _ _ _ _ _ lg J1 Ep) as (s2' & C2 & F2). pose proof (Clean_state _ _ _ _ _ _ _ C2 S2); subst s2'.
    destruct (encode_slot Generic (Encoder.r_o rp) o t2) as [[[[t3 r3] wo] po]|] eqn:Eo; [|discriminate].
    destruct (encode_slot_valid _ _ _ _ _ _ _ _ J2 Eo) as (s3 & S3 & J3 & N3 & St3 & D3 & P3).
    destruct (encode_slot_clean _ _ _ _ _ _ _ _ lg J2 Eo) as (s3' & C3 & F3). pose proof (Clean_state _ _ _ _ _ _ _ C3 S3); subst s3'.
    intros H; inversion H; subst t' rp' rows; clear H.
    intros Hsteps HJS'.
    rewrite steps_app, S1, steps_app, S2, steps_app, S3 in Hsteps. cbn [steps] in Hsteps.
    destruct (step (RTriple ws wp wo) s3) as [[sx ex]|] eqn:Estep; [|discriminate]. inversion Hsteps; subst sx; clear Hsteps.
    split.
    + eapply Clean_app; [exact C1|]. eapply Clean_app; [exact C2|]. eapply Clean_app; [exact C3|].
      assert (Hnext : next_lg (RTriple ws wp wo) ss' lg = lg) by reflexivity.
      rewrite <- Hnext at 2. eapply Clean_one; [exact Estep|].
      unfold row_counters. cbn [gs_counters fst]. rewrite cadd_zero_r.
      (* the state before the row *)
      assert (Nall : nontab_eq ss s3) by (eapply nontab_trans; [exact N1|]; eapply nontab_trans; eassumption).
      destruct HJS as [A B C HLp HLn Hps Hpp Hpo Hpg].
      unfold nontab_eq in Nall. destruct Nall as (NO & NP & NN & NS & NPp & NPo & NG & NOp).
      destruct (slot_facts _ _ _ _ _ _ F1) as [Z1 E1]. destruct (slot_facts _ _ _ _ _ _ F2) as [Z2 E2]. destruct (slot_facts _ _ _ _ _ _ F3) as [Z3 E3].
      cbn [audit_row].
      replace (s_last_pid s3) with (pL (start_statement t)) by (unfold pL; cbn; congruence).
      replace (s_last_nid s3) with (nL (start_statement t)) by (unfold nL; cbn; congruence).
      rewrite (slot_zero _ _ _ _ _ _ D1 Z1), (slot_zero _ _ _ _ _ _ D2 Z2), (slot_zero _ _ _ _ _ _ D3 Z3).
      destruct HJS' as [_ _ _ _ _ Hps' Hpp' Hpo' _]. cbn in Hps', Hpp', Hpo'.
      rewrite Hps', Hpp', Hpo', P1, P2, P3. rewrite NS, NPp, NPo, Hps, Hpp, Hpo.
      rewrite (missed_zero _ _ _ E1 Ns Hns), (missed_zero _ _ _ E2 Np Hnp), (missed_zero _ _ _ E3 No Hno).
      repeat split.
    + unfold rp_nrm; cbn [Encoder.r_s Encoder.r_p Encoder.r_o Encoder.r_g].
      split; [exact (onrm_next _ _ _ _ (fun w' => azero w' _ _) F1 Ns Hns)|]. split; [exact (onrm_next _ _ _ _ (fun w' => azero w' _ _) F2 Np Hnp)|]. split; [exact (onrm_next _ _ _ _ (fun w' => azero w' _ _) F3 No Hno)|exact Ng].
Qed.

(* ---- a quad ---- *)
Theorem encode_quad_clean (terms : list term) (t t' : tenc) (rp rp' : repeated) (rows : list row)
    (ss ss' : sstate) (evs : list event) (lg : option term) :
  JS t rp ss -> Forall nrm terms -> rp_nrm rp ->
  encode_quad Generic terms t rp = Ok (t', rp', rows) ->
  steps rows ss = SOk (ss', evs) -> JS t' rp' ss' ->
  Clean rows ss lg ss' lg /\ rp_nrm rp'.
Proof.
  intros HJS Hn (Ns & Np & No & Ng). unfold encode_quad, bind, nth_term.
  destruct terms as [|s [|p [|o [|g rest]]]]; cbn [nth_error]; try discriminate.
  - destruct (encode_slot Generic (Encoder.r_s rp) s (start_statement t)) as [[[[? ?] ?] ?]|]; discriminate.
  - destruct (encode_slot Generic (Encoder.r_s rp) s (start_statement t)) as [[[[t1 ?] ?] ?]|]; [|discriminate].
    destruct (encode_slot Generic (Encoder.r_p rp) p t1) as [[[[? ?] ?] ?]|]; discriminate.
  - destruct (encode_slot Generic (Encoder.r_s rp) s (start_statement t)) as [[[[t1 ?] ?] ?]|]; [|discriminate].
    destruct (encode_slot Generic (Encoder.r_p rp) p t1) as [[[[t2 ?] ?] ?]|]; [|discriminate].
    destruct (encode_slot Generic (Encoder.r_o rp) o t2) as [[[[? ?] ?] ?]|]; discriminate.
  - pose proof (JS_start _ _ _ HJS) as J0.
    inversion Hn as [|? ? Hns Hn1]; subst. inversion Hn1 as [|? ? Hnp Hn2]; subst. inversion Hn2 as [|? ? Hno Hn3]; subst.
    inversion Hn3 as [|? ? Hng _]; subst.
    destruct (encode_slot Generic (Encoder.r_s rp) s (start_statement t)) as [[[[t1 r1] ws] ps]|] eqn:Es; [|discriminate].
    destruct (encode_slot_valid _ _ _ _ _ _ _ _ J0 Es) as (s1 & S1 & J1 & N1 & St1 & D1 & P1).
    destruct (encode_slot_clean _ _ _ _ _ _ _ _ lg J0 Es) as (s1' & C1 & F1). pose proof (Clean_state _ _ _ _ _ _ _ C1 S1); subst s1'.
    destruct (encode_slot Generic (Encoder.r_p rp) p t1) as [[[[t2 r2] wp] pp]|] eqn:Ep; [|discriminate].
    destruct (encode_slot_valid _ _ _ _ _ _ _ _ J1 Ep) as (s2 & S2 & J2 & N2 & St2 & D2 & P2).
    destruct (encode_slot_clean _ _ _ _ _ _ _ _ lg J1 Ep) as (s2' & C2 & F2). pose proof (Clean_state _ _ _ _ _ _ _ C2 S2); subst s2'.
    destruct (encode_slot Generic (Encoder.r_o rp) o t2) as [[[[t3 r3] wo] po]|] eqn:Eo; [|discriminate].
    destruct (encode_slot_valid _ _ _ _ _ _ _ _ J2 Eo) as (s3 & S3 & J3 & N3 & St3 & D3 & P3).
    destruct (encode_slot_clean _ _ _ _ _ _ _ _ lg J2 Eo) as (s3' & C3 & F3). pose proof (Clean_state _ _ _ _ _ _ _ C3 S3); subst s3'.
    destruct (encode_gslot Generic (Encoder.r_g rp) g t3) as [[[[t4 r4] wg] pg]|] eqn:Eg; [|discriminate].
    destruct (encode_gslot_valid _ _ _ _ _ _ _ _ J3 Eg) as (s4 & S4 & J4 & N4 & St4 & D4 & P4).
    destruct (encode_gslot_clean _ _ _ _ _ _ _ _ lg J3 Eg) as (s4' & C4 & F4). pose proof (Clean_state _ _ _ _ _ _ _ C4 S4); subst s4'.
    intros H; inversion H; subst t' rp' rows; clear H.
    intros Hsteps HJS'.
    rewrite steps_app, S1, steps_app, S2, steps_app, S3, steps_app, S4 in Hsteps. cbn [steps] in Hsteps.
    destruct (step (RQuad ws wp wo wg) s4) as [[sx ex]|] eqn:Estep; [|discriminate]. inversion Hsteps; subst sx; clear Hsteps.
    split.
    + eapply Clean_app; [exact C1|]. eapply Clean_app; [exact C2|]. eapply Clean_app; [exact C3|]. eapply Clean_app; [exact C4|].
      assert (Hnext : next_lg (RQuad ws wp wo wg) ss' lg = lg) by reflexivity.
      rewrite <- Hnext at 2. eapply Clean_one; [exact Estep|].
      unfold row_counters. cbn [gs_counters fst]. rewrite cadd_zero_r.
      assert (Nall : nontab_eq ss s4).
      { eapply nontab_trans; [exact N1|]. eapply nontab_trans; [exact N2|]. eapply nontab_trans; eassumption. }
      destruct HJS as [A B C HLp HLn Hps Hpp Hpo Hpg].
      unfold nontab_eq in Nall. destruct Nall as (NO & NP & NN & NS & NPp & NPo & NG & NOp).
      destruct (slot_facts _ _ _ _ _ _ F1) as [Z1 E1]. destruct (slot_facts _ _ _ _ _ _ F2) as [Z2 E2]. destruct (slot_facts _ _ _ _ _ _ F3) as [Z3 E3].
      destruct (slot_facts _ _ _ _ _ _ F4) as [Z4 E4].
      cbn [audit_row].
      replace (s_last_pid s4) with (pL (start_statement t)) by (unfold pL; cbn; congruence).
      replace (s_last_nid s4) with (nL (start_statement t)) by (unfold nL; cbn; congruence).
      rewrite (slot_zero _ _ _ _ _ _ D1 Z1), (slot_zero _ _ _ _ _ _ D2 Z2), (slot_zero _ _ _ _ _ _ D3 Z3).
      pose proof (gslot_zero _ _ _ _ _ D4 Z4) as Zg.
      destruct (audit_slot wg (pL t3) (nL t3)) as [[z4 x4] y4]. cbn [fst] in Zg. subst z4.
      destruct HJS' as [_ _ _ _ _ Hps' Hpp' Hpo' Hpg']. cbn in Hps', Hpp', Hpo', Hpg'.
      rewrite Hps', Hpp', Hpo', Hpg', P1, P2, P3, P4. rewrite NS, NPp, NPo, NG, Hps, Hpp, Hpo, Hpg.
      rewrite (missed_zero _ _ _ E1 Ns Hns), (missed_zero _ _ _ E2 Np Hnp), (missed_zero _ _ _ E3 No Hno), (missed_zero _ _ _ E4 Ng Hng).
      repeat split.
    + unfold rp_nrm; cbn [Encoder.r_s Encoder.r_p Encoder.r_o Encoder.r_g].
      split; [exact (onrm_next _ _ _ _ (fun w' => azero w' _ _) F1 Ns Hns)|]. split; [exact (onrm_next _ _ _ _ (fun w' => azero w' _ _) F2 Np Hnp)|].
      split; [exact (onrm_next _ _ _ _ (fun w' => azero w' _ _) F3 No Hno)|exact (onrm_next _ _ _ _ (fun w' => azero w' _ _) F4 Ng Hng)].
Qed.

(* ---- a namespace declaration ---- *)
Theorem encode_namespace_clean (name iri : str) (t t' : tenc) (rp : repeated) (rows : list row)
    (ss ss' : sstate) (evs : list event) (lg : option term) :
  JS t rp ss -> encode_namespace_declaration name iri t = Ok (t', rows) ->
  steps rows ss = SOk (ss', evs) -> Clean rows ss lg ss' lg.
Proof.
  intros HJS. unfold encode_namespace_declaration, bind.
  pose proof (JS_start _ _ _ HJS) as J0.
  destruct (encode_iri iri (start_statement t)) as [[[[t1 r1] p] n]|] eqn:E; [|discriminate].
  intros H; inversion H; subst t' rows; clear H. intros Hsteps.
  destruct (encode_iri_valid _ _ _ _ _ _ _ J0 E) as (s1 & S1 & J1 & N1 & _).
  destruct (encode_iri_clean _ _ _ _ _ _ _ lg J0 E) as (s1' & C1). pose proof (Clean_state _ _ _ _ _ _ _ C1 S1); subst s1'.
  rewrite steps_app, S1 in Hsteps. cbn [steps] in Hsteps.
  destruct (step (RNamespace name p n) s1) as [[sx ex]|] eqn:Estep; [|discriminate]. inversion Hsteps; subst sx; clear Hsteps.
  eapply Clean_app; [exact C1|].
  assert (Hnext : next_lg (RNamespace name p n) ss' lg = lg) by reflexivity.
  rewrite <- Hnext at 2. eapply Clean_one; [exact Estep|].
  unfold row_counters. cbn [gs_counters fst]. rewrite cadd_zero_r.
  destruct HJS as [A B C HLp HLn _ _ _ _]. unfold nontab_eq in N1. destruct N1 as (_ & NP & NN & _).
  pose proof (azero_iri _ _ _ _ (encode_iri_zero _ _ _ _ _ _ E)) as Z. unfold azero in Z.
  cbn [start_statement t_prefixes t_names] in Z.
  unfold audit_row. rewrite NP, NN, HLp, HLn.
  destruct (audit_wterm (WIri p n) (e_last_reused (t_prefixes t)) (e_last_reused (t_names t))) as [[z x] y]. cbn [fst] in Z. subst z.
  repeat split.
Qed.

(* ---- a graph start ---- *)
Theorem encode_graph_start_clean (g : term) (t t' : tenc) (rp : repeated) (rows : list row)
    (ss ss' : sstate) (evs : list event) (lg : option term) (g' : term) :
  JS t rp ss -> encode_graph_start Generic g t = Ok (t', rows) ->
  steps rows ss = SOk (ss', evs) -> s_open ss' = Some g' ->
  match lg with Some g0 => term_eqb g' g0 = false | None => True end ->
  Clean rows ss lg ss' (Some g').
Proof.
  intros HJS. unfold encode_graph_start, bind.
  pose proof (JS_start _ _ _ HJS) as J0.
  destruct (encode_graph_term Generic g (start_statement t)) as [[[t1 r1] w]|] eqn:E; [|discriminate].
  intros H; inversion H; subst t' rows; clear H. intros Hsteps Hopen Hlg.
  destruct (encode_graph_term_valid _ _ _ _ _ _ J0 E) as (s1 & S1 & J1 & N1 & _).
  destruct (encode_graph_term_clean _ _ _ _ _ _ lg J0 E) as (s1' & C1 & Z). pose proof (Clean_state _ _ _ _ _ _ _ C1 S1); subst s1'.
  rewrite steps_app, S1 in Hsteps. cbn [steps] in Hsteps.
  destruct (step (RGraphStart (Some w)) s1) as [[sx ex]|] eqn:Estep; [|discriminate]. inversion Hsteps; subst sx; clear Hsteps.
  eapply Clean_app; [exact C1|].
  assert (Hnext : next_lg (RGraphStart (Some w)) ss' lg = Some g').
  { unfold next_lg, gs_counters. rewrite Hopen. destruct lg; reflexivity. }
  rewrite <- Hnext. eapply Clean_one; [exact Estep|].
  unfold row_counters, gs_counters. rewrite Hopen.
  destruct HJS as [A B C HLp HLn _ _ _ _]. unfold nontab_eq in N1. destruct N1 as (_ & NP & NN & _).
  unfold azero in Z. unfold pL, nL in Z. cbn [start_statement t_prefixes t_names] in Z.
  assert (Hrow : clean (audit_row (RGraphStart (Some w)) s1 ss')).
  { unfold audit_row, audit_slot. rewrite NP, NN, HLp, HLn.
    destruct (audit_wterm w (e_last_reused (t_prefixes t)) (e_last_reused (t_names t))) as [[z x] y]. cbn [fst] in Z. subst z. repeat split. }
  destruct lg as [g0|]; cbn [fst].
  - apply clean_cadd; [exact Hrow|]. rewrite Hlg. repeat split.
  - rewrite cadd_zero_r. exact Hrow.
Qed.

Lemma graph_end_clean ss ss' ev lg : step RGraphEnd ss = SOk (ss', ev) -> Clean [RGraphEnd] ss lg ss' lg.
Proof.
  intros H. assert (Hnext : next_lg RGraphEnd ss' lg = lg) by reflexivity.
  rewrite <- Hnext at 2. eapply Clean_one; [exact H|]. unfold row_counters. cbn. repeat split.
Qed.
