(* Recency.v -- the LRU recency argument behind C18/C03: within one statement the keys already
   touched form a suffix of the writer's table (most recent last), so an eviction -- which removes
   the head of a full table -- can hit a touched key only if every entry of the table is touched,
   and then the per-statement guard has already refused the new key.  Hence: a key touched in a
   statement keeps its index until the statement ends. *)
From Coq Require Import Arith Lia Permutation.
From PJ.Model Require Import Base Lookup.
From PJ.Proofs Require Import Mirror.

Section Recency.
Context {K : Type} (eqb : K -> K -> bool).
Context (eqb_spec : forall a b, reflect (a = b) (eqb a b)).

Notation find := (find eqb).
Notation remove := (remove eqb).

(* ---- find on appended / removed lists ---- *)
Lemma find_app k (a b : list (K * N)) :
  find k (a ++ b) = match find k a with Some i => Some i | None => find k b end.
Proof.
  induction a as [|[k' i'] a IH]; cbn; [reflexivity|]. destruct (eqb k k'); [reflexivity|exact IH].
Qed.

Lemma find_remove_other k k' (d : list (K * N)) : k <> k' -> find k (remove k' d) = find k d.
Proof.
  intros Hne. induction d as [|[k0 i0] d IH]; cbn; [reflexivity|].
  destruct (eqb_spec k' k0) as [->|Hn0]; cbn.
  - destruct (eqb_spec k k0); [contradiction|reflexivity].
  - destruct (eqb k k0); [reflexivity|exact IH].
Qed.

Lemma find_remove_same k (d : list (K * N)) : NoDup (keys d) -> find k (remove k d) = None.
Proof.
  induction d as [|[k0 i0] d IH]; cbn; [reflexivity|]. intros Hnd. inversion Hnd as [|? ? Hnotin Hnd']; subst.
  destruct (eqb_spec k k0) as [->|Hne].
  - destruct (find k0 d) eqn:E; [|reflexivity]. exfalso. apply Hnotin.
    apply (find_In eqb eqb_spec) in E. change k0 with (fst (k0, n)). now apply in_map.
  - cbn. destruct (eqb_spec k k0); [contradiction|]. now apply IH.
Qed.

Lemma find_some_in_keys k (d : list (K * N)) i : find k d = Some i -> In k (keys d).
Proof. intros H. apply (find_In eqb eqb_spec) in H. change k with (fst (k, i)). now apply in_map. Qed.

Lemma in_keys_find k (d : list (K * N)) : In k (keys d) -> exists i, find k d = Some i.
Proof.
  induction d as [|[k0 i0] d IH]; cbn; [tauto|]. intros [->|H].
  - destruct (eqb_spec k k); [eauto|congruence].
  - destruct (eqb k k0); [eauto|auto].
Qed.

(* move_to_end keeps every key's index *)
Lemma move_to_end_find k (l l' : @lookup K) :
  NoDup (keys (l_data l)) -> move_to_end eqb k l = Some l' ->
  forall k', find k' (l_data l') = find k' (l_data l).
Proof.
  intros Hnd. unfold move_to_end. destruct (find k (l_data l)) as [i|] eqn:E; [|discriminate].
  intros H; inversion H; subst; cbn. intros k'. rewrite find_app. cbn.
  destruct (eqb_spec k' k) as [->|Hne].
  - rewrite (find_remove_same k _ Hnd). now rewrite E.
  - rewrite (find_remove_other k' k _ Hne). destruct (find k' (l_data l)); reflexivity.
Qed.

(* ---- the touched-suffix invariant ---- *)
Definition Touched (l : @lookup K) (touched : list K) : Prop :=
  exists pre suf, l_data l = pre ++ suf /\ (forall k, In k touched <-> In k (keys suf)).

Lemma touched_nil l : Touched l [].
Proof. exists (l_data l), []. rewrite app_nil_r. split; [reflexivity|]. cbn. tauto. Qed.

Lemma keys_app (a b : list (K * N)) : keys (a ++ b) = keys a ++ keys b.
Proof. unfold keys. apply map_app. Qed.

Lemma remove_app_notin k (a b : list (K * N)) : ~ In k (keys a) -> remove k (a ++ b) = a ++ remove k b.
Proof.
  induction a as [|[k0 i0] a IH]; cbn; [reflexivity|]. intros Hn.
  destruct (eqb_spec k k0) as [->|Hne]; [exfalso; apply Hn; now left|]. f_equal. apply IH. tauto.
Qed.

Lemma remove_app_in k (a b : list (K * N)) : In k (keys a) -> remove k (a ++ b) = remove k a ++ b.
Proof.
  induction a as [|[k0 i0] a IH]; cbn; [tauto|]. intros [->|H].
  - destruct (eqb_spec k k); [reflexivity|congruence].
  - destruct (eqb_spec k k0); [reflexivity|]. cbn. f_equal. now apply IH.
Qed.

Lemma keys_remove_in k k' (d : list (K * N)) : In k' (keys (remove k d)) -> In k' (keys d).
Proof.
  induction d as [|[k0 i0] d IH]; cbn; [tauto|]. destruct (eqb k k0); cbn; [tauto|]. intros [H|H]; auto.
Qed.

Lemma keys_remove_other k k' (d : list (K * N)) : k' <> k -> In k' (keys d) -> In k' (keys (remove k d)).
Proof.
  intros Hne. induction d as [|[k0 i0] d IH]; cbn; [tauto|].
  destruct (eqb_spec k k0) as [->|Hn0]; cbn; intros [H|H]; auto; congruence.
Qed.

Lemma keys_remove_notself k (d : list (K * N)) : NoDup (keys d) -> ~ In k (keys (remove k d)).
Proof.
  intros Hnd Hin. apply in_keys_find in Hin. destruct Hin as [i Hi]. rewrite (find_remove_same k d Hnd) in Hi. discriminate.
Qed.

(* a hit (or a term-index use) of key k: k joins the touched suffix *)
Lemma touched_move k (l l' : @lookup K) (touched : list K) :
  NoDup (keys (l_data l)) -> Touched l touched -> move_to_end eqb k l = Some l' ->
  Touched l' (if existsb (eqb k) touched then touched else k :: touched).
Proof.
  intros Hnd (pre & suf & Hd & Ht). unfold move_to_end.
  destruct (find k (l_data l)) as [i|] eqn:E; [|discriminate]. intros H; inversion H; subst; cbn.
  assert (Hin : In k (keys (l_data l))) by (eapply find_some_in_keys; eauto).
  rewrite Hd in *. rewrite keys_app in Hin, Hnd. apply in_app_or in Hin.
  assert (Hex : existsb (eqb k) touched = true <-> In k touched).
  { rewrite existsb_exists. split.
    - intros [x [Hx Hk]]. destruct (eqb_spec k x); [subst; assumption|discriminate].
    - intros Hk. exists k. split; [assumption|]. destruct (eqb_spec k k); congruence. }
  destruct (in_dec (fun a b => match eqb_spec a b with ReflectT _ p => left p | ReflectF _ p => right p end) k (keys suf)) as [Hs|Hs].
  - (* k already in the suffix: it moves to the very end *)
    assert (Hnp : ~ In k (keys pre)).
    { intro Hp. revert Hnd Hp Hs. clear. induction pre as [|[k0 i0] pre IH]; cbn; [tauto|]. intros Hnd [->|Hp] Hs.
      - inversion Hnd as [|? ? Hn ?]; subst. apply Hn. apply in_or_app. now right.
      - inversion Hnd; subst. eapply IH; eauto. }
    exists pre, (remove k suf ++ [(k, i)]). split.
    + rewrite remove_app_notin by assumption. now rewrite app_assoc.
    + assert (Hkt : In k touched) by (apply Ht; assumption).
      replace (existsb (eqb k) touched) with true by (symmetry; apply Hex; assumption).
      intros k'. rewrite keys_app. cbn. rewrite in_app_iff. rewrite Ht. split.
      * intros Hk'. destruct (eqb_spec k' k) as [->|Hne]; [right; now left|left; now apply keys_remove_other].
      * intros [Hk'|[<-|[]]]; [eapply keys_remove_in; eauto|assumption].
  - (* k was in the untouched part *)
    destruct Hin as [Hp|Hp]; [|contradiction].
    exists (remove k pre), (suf ++ [(k, i)]). split.
    + rewrite remove_app_in by assumption. now rewrite <- app_assoc.
    + assert (Hnt : ~ In k touched) by (rewrite Ht; assumption).
      replace (existsb (eqb k) touched) with false by (symmetry; apply not_true_is_false; rewrite Hex; assumption).
      intros k'. rewrite keys_app. cbn. rewrite in_app_iff, <- Ht. cbn [In]. tauto.
Qed.

(* a miss that does not evict: k is appended *)
Lemma touched_insert_fill k (l l' : @lookup K) i (touched : list K) :
  Touched l touched -> l_evicting l = false -> insert k l = Some (l', i) ->
  Touched l' (k :: touched) /\ forall k', k' <> k -> find k' (l_data l') = find k' (l_data l).
Proof.
  intros (pre & suf & Hd & Ht) Hev. unfold insert. destruct (l_max l =? 0); [discriminate|]. rewrite Hev.
  intros H; inversion H; subst; cbn. split.
  - exists pre, (suf ++ [(k, N.of_nat (length (l_data l)) + 1)]). split; [rewrite Hd; now rewrite <- app_assoc|].
    intros k'. rewrite keys_app. cbn. rewrite in_app_iff, <- Ht. cbn [In]. tauto.
  - intros k' Hne. rewrite find_app. cbn. destruct (eqb_spec k' k); [contradiction|]. destruct (find k' (l_data l)); reflexivity.
Qed.

(* a miss that evicts: the head goes, k takes its index *)
Lemma touched_insert_evict k (l l' : @lookup K) i (touched : list K) :
  NoDup (keys (l_data l)) -> Touched l touched -> l_evicting l = true ->
  (* the guard: the untouched part is not empty *)
  (exists k0 i0 rest, l_data l = (k0, i0) :: rest /\ ~ In k0 touched) ->
  insert k l = Some (l', i) ->
  Touched l' (k :: touched) /\ forall k', In k' touched -> find k' (l_data l') = find k' (l_data l).
Proof.
  intros Hnd (pre & suf & Hd & Ht) Hev (k0 & i0 & rest & Hhead & Hk0) . unfold insert.
  destruct (l_max l =? 0); [discriminate|]. rewrite Hev, Hhead. intros H; inversion H; subst; cbn.
  (* the head belongs to pre *)
  destruct pre as [|[kp ip] pre].
  { exfalso. cbn in Hd. apply Hk0. apply Ht. rewrite <- Hd, Hhead. cbn. now left. }
  cbn in Hd. rewrite Hhead in Hd. inversion Hd; subst kp ip rest. split.
  - exists pre, (suf ++ [(k, i)]). split; [now rewrite <- app_assoc|].
    intros k'. rewrite keys_app. cbn. rewrite in_app_iff, <- Ht. cbn [In]. tauto.
  - intros k' Hk'. cbn.
    destruct (eqb_spec k' k0) as [->|Hne]; [contradiction|].
    rewrite find_app. cbn. destruct (find k' (pre ++ suf)) eqn:E; [reflexivity|].
    (* k' is touched, hence in suf, hence found *)
    exfalso. apply Ht in Hk'. apply in_keys_find in Hk'. destruct Hk' as [j Hj].
    rewrite find_app in E. destruct (find k' pre); [discriminate|]. congruence.
Qed.

End Recency.
