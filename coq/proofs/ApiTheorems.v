(* ApiTheorems.v -- the round trip stated about the very functions the driver runs and the
   correspondence check compares with pyjelly: Api.api_encode (SerializerOptions + data -> frames)
   and Api.api_parse (bytes -> events). *)
From Coq Require Import Arith Lia.
From PJ.Model Require Import Base Lookup Terms Wire Encoder Streams Decoder Spec Api.
From PJ.Proofs Require Import FrameShape WireProofs WireRT BytesE2E EncStream EncGraphs EncNamespace EncNamespace2 BytesRoundTrip.

Definition events_of (c : stream_class) (d : sdata) : list event :=
  match c with
  | TripleStream => flat_map event_of_triple (d_stmts d)
  | _ => flat_map event_of_quad (d_stmts d)
  end.

Theorem api_round_trip (c : stream_class) (o : soptions) (d : sdata) (s' : stream) (evs : list tev) (grouped : bool) :
  api_encode c Generic o d = Ok (s', evs) -> raised evs = None ->
  (forall s, stream_new c Generic o = Ok s -> cfg_ok o (st_logical s) /\ fl_rows (st_flow s) = []) ->
  (c = GraphStream -> forallb wf_quad (d_stmts d) = true) ->
  Forall small (emitted evs) ->
  let r := api_parse Generic grouped false (write_delimited (emitted evs)) in
  flat_events r = ns_events o d ++ events_of c d /\ pr_end r = PEnd.
Proof.
  unfold api_encode, api_parse, bind. destruct (stream_new c Generic o) as [s|] eqn:Hnew; [|discriminate].
  intros H Hraise Hcfg Hwf Hsmall. inversion H as [Hrun]; clear H.
  destruct (Hcfg s eq_refl) as [Hc Hfresh].
  assert (Hcls : st_class s = c).
  { unfold stream_new in Hnew. destruct (negb _); [discriminate|]. unfold bind in Hnew.
    destruct (match so_flow o with Some f => Ok f | None => infer_flow c o end); [|discriminate].
    destruct (negb _); [discriminate|]. inversion Hnew; reflexivity. }
  unfold stream_frames in Hrun. rewrite Hcls in Hrun. destruct c; cbn [events_of].
  - exact (triples_bytes_round_trip_ns o s s' d evs grouped Hnew Hc Hfresh Hrun Hraise Hsmall).
  - exact (quads_bytes_round_trip_ns o s s' d evs grouped Hnew Hc Hfresh Hrun Hraise Hsmall).
  - exact (graphs_bytes_round_trip_ns o s s' d evs grouped Hnew Hc Hfresh (Hwf eq_refl) Hrun Hraise Hsmall).
Qed.

(* the configuration premise in terms of the options alone, for inferred flows *)
Lemma inferred_flow_fresh (c : stream_class) (o : soptions) (s : stream) :
  so_flow o = None -> stream_new c Generic o = Ok s -> fl_rows (st_flow s) = [].
Proof.
  intros Hf. unfold stream_new. destruct (negb _); [discriminate|]. unfold bind. rewrite Hf.
  destruct (infer_flow c o) as [fl|] eqn:E; [|discriminate]. destruct (negb _); [discriminate|]. intros H; inversion H; subst; cbn.
  unfold infer_flow in E. destruct (p_delimited (so_params o)).
  - unfold bind in E. destruct (if so_logical o =? 0 then _ else _) as [k|]; [|discriminate].
    destruct (is_bounded k); inversion E; reflexivity.
  - inversion E; reflexivity.
Qed.

(* since LookupPreset enforces the table limit, the table part of [cfg_ok] follows from the stream
   having been created: what remains to assume is a logical type the reader knows and an empty flow *)
From PJ.Proofs Require Import OptionsProofs.
Theorem api_round_trip_created (c : stream_class) (o : soptions) (d : sdata) (s' : stream) (evs : list tev) (grouped : bool) :
  api_encode c Generic o d = Ok (s', evs) -> raised evs = None ->
  (forall s, stream_new c Generic o = Ok s -> known_logical (st_logical s) = true /\ fl_rows (st_flow s) = []) ->
  (c = GraphStream -> forallb wf_quad (d_stmts d) = true) ->
  Forall small (emitted evs) ->
  let r := api_parse Generic grouped false (write_delimited (emitted evs)) in
  flat_events r = ns_events o d ++ events_of c d /\ pr_end r = PEnd.
Proof.
  intros Henc Hraise Hcfg Hwf Hsmall. apply (api_round_trip c o d s' evs grouped Henc Hraise); [|exact Hwf|exact Hsmall].
  intros s Hnew. destruct (Hcfg s Hnew) as [Hk Hf]. destruct (stream_new_tables_ok _ _ _ _ Hnew) as (A & B & C).
  split; [|exact Hf]. unfold cfg_ok. auto.
Qed.
