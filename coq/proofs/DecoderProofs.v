(* DecoderProofs.v -- structural facts about the parser model: what is yielded depends only on the
   row sequence (C07), on the frames already delivered (C10, C11), is bounded by the input (C17);
   rows the physical type or the rules forbid are rejected whatever the state (C16). *)
From Coq Require Import Arith Lia.
From PJ.Model Require Import Base Lookup Terms Wire Encoder Streams Decoder.
From PJ.Proofs Require Import TermInd.

Section Dec.
Context (ig : integ) (ak : adapter_kind) (po : poptions).

(* ---- decode_rows over a concatenation ---- *)
Lemma decode_rows_app (r1 r2 : list row) (st : dstate) :
  decode_rows ig ak po (r1 ++ r2) st =
  let '(st1, e1, err1) := decode_rows ig ak po r1 st in
  match err1 with
  | Some e => (st1, e1, Some e)
  | None => let '(st2, e2, err2) := decode_rows ig ak po r2 st1 in (st2, e1 ++ e2, err2)
  end.
Proof.
  revert st; induction r1 as [|r r1 IH]; intros st; cbn [app decode_rows].
  - destruct (decode_rows ig ak po r2 st) as [[st2 e2] err2]. reflexivity.
  - destruct (decode_row ig ak po r st) as [[st' evs]|e]; [|reflexivity].
    rewrite IH. destruct (decode_rows ig ak po r1 st') as [[st1 e1] err1].
    destruct err1 as [e|]; [reflexivity|].
    destruct (decode_rows ig ak po r2 st1) as [[st2 e2] err2]. now rewrite app_assoc.
Qed.

(* the flat observation of a frame list: all events in order, and the error if any *)
Definition flat_obs (frs : list frame_result) : list event * option exn :=
  (flat_map (fun fr => snd (fst fr)) frs, last_err frs).

Definition rows_obs (rows : list row) (st : dstate) : list event * option exn :=
  let '(_, evs, err) := decode_rows ig ak po rows st in (evs, err).

(* C07: the flat parse of a frame list is the parse of its concatenated rows *)
Theorem flat_is_rows (fs : list frame) (st : dstate) :
  flat_obs (decode_frames ig ak po fs st) = rows_obs (flat_map f_rows fs) st.
Proof.
  revert st; induction fs as [|f fs IH]; intros st; cbn [decode_frames flat_map].
  - reflexivity.
  - unfold rows_obs. rewrite decode_rows_app.
    destruct (decode_rows ig ak po (f_rows f) st) as [[st' out] err] eqn:E.
    destruct err as [e|].
    + unfold flat_obs. cbn [flat_map last_err fst snd]. now rewrite app_nil_r.
    + specialize (IH st'). unfold flat_obs, rows_obs in *. cbn [flat_map last_err fst snd].
      destruct (decode_rows ig ak po (flat_map f_rows fs) st') as [[st2 e2] err2].
      inversion IH as [[H1 H2]]. reflexivity.
Qed.

Corollary repartition_invariant (fs1 fs2 : list frame) (st : dstate) :
  flat_map f_rows fs1 = flat_map f_rows fs2 ->
  flat_obs (decode_frames ig ak po fs1 st) = flat_obs (decode_frames ig ak po fs2 st).
Proof. intros H. now rewrite !flat_is_rows, H. Qed.

(* grouped: exactly one result per frame read, in order, carrying that frame's metadata *)
Theorem grouped_one_per_frame (fs : list frame) (st : dstate) :
  last_err (decode_frames ig ak po fs st) = None ->
  map (fun fr => fst (fst fr)) (decode_frames ig ak po fs st) = map f_meta fs.
Proof.
  revert st; induction fs as [|f fs IH]; intros st; cbn [decode_frames map]; [reflexivity|].
  destruct (decode_rows ig ak po (f_rows f) st) as [[st' out] err].
  destruct err as [e|]; cbn [last_err]; [discriminate|].
  intros H. cbn [map fst]. f_equal. now apply IH.
Qed.

(* C10 / C11: what is yielded for the first frames does not depend on what follows them *)
Theorem frames_prefix (fs1 fs2 : list frame) (st : dstate) :
  exists tail, decode_frames ig ak po (fs1 ++ fs2) st = decode_frames ig ak po fs1 st ++ tail /\
               (last_err (decode_frames ig ak po fs1 st) <> None -> tail = []).
Proof.
  revert st; induction fs1 as [|f fs1 IH]; intros st; cbn [app decode_frames].
  - exists (decode_frames ig ak po fs2 st). split; [reflexivity|]. cbn. congruence.
  - destruct (decode_rows ig ak po (f_rows f) st) as [[st' out] err].
    destruct err as [e|].
    + exists []. split; [reflexivity|reflexivity].
    + destruct (IH st') as [tail [H1 H2]]. exists tail. rewrite H1. split; [reflexivity|].
      cbn [last_err]. exact H2.
Qed.

(* C17: no amplification -- at most one event per row *)
Lemma decode_row_one (r : row) (st st' : dstate) (evs : list event) :
  decode_row ig ak po r st = Ok (st', evs) -> (length evs <= 1)%nat.
Proof.
  destruct r; cbn [decode_row]; intros H;
    repeat match type of H with
           | (if ?c then _ else _) = _ => destruct c
           | bind ?x _ = _ => destruct x as [?|?]; cbn [bind] in H
           | (let '(_, _) := ?x in _) = _ => destruct x
           | (match ?x with _ => _ end) = _ => destruct x
           end; try discriminate; inversion H; subst; cbn; lia.
Qed.

Theorem no_amplification (rows : list row) (st : dstate) :
  let '(_, evs, _) := decode_rows ig ak po rows st in (length evs <= length rows)%nat.
Proof.
  revert st; induction rows as [|r rows IH]; intros st; cbn [decode_rows]; [cbn; lia|].
  destruct (decode_row ig ak po r st) as [[st' evs]|e] eqn:E; [|cbn; lia].
  specialize (IH st'). destruct (decode_rows ig ak po rows st') as [[st2 out] err].
  rewrite app_length. pose proof (decode_row_one _ _ _ _ E). cbn [length]. lia.
Qed.

End Dec.

(* C17: table sizes are capped before anything is allocated *)
Theorem decoder_tables_capped (po : poptions) (st : dstate) :
  decoder_new po = Ok st ->
  nlen (d_data (ds_names st)) <= MAX_LOOKUP_SIZE /\ nlen (d_data (ds_prefixes st)) <= MAX_LOOKUP_SIZE /\
  nlen (d_data (ds_datatypes st)) <= MAX_LOOKUP_SIZE.
Proof.
  unfold decoder_new, ldec_new, bind.
  destruct (MAX_LOOKUP_SIZE <? po_maxn po) eqn:E1; [discriminate|].
  destruct (MAX_LOOKUP_SIZE <? po_maxp po) eqn:E2; [discriminate|].
  destruct (MAX_LOOKUP_SIZE <? po_maxd po) eqn:E3; [discriminate|].
  intros H; inversion H; subst; cbn. unfold nlen, ldec_init; cbn. rewrite !repeat_length.
  apply N.ltb_ge in E1, E2, E3. lia.
Qed.

Theorem decoder_refuses_large (po : poptions) :
  MAX_LOOKUP_SIZE < po_maxn po \/ MAX_LOOKUP_SIZE < po_maxp po \/ MAX_LOOKUP_SIZE < po_maxd po ->
  exists e, decoder_new po = Err e.
Proof.
  unfold decoder_new, ldec_new, bind. intros H.
  destruct (MAX_LOOKUP_SIZE <? po_maxn po) eqn:E1; [eauto|].
  destruct (MAX_LOOKUP_SIZE <? po_maxp po) eqn:E2; [eauto|].
  destruct (MAX_LOOKUP_SIZE <? po_maxd po) eqn:E3; [eauto|].
  apply N.ltb_ge in E1, E2, E3. lia.
Qed.

(* a table never grows: assign_entry keeps the length *)
Lemma set_nth_length {A} n (x : A) l l' : set_nth n x l = Some l' -> length l' = length l.
Proof.
  revert l l'; induction n as [|n IH]; intros [|h t] l'; cbn; try discriminate.
  - intros H; inversion H; reflexivity.
  - destruct (set_nth n x t) eqn:E; [|discriminate]. intros H; inversion H; cbn. f_equal. eauto.
Qed.

Theorem assign_keeps_size (id : N) (v : str) (d d' : @ldec str) :
  assign_entry id v d = Some d' -> length (d_data d') = length (d_data d).
Proof.
  unfold assign_entry. destruct (in_range _ d); [|discriminate].
  destruct (set_nth _ _ _) as [data'|] eqn:E; [|discriminate].
  intros H; inversion H; subst; cbn. eapply set_nth_length; eauto.
Qed.

(* ---- C16: rejections that hold in every decoder state ---- *)
Section Reject.
Context (ig : integ) (po : poptions).

(* a row kind the physical type forbids *)
Theorem reject_quad_in_triples s p o g st : exists e, decode_row ig ATriples po (RQuad s p o g) st = Err e.
Proof.
  cbn [decode_row]. destruct (decode_spo ig s p o st) as [[[[st1 ts] tp] to]|e]; cbn [bind]; [|eauto].
  destruct (decode_slot ig g (ds_g st1) st1) as [[st2 tg]|e]; cbn [bind]; eauto.
Qed.
Theorem reject_quad_in_graphs s p o g st : exists e, decode_row ig AGraphs po (RQuad s p o g) st = Err e.
Proof.
  cbn [decode_row]. destruct (decode_spo ig s p o st) as [[[[st1 ts] tp] to]|e]; cbn [bind]; [|eauto].
  destruct (decode_slot ig g (ds_g st1) st1) as [[st2 tg]|e]; cbn [bind]; eauto.
Qed.
Theorem reject_triple_in_quads s p o st : exists e, decode_row ig AQuads po (RTriple s p o) st = Err e.
Proof.
  cbn [decode_row]. destruct (decode_spo ig s p o st) as [[[[st1 ts] tp] to]|e]; cbn [bind]; eauto.
Qed.
Theorem reject_graph_rows_outside_graphs ak g st :
  ak <> AGraphs ->
  (exists e, decode_row ig ak po (RGraphStart g) st = Err e) /\ (exists e, decode_row ig ak po RGraphEnd st = Err e).
Proof.
  intros H. split; cbn [decode_row].
  - destruct g as [w|]; [|eauto]. destruct (decode_term ig w st) as [[st' tg]|e]; cbn [bind]; [|eauto].
    destruct ak; eauto; contradiction.
  - destruct ak; eauto; contradiction.
Qed.

(* a triple outside any graph in a GRAPHS stream *)
Lemma decode_spo_graph s p o st st' ts tp to :
  decode_spo ig s p o st = Ok (st', ts, tp, to) -> ds_graph st' = ds_graph st.
Proof.
  assert (Hterm : forall w st0 st1 t, decode_term ig w st0 = Ok (st1, t) -> ds_graph st1 = ds_graph st0).
  { intros w. induction w as [pi ni|l|lex k| |a b c IHa IHb IHc] using wterm_ind'; intros st0 st1 t; cbn [decode_term].
    - unfold decode_iri, lift, bind.
      destruct (decode_name_term_index ni (ds_names st0)) as [[n' name]|]; [|discriminate].
      destruct (decode_prefix_term_index pi (ds_prefixes st0)) as [[p' prefix]|]; [|discriminate].
      intros H; inversion H; reflexivity.
    - intros H; inversion H; reflexivity.
    - unfold decode_literal. destruct k as [|tg|id].
      + unfold bind. destruct (mk_literal ig lex None None); [|discriminate]. intros H; inversion H; reflexivity.
      + unfold bind. destruct (mk_literal ig lex _ None); [|discriminate]. intros H; inversion H; reflexivity.
      + destruct (nlen _ =? 0); [discriminate|]. unfold lift, bind.
        destruct (decode_datatype_term_index id (ds_datatypes st0)) as [[d' dt]|]; [|discriminate].
        destruct (mk_literal ig lex None (Some dt)); [|discriminate].
        intros H; inversion H; reflexivity.
    - intros H; inversion H; reflexivity.
    - unfold bind.
      destruct a as [a'|]; [|discriminate]. cbn [OP] in IHa.
      destruct (decode_term ig a' st0) as [[s1 ta]|] eqn:Ea; [|discriminate].
      destruct b as [b'|]; [|discriminate]. cbn [OP] in IHb.
      destruct (decode_term ig b' s1) as [[s2 tb]|] eqn:Eb; [|discriminate].
      destruct c as [c'|]; [|discriminate]. cbn [OP] in IHc.
      destruct (decode_term ig c' s2) as [[s3 tc]|] eqn:Ec; [|discriminate].
      destruct ig; [|discriminate]. intros H; inversion H; subst.
      rewrite (IHc _ _ _ Ec), (IHb _ _ _ Eb), (IHa _ _ _ Ea). reflexivity. }
  assert (Hslot : forall w prev st0 st1 t, decode_slot ig w prev st0 = Ok (st1, t) -> ds_graph st1 = ds_graph st0).
  { intros w prev st0 st1 t. unfold decode_slot. destruct w as [w'|]; [apply Hterm|].
    destruct prev; [|discriminate]. intros H; inversion H; reflexivity. }
  unfold decode_spo, bind.
  destruct (decode_slot ig s (ds_s st) st) as [[s1 ta]|] eqn:E1; [|discriminate].
  destruct (decode_slot ig p (ds_p st) s1) as [[s2 tb]|] eqn:E2; [|discriminate].
  destruct (decode_slot ig o (ds_o st) s2) as [[s3 tc]|] eqn:E3; [|discriminate].
  intros H; inversion H; subst. cbn.
  rewrite (Hslot _ _ _ _ _ E3), (Hslot _ _ _ _ _ E2), (Hslot _ _ _ _ _ E1). reflexivity.
Qed.

Theorem reject_triple_outside_graph s p o st :
  ds_graph st = None -> exists e, decode_row ig AGraphs po (RTriple s p o) st = Err e.
Proof.
  intros Hg. cbn [decode_row].
  destruct (decode_spo ig s p o st) as [[[[st1 ts] tp] to]|e] eqn:E; cbn [bind]; [|eauto].
  rewrite (decode_spo_graph _ _ _ _ _ _ _ _ E), Hg. eauto.
Qed.

(* datatype 0, and a datatype reference while the table is disabled *)
Theorem reject_datatype_zero lex st : exists e, decode_literal ig lex (LkDt 0) st = Err e.
Proof.
  unfold decode_literal. destruct (nlen _ =? 0); [eauto|].
  unfold decode_datatype_term_index. cbn. eauto.
Qed.
Theorem reject_datatype_disabled lex id st :
  d_data (ds_datatypes st) = [] -> exists e, decode_literal ig lex (LkDt id) st = Err e.
Proof. intros H. unfold decode_literal. rewrite H. cbn. eauto. Qed.

(* a repeated-term marker inside a quoted triple *)
Theorem reject_repeated_in_quoted a b c st :
  a = None \/ b = None \/ c = None -> exists e, decode_term ig (WTriple a b c) st = Err e.
Proof.
  intros H. cbn [decode_term]. unfold bind.
  destruct a as [a'|]; [|eauto]. destruct (decode_term ig a' st) as [[s1 ta]|]; [|eauto].
  destruct b as [b'|]; [|eauto]. destruct (decode_term ig b' s1) as [[s2 tb]|]; [|eauto].
  destruct c as [c'|]; [|eauto]. destruct H as [H|[H|H]]; discriminate.
Qed.

(* a repeated-term marker with no previous term *)
Theorem reject_repeated_without_previous st :
  (ds_s st = None -> forall p o ak, exists e, decode_row ig ak po (RTriple None p o) st = Err e).
Proof.
  intros Hs p o ak. cbn [decode_row]. unfold decode_spo, decode_slot at 1. rewrite Hs. cbn [bind]. eauto.
Qed.

(* an entry id or a reference beyond the declared table, or to a slot never filled *)
Theorem reject_entry_out_of_range id v (d : @ldec str) :
  (if id =? 0 then d_last_assigned d + 1 else id) > nlen (d_data d) -> assign id v d = Err IndexErr.
Proof.
  intros H. unfold assign, assign_entry, in_range.
  replace (_ <=? N.of_nat (length (d_data d))) with false; [now rewrite andb_false_r|].
  symmetry. apply N.leb_gt. unfold nlen in H. lia.
Qed.
Theorem reject_ref_out_of_range i (d : @ldec str) : i > nlen (d_data d) -> at_ i d = None.
Proof.
  intros H. unfold at_, in_range.
  replace (i <=? N.of_nat (length (d_data d))) with false; [now rewrite andb_false_r|].
  symmetry. apply N.leb_gt. unfold nlen in H. lia.
Qed.
Theorem reject_ref_unfilled i (d : @ldec str) :
  nth_error (d_data d) (N.to_nat (i - 1)) = Some None -> at_ i d = None.
Proof. intros H. unfold at_. destruct (in_range i d); [|reflexivity]. now rewrite H. Qed.

End Reject.

(* missing options row / unsupported version: rejected when the options are read *)
Theorem reject_missing_options (f : frame) (delimited : bool) (r : row) (rest : list row) :
  f_rows f = r :: rest -> (forall o, r <> ROptions o) -> exists e, options_from_frame f delimited = Err e.
Proof.
  intros Hf Hr. unfold options_from_frame, first_options. rewrite Hf.
  destruct r; try (cbn; eauto; fail). exfalso. eapply Hr. reflexivity.
Qed.

Theorem reject_newer_version (po : poptions) (o : woptions) :
  po_version po <= 2 -> 2 < o_version o -> validate_stream_options po o = false.
Proof.
  intros H1 H2. unfold validate_stream_options.
  replace (o_version o <=? po_version po) with false by (symmetry; apply N.leb_gt; lia).
  now rewrite !andb_false_r.
Qed.

Theorem reject_unsupported_type (phys : N) : phys = 0 \/ 3 < phys -> exists e, route phys = Err e.
Proof.
  intros H. unfold route.
  destruct (phys =? 1) eqn:E1; [apply N.eqb_eq in E1; lia|].
  destruct (phys =? 2) eqn:E2; [apply N.eqb_eq in E2; lia|].
  destruct (phys =? 3) eqn:E3; [apply N.eqb_eq in E3; lia|]. eauto.
Qed.
