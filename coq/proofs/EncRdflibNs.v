(* EncRdflibNs.v -- C14 for the rdflib TripleStream (Graph.serialize with namespace declarations on):
   the bindings of the store are written first, in the order rdflib lists them, then the triples;
   the stream is valid and denotes exactly that. *)
From Coq Require Import Arith Lia.
From PJ.Model Require Import Base Lookup Terms Encoder Streams Spec.
From PJ.Proofs Require Import Mirror MirrorRun DecoderSound EncLookup Den EncoderProofs FlowProofs AgreeProofs EncTerm EncStmt EncStream EncNamespace EncRdflib EncRdflibDataset OptionsProofs.

(* declare_all does not look at the integration *)
Theorem declare_all_valid_any (ns : list (str * str)) : forall (s s' : stream) (ss : sstate),
  JS (st_enc s) (st_rep s) ss -> 2 <= o_version (s_opts ss) ->
  declare_all ns s = (s', Ok tt) ->
  exists rows ss',
    fl_rows (st_flow s') = fl_rows (st_flow s) ++ rows /\
    steps rows ss = SOk (ss', map ns_event ns) /\ JS (st_enc s') (st_rep s') ss' /\
    s_opts ss' = s_opts ss /\ st_integ s' = st_integ s /\ st_opts s' = st_opts s.
Proof.
  induction ns as [|[name iri] ns IH]; intros s s' ss HJ Hver; cbn [declare_all].
  - intros H; inversion H; subst. exists [], ss. rewrite app_nil_r. auto 10.
  - destruct (namespace_declaration name iri s) as [s1 [u|e]] eqn:E; [|discriminate].
    unfold namespace_declaration in E. destruct (st_failed s); [discriminate|].
    destruct (encode_namespace_declaration name iri (st_enc s)) as [[t1 r1]|] eqn:En; [|discriminate].
    inversion E; subst s1; clear E. intros Hrest.
    destruct (encode_namespace_valid _ _ _ _ _ _ _ HJ Hver En) as (ss1 & S1 & J1 & O1 & _).
    assert (Hver1 : 2 <= o_version (s_opts ss1)) by (rewrite O1; exact Hver).
    destruct (IH (with_enc s t1 (st_rep s) (flow_extend (st_flow s) r1)) s' ss1 J1 Hver1 Hrest) as (rows & ss2 & Hfl & S2 & J2 & O2 & Hig2 & Hop2).
    exists (r1 ++ rows), ss2. cbn in Hfl. split; [rewrite Hfl; now rewrite app_assoc|].
    split; [rewrite steps_app, S1, S2; reflexivity|]. split; [exact J2|]. split; [congruence|]. auto.
Qed.

Definition rdf_ns_events (o : soptions) (d : rdata) : list event :=
  if p_nd (so_params o) then match rd_kind d with RGen => [] | _ => map ns_event (rd_namespaces d) end else [].

Theorem rdf_triples_stream_valid_ns (o : soptions) (s s' : stream) (d : rdata) (evs : list tev) :
  stream_new TripleStream Rdflib o = Ok s -> cfg_ok o (st_logical s) -> fl_rows (st_flow s) = [] ->
  rd_kind d <> RDataset -> stmts_rdf11 (rd_stmts d) = true ->
  rdf_triples_stream_frames d s = (s', evs) -> raised evs = None ->
  run (flat_map f_rows (emitted evs)) = Valid (rdf_ns_events o d ++ flat_map event_of_triple (rd_stmts d)).
Proof.
  intros Hnew Hcfg Hfresh Hk H11 Hrun Hraise.
  destruct (start_of_stream_rdflib _ _ _ Hnew Hcfg) as (sg & Hg & He & Hr & Hf & Hl & Hop & Hrow & Hig).
  assert (Hcfg' : cfg_ok o (st_logical sg)) by (rewrite Hl; exact Hcfg).
  destruct (start_of_stream _ _ _ Hg Hcfg') as (w & ss0 & Hrow' & Hstart & HJ & Hph & _ & _ & _ & _ & _ & _ & Hver & Ho).
  assert (Hso : s_opts ss0 = w).
  { unfold start in Hstart. repeat match type of Hstart with (if ?c then _ else _) = _ => destruct c; [discriminate|] end. inversion Hstart; reflexivity. }
  assert (Henr : st_enrolled s = false /\ st_opts s = o).
  { unfold stream_new in Hnew. destruct (negb _); [discriminate|]. unfold bind in Hnew.
    destruct (match so_flow o with Some f => Ok f | None => infer_flow TripleStream o end); [|discriminate].
    destruct (negb _); [discriminate|]. inversion Hnew; auto. }
  destruct Henr as [Henr Hso'].
  assert (Hopts : st_opts (enroll s) = o) by (unfold enroll; rewrite Henr; cbn; exact Hso').
  assert (Hflow : fl_rows (st_flow (enroll s)) = [ROptions w]).
  { unfold enroll. rewrite Henr. cbn. rewrite Hfresh. cbn. rewrite <- Hrow. f_equal. exact Hrow'. }
  assert (Hig' : st_integ (enroll s) = Rdflib) by (unfold enroll; rewrite Henr; cbn; exact Hig).
  assert (HJ' : JS (st_enc (enroll s)) (st_rep (enroll s)) ss0).
  { unfold enroll. rewrite Henr. cbn. rewrite <- He, <- Hr. exact HJ. }
  rewrite (rdf_triples_as_generic d s Hk) in Hrun.
  pose proof (triples_stream_rows _ _ _ _ Hrun Hraise) as Hrows.
  unfold triples_stream_frames in Hrun.
  destruct (ns_phase false (sdata_of d) (enroll s)) as [s1 [u|e]] eqn:Hphase; [|inversion Hrun; subst; cbn in Hraise; discriminate].
  (* the namespace phase *)
  assert (Hns : exists rows ss1, fl_rows (st_flow s1) = fl_rows (st_flow (enroll s)) ++ rows /\
                  steps rows ss0 = SOk (ss1, rdf_ns_events o d) /\ JS (st_enc s1) (st_rep s1) ss1 /\
                  s_opts ss1 = s_opts ss0 /\ st_integ s1 = Rdflib).
  { unfold ns_phase, rdf_ns_events in *. rewrite Hopts in Hphase. destruct (p_nd (so_params o)) eqn:End.
    - cbn [sdata_of d_is_sink d_namespaces] in Hphase. destruct (rd_kind d) eqn:Ek; [| contradiction |].
      + destruct u. assert (Hv2 : 2 <= o_version (s_opts ss0)) by (rewrite Hso, Hver; unfold params_version; rewrite End; lia).
        destruct (declare_all_valid_any _ _ _ ss0 HJ' Hv2 Hphase) as (rows & ss1 & A & B & C & D & E & _).
        exists rows, ss1. split; [exact A|]. split; [exact B|]. split; [exact C|]. split; [exact D|congruence].
      + inversion Hphase; subst. exists [], ss0. rewrite app_nil_r. auto 10.
    - inversion Hphase; subst. exists [], ss0. rewrite app_nil_r. auto 10. }
  destruct Hns as (nsrows & ss1 & Hfl1 & Hsteps1 & HJ1 & Ho1 & Hig1).
  cbn [fst] in Hrows. rewrite Hfl1, Hflow in Hrows. cbn [app] in Hrows.
  rewrite <- emitted_rows_is_concat, Hrows. cbn [run]. rewrite Hstart.
  cbn [sdata_of d_stmts] in *.
  destruct (feed stream_triple (rd_stmts d) s1) as [[s2 evs2] ok] eqn:Efeed. destruct ok.
  - assert (Hph1 : phys ss1 = 1) by (unfold phys in *; rewrite Ho1; exact Hph).
    destruct (triples_all_valid_rdflib _ _ _ _ ss1 Hig1 H11 HJ1 Hph1 Efeed) as [ss' Hsteps].
    assert (Hall : steps (nsrows ++ appended_all stream_triple appended_triple (rd_stmts d) s1) ss0 =
                   SOk (ss', rdf_ns_events o d ++ flat_map event_of_triple (rd_stmts d))) by (rewrite steps_app, Hsteps1, Hsteps; reflexivity).
    rewrite (steps_run_from _ 1 _ [] _ _ Hall). reflexivity.
  - inversion Hrun; subst. exfalso. eapply feed_not_ok_raises; eauto.
Qed.
