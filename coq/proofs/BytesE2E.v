(* BytesE2E.v -- from bytes to events: any stream the referee accepts, written with the model's
   protobuf serialiser (delimited or as a single message), is detected, framed, parsed and decoded
   by the reader model to exactly the events the referee assigns it.  Composes the wire round trip
   (WireRT), well-formedness of valid streams (SpecWf), framing (WireProofs), delimiting detection
   (HintProofs) and decoder soundness (DecoderSound). *)
From Coq Require Import Arith Lia.
From PJ.Model Require Import Base Terms Wire Encoder Decoder Spec.
From PJ.Proofs Require Import HintProofs WireProofs WireRT SpecWf DecoderProofs DecoderSound.

Local Open Scope N_scope.

Definition small (f : frame) : Prop := nlen (ser_frame f) < varint_max.

Lemma wf_of_valid fs evs : run_frames fs = Valid evs -> Forall wf_frame fs.
Proof.
  unfold run_frames. intros H. apply spec_valid_wf in H. revert H.
  induction fs as [|f fs IH]; cbn [flat_map]; intros H; [constructor|].
  apply Forall_app in H. destruct H as [H1 H2]. constructor; [exact H1|now apply IH].
Qed.

Lemma valid_has_options fs evs : run_frames fs = Valid evs -> exists o rest, flat_map f_rows fs = ROptions o :: rest.
Proof.
  unfold run_frames, run. destruct (flat_map f_rows fs) as [|[o| | | | | | | | |] rest]; try discriminate. eauto.
Qed.

Lemma write_delimited_long fs : flat_map f_rows fs <> [] -> (3 <= length (write_delimited fs))%nat.
Proof.
  induction fs as [|f fs IH]; cbn [flat_map]; [congruence|]. intros H.
  unfold write_delimited. cbn [flat_map]. rewrite app_length.
  destruct (f_rows f) as [|r rows] eqn:E.
  - cbn [app] in H. specialize (IH H). unfold write_delimited in IH. eapply Nat.le_trans; [exact IH|apply Nat.le_add_l].
  - unfold write_delimited1. rewrite app_length. pose proof (varint_nonempty (nlen (ser_frame f))) as Hv.
    set (vl := length (varint (nlen (ser_frame f)))) in *.
    unfold ser_frame. rewrite E. cbn [flat_map]. rewrite !app_length.
    pose proof (f_len_len 1 (ser_row r)). lia.
Qed.

Lemma flat_events_obs frs e pre : flat_events {| pr_frames := frs; pr_end := e; pr_preread := pre |} = fst (flat_obs frs).
Proof. reflexivity. Qed.

Lemma decode_frames_complete ig ak po fs : forall st,
  last_err (decode_frames ig ak po fs st) = None -> length (decode_frames ig ak po fs st) = length fs.
Proof.
  induction fs as [|f fs IH]; intros st; [reflexivity|]. cbn [decode_frames].
  destruct (decode_rows ig ak po (f_rows f) st) as [[st1 e1] [err|]]; cbn [last_err length]; [discriminate|].
  intros H. now rewrite IH.
Qed.

Lemma valid_hint fs evs : run_frames fs = Valid evs ->
  (match fs with f :: _ => (f_rows f = [] /\ f_meta f = []) \/ f_rows f <> [] | [] => True end) ->
  hint (firstn 3 (write_delimited fs)) = true.
Proof.
  intros Hrun Hfirst. destruct (valid_has_options _ _ Hrun) as (o & rest & Hrows).
  assert (Hlong : (3 <= length (write_delimited fs))%nat) by (apply write_delimited_long; rewrite Hrows; discriminate).
  destruct fs as [|f fs']; [cbn in Hrows; discriminate|]. now apply write_delimited_detected.
Qed.

Lemma valid_sendable fs evs : run_frames fs = Valid evs -> Forall small fs -> Forall sendable fs.
Proof.
  intros Hrun Hsmall. pose proof (wf_of_valid _ _ Hrun) as Hwf.
  clear -Hwf Hsmall. induction fs as [|f fs IH]; [constructor|].
  inversion Hwf; inversion Hsmall; subst. constructor; [split; assumption|now apply IH].
Qed.

(* delimited *)
Theorem valid_bytes_decode_delimited (fs : list frame) (evs : list event) (grouped : bool) :
  run_frames fs = Valid evs -> Forall small fs ->
  (match fs with f :: _ => (f_rows f = [] /\ f_meta f = []) \/ f_rows f <> [] | [] => True end) ->
  let r := parse_stream Generic grouped false (write_delimited fs) in
  flat_events r = evs /\ pr_end r = PEnd /\ length (pr_frames r) = length fs.
Proof.
  intros Hrun Hsmall Hfirst r. subst r.
  destruct (valid_has_options _ _ Hrun) as (o & rest & Hrows).
  assert (Hlong : (3 <= length (write_delimited fs))%nat) by (apply write_delimited_long; rewrite Hrows; discriminate).
  assert (Hhint : hint (firstn 3 (write_delimited fs)) = true).
  { destruct fs as [|f fs']; [cbn in Hrows; discriminate|]. now apply write_delimited_detected. }
  assert (Hread : read_frames (write_delimited fs) = (fs, FiEof)).
  { apply read_frames_delimited_wf. pose proof (wf_of_valid _ _ Hrun) as Hwf.
    clear -Hwf Hsmall. induction fs as [|f fs IH]; [constructor|].
    inversion Hwf; inversion Hsmall; subst. constructor; [split; assumption|now apply IH]. }
  destruct (decoder_sound_frames fs evs true Hrun) as (po & ak & st0 & sk & first & more & Hs & Ho & Hr & Hd & Hobs).
  unfold parse_stream, parse_stream_h, get_options_and_frames_h. rewrite Hhint, Hread, Hs.
  cbn [bind]. rewrite Ho. cbn [bind andb]. rewrite Hr, Hd.
  unfold flat_obs in Hobs. inversion Hobs as [[He Hl]].
  split; [reflexivity|]. cbn [pr_end pr_frames]. rewrite Hl. split; [reflexivity|].
  apply decode_frames_complete. exact Hl.
Qed.

(* a single non-delimited message *)
Theorem valid_bytes_decode_single (f : frame) (evs : list event) (grouped : bool) :
  run_frames [f] = Valid evs -> small f ->
  let r := parse_stream Generic grouped false (write_single f) in
  flat_events r = evs /\ pr_end r = PEnd /\ length (pr_frames r) = 1%nat.
Proof.
  intros Hrun Hsmall r. subst r.
  destruct (valid_has_options _ _ Hrun) as (o & rest & Hrows). cbn [flat_map] in Hrows. rewrite app_nil_r in Hrows.
  assert (Hhint : hint (firstn 3 (write_single f)) = false).
  { destruct f as [rows md]. cbn [f_rows] in Hrows. subst rows. apply write_single_detected. }
  pose proof (wf_of_valid _ _ Hrun) as Hwf. inversion Hwf as [|? ? Hwf1 _]; subst.
  assert (Hparse : parse_frame (write_single f) = Some f) by (apply parse_frame_ser; assumption).
  destruct (decoder_sound_frames [f] evs false Hrun) as (po & ak & st0 & sk & first & more & Hs & Ho & Hr & Hd & Hobs).
  cbn [skip_empty] in Hs. rewrite Hrows in Hs. cbn [is_nil] in Hs. inversion Hs; subst sk first more.
  unfold parse_stream, parse_stream_h, get_options_and_frames_h. rewrite Hhint, Hparse, Hrows. cbn [is_nil].
  rewrite Ho. cbn [bind andb]. rewrite Hr, Hd.
  assert (He : flat_map (fun fr => snd (fst fr)) (decode_frames Generic ak po [f] st0) = evs) by exact (f_equal fst Hobs).
  assert (Hl : last_err (decode_frames Generic ak po [f] st0) = None) by exact (f_equal snd Hobs).
  cbv zeta. split; [exact He|]. cbn [pr_end pr_frames]. rewrite Hl. split; [reflexivity|].
  exact (decode_frames_complete _ _ _ [f] _ Hl).
Qed.

(* ---------- truncation (C10) ---------- *)
Lemma skip_empty_app fs1 fs2 : flat_map f_rows fs1 <> [] ->
  exists sk first more, skip_empty fs1 = (sk, first :: more) /\ skip_empty (fs1 ++ fs2) = (sk, first :: more ++ fs2).
Proof.
  induction fs1 as [|f fs1 IH]; cbn [flat_map skip_empty app]; [congruence|]. intros H.
  destruct (f_rows f) as [|r rows] eqn:E; cbn [is_nil].
  - cbn [app] in H. destruct (IH H) as (sk & first & more & H1 & H2). rewrite H1, H2. eauto.
  - exists [], f, fs1. split; reflexivity.
Qed.

Lemma last_err_app_none a b : last_err (a ++ b) = None -> last_err a = None.
Proof.
  induction a as [|[[md evs] [e|]] a IH]; cbn; try discriminate; auto.
Qed.

Lemma firstn3_app (a b : list N) : (3 <= length a)%nat -> firstn 3 (a ++ b) = firstn 3 a.
Proof. destruct a as [|x [|y [|z a]]]; cbn; intros; try lia. reflexivity. Qed.

(* a valid stream cut at any byte offset strictly inside one of its frames (after the frame that
   carries the options): the parser yields exactly the events of the frames wholly delivered -- a
   prefix of the stream's events -- and then raises; no event is made from the partial frame *)
Theorem truncated_valid_stream (fs1 fs2 : list frame) (f : frame) (j : nat) (evs : list event) (grouped : bool) :
  run_frames (fs1 ++ f :: fs2) = Valid evs -> Forall small fs1 -> small f ->
  flat_map f_rows fs1 <> [] ->
  (match fs1 with g :: _ => (f_rows g = [] /\ f_meta g = []) \/ f_rows g <> [] | [] => True end) ->
  (0 < j < length (write_delimited1 f))%nat ->
  let r := parse_stream Generic grouped false (write_delimited fs1 ++ firstn j (write_delimited1 f)) in
  exists later, evs = flat_events r ++ later /\ pr_end r = PRaise DecodeErr /\ length (pr_frames r) = length fs1.
Proof.
  intros Hrun Hs1 Hsf Hrows Hfirst Hj r. subst r.
  pose proof (wf_of_valid _ _ Hrun) as Hwf. apply Forall_app in Hwf. destruct Hwf as [Hwf1 Hwf2].
  inversion Hwf2 as [|? ? Hwff _]; subst.
  assert (Hlong : (3 <= length (write_delimited fs1))%nat) by now apply write_delimited_long.
  assert (Hhint : hint (firstn 3 (write_delimited fs1 ++ firstn j (write_delimited1 f))) = true).
  { rewrite firstn3_app by exact Hlong. destruct fs1 as [|g fs1']; [cbn in Hrows; congruence|]. now apply write_delimited_detected. }
  assert (Hread : read_frames (write_delimited fs1 ++ firstn j (write_delimited1 f)) = (fs1, FiError)).
  { apply read_frames_truncated_wf; [|split; assumption|exact Hj].
    clear -Hwf1 Hs1. induction fs1 as [|g fs1 IH]; [constructor|].
    inversion Hwf1; inversion Hs1; subst. constructor; [split; assumption|now apply IH]. }
  destruct (decoder_sound_frames _ evs true Hrun) as (po & ak & st0 & sk & first & more & Hs & Ho & Hr & Hd & Hobs).
  destruct (skip_empty_app fs1 (f :: fs2) Hrows) as (sk' & first' & more' & Hsk1 & Hsk2).
  rewrite Hsk2 in Hs. inversion Hs; subst sk' first' more.
  destruct (frames_prefix Generic ak po fs1 (f :: fs2) st0) as (tail & Hdec & _).
  assert (He : flat_map (fun fr => snd (fst fr)) (decode_frames Generic ak po (fs1 ++ f :: fs2) st0) = evs) by exact (f_equal fst Hobs).
  assert (Hl : last_err (decode_frames Generic ak po (fs1 ++ f :: fs2) st0) = None) by exact (f_equal snd Hobs).
  rewrite Hdec in He, Hl. apply last_err_app_none in Hl. rewrite flat_map_app in He.
  unfold parse_stream, parse_stream_h, get_options_and_frames_h. rewrite Hhint, Hread, Hsk1.
  cbn [bind]. rewrite Ho. cbn [bind andb]. rewrite Hr, Hd. cbv zeta.
  exists (flat_map (fun fr => snd (fst fr)) tail). split; [symmetry; exact He|].
  cbn [pr_end pr_frames]. rewrite Hl. split; [reflexivity|]. now apply decode_frames_complete.
Qed.

(* C08: the same one-frame content in both modes *)
Theorem both_modes_same_result (f : frame) (evs : list event) (grouped : bool) :
  run_frames [f] = Valid evs -> small f -> f_rows f <> [] ->
  let r1 := parse_stream Generic grouped false (write_single f) in
  let r2 := parse_stream Generic grouped false (write_delimited [f]) in
  flat_events r1 = evs /\ flat_events r2 = evs /\ pr_end r1 = PEnd /\ pr_end r2 = PEnd.
Proof.
  intros Hrun Hs Hne.
  destruct (valid_bytes_decode_single f evs grouped Hrun Hs) as (A & B & _).
  destruct (valid_bytes_decode_delimited [f] evs grouped Hrun (Forall_cons _ Hs (Forall_nil _)) (or_intror Hne)) as (C & D & _).
  cbv zeta. auto.
Qed.

(* ---- a cut exactly at a frame boundary: a shorter valid stream ---- *)
From PJ.Proofs Require Import EncTerm EncStream.

Lemma run_from_steps rows : forall i ss acc evs,
  run_from i rows ss acc = Valid evs -> exists ss' e, steps rows ss = SOk (ss', e) /\ evs = acc ++ e.
Proof.
  induction rows as [|r rows IH]; intros i ss acc evs; cbn [run_from steps].
  - intros H; inversion H; subst. exists ss, []. now rewrite app_nil_r.
  - destruct (step r ss) as [[s1 e1]|]; [|discriminate]. intros H.
    destruct (IH _ _ _ _ H) as (ss' & e & Hs & He). rewrite Hs. exists ss', (e1 ++ e). split; [reflexivity|]. now rewrite He, app_assoc.
Qed.

Lemma run_prefix_valid (a b : list row) (evs : list event) : a <> [] ->
  run (a ++ b) = Valid evs -> exists evs1 later, run a = Valid evs1 /\ evs = evs1 ++ later.
Proof.
  intros Hne. unfold run. destruct a as [|r a]; [contradiction|]. cbn [app].
  destruct r; try discriminate. destruct (start o) as [s0|]; [|discriminate]. intros H.
  destruct (run_from_steps _ _ _ _ _ H) as (ss' & e & Hs & He). cbn [app] in He. subst evs.
  rewrite steps_app in Hs. destruct (steps a s0) as [[s1 e1]|] eqn:E1; [|discriminate].
  destruct (steps b s1) as [[s2 e2]|]; [|discriminate]. inversion Hs; subst.
  exists e1, e2. split; [|reflexivity]. apply (steps_run_from _ 1 _ [] _ _ E1).
Qed.

Theorem cut_at_frame_boundary (fs1 fs2 : list frame) (evs : list event) (grouped : bool) :
  run_frames (fs1 ++ fs2) = Valid evs -> Forall small fs1 -> flat_map f_rows fs1 <> [] ->
  (match fs1 with g :: _ => (f_rows g = [] /\ f_meta g = []) \/ f_rows g <> [] | [] => True end) ->
  let r := parse_stream Generic grouped false (write_delimited fs1) in
  exists later, evs = flat_events r ++ later /\ pr_end r = PEnd /\ length (pr_frames r) = length fs1.
Proof.
  intros Hrun Hs Hne Hfirst r. subst r. unfold run_frames in Hrun. rewrite flat_map_app in Hrun.
  destruct (run_prefix_valid _ _ _ Hne Hrun) as (evs1 & later & Hv & He).
  destruct (valid_bytes_decode_delimited fs1 evs1 grouped Hv Hs Hfirst) as (A & B & C).
  exists later. rewrite A. auto.
Qed.

(* ---- no read-ahead (C11), from bytes: what the parser yields for the frames delivered so far does
   not depend on the bytes that follow -- more frames, a fragment, garbage or nothing ---- *)
Theorem delivered_frames_decide_bytes (fs1 : list frame) (rest : list N) (evs1 : list event) (grouped : bool) :
  run_frames fs1 = Valid evs1 -> Forall small fs1 ->
  (match fs1 with g :: _ => (f_rows g = [] /\ f_meta g = []) \/ f_rows g <> [] | [] => True end) ->
  let r := parse_stream Generic grouped false (write_delimited fs1 ++ rest) in
  exists tail, flat_events r = evs1 ++ tail /\ (length fs1 <= length (pr_frames r))%nat.
Proof.
  intros Hrun Hs Hfirst r. subst r.
  destruct (valid_has_options _ _ Hrun) as (o & rows & Hrows).
  assert (Hne : flat_map f_rows fs1 <> []) by (rewrite Hrows; discriminate).
  assert (Hlong : (3 <= length (write_delimited fs1))%nat) by now apply write_delimited_long.
  assert (Hhint : hint (firstn 3 (write_delimited fs1 ++ rest)) = true).
  { rewrite firstn3_app by exact Hlong. now apply (valid_hint fs1 evs1). }
  pose proof (read_frames_prefix fs1 rest (valid_sendable _ _ Hrun Hs)) as Hread.
  destruct (read_frames rest) as [fs' e] eqn:Er.
  destruct (decoder_sound_frames fs1 evs1 true Hrun) as (po & ak & st0 & sk & first & more & Hsk & Ho & Hr & Hd & Hobs).
  destruct (skip_empty_app fs1 fs' Hne) as (sk' & first' & more' & Hsk1 & Hsk2).
  rewrite Hsk in Hsk1. inversion Hsk1; subst sk' first' more'.
  unfold parse_stream, parse_stream_h, get_options_and_frames_h. rewrite Hhint, Hread, Hsk2.
  cbn [bind]. rewrite Ho. cbn [bind andb]. rewrite Hr, Hd. cbv zeta.
  destruct (frames_prefix Generic ak po fs1 fs' st0) as (tail & Hdec & _).
  assert (He : flat_map (fun fr => snd (fst fr)) (decode_frames Generic ak po fs1 st0) = evs1) by exact (f_equal fst Hobs).
  assert (Hl : last_err (decode_frames Generic ak po fs1 st0) = None) by exact (f_equal snd Hobs).
  exists (flat_map (fun fr => snd (fst fr)) tail). unfold flat_events. cbn [pr_frames]. rewrite Hdec, flat_map_app.
  split; [f_equal; exact He|]. rewrite app_length, (decode_frames_complete _ _ _ _ _ Hl). lia.
Qed.
