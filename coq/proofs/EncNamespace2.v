(* EncNamespace2.v -- C14 for QuadStream and GraphStream: with declarations on, a sink's bindings are
   written first and the stream stays valid; it reads back as the declarations, in order, followed
   by exactly the statements. *)
From Coq Require Import Arith Lia.
From PJ.Model Require Import Base Lookup Terms Encoder Streams Spec.
From PJ.Proofs Require Import Mirror MirrorRun DecoderSound EncLookup Den EncoderProofs FlowProofs EncTerm EncStmt EncStream EncNamespace EncGraphs OptionsProofs.

Lemma ns_phase_valid (always : bool) (o : soptions) (d : sdata) (s s1 : stream) (u : unit) (ss0 : sstate) :
  st_integ s = Generic -> JS (st_enc s) (st_rep s) ss0 -> st_opts s = o ->
  (p_nd (so_params o) = true -> 2 <= o_version (s_opts ss0)) ->
  ns_phase always d s = (s1, Ok u) ->
  exists rows ss1,
    fl_rows (st_flow s1) = fl_rows (st_flow s) ++ rows /\
    steps rows ss0 = SOk (ss1, ns_events o d) /\ JS (st_enc s1) (st_rep s1) ss1 /\
    s_opts ss1 = s_opts ss0 /\ st_integ s1 = Generic.
Proof.
  intros Hig HJ Hopts Hver. unfold ns_phase, ns_events. rewrite Hopts.
  destruct (p_nd (so_params o)) eqn:End; cbn [andb].
  - destruct (d_is_sink d) eqn:Esink.
    + intros Ed. destruct u.
      destruct (declare_all_valid _ _ _ ss0 Hig HJ (Hver eq_refl) Ed) as (rows & ss1 & A & B & C & D & E & _).
      exists rows, ss1. auto 10.
    + destruct always; [discriminate|]. intros H; inversion H; subst. exists [], ss0. rewrite app_nil_r. auto 10.
  - intros H; inversion H; subst. exists [], ss0. rewrite app_nil_r. auto 10.
Qed.

Theorem quads_stream_valid_ns (o : soptions) (s s' : stream) (d : sdata) (evs : list tev) :
  stream_new QuadStream Generic o = Ok s -> cfg_ok o (st_logical s) -> fl_rows (st_flow s) = [] ->
  quads_stream_frames d s = (s', evs) -> raised evs = None ->
  run (flat_map f_rows (emitted evs)) = Valid (ns_events o d ++ flat_map event_of_quad (d_stmts d)).
Proof.
  intros Hnew Hcfg Hfresh Hrun Hraise.
  destruct (start_of_stream _ _ _ Hnew Hcfg) as (w & ss0 & Hrow & Hstart & HJ & Hph & Hig & Hfl & Henc & Hrep & Hig' & Hopts & Hver & Ho).
  pose proof (quads_stream_rows _ _ _ _ Hrun Hraise) as Hrows.
  unfold quads_stream_frames in Hrun.
  assert (HJ' : JS (st_enc (enroll s)) (st_rep (enroll s)) ss0) by (rewrite Henc, Hrep; exact HJ).
  assert (Hso : s_opts ss0 = w).
  { unfold start in Hstart. repeat match type of Hstart with (if ?c then _ else _) = _ => destruct c; [discriminate|] end. inversion Hstart; reflexivity. }
  destruct (ns_phase true d (enroll s)) as [s1 [u|e]] eqn:Hphase; [|inversion Hrun; subst; cbn in Hraise; discriminate].
  assert (Hv : p_nd (so_params o) = true -> 2 <= o_version (s_opts ss0)).
  { intros End. rewrite Hso, Hver. unfold params_version. rewrite End. lia. }
  destruct (ns_phase_valid true o d _ _ _ ss0 Hig' HJ' (eq_trans Hopts Ho) Hv Hphase) as (nsrows & ss1 & Hfl1 & Hsteps1 & HJ1 & Ho1 & Hig1).
  cbn [fst] in Hrows. rewrite Hfl1, Hfl, Hfresh in Hrows. cbn [app] in Hrows.
  rewrite <- emitted_rows_is_concat, Hrows. cbn [run]. rewrite Hstart.
  destruct (feed stream_quad (d_stmts d) s1) as [[s2 evs2] ok] eqn:Efeed.
  destruct ok.
  - assert (Hph1 : phys ss1 = 2) by (unfold phys in *; rewrite Ho1; exact Hph).
    destruct (quads_all_valid _ _ _ _ ss1 Hig1 HJ1 Hph1 Efeed) as [ss' Hsteps].
    assert (Hall : steps (nsrows ++ appended_all stream_quad appended_quad (d_stmts d) s1) ss0 =
                   SOk (ss', ns_events o d ++ flat_map event_of_quad (d_stmts d))) by (rewrite steps_app, Hsteps1, Hsteps; reflexivity).
    rewrite (steps_run_from _ 1 _ [] _ _ Hall). reflexivity.
  - inversion Hrun; subst. exfalso. eapply feed_not_ok_raises; eauto.
Qed.

Theorem graphs_stream_valid_ns (o : soptions) (s s' : stream) (d : sdata) (evs : list tev) :
  stream_new GraphStream Generic o = Ok s -> cfg_ok o (st_logical s) -> fl_rows (st_flow s) = [] ->
  forallb wf_quad (d_stmts d) = true ->
  graphs_stream_frames_generic d s = (s', evs) -> raised evs = None ->
  run (flat_map f_rows (emitted evs)) = Valid (ns_events o d ++ flat_map event_of_quad (d_stmts d)).
Proof.
  intros Hnew Hcfg Hfresh Hwf Hrun Hraise.
  destruct (start_of_stream _ _ _ Hnew Hcfg) as (w & ss0 & Hrow & Hstart & HJ & Hph & Hig & Hfl & Henc & Hrep & Hig' & Hopts & Hver & Ho).
  unfold graphs_stream_frames_generic in Hrun.
  assert (HJ' : JS (st_enc (enroll s)) (st_rep (enroll s)) ss0) by (rewrite Henc, Hrep; exact HJ).
  assert (Hso : s_opts ss0 = w).
  { unfold start in Hstart. repeat match type of Hstart with (if ?c then _ else _) = _ => destruct c; [discriminate|] end. inversion Hstart; reflexivity. }
  destruct (ns_phase true d (enroll s)) as [s1 [u|e]] eqn:Hphase; [|inversion Hrun; subst; cbn in Hraise; discriminate].
  assert (Hv : p_nd (so_params o) = true -> 2 <= o_version (s_opts ss0)).
  { intros End. rewrite Hso, Hver. unfold params_version. rewrite End. lia. }
  destruct (ns_phase_valid true o d _ _ _ ss0 Hig' HJ' (eq_trans Hopts Ho) Hv Hphase) as (nsrows & ss1 & Hfl1 & Hsteps1 & HJ1 & Ho1 & Hig1).
  assert (Hph1 : phys ss1 = 3) by (unfold phys in *; rewrite Ho1; exact Hph).
  rewrite <- emitted_rows_is_concat.
  destruct (d_stmts d) as [|st0 rest] eqn:Ed.
  - destruct (finish false s1) as [s3 fin] eqn:F. inversion Hrun; subst s' evs; clear Hrun.
    pose proof (finish_conserves _ _ _ _ F) as H2. pose proof (finish_flushes _ _ _ _ F) as H3.
    rewrite H3, app_nil_r in H2. cbn [emitted_rows]. rewrite H2, Hfl1, Hfl, Hfresh. cbn [app run]. rewrite Hstart.
    rewrite (steps_run_from _ 1 _ [] _ _ Hsteps1). cbn. now rewrite app_nil_r.
  - rewrite <- Ed in *.
    destruct (feed_graphs_generic true (split_runs (d_stmts d) None) s1) as [[s2 evs2] ok] eqn:Efeed.
    destruct ok.
    + destruct (finish false s2) as [s3 fin] eqn:F. inversion Hrun; subst s' evs; clear Hrun.
      destruct (feed_graphs_generic_valid _ _ _ _ _ ss1 Hig1 HJ1 Hph1 Efeed) as (ss' & Hsteps & Hcons).
      pose proof (finish_conserves _ _ _ _ F) as H2. pose proof (finish_flushes _ _ _ _ F) as H3.
      rewrite H3, app_nil_r in H2.
      rewrite emitted_rows_app, H2. rewrite Hcons, Hfl1, Hfl, Hfresh. cbn [app run]. rewrite Hstart.
      assert (Hall : steps (nsrows ++ graphs_rows (split_runs (d_stmts d) None) s1) ss0 =
                     SOk (ss', ns_events o d ++ flat_map run_events (split_runs (d_stmts d) None)))
        by (rewrite steps_app, Hsteps1, Hsteps; reflexivity).
      rewrite (steps_run_from _ 1 _ [] _ _ Hall). cbn [app].
      rewrite (split_runs_events _ None Hwf). reflexivity.
    + inversion Hrun; subst. exfalso. eapply feed_graphs_generic_not_ok; eauto.
Qed.
