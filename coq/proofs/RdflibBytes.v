(* RdflibBytes.v -- C02 at the byte level: what the rdflib serializer model writes for a Graph (or a
   Dataset through a QuadStream), read as bytes by the rdflib parser model, is exactly the input.
   The rdflib decoder is a second copy of the generic one; on streams without quoted triples -- all
   the rdflib writer can produce -- the two coincide. *)
From Coq Require Import Arith Lia.
From PJ.Model Require Import Base Lookup Terms Wire Encoder Streams Decoder Spec.
From PJ.Proofs Require Import FlowProofs FrameShape WireProofs WireRT BytesE2E AgreeProofs EncoderProofs Den EncStream EncRdflib EncRdflibQuads.

Definition rows_rdf11 (rows : list row) : Prop := forallb row_rdf11 rows = true.

Lemma rows_rdf11_app a b : rows_rdf11 a -> rows_rdf11 b -> rows_rdf11 (a ++ b).
Proof. unfold rows_rdf11. rewrite forallb_app. intros -> ->. reflexivity. Qed.
Lemma rows_rdf11_app_inv a b : rows_rdf11 (a ++ b) -> rows_rdf11 a /\ rows_rdf11 b.
Proof. unfold rows_rdf11. rewrite forallb_app. intros H. apply andb_prop in H. exact H. Qed.

Lemma first_plain_frames evs : all_plain evs ->
  match emitted evs with f :: _ => (f_rows f = [] /\ f_meta f = []) \/ f_rows f <> [] | [] => True end.
Proof. unfold all_plain. destruct (emitted evs) as [|f fs]; [trivial|]. intros H. inversion H as [|? ? [_ Hp] _]. now right. Qed.

(* ---- what the rdflib term dispatcher can emit ---- *)
Lemma entry_rows_rdf11 (oe1 oe2 : option N) k1 k2 :
  rows_rdf11 ((match oe1 with Some id => [RPrefix id k1] | None => [] end) ++ (match oe2 with Some id => [RName id k2] | None => [] end)).
Proof. destruct oe1, oe2; reflexivity. Qed.

Lemma encode_iri_rdf11 iri t t' rows p n : encode_iri iri t = Ok (t', rows, p, n) -> rows_rdf11 rows.
Proof.
  unfold encode_iri. destruct (split_iri iri) as [prefix name0]. unfold bind.
  destruct (lmax (t_prefixes t) =? 0).
  - destruct (entry_index (t_names t) (t_nkeys t) iri) as [[[nms nkeys] ne]|]; [|discriminate].
    destruct (lift KeyErr _) as [[pfx2 pidx]|]; [|discriminate]. destruct (lift KeyErr _) as [[nms2 nidx]|]; [|discriminate].
    intros H; inversion H; subst. apply (entry_rows_rdf11 None ne prefix iri).
  - destruct (entry_index (t_prefixes t) (t_pkeys t) prefix) as [[[pfx pkeys] pe]|]; [|discriminate]. cbn [bind].
    destruct (entry_index (t_names t) (t_nkeys t) name0) as [[[nms nkeys] ne]|]; [|discriminate].
    destruct (lift KeyErr _) as [[pfx2 pidx]|]; [|discriminate]. destruct (lift KeyErr _) as [[nms2 nidx]|]; [|discriminate].
    intros H; inversion H; subst. apply entry_rows_rdf11.
Qed.

(* a term whose language tag (if any) rdflib accepts *)
Definition term_lang_ok (tm : term) : bool :=
  match tm with TLit _ (Some l) _ => is_nil l || valid_langtag l | _ => true end.
Lemma term_rdflib_lang tm : term_rdflib tm = true -> term_lang_ok tm = true.
Proof. destruct tm as [x|x|lex [l|] [d|]|s p o| |]; cbn; intros H; try reflexivity; try discriminate; exact H. Qed.

Lemma encode_literal_rdf11 lex lang dt t t' rows w : term_lang_ok (TLit lex lang dt) = true ->
  encode_literal lex lang dt t = Ok (t', rows, w) -> rows_rdf11 rows /\ wt_ok w = true.
Proof.
  intros Hl. unfold encode_literal, bind.
  destruct (match truthy dt with Some d => _ | None => _ end) as [[[t0 r0] dtid]|] eqn:E; [|discriminate].
  intros H; inversion H; subst. split.
  2:{ unfold wt_ok. cbn [no_quoted andb lang_ok]. destruct (negb (dtid =? 0)); [reflexivity|].
      destruct lang as [l|]; [|reflexivity]. cbn [truthy]. destruct (is_nil l) eqn:En; [reflexivity|]. cbn [term_lang_ok] in Hl. exact Hl. }
  destruct (truthy dt) as [d|]; [|inversion E; reflexivity].
  destruct (str_eqb d xsd_string); [inversion E; reflexivity|].
  destruct (lmax (t_datatypes t) =? 0); [discriminate|].
  destruct (entry_index (t_datatypes t) (t_dkeys t) d) as [[[dts dkeys] oe]|]; [|discriminate]. cbn [bind] in E.
  destruct (lift KeyErr _) as [[dts2 idx]|]; [|discriminate]. inversion E; subst. destruct oe; reflexivity.
Qed.

Lemma encode_spo_term_rdf11 tm t t' rows w : term_lang_ok tm = true -> encode_spo_term Rdflib tm t = Ok (t', rows, w) -> rows_rdf11 rows /\ wt_ok w = true.
Proof.
  intros Hl. destruct tm; cbn [encode_spo_term]; try discriminate.
  - unfold bind. destruct (encode_iri iri t) as [[[[t1 r1] p] n]|] eqn:E; [|discriminate]. intros H; inversion H; subst.
    split; [eapply encode_iri_rdf11; eauto|reflexivity].
  - intros H; inversion H; subst. split; reflexivity.
  - apply encode_literal_rdf11. exact Hl.
Qed.

Lemma encode_graph_term_rdf11 tm t t' rows w : encode_graph_term Rdflib tm t = Ok (t', rows, w) -> rows_rdf11 rows /\ wt_ok w = true.
Proof.
  destruct tm; cbn [encode_graph_term]; try discriminate.
  - destruct (str_eqb iri rdflib_default_graph); [intros H; inversion H; subst; split; reflexivity|].
    unfold bind. destruct (encode_iri iri t) as [[[[t1 r1] p] n]|] eqn:E; [|discriminate]. intros H; inversion H; subst.
    split; [eapply encode_iri_rdf11; eauto|reflexivity].
  - intros H; inversion H; subst. split; reflexivity.
Qed.

Lemma encode_slot_rdf11 prev tm t t' rows w prev' : term_lang_ok tm = true -> encode_slot Rdflib prev tm t = Ok (t', rows, w, prev') -> rows_rdf11 rows /\ no_quoted_opt w = true.
Proof.
  intros Hl. unfold encode_slot. destruct (differs prev tm).
  - unfold bind. destruct (encode_spo_term Rdflib tm t) as [[[t1 r1] w1]|] eqn:E; [|discriminate]. intros H; inversion H; subst.
    exact (encode_spo_term_rdf11 _ _ _ _ _ Hl E).
  - intros H; inversion H; subst. split; reflexivity.
Qed.

Lemma encode_gslot_rdf11 prev tm t t' rows w prev' : encode_gslot Rdflib prev tm t = Ok (t', rows, w, prev') -> rows_rdf11 rows /\ no_quoted_opt w = true.
Proof.
  unfold encode_gslot. destruct (differs prev tm).
  - unfold bind. destruct (encode_graph_term Rdflib tm t) as [[[t1 r1] w1]|] eqn:E; [|discriminate]. intros H; inversion H; subst.
    exact (encode_graph_term_rdf11 _ _ _ _ _ E).
  - intros H; inversion H; subst. split; reflexivity.
Qed.

Lemma encode_triple_rdf11 terms t rp t' rp' rows : forallb term_lang_ok terms = true -> encode_triple Rdflib terms t rp = Ok (t', rp', rows) -> rows_rdf11 rows.
Proof.
  intros Hl. unfold encode_triple, bind, nth_term. destruct terms as [|s [|p [|o rest]]]; cbn [nth_error]; try discriminate.
  - destruct (encode_slot _ _ _ _) as [[[[? ?] ?] ?]|]; discriminate.
  - destruct (encode_slot _ _ _ _) as [[[[t1 ?] ?] ?]|]; [|discriminate]. destruct (encode_slot _ _ _ t1) as [[[[? ?] ?] ?]|]; discriminate.
  - destruct (encode_slot Rdflib (r_s rp) s (start_statement t)) as [[[[t1 r1] ws] ps]|] eqn:E1; [|discriminate].
    destruct (encode_slot Rdflib (r_p rp) p t1) as [[[[t2 r2] wp] pp]|] eqn:E2; [|discriminate].
    destruct (encode_slot Rdflib (r_o rp) o t2) as [[[[t3 r3] wo] po]|] eqn:E3; [|discriminate].
    intros H; inversion H; subst.
    cbn [forallb] in Hl. apply andb_prop in Hl. destruct Hl as [L1 Hl]. apply andb_prop in Hl. destruct Hl as [L2 Hl]. apply andb_prop in Hl. destruct Hl as [L3 _].
    destruct (encode_slot_rdf11 _ _ _ _ _ _ _ L1 E1) as [A1 B1]. destruct (encode_slot_rdf11 _ _ _ _ _ _ _ L2 E2) as [A2 B2].
    destruct (encode_slot_rdf11 _ _ _ _ _ _ _ L3 E3) as [A3 B3].
    repeat apply rows_rdf11_app; try assumption. unfold rows_rdf11. cbn. now rewrite B1, B2, B3.
Qed.

Lemma encode_quad_rdf11 terms t rp t' rp' rows : forallb term_lang_ok terms = true -> encode_quad Rdflib terms t rp = Ok (t', rp', rows) -> rows_rdf11 rows.
Proof.
  intros Hl. unfold encode_quad, bind, nth_term. destruct terms as [|s [|p [|o [|g rest]]]]; cbn [nth_error]; try discriminate.
  - destruct (encode_slot _ _ _ _) as [[[[? ?] ?] ?]|]; discriminate.
  - destruct (encode_slot _ _ _ _) as [[[[t1 ?] ?] ?]|]; [|discriminate]. destruct (encode_slot _ _ _ t1) as [[[[? ?] ?] ?]|]; discriminate.
  - destruct (encode_slot _ _ _ _) as [[[[t1 ?] ?] ?]|]; [|discriminate]. destruct (encode_slot _ _ _ t1) as [[[[t2 ?] ?] ?]|]; [|discriminate].
    destruct (encode_slot _ _ _ t2) as [[[[? ?] ?] ?]|]; discriminate.
  - destruct (encode_slot Rdflib (r_s rp) s (start_statement t)) as [[[[t1 r1] ws] ps]|] eqn:E1; [|discriminate].
    destruct (encode_slot Rdflib (r_p rp) p t1) as [[[[t2 r2] wp] pp]|] eqn:E2; [|discriminate].
    destruct (encode_slot Rdflib (r_o rp) o t2) as [[[[t3 r3] wo] po]|] eqn:E3; [|discriminate].
    destruct (encode_gslot Rdflib (r_g rp) g t3) as [[[[t4 r4] wg] pg]|] eqn:E4; [|discriminate].
    intros H; inversion H; subst.
    cbn [forallb] in Hl. apply andb_prop in Hl. destruct Hl as [L1 Hl]. apply andb_prop in Hl. destruct Hl as [L2 Hl]. apply andb_prop in Hl. destruct Hl as [L3 _].
    destruct (encode_slot_rdf11 _ _ _ _ _ _ _ L1 E1) as [A1 B1]. destruct (encode_slot_rdf11 _ _ _ _ _ _ _ L2 E2) as [A2 B2].
    destruct (encode_slot_rdf11 _ _ _ _ _ _ _ L3 E3) as [A3 B3]. destruct (encode_gslot_rdf11 _ _ _ _ _ _ _ E4) as [A4 B4].
    repeat apply rows_rdf11_app; try assumption. unfold rows_rdf11. cbn. now rewrite B1, B2, B3, B4.
Qed.

(* ---- all rows a rdflib flat run appends ---- *)
Definition stmts_lang_ok (stmts : list (list term)) : bool := forallb (forallb term_lang_ok) stmts.

Lemma appended_triples_rdf11 stmts : forall s, stmts_lang_ok stmts = true -> st_integ s = Rdflib -> rows_rdf11 (appended_all stream_triple appended_triple stmts s).
Proof.
  induction stmts as [|st rest IH]; intros s Hl Hig; cbn [appended_all]; [reflexivity|].
  cbn [stmts_lang_ok forallb] in Hl. apply andb_prop in Hl. destruct Hl as [Hl1 Hl2].
  destruct (stream_triple st s) as [s1 [fr|e]] eqn:E; [|reflexivity].
  destruct (stream_triple_encode _ _ _ _ E) as [Henc Hig1]. rewrite Hig in Henc.
  apply rows_rdf11_app; [eapply encode_triple_rdf11; eauto|apply IH; [exact Hl2 | congruence]].
Qed.

Lemma appended_quads_rdf11 stmts : forall s, stmts_lang_ok stmts = true -> st_integ s = Rdflib -> rows_rdf11 (appended_all stream_quad appended_quad stmts s).
Proof.
  induction stmts as [|st rest IH]; intros s Hl Hig; cbn [appended_all]; [reflexivity|].
  cbn [stmts_lang_ok forallb] in Hl. apply andb_prop in Hl. destruct Hl as [Hl1 Hl2].
  destruct (stream_quad st s) as [s1 [fr|e]] eqn:E; [|reflexivity].
  destruct (stream_quad_encode _ _ _ _ E) as [Henc Hig1]. rewrite Hig in Henc.
  apply rows_rdf11_app; [eapply encode_quad_rdf11; eauto|apply IH; [exact Hl2 | congruence]].
Qed.

(* ---- the rdflib parser on such bytes is the generic parser ---- *)
Lemma frames_rdf11_of_rows fs : rows_rdf11 (flat_map f_rows fs) -> forallb (fun f => forallb row_rdf11 (f_rows f)) fs = true.
Proof.
  induction fs as [|f fs IH]; cbn [flat_map forallb]; [reflexivity|]. intros H.
  apply rows_rdf11_app_inv in H. destruct H as [H1 H2]. rewrite H1. now apply IH.
Qed.

(* what the rdflib parser returns is the VIEW (AgreeProofs.rview: rdflib's Literal constructor applied to every literal) of what
   the generic parser returns *)
Definition pview (r : parse_result) : parse_result :=
  {| pr_frames := map fview (pr_frames r); pr_end := pr_end r; pr_preread := pr_preread r |}.

Lemma last_err_view frs : last_err (map fview frs) = last_err frs.
Proof. induction frs as [|[[md evs] [e|]] frs IH]; cbn; [reflexivity|reflexivity|exact IH]. Qed.

Lemma decoder_new_fresh po st : decoder_new po = Ok st -> vst st = st.
Proof.
  unfold decoder_new, bind. destruct (ldec_new (po_maxn po)); [|discriminate]. destruct (ldec_new (po_maxp po)); [|discriminate].
  destruct (ldec_new (po_maxd po)); [|discriminate]. intros H; inversion H; subst. reflexivity.
Qed.

Theorem rdflib_parser_is_view (fs : list frame) (grouped strict : bool) :
  hint (firstn 3 (write_delimited fs)) = true -> Forall sendable fs -> rows_rdf11 (flat_map f_rows fs) ->
  parse_stream Rdflib grouped strict (write_delimited fs) = pview (parse_stream Generic grouped strict (write_delimited fs)).
Proof.
  intros Hh Hs Hr. unfold parse_stream, parse_stream_h, get_options_and_frames_h. rewrite Hh.
  rewrite (read_frames_delimited_wf _ Hs). destruct (skip_empty fs) as [sk [|first more]]; [reflexivity|].
  destruct (options_from_frame first true) as [po|]; cbn [bind]; [|reflexivity].
  destruct (strict && _); [reflexivity|]. destruct (route (po_phys po)) as [ak|]; [|reflexivity].
  destruct (decoder_new po) as [st|] eqn:En; [|reflexivity].
  rewrite <- (decoder_new_fresh _ _ En) at 1 2.
  rewrite (decode_frames_view ak po fs st (frames_rdf11_of_rows _ Hr)). unfold pview. cbn [pr_frames pr_end pr_preread].
  rewrite last_err_view. reflexivity.
Qed.

Lemma flat_events_view r : flat_events (pview r) = map eview (flat_events r).
Proof.
  unfold flat_events, pview. cbn [pr_frames]. induction (pr_frames r) as [|[[md evs] err] frs IH]; cbn [map flat_map fview fst snd]; [reflexivity|].
  rewrite map_app, IH. reflexivity.
Qed.

(* any valid stream without quoted triples and with well-formed language tags: the rdflib parser returns the view of its events *)
Theorem valid_bytes_decode_rdflib (fs : list frame) (evs : list event) (grouped : bool) :
  run_frames fs = Valid evs -> Forall small fs -> rows_rdf11 (flat_map f_rows fs) ->
  (match fs with f :: _ => (f_rows f = [] /\ f_meta f = []) \/ f_rows f <> [] | [] => True end) ->
  let r := parse_stream Rdflib grouped false (write_delimited fs) in
  flat_events r = map eview evs /\ pr_end r = PEnd /\ length (pr_frames r) = length fs.
Proof.
  intros Hrun Hsmall Hr Hfirst. cbv zeta.
  rewrite rdflib_parser_is_view; [| |now apply (valid_sendable fs evs)|exact Hr].
  2: now apply (valid_hint fs evs).
  destruct (valid_bytes_decode_delimited fs evs grouped Hrun Hsmall Hfirst) as (H1 & H2 & H3).
  rewrite flat_events_view, H1. unfold pview. cbn [pr_end pr_frames]. rewrite map_length. auto.
Qed.

(* ... and on the terms rdflib can hold (AgreeProofs.term_rdflib) the view is the term itself *)
Lemma rview_norm t : term_rdflib t = true -> rview (norm t) = norm t.
Proof.
  destruct t as [x|x|lex [l|] [d|]|s p o| |]; cbn [term_rdflib norm]; try reflexivity; try discriminate; intros H.
  - cbn [truthy]. destruct (is_nil l); reflexivity.
  - cbn [truthy]. destruct (is_nil d) eqn:En; [reflexivity|]. destruct (str_eqb d xsd_string); [reflexivity|].
    cbn [rview]. apply str_eqb_true in H. now rewrite H.
Qed.

Definition stmts_rdflib (stmts : list (list term)) : bool := forallb (forallb term_rdflib) stmts.
Lemma stmts_rdflib_lang stmts : stmts_rdflib stmts = true -> stmts_lang_ok stmts = true.
Proof.
  unfold stmts_rdflib, stmts_lang_ok. induction stmts as [|st rest IH]; cbn [forallb]; [reflexivity|]. intros H.
  apply andb_prop in H. destruct H as [H1 H2]. rewrite (IH H2), andb_true_r.
  induction st as [|t ts IHt]; cbn [forallb] in *; [reflexivity|]. apply andb_prop in H1. destruct H1 as [Ht Hts].
  rewrite (term_rdflib_lang _ Ht). now apply IHt.
Qed.

Lemma eview_triples stmts : stmts_rdflib stmts = true -> map eview (flat_map event_of_triple stmts) = flat_map event_of_triple stmts.
Proof.
  unfold stmts_rdflib. induction stmts as [|st rest IH]; cbn [forallb flat_map]; [reflexivity|]. intros H.
  apply andb_prop in H. destruct H as [H1 H2]. rewrite map_app, (IH H2). f_equal.
  destruct st as [|s [|p [|o r]]]; try reflexivity. cbn [forallb] in H1.
  apply andb_prop in H1. destruct H1 as [Hs H1]. apply andb_prop in H1. destruct H1 as [Hp H1]. apply andb_prop in H1. destruct H1 as [Ho _].
  cbn [event_of_triple map eview]. now rewrite !rview_norm.
Qed.

Lemma term_rdflib_gcorr g : term_rdflib g = true -> term_rdflib (gcorr_inv g) = true.
Proof. destruct g as [x|x|lex l d|s p o| |]; cbn [gcorr_inv]; intros H; try exact H. destruct (str_eqb x rdflib_default_graph); reflexivity. Qed.

Lemma eview_quads stmts : stmts_rdflib stmts = true ->
  map eview (flat_map event_of_quad (map quad_inv stmts)) = flat_map event_of_quad (map quad_inv stmts).
Proof.
  unfold stmts_rdflib. induction stmts as [|st rest IH]; cbn [forallb flat_map map]; [reflexivity|]. intros H.
  apply andb_prop in H. destruct H as [H1 H2]. rewrite map_app, (IH H2). f_equal.
  destruct st as [|s [|p [|o [|g r]]]]; try reflexivity. cbn [forallb] in H1.
  apply andb_prop in H1. destruct H1 as [Hs H1]. apply andb_prop in H1. destruct H1 as [Hp H1]. apply andb_prop in H1. destruct H1 as [Ho H1].
  apply andb_prop in H1. destruct H1 as [Hg _].
  cbn [quad_inv event_of_quad map eview]. now rewrite !rview_norm by (try assumption; now apply term_rdflib_gcorr).
Qed.

(* the rows of a whole rdflib run are RDF 1.1 rows (no quoted triples, language tags rdflib accepts) *)
Lemma rdf_triples_rows_rdf11 (o : soptions) (s s' : stream) (d : rdata) (evs : list tev) :
  stream_new TripleStream Rdflib o = Ok s -> p_nd (so_params o) = false -> fl_rows (st_flow s) = [] ->
  rd_kind d <> RDataset -> stmts_lang_ok (rd_stmts d) = true ->
  rdf_triples_stream_frames d s = (s', evs) -> raised evs = None ->
  rows_rdf11 (flat_map f_rows (emitted evs)).
Proof.
  intros Hnew Hnd Hfresh Hk Hl Hrun Hraise.
  rewrite (rdf_triples_as_generic d s Hk) in Hrun.
  pose proof (triples_stream_rows _ _ _ _ Hrun Hraise) as Hrows.
  rewrite <- emitted_rows_is_concat, Hrows.
  assert (Hopts : st_opts (enroll s) = o).
  { unfold enroll. unfold stream_new in Hnew. destruct (negb _); [discriminate|]. unfold bind in Hnew.
    destruct (match so_flow o with Some f => Ok f | None => infer_flow TripleStream o end); [|discriminate].
    destruct (negb _); [discriminate|]. inversion Hnew; subst; reflexivity. }
  assert (Hns : ns_phase false (sdata_of d) (enroll s) = (enroll s, Ok tt)) by (apply ns_phase_off; rewrite Hopts; exact Hnd).
  rewrite Hns. cbn [fst].
  assert (Henr : st_enrolled s = false /\ st_integ s = Rdflib).
  { unfold stream_new in Hnew. destruct (negb _); [discriminate|]. unfold bind in Hnew.
    destruct (match so_flow o with Some f => Ok f | None => infer_flow TripleStream o end); [|discriminate].
    destruct (negb _); [discriminate|]. inversion Hnew; subst; cbn. auto. }
  assert (Hig : st_integ (enroll s) = Rdflib /\ fl_rows (st_flow (enroll s)) = [options_row s]).
  { destruct Henr as [He Hi]. unfold enroll. rewrite He. cbn. rewrite Hfresh. auto. }
  destruct Hig as [Hig Hfl]. rewrite Hfl. apply rows_rdf11_app; [reflexivity|]. apply appended_triples_rdf11; [exact Hl | exact Hig].
Qed.

Lemma rdf_quads_rows_rdf11 (o : soptions) (s s' : stream) (d : rdata) (evs : list tev) :
  stream_new QuadStream Rdflib o = Ok s -> p_nd (so_params o) = false -> fl_rows (st_flow s) = [] ->
  stmts_lang_ok (rd_stmts d) = true ->
  rdf_quads_stream_frames d s = (s', evs) -> raised evs = None ->
  rows_rdf11 (flat_map f_rows (emitted evs)).
Proof.
  intros Hnew Hnd Hfresh Hl Hrun Hraise.
  assert (Hopts : st_opts (enroll s) = o).
  { unfold enroll. unfold stream_new in Hnew. destruct (negb _); [discriminate|]. unfold bind in Hnew.
    destruct (match so_flow o with Some f => Ok f | None => infer_flow QuadStream o end); [|discriminate].
    destruct (negb _); [discriminate|]. inversion Hnew; subst; reflexivity. }
  rewrite (rdf_quads_as_generic d s) in Hrun by (rewrite Hopts; exact Hnd).
  pose proof (quads_stream_rows _ _ _ _ Hrun Hraise) as Hrows.
  rewrite <- emitted_rows_is_concat, Hrows.
  assert (Hns : ns_phase true (sdata_of d) (enroll s) = (enroll s, Ok tt)) by (apply ns_phase_off; rewrite Hopts; exact Hnd).
  rewrite Hns. cbn [fst].
  assert (Henr : st_enrolled s = false /\ st_integ s = Rdflib).
  { unfold stream_new in Hnew. destruct (negb _); [discriminate|]. unfold bind in Hnew.
    destruct (match so_flow o with Some f => Ok f | None => infer_flow QuadStream o end); [|discriminate].
    destruct (negb _); [discriminate|]. inversion Hnew; subst; cbn. auto. }
  assert (Hig : st_integ (enroll s) = Rdflib /\ fl_rows (st_flow (enroll s)) = [options_row s]).
  { destruct Henr as [He Hi]. unfold enroll. rewrite He. cbn. rewrite Hfresh. auto. }
  destruct Hig as [Hig Hfl]. rewrite Hfl. apply rows_rdf11_app; [reflexivity|]. apply appended_quads_rdf11; [exact Hl | exact Hig].
Qed.

(* ---- Graph.serialize -> bytes -> rdflib parser ---- *)
Theorem rdf_triples_bytes_round_trip (o : soptions) (s s' : stream) (d : rdata) (evs : list tev) (grouped : bool) :
  stream_new TripleStream Rdflib o = Ok s -> cfg_ok o (st_logical s) ->
  p_nd (so_params o) = false -> fl_rows (st_flow s) = [] ->
  rd_kind d <> RDataset -> stmts_rdf11 (rd_stmts d) = true -> stmts_rdflib (rd_stmts d) = true ->
  rdf_triples_stream_frames d s = (s', evs) -> raised evs = None -> Forall small (emitted evs) ->
  let r := parse_stream Rdflib grouped false (write_delimited (emitted evs)) in
  flat_events r = flat_map event_of_triple (rd_stmts d) /\ pr_end r = PEnd /\ length (pr_frames r) = length (emitted evs).
Proof.
  intros Hnew Hcfg Hnd Hfresh Hk H11 Hrd Hrun Hraise Hsmall.
  pose proof (rdf_triples_stream_valid _ _ _ _ _ Hnew Hcfg Hnd Hfresh Hk H11 Hrun Hraise) as Hv.
  rewrite (rdf_triples_as_generic d s Hk) in Hrun.
  cbv zeta. rewrite <- (eview_triples _ Hrd).
  apply (valid_bytes_decode_rdflib (emitted evs) (flat_map event_of_triple (rd_stmts d)) grouped); [exact Hv|exact Hsmall| |apply first_plain_frames; eapply triples_frames_plain; eauto].
  (* the rows: options row, then what the rdflib dispatcher appended *)
  pose proof (triples_stream_rows _ _ _ _ Hrun Hraise) as Hrows.
  rewrite <- emitted_rows_is_concat, Hrows.
  assert (Hopts : st_opts (enroll s) = o).
  { unfold enroll. unfold stream_new in Hnew. destruct (negb _); [discriminate|]. unfold bind in Hnew.
    destruct (match so_flow o with Some f => Ok f | None => infer_flow TripleStream o end); [|discriminate].
    destruct (negb _); [discriminate|]. inversion Hnew; subst; reflexivity. }
  assert (Hns : ns_phase false (sdata_of d) (enroll s) = (enroll s, Ok tt)) by (apply ns_phase_off; rewrite Hopts; exact Hnd).
  rewrite Hns. cbn [fst].
  assert (Henr : st_enrolled s = false /\ st_integ s = Rdflib).
  { unfold stream_new in Hnew. destruct (negb _); [discriminate|]. unfold bind in Hnew.
    destruct (match so_flow o with Some f => Ok f | None => infer_flow TripleStream o end); [|discriminate].
    destruct (negb _); [discriminate|]. inversion Hnew; subst; cbn. auto. }
  assert (Hig : st_integ (enroll s) = Rdflib /\ fl_rows (st_flow (enroll s)) = [options_row s]).
  { destruct Henr as [He Hi]. unfold enroll. rewrite He. cbn. rewrite Hfresh. auto. }
  destruct Hig as [Hig Hfl]. rewrite Hfl. apply rows_rdf11_app; [reflexivity|]. apply appended_triples_rdf11; [apply stmts_rdflib_lang; exact Hrd | exact Hig].
Qed.

Theorem rdf_quads_bytes_round_trip (o : soptions) (s s' : stream) (d : rdata) (evs : list tev) (grouped : bool) :
  stream_new QuadStream Rdflib o = Ok s -> cfg_ok o (st_logical s) ->
  p_nd (so_params o) = false -> fl_rows (st_flow s) = [] ->
  forallb spo_rdf11 (rd_stmts d) = true -> stmts_rdflib (rd_stmts d) = true ->
  rdf_quads_stream_frames d s = (s', evs) -> raised evs = None -> Forall small (emitted evs) ->
  let r := parse_stream Rdflib grouped false (write_delimited (emitted evs)) in
  flat_events r = flat_map event_of_quad (map quad_inv (rd_stmts d)) /\ pr_end r = PEnd /\ length (pr_frames r) = length (emitted evs).
Proof.
  intros Hnew Hcfg Hnd Hfresh H11 Hrd Hrun Hraise Hsmall.
  pose proof (rdf_quads_stream_valid _ _ _ _ _ Hnew Hcfg Hnd Hfresh H11 Hrun Hraise) as Hv.
  assert (Hopts : st_opts (enroll s) = o).
  { unfold enroll. unfold stream_new in Hnew. destruct (negb _); [discriminate|]. unfold bind in Hnew.
    destruct (match so_flow o with Some f => Ok f | None => infer_flow QuadStream o end); [|discriminate].
    destruct (negb _); [discriminate|]. inversion Hnew; subst; reflexivity. }
  rewrite (rdf_quads_as_generic d s) in Hrun by (rewrite Hopts; exact Hnd).
  cbv zeta. rewrite <- (eview_quads _ Hrd).
  apply (valid_bytes_decode_rdflib (emitted evs) (flat_map event_of_quad (map quad_inv (rd_stmts d))) grouped); [exact Hv|exact Hsmall| |apply first_plain_frames; eapply quads_frames_plain; eauto].
  pose proof (quads_stream_rows _ _ _ _ Hrun Hraise) as Hrows.
  rewrite <- emitted_rows_is_concat, Hrows.
  assert (Hns : ns_phase true (sdata_of d) (enroll s) = (enroll s, Ok tt)) by (apply ns_phase_off; rewrite Hopts; exact Hnd).
  rewrite Hns. cbn [fst].
  assert (Henr : st_enrolled s = false /\ st_integ s = Rdflib).
  { unfold stream_new in Hnew. destruct (negb _); [discriminate|]. unfold bind in Hnew.
    destruct (match so_flow o with Some f => Ok f | None => infer_flow QuadStream o end); [|discriminate].
    destruct (negb _); [discriminate|]. inversion Hnew; subst; cbn. auto. }
  assert (Hig : st_integ (enroll s) = Rdflib /\ fl_rows (st_flow (enroll s)) = [options_row s]).
  { destruct Henr as [He Hi]. unfold enroll. rewrite He. cbn. rewrite Hfresh. auto. }
  destruct Hig as [Hig Hfl]. rewrite Hfl. apply rows_rdf11_app; [reflexivity|]. apply appended_quads_rdf11; [apply stmts_rdflib_lang; exact Hrd | exact Hig].
Qed.

(* ---------- GRAPHS: the rows of a whole rdflib GraphStream run over Dataset.graphs() ---------- *)
From PJ.Proofs Require Import EncGraphs.

Lemma appended_triples_rdf11_g stmts : forall s, stmts_rdf11 stmts = true -> stmts_lang_ok stmts = true -> st_integ s = Generic ->
  rows_rdf11 (appended_triples stmts s).
Proof.
  unfold appended_triples. induction stmts as [|st rest IH]; intros s H11 Hl Hig; cbn [appended_all]; [reflexivity|].
  cbn [stmts_rdf11 stmts_lang_ok forallb] in H11, Hl. apply andb_prop in H11. destruct H11 as [H1 H2]. apply andb_prop in Hl. destruct Hl as [Hl1 Hl2].
  destruct (stream_triple st s) as [s1 [fr|e]] eqn:E; [|reflexivity].
  destruct (stream_triple_encode _ _ _ _ E) as [Henc Hig1]. rewrite Hig in Henc. rewrite (encode_triple_agree _ _ _ H1) in Henc.
  apply rows_rdf11_app; [eapply encode_triple_rdf11; eauto | apply IH; [exact H2 | exact Hl2 | congruence]].
Qed.

(* a graph name of an rdflib Dataset as the generic twin sees it *)
Definition gname_ok (g : term) : bool := match g with TIri _ | TBnode _ | TDefault => true | _ => false end.

Lemma graph_start_rows_rdf11 g t t' rows : gname_ok g = true -> encode_graph_start Generic g t = Ok (t', rows) -> rows_rdf11 rows.
Proof.
  unfold encode_graph_start, bind. destruct g as [x|x|l lg d|s p o| |]; cbn [gname_ok encode_graph_term]; try discriminate; intros _.
  - unfold bind. destruct (encode_iri x (start_statement t)) as [[[[t1 r1] pi] ni]|] eqn:E; [|discriminate]. intros H; inversion H; subst.
    apply rows_rdf11_app; [eapply encode_iri_rdf11; eauto | reflexivity].
  - intros H; inversion H; subst. reflexivity.
  - intros H; inversion H; subst. reflexivity.
Qed.

Lemma stream_graph_integ g ts s s' evs ok : stream_graph g ts s = (s', evs, ok) -> st_integ s' = st_integ s.
Proof.
  unfold stream_graph. destruct (st_failed s); [intros H; inversion H; reflexivity|].
  destruct (encode_graph_start (st_integ s) g (st_enc s)) as [[t' rows]|]; [|intros H; inversion H; reflexivity].
  set (s1 := with_enc s t' (st_rep s) (flow_extend (st_flow s) rows)).
  assert (Hgt : forall ts0 s0 s2 evs2 ok2, graph_triples ts0 s0 = (s2, evs2, ok2) -> st_integ s2 = st_integ s0).
  { induction ts0 as [|tr rest IH]; intros s0 s2 evs2 ok2; cbn [graph_triples]; [intros H; inversion H; reflexivity|].
    destruct (stream_triple tr s0) as [sa [fr|e]] eqn:E.
    - destruct (graph_triples rest sa) as [[sb evsb] okb] eqn:E2. intros H; inversion H; subst. rewrite (IH _ _ _ _ E2).
      unfold stream_triple, refuse in E. destruct (st_failed s0); [inversion E|]. destruct (encode_triple _ _ _ _) as [[[? ?] ?]|]; [|inversion E].
      destruct (frame_from_bounds _). inversion E; reflexivity.
    - intros H; inversion H; subst. unfold stream_triple, refuse in E. destruct (st_failed s0); [inversion E; reflexivity|].
      destruct (encode_triple _ _ _ _) as [[[? ?] ?]|]; [destruct (frame_from_bounds _); inversion E | inversion E; reflexivity]. }
  destruct (graph_triples ts s1) as [[s2 evs2] ok2] eqn:Et. pose proof (Hgt _ _ _ _ _ Et) as H2.
  destruct ok2; [destruct (frame_from_bounds _)|]; intros H; inversion H; subst; cbn [with_flow st_integ]; rewrite H2; reflexivity.
Qed.

Lemma graphs_rows_rdf11 gs : forall s, st_integ s = Generic ->
  forallb (fun gts => gname_ok (fst gts) && stmts_rdf11 (snd gts) && stmts_lang_ok (snd gts)) gs = true ->
  rows_rdf11 (graphs_rows gs s).
Proof.
  induction gs as [|[g ts] rest IH]; intros s Hig Hok; cbn [graphs_rows]; [reflexivity|].
  cbn [forallb fst snd] in Hok. apply andb_prop in Hok. destruct Hok as [Hg Hrest]. apply andb_prop in Hg. destruct Hg as [Hg Hl]. apply andb_prop in Hg. destruct Hg as [Hn H11].
  destruct (stream_graph g ts s) as [[s' evs] ok] eqn:E. destruct ok; [|reflexivity].
  apply rows_rdf11_app; [|apply IH; [rewrite (stream_graph_integ _ _ _ _ _ _ E); exact Hig | exact Hrest]].
  unfold graph_rows. rewrite Hig. destruct (encode_graph_start Generic g (st_enc s)) as [[t' rows]|] eqn:Eg; [|reflexivity].
  apply rows_rdf11_app; [eapply graph_start_rows_rdf11; eauto|]. apply rows_rdf11_app; [|reflexivity].
  apply appended_triples_rdf11_g; [exact H11 | exact Hl | exact Hig].
Qed.

Lemma graphs_inv_ok gs :
  forallb (fun gts => rdf_graph_ok (fst gts) && stmts_rdf11 (snd gts) && stmts_lang_ok (snd gts)) gs = true ->
  forallb (fun gts => gname_ok (fst gts) && stmts_rdf11 (snd gts) && stmts_lang_ok (snd gts)) (graphs_inv gs) = true.
Proof.
  unfold graphs_inv. induction gs as [|[g ts] rest IH]; cbn [map forallb fst snd]; [reflexivity|]. intros H.
  apply andb_prop in H. destruct H as [Hg Hrest]. rewrite (IH Hrest), andb_true_r.
  apply andb_prop in Hg. destruct Hg as [Hg Hl]. apply andb_prop in Hg. destruct Hg as [Hn H11]. rewrite H11, Hl, !andb_true_r.
  destruct g as [x|x|l lg d|s p o| |]; cbn in *; try discriminate; [destruct (str_eqb x rdflib_default_graph); reflexivity | reflexivity].
Qed.

Lemma graph_triples_conserves ts : forall sx sy evy, graph_triples ts sx = (sy, evy, true) ->
  emitted_rows evy ++ fl_rows (st_flow sy) = fl_rows (st_flow sx) ++ appended_triples ts sx.
Proof.
  induction ts as [|tr rest IH]; intros sx sy evy; cbn [graph_triples]; unfold appended_triples; cbn [appended_all].
  - intros H; inversion H; subst. cbn. now rewrite app_nil_r.
  - destruct (stream_triple tr sx) as [sa' [fr|e]] eqn:E; [|intros H; inversion H].
    destruct (graph_triples rest sa') as [[sb' evb] okb] eqn:E2. intros H; inversion H; subst.
    specialize (IH _ _ _ E2). unfold appended_triples in IH. rewrite emitted_rows_app, emitted_rows_emit_opt, <- app_assoc, IH.
    unfold stream_triple, refuse, appended_triple in *. destruct (st_failed sx); [inversion E|].
    destruct (encode_triple _ _ _ _) as [[[t2 rp2] rows2]|]; [|inversion E].
    destruct (frame_from_bounds (flow_extend (st_flow sx) rows2)) as [fl2 fr2] eqn:Ef2. inversion E; subst. cbn.
    pose proof (frame_from_bounds_conserves (flow_extend (st_flow sx) rows2)) as Hc2. rewrite Ef2 in Hc2. cbn in Hc2.
    rewrite app_assoc, Hc2. now rewrite <- app_assoc.
Qed.

Lemma stream_graph_conserves g ts sa s1 evs1 : stream_graph g ts sa = (s1, evs1, true) ->
  emitted_rows evs1 ++ fl_rows (st_flow s1) = fl_rows (st_flow sa) ++ graph_rows g ts sa.
Proof.
  intros E. unfold stream_graph, graph_rows in *. destruct (st_failed sa); [inversion E|].
  destruct (encode_graph_start (st_integ sa) g (st_enc sa)) as [[t' rows]|]; [|inversion E].
  set (sx := with_enc sa t' (st_rep sa) (flow_extend (st_flow sa) rows)) in *.
  destruct (graph_triples ts sx) as [[sy evy] oky] eqn:Et. destruct oky; [|inversion E].
  destruct (frame_from_bounds (flow_extend (st_flow sy) [RGraphEnd])) as [fl fr] eqn:Ef. inversion E; subst. cbn.
  rewrite emitted_rows_app, emitted_rows_emit_opt.
  pose proof (frame_from_bounds_conserves (flow_extend (st_flow sy) [RGraphEnd])) as Hc. rewrite Ef in Hc. cbn in Hc.
  rewrite <- app_assoc, Hc. rewrite app_assoc, (graph_triples_conserves _ _ _ _ Et). subst sx. cbn. now rewrite <- !app_assoc.
Qed.

Lemma feed_graphs_generic_conserves gs : forall first sa sb ev, feed_graphs_generic first gs sa = (sb, ev, true) ->
  emitted_rows ev ++ fl_rows (st_flow sb) = fl_rows (st_flow sa) ++ graphs_rows gs sa.
Proof.
  induction gs as [|[g ts] rest IH]; intros first sa sb ev; cbn [feed_graphs_generic graphs_rows].
  - intros H; inversion H; subst. cbn. now rewrite app_nil_r.
  - destruct (stream_graph g ts sa) as [[s1 evs1] ok1] eqn:E. destruct ok1; [|intros H; inversion H].
    destruct (feed_graphs_generic false rest s1) as [[s2' evs2'] ok2] eqn:E2. intros H; inversion H; subst.
    specialize (IH _ _ _ _ E2).
    rewrite !emitted_rows_app, emitted_rows_pulls. cbn [app]. rewrite <- app_assoc, IH.
    rewrite app_assoc, (stream_graph_conserves _ _ _ _ _ E). now rewrite <- app_assoc.
Qed.

Lemma rdf_graphs_rows_rdf11 (o : soptions) (s s' : stream) (d : rdata) (evs : list tev) :
  stream_new GraphStream Rdflib o = Ok s -> cfg_ok o (st_logical s) ->
  p_nd (so_params o) = false -> fl_rows (st_flow s) = [] ->
  forallb (fun gts => rdf_graph_ok (fst gts) && stmts_rdf11 (snd gts) && stmts_lang_ok (snd gts)) (rd_graphs d) = true ->
  rdf_graphs_stream_frames d s = (s', evs) -> raised evs = None ->
  rows_rdf11 (flat_map f_rows (emitted evs)).
Proof.
  intros Hnew Hcfg Hnd Hfresh Hok Hrun Hraise.
  assert (H11 : graphs_rdf11 (rd_graphs d) = true).
  { unfold graphs_rdf11. clear -Hok. induction (rd_graphs d) as [|[g ts] rest IH]; cbn [forallb fst snd] in *; [reflexivity|].
    apply andb_prop in Hok. destruct Hok as [Hg Hrest]. apply andb_prop in Hg. destruct Hg as [Hg _]. apply andb_prop in Hg. destruct Hg as [_ ->]. exact (IH Hrest). }
  destruct (start_of_stream_rdflib _ _ _ Hnew Hcfg) as (sg & Hg & He & Hr & Hf & Hl & Hop & Hrow & Hig).
  assert (Hopts : st_opts (enroll s) = o).
  { unfold enroll. unfold stream_new in Hnew. destruct (negb _); [discriminate|]. unfold bind in Hnew.
    destruct (match so_flow o with Some f => Ok f | None => infer_flow GraphStream o end); [|discriminate].
    destruct (negb _); [discriminate|]. inversion Hnew; subst; reflexivity. }
  assert (Henr : st_enrolled s = false).
  { unfold stream_new in Hnew. destruct (negb _); [discriminate|]. unfold bind in Hnew.
    destruct (match so_flow o with Some f => Ok f | None => infer_flow GraphStream o end); [|discriminate].
    destruct (negb _); [discriminate|]. inversion Hnew; reflexivity. }
  assert (Hflow : fl_rows (st_flow (enroll s)) = [options_row s]).
  { unfold enroll. rewrite Henr. cbn. rewrite Hfresh. reflexivity. }
  assert (Hig' : st_integ (enroll s) = Rdflib) by (unfold enroll; rewrite Henr; cbn; exact Hig).
  unfold rdf_graphs_stream_frames, rdf_ns_phase in Hrun. rewrite Hopts, Hnd in Hrun.
  rewrite <- emitted_rows_is_concat.
  destruct (feed_graphs (rd_graphs d) (enroll s)) as [[s2 evs2] ok] eqn:Efeed. destruct ok.
  - destruct (finish false s2) as [s3 fin] eqn:F. inversion Hrun; subst s' evs; clear Hrun.
    destruct (feed_graphs_twin _ true _ _ _ Hig' H11 Efeed) as (evs' & Hf' & Hev).
    pose proof (feed_graphs_generic_conserves _ _ _ _ _ Hf') as Hcons.
    pose proof (finish_conserves _ _ _ _ F) as H2. pose proof (finish_flushes _ _ _ _ F) as H3.
    rewrite H3, app_nil_r in H2.
    rewrite !emitted_rows_app, H2.
    assert (Hpre : emitted_rows (match rd_kind d with RGen => Pull :: pulls (length (rd_stmts d)) | _ => [] end) = []).
    { destruct (rd_kind d); try reflexivity. apply (emitted_rows_pulls (S (length (rd_stmts d)))). }
    rewrite Hpre. cbn [app]. rewrite <- Hev. cbn [twin st_flow] in Hcons. rewrite Hcons, Hflow.
    apply rows_rdf11_app; [reflexivity|]. apply graphs_rows_rdf11; [reflexivity | apply graphs_inv_ok; exact Hok].
  - inversion Hrun; subst. exfalso. rewrite raised_app in Hraise.
    assert (Hpre : raised (match rd_kind d with RGen => Pull :: pulls (length (rd_stmts d)) | _ => [] end) = None).
    { destruct (rd_kind d); try reflexivity. apply (pulls_raised (S (length (rd_stmts d)))). }
    rewrite Hpre in Hraise. eapply feed_graphs_not_ok; eauto.
Qed.

(* what a GRAPHS stream of an rdflib Dataset denotes is its own view where names and terms are ones rdflib can hold *)
Definition graphs_rdflib (gs : list (term * list (list term))) : bool :=
  forallb (fun gts => term_rdflib (fst gts) && stmts_rdflib (snd gts)) gs.

Lemma eview_graphs gs : graphs_rdflib gs = true ->
  map eview (flat_map run_events (graphs_inv gs)) = flat_map run_events (graphs_inv gs).
Proof.
  unfold graphs_rdflib, graphs_inv. induction gs as [|[g ts] rest IH]; cbn [forallb map flat_map fst snd]; [reflexivity|]. intros H.
  apply andb_prop in H. destruct H as [Hg Hrest]. apply andb_prop in Hg. destruct Hg as [Hn Hts].
  rewrite map_app, (IH Hrest). f_equal. unfold run_events. cbn [fst snd].
  pose proof (term_rdflib_gcorr _ Hn) as Hn'. clear -Hts Hn'. unfold stmts_rdflib in Hts.
  induction ts as [|tr ts IHt]; cbn [flat_map forallb] in *; [reflexivity|].
  apply andb_prop in Hts. destruct Hts as [Htr Hts]. rewrite map_app, (IHt Hts). f_equal.
  destruct tr as [|s [|p [|o r]]]; try reflexivity. cbn [forallb] in Htr.
  apply andb_prop in Htr. destruct Htr as [Hs Htr]. apply andb_prop in Htr. destruct Htr as [Hp Htr]. apply andb_prop in Htr. destruct Htr as [Ho _].
  cbn [quad_event map eview]. now rewrite !rview_norm.
Qed.

Lemma graphs_rdflib_lang gs : graphs_rdf11 gs = true -> graphs_rdflib gs = true -> forallb (fun gts => rdf_graph_ok (fst gts)) gs = true ->
  forallb (fun gts => rdf_graph_ok (fst gts) && stmts_rdf11 (snd gts) && stmts_lang_ok (snd gts)) gs = true.
Proof.
  unfold graphs_rdf11, graphs_rdflib. induction gs as [|[g ts] rest IH]; cbn [forallb fst snd]; [reflexivity|]. intros H1 H2 H3.
  apply andb_prop in H1. destruct H1 as [A1 B1]. apply andb_prop in H2. destruct H2 as [A2 B2]. apply andb_prop in H3. destruct H3 as [A3 B3].
  apply andb_prop in A2. destruct A2 as [_ A2]. rewrite A3, A1, (stmts_rdflib_lang _ A2), (IH B1 B2 B3). reflexivity.
Qed.

(* ---------- with namespace declarations: the rows of a whole rdflib triples run, whatever the option says ---------- *)
From PJ.Proofs Require Import EncRdflibNs.

Lemma declare_all_flow_rdf11 ns : forall s, rows_rdf11 (fl_rows (st_flow s)) ->
  rows_rdf11 (fl_rows (st_flow (fst (declare_all ns s)))) /\ st_integ (fst (declare_all ns s)) = st_integ s.
Proof.
  induction ns as [|[name iri] ns IH]; intros s Hf; cbn [declare_all]; [split; [exact Hf | reflexivity]|].
  unfold namespace_declaration. destruct (st_failed s); [split; [exact Hf | reflexivity]|].
  destruct (encode_namespace_declaration name iri (st_enc s)) as [[t' rows]|] eqn:E; [|split; [exact Hf | reflexivity]].
  set (s1 := with_enc s t' (st_rep s) (flow_extend (st_flow s) rows)).
  assert (Hf1 : rows_rdf11 (fl_rows (st_flow s1))).
  { subst s1. cbn [with_enc st_flow]. unfold flow_extend, flow_set_rows. destruct (st_flow s); cbn in *. apply rows_rdf11_app; [exact Hf|].
    unfold encode_namespace_declaration, bind in E. destruct (encode_iri iri (start_statement (st_enc s))) as [[[[t1 r1] pi] ni]|] eqn:Ei; [|discriminate].
    inversion E; subst. apply rows_rdf11_app; [eapply encode_iri_rdf11; eauto | reflexivity]. }
  destruct (IH s1 Hf1) as [H1 H2]. split; [exact H1 | rewrite H2; reflexivity].
Qed.

Lemma rdf_triples_rows_rdf11_ns (o : soptions) (s s' : stream) (d : rdata) (evs : list tev) :
  stream_new TripleStream Rdflib o = Ok s -> fl_rows (st_flow s) = [] ->
  rd_kind d <> RDataset -> stmts_lang_ok (rd_stmts d) = true ->
  rdf_triples_stream_frames d s = (s', evs) -> raised evs = None ->
  rows_rdf11 (flat_map f_rows (emitted evs)).
Proof.
  intros Hnew Hfresh Hk Hl Hrun Hraise.
  rewrite (rdf_triples_as_generic d s Hk) in Hrun.
  pose proof (triples_stream_rows _ _ _ _ Hrun Hraise) as Hrows.
  rewrite <- emitted_rows_is_concat, Hrows.
  assert (Henr : st_enrolled s = false /\ st_integ s = Rdflib).
  { unfold stream_new in Hnew. destruct (negb _); [discriminate|]. unfold bind in Hnew.
    destruct (match so_flow o with Some f => Ok f | None => infer_flow TripleStream o end); [|discriminate].
    destruct (negb _); [discriminate|]. inversion Hnew; subst; cbn. auto. }
  assert (Hig : st_integ (enroll s) = Rdflib /\ fl_rows (st_flow (enroll s)) = [options_row s]).
  { destruct Henr as [He Hi]. unfold enroll. rewrite He. cbn. rewrite Hfresh. auto. }
  destruct Hig as [Hig Hfl].
  assert (Hns : rows_rdf11 (fl_rows (st_flow (fst (ns_phase false (sdata_of d) (enroll s))))) /\ st_integ (fst (ns_phase false (sdata_of d) (enroll s))) = Rdflib).
  { unfold ns_phase. destruct (p_nd _); [|cbn [fst]; rewrite Hfl; split; [reflexivity | exact Hig]].
    destruct (d_is_sink (sdata_of d)); [|cbn [fst]; rewrite Hfl; split; [reflexivity | exact Hig]].
    destruct (declare_all_flow_rdf11 (d_namespaces (sdata_of d)) (enroll s) ltac:(rewrite Hfl; reflexivity)) as [H1 H2]. split; [exact H1 | rewrite H2; exact Hig]. }
  destruct Hns as [Hn1 Hn2]. apply rows_rdf11_app; [exact Hn1|]. apply appended_triples_rdf11; [exact Hl | exact Hn2].
Qed.
