(* EncTerm.v -- one term of a statement: the entry rows the writer emits are accepted by the referee
   and keep the three tables mirrored; the wire term denotes the (normalised) API term relative
   to the writer's tables; keys touched so far in the statement keep their indices. *)
From Coq Require Import Arith Lia.
From PJ.Model Require Import Base Lookup Terms Encoder Spec.
From PJ.Proofs Require Import Mirror MirrorRun Recency DecoderSound EncLookup Den EncoderProofs.

(* ---- running rows through the referee ---- *)
Fixpoint steps (rows : list row) (ss : sstate) : sres (sstate * list event) :=
  match rows with
  | [] => SOk (ss, [])
  | r :: rest =>
    match step r ss with
    | SOk (s1, e1) => match steps rest s1 with SOk (s2, e2) => SOk (s2, e1 ++ e2) | SBad c => SBad c end
    | SBad c => SBad c
    end
  end.

Lemma steps_app r1 r2 ss :
  steps (r1 ++ r2) ss =
  match steps r1 ss with
  | SOk (s1, e1) => match steps r2 s1 with SOk (s2, e2) => SOk (s2, e1 ++ e2) | SBad c => SBad c end
  | SBad c => SBad c
  end.
Proof.
  revert ss; induction r1 as [|r r1 IH]; intros ss; cbn [app steps].
  - destruct (steps r2 ss) as [[s2 e2]|]; reflexivity.
  - destruct (step r ss) as [[s1 e1]|]; [|reflexivity]. rewrite IH.
    destruct (steps r1 s1) as [[s1' e1']|]; [|reflexivity].
    destruct (steps r2 s1') as [[s2 e2]|]; [|reflexivity]. now rewrite app_assoc.
Qed.

(* ---- views of the writer ---- *)
Definition fNt (t : tenc) (k : str) := sfind k (l_data (e_lookup (t_names t))).
Definition fPt (t : tenc) (k : str) := sfind k (l_data (e_lookup (t_prefixes t))).
Definition fDt (t : tenc) (k : str) := sfind k (l_data (e_lookup (t_datatypes t))).
Definition KNt (t : tenc) (k : str) := In k (t_nkeys t).
Definition KPt (t : tenc) (k : str) := In k (t_pkeys t).
Definition KDt (t : tenc) (k : str) := In k (t_dkeys t).
Definition Lt (t : tenc) : N * N := (e_last_reused (t_prefixes t), e_last_reused (t_names t)).
Notation DenT t := (Den (fNt t) (fPt t) (fDt t) (KNt t) (KPt t) (KDt t)).

(* tables of writer and referee mirrored, per-statement bookkeeping in place *)
Record J (t : tenc) (ss : sstate) : Prop := {
  j_n : InvT (t_names t) (s_names ss) (s_la_n ss);
  j_wn : Wk (t_names t) (t_nkeys t);
  j_p : (lmax (t_prefixes t) = 0 /\ e_last_reused (t_prefixes t) = 0 /\ l_data (e_lookup (t_prefixes t)) = []) \/
        (InvT (t_prefixes t) (s_prefixes ss) (s_la_p ss) /\ Wk (t_prefixes t) (t_pkeys t));
  j_d : (lmax (t_datatypes t) = 0 /\ l_data (e_lookup (t_datatypes t)) = []) \/
        (InvT (t_datatypes t) (s_datatypes ss) (s_la_d ss) /\ Wk (t_datatypes t) (t_dkeys t)) }.

(* entry rows change only tables and last-assigned ids of the referee *)
Definition nontab_eq (x x' : sstate) : Prop :=
  s_opts x' = s_opts x /\ s_last_pid x' = s_last_pid x /\ s_last_nid x' = s_last_nid x /\
  s_ps x' = s_ps x /\ s_pp x' = s_pp x /\ s_po x' = s_po x /\ s_pg x' = s_pg x /\ s_open x' = s_open x.
Lemma nontab_refl x : nontab_eq x x. Proof. unfold nontab_eq; repeat split. Qed.
Lemma nontab_trans x y z : nontab_eq x y -> nontab_eq y z -> nontab_eq x z.
Proof. unfold nontab_eq; intuition congruence. Qed.

(* keys touched before keep their index; the touched sets only grow *)
Record Stable (t t' : tenc) : Prop := {
  st_n : forall k, KNt t k -> fNt t' k = fNt t k; st_kn : forall k, KNt t k -> KNt t' k;
  st_p : forall k, KPt t k -> fPt t' k = fPt t k; st_kp : forall k, KPt t k -> KPt t' k;
  st_d : forall k, KDt t k -> fDt t' k = fDt t k; st_kd : forall k, KDt t k -> KDt t' k;
  st_maxn : lmax (t_names t') = lmax (t_names t); st_maxp : lmax (t_prefixes t') = lmax (t_prefixes t);
  st_maxd : lmax (t_datatypes t') = lmax (t_datatypes t) }.
Lemma stable_refl t : Stable t t. Proof. constructor; auto. Qed.
Lemma stable_trans a b c : Stable a b -> Stable b c -> Stable a c.
Proof.
  intros [A1 A2 A3 A4 A5 A6 A7 A8 A9] [B1 B2 B3 B4 B5 B6 B7 B8 B9]. constructor; intros; try congruence; auto.
  - rewrite B1; auto.
  - rewrite B3; auto.
  - rewrite B5; auto.
Qed.

Lemma DenT_stable t t' L w tm L' : Stable t t' -> DenT t L w tm L' -> DenT t' L w tm L'.
Proof.
  intros [A1 A2 A3 A4 A5 A6 _ _ _]. apply Den_mono; auto.
  - intros k i Hk Hf. rewrite A1; assumption.
  - intros k i Hk Hf. rewrite A3; assumption.
  - intros k i Hk Hf. rewrite A5; assumption.
Qed.

Lemma nontab_upd_names ss T la : nontab_eq ss (upd_names ss T la).
Proof. unfold nontab_eq; cbn; repeat split. Qed.
Lemma nontab_upd_prefixes ss T la : nontab_eq ss (upd_prefixes ss T la).
Proof. unfold nontab_eq; cbn; repeat split. Qed.
Lemma nontab_upd_datatypes ss T la : nontab_eq ss (upd_datatypes ss T la).
Proof. unfold nontab_eq; cbn; repeat split. Qed.

Lemma steps_name_entry ss id k T' la' :
  entry id k (s_names ss) (s_la_n ss) = SOk (T', la') -> steps [RName id k] ss = SOk (upd_names ss T' la', []).
Proof. intros H. cbn [steps step]. unfold sbind. rewrite H. reflexivity. Qed.
Lemma steps_prefix_entry ss id k T' la' :
  entry id k (s_prefixes ss) (s_la_p ss) = SOk (T', la') -> steps [RPrefix id k] ss = SOk (upd_prefixes ss T' la', []).
Proof. intros H. cbn [steps step]. unfold sbind. rewrite H. reflexivity. Qed.
Lemma steps_datatype_entry ss id k T' la' :
  entry id k (s_datatypes ss) (s_la_d ss) = SOk (T', la') -> steps [RDatatype id k] ss = SOk (upd_datatypes ss T' la', []).
Proof. intros H. cbn [steps step]. unfold sbind. rewrite H. reflexivity. Qed.

(* ---- one IRI ---- *)
Definition set_names (t : tenc) (e : slenc) (keys : list str) : tenc :=
  {| t_names := e; t_prefixes := t_prefixes t; t_datatypes := t_datatypes t; t_nkeys := keys; t_pkeys := t_pkeys t; t_dkeys := t_dkeys t |}.

Theorem encode_iri_valid (iri : str) (t t' : tenc) (rows : list row) (p n : N) (ss : sstate) :
  J t ss -> encode_iri iri t = Ok (t', rows, p, n) ->
  exists ss1, steps rows ss = SOk (ss1, []) /\ J t' ss1 /\ nontab_eq ss ss1 /\
              DenT t' (Lt t) (WIri p n) (TIri iri) (Lt t') /\ Stable t t'.
Proof.
  intros [Jn Jwn Jp Jd]. unfold encode_iri.
  pose proof (split_iri_app iri) as Hsplit. destruct (split_iri iri) as [prefix name0].
  unfold bind.
  (* prefix entry *)
  destruct (lmax (t_prefixes t) =? 0) eqn:Ep0.
  - (* prefix table disabled: the whole IRI is the name *)
    apply N.eqb_eq in Ep0. destruct Jp as [[_ [Hlr0 Hemp0]]|[Hinv _]]; [|destruct Hinv as [[Hpos _ _ _ _ _ _ _ _ _] _]; unfold lmax in Ep0; cbn in Hpos; lia].
    destruct (entry_index (t_names t) (t_nkeys t) iri) as [[[nms nkeys] ne]|e] eqn:En; [|discriminate].
    destruct (entry_index_spec _ _ _ _ _ _ _ _ Jn Jwn En) as (Hent & Wn1 & Hkeys & Hst & Hmax & Hlr).
    unfold encode_prefix_term_index. replace (l_max (e_lookup (t_prefixes t)) =? 0) with true by (symmetry; apply N.eqb_eq; exact Ep0).
    cbn [lift bind].
    destruct (encode_name_term_index str_eqb iri nms) as [[nms2 nidx]|] eqn:Et; [|discriminate]. cbn [lift].
    intros H; inversion H; subst t' rows p n; clear H.
    unfold encode_name_term_index in Et.
    destruct (encode_term_index str_eqb iri nms) as [[nms2' cur]|] eqn:Eti; [|discriminate]. inversion Et; subst nms2' nidx; clear Et.
    assert (Hin : In iri nkeys) by (rewrite Hkeys; apply set_add_spec; now left).
    (* the referee accepts the name entry row, if any *)
    assert (Hrows : exists ss1, steps (match ne with Some id => [RName id iri] | None => [] end) ss = SOk (ss1, []) /\
                     InvT nms (s_names ss1) (s_la_n ss1) /\ nontab_eq ss ss1 /\
                     s_prefixes ss1 = s_prefixes ss /\ s_la_p ss1 = s_la_p ss /\ s_datatypes ss1 = s_datatypes ss /\ s_la_d ss1 = s_la_d ss).
    { destruct ne as [id|].
      - destruct Hent as (T' & la' & He & Hi'). exists (upd_names ss T' la').
        split; [now apply steps_name_entry|]. split; [exact Hi'|]. split; [apply nontab_upd_names|]. cbn. auto.
      - exists ss. split; [reflexivity|]. split; [exact Hent|]. split; [apply nontab_refl|]. auto. }
    destruct Hrows as (ss1 & Hsteps & Hinv1 & Hnt & Hp1 & Hlp1 & Hd1 & Hld1).
    destruct (term_index_spec _ _ _ _ _ _ _ Hinv1 Wn1 Hin Eti) as (Hinv2 & Wn2 & Hfind & Hfindall & Hmax2 & Hlr2 & Hla2).
    exists ss1. cbn [app]. split; [exact Hsteps|]. split; [|split; [exact Hnt|split]].
    + refine {| j_n := _; j_wn := _; j_p := _; j_d := _ |}; cbn.
      * exact Hinv2.
      * exact Wn2.
      * left. split; [exact Ep0|split; [exact Hlr0|exact Hemp0]].
      * destruct Jd as [Jd|[Jd1 Jd2]]; [now left|right]. rewrite Hd1, Hld1. auto.
    + (* denotation: prefix part empty, name = whole IRI *)
      unfold Lt; cbn. rewrite Hlr0, Hlr2.
      apply (DIri _ _ _ _ _ _ 0 (e_last_reused (t_names t)) 0 _ [] iri 0 cur).
      * rewrite Hlr. destruct (cur =? e_last_reused (t_names t) + 1) eqn:E; [apply N.eqb_eq in E; cbn; lia|].
        destruct (cur =? 0) eqn:E0; [|reflexivity]. apply N.eqb_eq in E0.
        destruct (live_entry_resolves _ _ _ _ _ Hinv1 Hfind) as [_ Hpos]. lia.
      * unfold KNt; cbn. exact Hin.
      * unfold fNt; cbn. rewrite Hfindall. exact Hfind.
      * reflexivity.
      * left. split; reflexivity.
    + refine {| st_n := _; st_kn := _; st_p := _; st_kp := _; st_d := _; st_kd := _; st_maxn := _; st_maxp := _; st_maxd := _ |};
        unfold KNt, KPt, KDt, fNt, fPt, fDt; cbn.
      * intros k Hk. rewrite Hfindall. now apply Hst.
      * intros k Hk. rewrite Hkeys. apply set_add_spec. now right.
      * reflexivity.
      * auto.
      * reflexivity.
      * auto.
      * congruence.
      * reflexivity.
      * reflexivity.
  - (* prefix table enabled *)
    apply N.eqb_neq in Ep0. destruct Jp as [[Hz _]|[Jp Jwp]]; [contradiction|].
    destruct (entry_index (t_prefixes t) (t_pkeys t) prefix) as [[[pfx pkeys] pe]|e] eqn:Epe; [|discriminate]. cbn [bind].
    destruct (entry_index_spec _ _ _ _ _ _ _ _ Jp Jwp Epe) as (Hentp & Wp1 & Hpkeys & Hstp & Hmaxp & Hlrp).
    destruct (entry_index (t_names t) (t_nkeys t) name0) as [[[nms nkeys] ne]|e] eqn:En; [|discriminate].
    destruct (entry_index_spec _ _ _ _ _ _ _ _ Jn Jwn En) as (Hentn & Wn1 & Hnkeys & Hstn & Hmaxn & Hlrn).
    destruct (encode_prefix_term_index str_eqb (is_nil prefix) prefix pfx) as [[pfx2 pidx]|] eqn:Etp; [|discriminate]. cbn [lift].
    destruct (encode_name_term_index str_eqb name0 nms) as [[nms2 nidx]|] eqn:Etn; [|discriminate]. cbn [lift].
    intros H; inversion H; subst t' rows p n; clear H.
    unfold encode_name_term_index in Etn.
    destruct (encode_term_index str_eqb name0 nms) as [[nms2' curn]|] eqn:Etin; [|discriminate]. inversion Etn; subst nms2' nidx; clear Etn.
    assert (Hinn : In name0 nkeys) by (rewrite Hnkeys; apply set_add_spec; now left).
    assert (Hinp : In prefix pkeys) by (rewrite Hpkeys; apply set_add_spec; now left).
    (* the referee accepts the entry rows *)
    assert (Hrows : exists ss1,
               steps ((match pe with Some id => [RPrefix id prefix] | None => [] end) ++
                      (match ne with Some id => [RName id name0] | None => [] end)) ss = SOk (ss1, []) /\
               InvT pfx (s_prefixes ss1) (s_la_p ss1) /\ InvT nms (s_names ss1) (s_la_n ss1) /\ nontab_eq ss ss1 /\
               s_datatypes ss1 = s_datatypes ss /\ s_la_d ss1 = s_la_d ss).
    { rewrite steps_app.
      assert (H1 : exists sa, steps (match pe with Some id => [RPrefix id prefix] | None => [] end) ss = SOk (sa, []) /\
                   InvT pfx (s_prefixes sa) (s_la_p sa) /\ nontab_eq ss sa /\ s_names sa = s_names ss /\ s_la_n sa = s_la_n ss /\
                   s_datatypes sa = s_datatypes ss /\ s_la_d sa = s_la_d ss).
      { destruct pe as [id|].
        - destruct Hentp as (T' & la' & He & Hi'). exists (upd_prefixes ss T' la').
          split; [now apply steps_prefix_entry|]. split; [exact Hi'|]. split; [apply nontab_upd_prefixes|]. cbn. auto.
        - exists ss. split; [reflexivity|]. split; [exact Hentp|]. split; [apply nontab_refl|]. auto. }
      destruct H1 as (sa & Hsa & Hia & Hna & Hnsa & Hlnsa & Hdsa & Hldsa). rewrite Hsa.
      assert (H2 : exists sb, steps (match ne with Some id => [RName id name0] | None => [] end) sa = SOk (sb, []) /\
                   InvT nms (s_names sb) (s_la_n sb) /\ nontab_eq sa sb /\ s_prefixes sb = s_prefixes sa /\ s_la_p sb = s_la_p sa /\
                   s_datatypes sb = s_datatypes sa /\ s_la_d sb = s_la_d sa).
      { destruct ne as [id|].
        - destruct Hentn as (T' & la' & He & Hi'). rewrite <- Hnsa, <- Hlnsa in He. exists (upd_names sa T' la').
          split; [now apply steps_name_entry|]. split; [exact Hi'|]. split; [apply nontab_upd_names|]. cbn. auto.
        - exists sa. split; [reflexivity|]. split; [rewrite Hnsa, Hlnsa; exact Hentn|]. split; [apply nontab_refl|]. auto. }
      destruct H2 as (sb & Hsb & Hib & Hnb & Hpsb & Hlpsb & Hdsb & Hldsb). rewrite Hsb. cbn [app].
      exists sb. split; [reflexivity|]. rewrite Hpsb, Hlpsb. split; [exact Hia|]. split; [exact Hib|].
      split; [eapply nontab_trans; eassumption|]. split; congruence. }
    destruct Hrows as (ss1 & Hsteps & Hinvp1 & Hinvn1 & Hnt & Hd1 & Hld1).
    destruct (term_index_spec _ _ _ _ _ _ _ Hinvn1 Wn1 Hinn Etin) as (Hinvn2 & Wn2 & Hfindn & Hfindalln & Hmaxn2 & Hlrn2 & Hlan2).
    (* the prefix term index *)
    unfold encode_prefix_term_index in Etp.
    assert (Hmaxp' : (l_max (e_lookup pfx) =? 0) = false) by (apply N.eqb_neq; unfold lmax in *; congruence).
    rewrite Hmaxp' in Etp.
    exists ss1. split; [exact Hsteps|].
    destruct (is_nil prefix && (e_last_reused pfx =? 0)) eqn:Eemp.
    + (* empty prefix before any prefix was used *)
      inversion Etp; subst pfx2 pidx; clear Etp.
      apply andb_prop in Eemp. destruct Eemp as [Hnil Hz]. apply N.eqb_eq in Hz.
      assert (prefix = []) by (destruct prefix; [reflexivity|discriminate]). subst prefix.
      split; [|split; [exact Hnt|split]].
      * refine {| j_n := _; j_wn := _; j_p := _; j_d := _ |}; cbn.
        -- exact Hinvn2.
        -- exact Wn2.
        -- right. split; [exact Hinvp1|exact Wp1].
        -- destruct Jd as [Jd|[Jd1 Jd2]]; [now left|right]. rewrite Hd1, Hld1. auto.
      * unfold Lt; cbn. rewrite <- Hsplit. rewrite Hlrn2. rewrite Hz. rewrite Hlrp in Hz. rewrite Hz.
        apply (DIri _ _ _ _ _ _ 0 (e_last_reused (t_names t)) 0 _ [] name0 0 curn).
        -- rewrite Hlrn. destruct (curn =? e_last_reused (t_names t) + 1) eqn:E; [apply N.eqb_eq in E; cbn; lia|].
           destruct (curn =? 0) eqn:E0; [|reflexivity]. apply N.eqb_eq in E0.
           destruct (live_entry_resolves _ _ _ _ _ Hinvn1 Hfindn) as [_ Hpos]. lia.
        -- unfold KNt; cbn. exact Hinn.
        -- unfold fNt; cbn. rewrite Hfindalln. exact Hfindn.
        -- cbn. congruence.
        -- left. split; [congruence|reflexivity].
      * refine {| st_n := _; st_kn := _; st_p := _; st_kp := _; st_d := _; st_kd := _; st_maxn := _; st_maxp := _; st_maxd := _ |};
          unfold KNt, KPt, KDt, fNt, fPt, fDt; cbn.
        -- intros k Hk. rewrite Hfindalln. now apply Hstn.
        -- intros k Hk. rewrite Hnkeys. apply set_add_spec. now right.
        -- intros k Hk. now apply Hstp.
        -- intros k Hk. rewrite Hpkeys. apply set_add_spec. now right.
        -- reflexivity.
        -- auto.
        -- congruence.
        -- exact Hmaxp.
        -- reflexivity.
    + destruct (encode_term_index str_eqb prefix pfx) as [[pfx2' curp]|] eqn:Etip; [|discriminate].
      inversion Etp; subst pfx2' pidx; clear Etp.
      destruct (term_index_spec _ _ _ _ _ _ _ Hinvp1 Wp1 Hinp Etip) as (Hinvp2 & Wp2 & Hfindp & Hfindallp & Hmaxp2 & Hlrp2 & Hlap2).
      destruct (live_entry_resolves _ _ _ _ _ Hinvp1 Hfindp) as [_ Hposp].
      split; [|split; [exact Hnt|split]].
      * refine {| j_n := _; j_wn := _; j_p := _; j_d := _ |}; cbn.
        -- exact Hinvn2.
        -- exact Wn2.
        -- right. split; [exact Hinvp2|exact Wp2].
        -- destruct Jd as [Jd|[Jd1 Jd2]]; [now left|right]. rewrite Hd1, Hld1. auto.
      * unfold Lt; cbn. rewrite <- Hsplit. rewrite Hlrp2, Hlrn2.
        apply (DIri _ _ _ _ _ _ (e_last_reused (t_prefixes t)) (e_last_reused (t_names t)) _ _ prefix name0 curp curn).
        -- rewrite Hlrn. destruct (curn =? e_last_reused (t_names t) + 1) eqn:E; [apply N.eqb_eq in E; cbn; lia|].
           destruct (curn =? 0) eqn:E0; [|reflexivity]. apply N.eqb_eq in E0.
           destruct (live_entry_resolves _ _ _ _ _ Hinvn1 Hfindn) as [_ Hpos]. lia.
        -- unfold KNt; cbn. exact Hinn.
        -- unfold fNt; cbn. rewrite Hfindalln. exact Hfindn.
        -- rewrite Hlrp. destruct (e_last_reused (t_prefixes t) =? 0) eqn:Ez.
           ++ destruct (curp =? 0) eqn:E0; [apply N.eqb_eq in E0; lia|reflexivity].
           ++ destruct (curp =? e_last_reused (t_prefixes t)) eqn:Ec; [apply N.eqb_eq in Ec; cbn; congruence|].
              destruct (curp =? 0) eqn:E0; [apply N.eqb_eq in E0; lia|reflexivity].
        -- right. split; [unfold KPt; cbn; exact Hinp|]. unfold fPt; cbn. rewrite Hfindallp. exact Hfindp.
      * refine {| st_n := _; st_kn := _; st_p := _; st_kp := _; st_d := _; st_kd := _; st_maxn := _; st_maxp := _; st_maxd := _ |};
          unfold KNt, KPt, KDt, fNt, fPt, fDt; cbn.
        -- intros k Hk. rewrite Hfindalln. now apply Hstn.
        -- intros k Hk. rewrite Hnkeys. apply set_add_spec. now right.
        -- intros k Hk. rewrite Hfindallp. now apply Hstp.
        -- intros k Hk. rewrite Hpkeys. apply set_add_spec. now right.
        -- reflexivity.
        -- auto.
        -- congruence.
        -- congruence.
        -- reflexivity.
Qed.

(* ---- one literal ---- *)
Theorem encode_literal_valid (lex : str) (lang dt : option str) (t t' : tenc) (rows : list row) (w : wterm) (ss : sstate) :
  J t ss -> encode_literal lex lang dt t = Ok (t', rows, w) ->
  exists ss1, steps rows ss = SOk (ss1, []) /\ J t' ss1 /\ nontab_eq ss ss1 /\
              DenT t' (Lt t) w (norm (TLit lex lang dt)) (Lt t') /\ Stable t t' /\ w <> WDefault.
Proof.
  intros HJ. pose proof HJ as [Jn Jwn Jp Jd]. unfold encode_literal, bind. cbn [norm].
  destruct (truthy dt) as [d|] eqn:Edt.
  - destruct (str_eqb d xsd_string) eqn:Exs.
    + (* xsd:string: written as a plain or language-tagged literal *)
      cbn. intros H; inversion H; subst t' rows w; clear H.
      exists ss. split; [reflexivity|]. split; [exact HJ|]. split; [apply nontab_refl|]. split; [|split; [apply stable_refl|discriminate]].
      destruct (truthy lang) as [l|] eqn:El.
      * apply DLitLang. unfold truthy in El. destruct lang as [l0|]; [|discriminate]. destruct (is_nil l0) eqn:E; [discriminate|]. inversion El; subst. exact E.
      * apply DLitPlain.
    + destruct (lmax (t_datatypes t) =? 0) eqn:Ed0; [discriminate|]. apply N.eqb_neq in Ed0.
      destruct Jd as [[Hz _]|[Jd Jwd]]; [contradiction|].
      destruct (entry_index (t_datatypes t) (t_dkeys t) d) as [[[dts dkeys] oe]|e] eqn:Ee; [|discriminate]. cbn [bind].
      destruct (entry_index_spec _ _ _ _ _ _ _ _ Jd Jwd Ee) as (Hent & Wd1 & Hkeys & Hst & Hmax & Hlr).
      destruct (encode_datatype_term_index str_eqb d dts) as [[dts2 idx]|] eqn:Et; [|discriminate]. cbn [lift].
      intros H.
      unfold encode_datatype_term_index in Et.
      assert (Hmax' : (l_max (e_lookup dts) =? 0) = false) by (apply N.eqb_neq; unfold lmax in *; congruence).
      rewrite Hmax' in Et.
      assert (Hin : In d dkeys) by (rewrite Hkeys; apply set_add_spec; now left).
      assert (Hrows : exists ss1, steps (match oe with Some id => [RDatatype id d] | None => [] end) ss = SOk (ss1, []) /\
                       InvT dts (s_datatypes ss1) (s_la_d ss1) /\ nontab_eq ss ss1 /\
                       s_names ss1 = s_names ss /\ s_la_n ss1 = s_la_n ss /\ s_prefixes ss1 = s_prefixes ss /\ s_la_p ss1 = s_la_p ss).
      { destruct oe as [id|].
        - destruct Hent as (T' & la' & He & Hi'). exists (upd_datatypes ss T' la').
          split; [now apply steps_datatype_entry|]. split; [exact Hi'|]. split; [apply nontab_upd_datatypes|]. cbn. auto.
        - exists ss. split; [reflexivity|]. split; [exact Hent|]. split; [apply nontab_refl|]. auto. }
      destruct Hrows as (ss1 & Hsteps & Hinv1 & Hnt & Hn1 & Hln1 & Hp1 & Hlp1).
      destruct (term_index_spec _ _ _ _ _ _ _ Hinv1 Wd1 Hin Et) as (Hinv2 & Wd2 & Hfind & Hfindall & Hmax2 & Hlr2 & Hla2).
      destruct (live_entry_resolves _ _ _ _ _ Hinv1 Hfind) as [_ Hpos].
      assert (Hnz : (idx =? 0) = false) by (apply N.eqb_neq; lia).
      rewrite Hnz in H. cbn [negb] in H. injection H as Ht' Hrows' Hw. subst t' rows w.
      exists ss1. split; [exact Hsteps|]. split; [|split; [exact Hnt|split; [|split; [|discriminate]]]].
      * refine {| j_n := _; j_wn := _; j_p := _; j_d := _ |}; cbn.
        -- rewrite Hn1, Hln1. exact Jn.
        -- exact Jwn.
        -- destruct Jp as [Jp|[Jp1 Jp2]]; [now left|right]. rewrite Hp1, Hlp1. auto.
        -- right. split; [exact Hinv2|exact Wd2].
      * unfold Lt; cbn. apply DLitDt; [lia|unfold KDt; cbn; exact Hin|unfold fDt; cbn; rewrite Hfindall; exact Hfind].
      * refine {| st_n := _; st_kn := _; st_p := _; st_kp := _; st_d := _; st_kd := _; st_maxn := _; st_maxp := _; st_maxd := _ |};
          unfold KNt, KPt, KDt, fNt, fPt, fDt; cbn.
        -- reflexivity.
        -- auto.
        -- reflexivity.
        -- auto.
        -- intros k Hk. rewrite Hfindall. now apply Hst.
        -- intros k Hk. rewrite Hkeys. apply set_add_spec. now right.
        -- reflexivity.
        -- reflexivity.
        -- congruence.
  - cbn. intros H; inversion H; subst t' rows w; clear H.
    exists ss. split; [reflexivity|]. split; [exact HJ|]. split; [apply nontab_refl|]. split; [|split; [apply stable_refl|discriminate]].
    destruct (truthy lang) as [l|] eqn:El.
    + apply DLitLang. unfold truthy in El. destruct lang as [l0|]; [|discriminate]. destruct (is_nil l0) eqn:E; [discriminate|]. inversion El; subst. exact E.
    + apply DLitPlain.
Qed.

(* ---- any term in an s/p/o position (generic integration: quoted triples included) ---- *)
Theorem encode_spo_term_valid (tm : term) : forall (t t' : tenc) (rows : list row) (w : wterm) (ss : sstate),
  J t ss -> encode_spo_term Generic tm t = Ok (t', rows, w) ->
  exists ss1, steps rows ss = SOk (ss1, []) /\ J t' ss1 /\ nontab_eq ss ss1 /\
              DenT t' (Lt t) w (norm tm) (Lt t') /\ Stable t t' /\ w <> WDefault.
Proof.
  induction tm as [iri|l|lex lang dt|a IHa b IHb c IHc| |]; intros t t' rows w ss HJ; cbn [encode_spo_term].
  - unfold bind. destruct (encode_iri iri t) as [[[[t1 r1] p] n]|e] eqn:E; [|discriminate].
    intros H; inversion H; subst t' rows w; clear H.
    destruct (encode_iri_valid _ _ _ _ _ _ _ HJ E) as (ss1 & S1 & J1 & N1 & D1 & St1).
    exists ss1. repeat (split; [assumption|]). discriminate.
  - intros H; inversion H; subst t' rows w; clear H.
    exists ss. split; [reflexivity|]. split; [exact HJ|]. split; [apply nontab_refl|]. split; [apply DBnode|]. split; [apply stable_refl|discriminate].
  - apply encode_literal_valid; assumption.
  - unfold bind.
    destruct (encode_spo_term Generic a t) as [[[t1 r1] wa]|e] eqn:Ea; [|discriminate].
    destruct (encode_spo_term Generic b t1) as [[[t2 r2] wb]|e] eqn:Eb; [|discriminate].
    destruct (encode_spo_term Generic c t2) as [[[t3 r3] wc]|e] eqn:Ec; [|discriminate].
    intros H; inversion H; subst t' rows w; clear H.
    destruct (IHa _ _ _ _ _ HJ Ea) as (s1 & S1 & J1 & N1 & D1 & St1 & W1).
    destruct (IHb _ _ _ _ _ J1 Eb) as (s2 & S2 & J2 & N2 & D2 & St2 & W2).
    destruct (IHc _ _ _ _ _ J2 Ec) as (s3 & S3 & J3 & N3 & D3 & St3 & W3).
    exists s3. split; [|split; [exact J3|split; [|split; [|split; [|discriminate]]]]].
    + rewrite steps_app, S1, steps_app, S2, S3. reflexivity.
    + eapply nontab_trans; [exact N1|]. eapply nontab_trans; eassumption.
    + cbn [norm]. eapply DTriple; [| |exact D3|assumption|assumption|assumption].
      * eapply DenT_stable; [|exact D1]. eapply stable_trans; eassumption.
      * eapply DenT_stable; [|exact D2]. exact St3.
    + eapply stable_trans; [exact St1|]. eapply stable_trans; eassumption.
  - discriminate.
  - discriminate.
Qed.

(* ---- a graph name ---- *)
Theorem encode_graph_term_valid (tm : term) (t t' : tenc) (rows : list row) (w : wterm) (ss : sstate) :
  J t ss -> encode_graph_term Generic tm t = Ok (t', rows, w) ->
  exists ss1, steps rows ss = SOk (ss1, []) /\ J t' ss1 /\ nontab_eq ss ss1 /\
              DenT t' (Lt t) w (norm tm) (Lt t') /\ Stable t t' /\ wf_pos true w.
Proof.
  intros HJ. destruct tm as [iri|l|lex lang dt|a b c| |]; cbn [encode_graph_term]; try discriminate.
  - unfold bind. destruct (encode_iri iri t) as [[[[t1 r1] p] n]|e] eqn:E; [|discriminate].
    intros H; inversion H; subst t' rows w; clear H.
    destruct (encode_iri_valid _ _ _ _ _ _ _ HJ E) as (ss1 & S1 & J1 & N1 & D1 & St1).
    exists ss1. repeat (split; [assumption|]). exact I.
  - intros H; inversion H; subst t' rows w; clear H.
    exists ss. split; [reflexivity|]. split; [exact HJ|]. split; [apply nontab_refl|]. split; [apply DBnode|]. split; [apply stable_refl|exact I].
  - intros H. destruct (encode_literal_valid _ _ _ _ _ _ _ _ HJ H) as (ss1 & S1 & J1 & N1 & D1 & St1 & W1).
    exists ss1. repeat (split; [assumption|]).
    unfold encode_literal, bind in H. destruct w; try exact I.
    (* encode_literal only builds WLit *)
    exfalso. repeat match type of H with
                    | match ?x with _ => _ end = _ => destruct x; try discriminate
                    | (if ?c then _ else _) = _ => destruct c; try discriminate
                    end; inversion H.
  - intros H; inversion H; subst t' rows w; clear H.
    exists ss. split; [reflexivity|]. split; [exact HJ|]. split; [apply nontab_refl|]. split; [apply DDefault|]. split; [apply stable_refl|exact I].
Qed.
