(* NoAmplification.v -- C17: for ANY byte string, hostile or not, the parser model yields at most
   one event per input byte (in fact per two bytes): every row costs at least its field header on
   the wire and yields at most one event, and frames only partition the input.  Together with the
   capped tables this bounds what the model's parser can build from an input by the input's size. *)
From Coq Require Import Arith Lia.
From PJ.Model Require Import Base Lookup Terms Wire Encoder Streams Decoder.
From PJ.Proofs Require Import DecoderProofs.

Lemma vdec_shorter fd : forall sh ac b v r, vdec fd sh ac b = Some (v, r) -> (length r < length b)%nat.
Proof.
  induction fd as [|fd IH]; intros sh ac b v r; [discriminate|]. destruct b as [|y b]; [discriminate|]. cbn [vdec].
  destruct (y <? 128); [intros Q; inversion Q; subst; cbn; lia|]. intros Q. apply IH in Q. cbn. lia.
Qed.

Lemma varint_dec_shorter b v r : varint_dec b = Some (v, r) -> (length r < length b)%nat.
Proof. apply vdec_shorter. Qed.

Lemma take_length {A} k : forall (l a r : list A), take k l = Some (a, r) -> length l = (length a + length r)%nat.
Proof.
  induction k as [|k IH]; intros l a r; cbn; [intros Q; inversion Q; reflexivity|].
  destruct l as [|z l]; [discriminate|]. destruct (take k l) as [[a' r']|] eqn:Q'; [|discriminate].
  intros Q; inversion Q; subst. apply IH in Q'. cbn. lia.
Qed.

(* a message has at most as many fields as bytes *)
Lemma parse_fields_count fuel : forall b fs, parse_fields fuel b = Some fs -> (length fs <= length b)%nat.
Proof.
  induction fuel as [|fuel IH]; intros b fs.
  - destruct b; cbn; [intros H; inversion H; cbn; lia|discriminate].
  - destruct b as [|x b]; [cbn; intros H; inversion H; cbn; lia|]. cbn [parse_fields].
    destruct (varint_dec (x :: b)) as [[t b1]|] eqn:Et; [|discriminate].
    pose proof (varint_dec_shorter _ _ _ Et) as L1.
    destruct (t / 8 =? 0); [discriminate|].
    destruct (t mod 8 =? 0).
    { destruct (varint_dec b1) as [[v b2]|] eqn:Ev; [|discriminate]. pose proof (varint_dec_shorter _ _ _ Ev) as L2.
      destruct (parse_fields fuel b2) as [r|] eqn:Er; [|discriminate]. intros H; inversion H; subst.
      apply IH in Er. cbn [length] in *. lia. }
    destruct (t mod 8 =? 2).
    { destruct (varint_dec b1) as [[n b2]|] eqn:Ev; [|discriminate]. pose proof (varint_dec_shorter _ _ _ Ev) as L2.
      destruct (nlen b2 <? n); [discriminate|].
      destruct (take (N.to_nat n) b2) as [[payload b3]|] eqn:Etk; [|discriminate]. pose proof (take_length _ _ _ _ Etk) as L3.
      destruct (parse_fields fuel b3) as [r|] eqn:Er; [|discriminate]. intros H; inversion H; subst.
      apply IH in Er. cbn [length] in *. lia. }
    destruct (t mod 8 =? 1).
    { destruct (take 8 b1) as [[p b2]|] eqn:Etk; [|discriminate]. pose proof (take_length _ _ _ _ Etk) as L3.
      destruct (parse_fields fuel b2) as [r|] eqn:Er; [|discriminate]. intros H; inversion H; subst.
      apply IH in Er. cbn [length] in *. lia. }
    destruct (t mod 8 =? 5); [|discriminate].
    destruct (take 4 b1) as [[p b2]|] eqn:Etk; [|discriminate]. pose proof (take_length _ _ _ _ Etk) as L3.
    destruct (parse_fields fuel b2) as [r|] eqn:Er; [|discriminate]. intros H; inversion H; subst.
    apply IH in Er. cbn [length] in *. lia.
Qed.

Lemma parse_frame_fields_count fs : forall rows md, parse_frame_fields fs = Some (rows, md) -> (length rows <= length fs)%nat.
Proof.
  induction fs as [|[f v] fs IH]; intros rows md; cbn [parse_frame_fields].
  - intros H; inversion H; cbn; lia.
  - destruct v as [n|b|b].
    + destruct ((f =? 1) || (f =? 15)); [discriminate|]. intros H. apply IH in H. cbn; lia.
    + destruct (f =? 1).
      * destruct (parse_row b); [|discriminate]. destruct (parse_frame_fields fs) as [[r0 m0]|] eqn:E; [|discriminate].
        intros H; inversion H; subst. specialize (IH _ _ eq_refl). cbn; lia.
      * destruct (f =? 15).
        -- destruct (parse_meta b); [|discriminate]. destruct (parse_frame_fields fs) as [[r0 m0]|] eqn:E; [|discriminate].
           intros H; inversion H; subst. specialize (IH _ _ eq_refl). cbn; lia.
        -- intros H. apply IH in H. cbn; lia.
    + destruct ((f =? 1) || (f =? 15)); [discriminate|]. intros H. apply IH in H. cbn; lia.
Qed.

Lemma parse_frame_count b f : parse_frame b = Some f -> (length (f_rows f) <= length b)%nat.
Proof.
  unfold parse_frame, fields_of. destruct (parse_fields (length b) b) as [fs|] eqn:E; [|discriminate].
  destruct (parse_frame_fields fs) as [[rows md]|] eqn:E2; [|discriminate]. intros H; inversion H; subst; cbn.
  apply parse_fields_count in E. apply parse_frame_fields_count in E2. lia.
Qed.

Lemma frame_iterator_count fuel : forall b fs e, frame_iterator fuel b = (fs, e) -> (length (flat_map f_rows fs) <= length b)%nat.
Proof.
  induction fuel as [|fuel IH]; intros b fs e.
  - destruct b; cbn; intros H; inversion H; cbn; lia.
  - destruct b as [|x b]; [cbn; intros H; inversion H; cbn; lia|]. cbn [frame_iterator].
    destruct (varint_dec (x :: b)) as [[size b1]|] eqn:Ev; [|intros H; inversion H; cbn; lia].
    pose proof (varint_dec_shorter _ _ _ Ev) as L1.
    destruct (size =? 0).
    + destruct (frame_iterator fuel b1) as [fs1 e1] eqn:E1. intros H; inversion H; subst. apply IH in E1. cbn [flat_map mkframe f_rows app length] in *. lia.
    + destruct (nlen b1 <? size); [intros H; inversion H; cbn; lia|].
      destruct (take (N.to_nat size) b1) as [[payload b2]|] eqn:Et; [|intros H; inversion H; cbn; lia].
      pose proof (take_length _ _ _ _ Et) as L2.
      destruct (parse_frame payload) as [f|] eqn:Ep; [|intros H; inversion H; cbn; lia].
      destruct (frame_iterator fuel b2) as [fs1 e1] eqn:E1. intros H; inversion H; subst. apply IH in E1.
      apply parse_frame_count in Ep. cbn [flat_map]. rewrite app_length. cbn [length] in *. lia.
Qed.

Lemma decode_frames_count ig ak po fs st :
  (length (fst (flat_obs (decode_frames ig ak po fs st))) <= length (flat_map f_rows fs))%nat.
Proof.
  rewrite flat_is_rows. unfold rows_obs. pose proof (no_amplification ig ak po (flat_map f_rows fs) st) as H.
  destruct (decode_rows ig ak po (flat_map f_rows fs) st) as [[st' evs] err]. exact H.
Qed.

(* the theorem: at most one event per input byte, for every input *)
Theorem events_bounded_by_bytes (ig : integ) (grouped strict : bool) (b : list N) :
  (length (flat_events (parse_stream ig grouped strict b)) <= length b)%nat.
Proof.
  unfold parse_stream, parse_stream_h, get_options_and_frames_h.
  destruct (hint (firstn 3 b)).
  - destruct (read_frames b) as [fs e] eqn:Er. unfold read_frames in Er. apply frame_iterator_count in Er.
    destruct (skip_empty fs) as [sk [|first more]]; [destruct e; cbn; lia|].
    destruct (options_from_frame first true) as [po|]; cbn [bind]; [|cbn; lia].
    destruct (strict && _); [cbn; lia|]. destruct (route (po_phys po)) as [ak|]; [|cbn; lia].
    destruct (decoder_new po) as [st|]; [|cbn; lia]. cbv zeta. unfold flat_events. cbn [pr_frames].
    pose proof (decode_frames_count ig ak po fs st) as H. unfold flat_obs in H. cbn [fst] in H. lia.
  - destruct (parse_frame b) as [f|] eqn:Ep; [|cbn; lia]. apply parse_frame_count in Ep.
    destruct (is_nil (f_rows f)); [cbn; lia|].
    destruct (options_from_frame f false) as [po|]; cbn [bind]; [|cbn; lia].
    destruct (strict && _); [cbn; lia|]. destruct (route (po_phys po)) as [ak|]; [|cbn; lia].
    destruct (decoder_new po) as [st|]; [|cbn; lia]. cbv zeta. unfold flat_events. cbn [pr_frames].
    pose proof (decode_frames_count ig ak po [f] st) as H. unfold flat_obs in H. cbn [fst flat_map] in H. rewrite app_nil_r in H. lia.
Qed.
