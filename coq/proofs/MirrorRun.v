(* MirrorRun.v -- C05 over arbitrary histories: every use of a key under each of the three
   index rules, as run by Api.lk_use / Api.api_lookup (the very function the correspondence
   driver executes), resolves on the reader to the key, keeps every id within [0,size] and the
   number of live entries within size, and preserves the mirror invariant. *)
From Coq Require Import Lia Permutation.
From PJ.Model Require Import Base Lookup Api.
From PJ.Proofs Require Import Mirror.

Lemma str_eqb_spec (a b : str) : reflect (a = b) (str_eqb a b).
Proof.
  revert b; induction a as [|x a IH]; intros [|y b]; cbn; try (constructor; congruence).
  destruct (N.eqb_spec x y) as [->|Hne]; cbn.
  - destruct (IH b) as [->|Hne]; constructor; congruence.
  - constructor; congruence.
Qed.

Notation SInv := (@Inv str).

Definition obs_ok (size : N) (k : str) (o : lk_obs) : Prop :=
  lo_resolved o = Some k /\
  match lo_entry o with Some id => id <= size | None => True end /\
  lo_term o <= size /\ lo_wlen o <= size /\
  lo_la_w o = lo_la_r o /\ lo_lr_w o = lo_lr_r o.

Lemma inv_len (e : @lenc str) (d : @ldec str) :
  SInv e d -> N.of_nat (length (l_data (e_lookup e))) <= l_max (e_lookup e).
Proof.
  intros [Hp Hs Hk Hi Hr Hm Hf Hfu Hla Hlr].
  destruct (l_evicting (e_lookup e)) eqn:E.
  - specialize (Hfu eq_refl). unfold dlen in Hfu. lia.
  - destruct (Hf eq_refl) as [_ H]. unfold dlen in H. lia.
Qed.

Lemma in_range_true (i : N) (d : @ldec str) :
  1 <= i <= N.of_nat (length (d_data d)) -> in_range i d = true.
Proof. intros H. unfold in_range. apply andb_true_intro. split; apply N.leb_le; lia. Qed.

(* one use under one rule *)
Theorem lk_use_ok (rule : lk_rule) (k : str) (e : @lenc str) (d : @ldec str) :
  SInv e d ->
  exists e' d' o, lk_use rule k e d = Some (e', d', o) /\ SInv e' d' /\
                  l_max (e_lookup e') = l_max (e_lookup e) /\ obs_ok (l_max (e_lookup e)) k o.
Proof.
  intros HI.
  destruct (entry_mirror str_eqb str_eqb_spec k e d HI) as (e1 & oe & d1 & i & Hent & Hass & HI1 & Hin & Hmax1 & Hoe).
  destruct (term_mirror str_eqb str_eqb_spec k i e1 d1 HI1 Hin) as (e2 & d2 & Hti & Hat & HI2 & Hlr2 & Hmax2 & Hlen2 & Hri).
  pose proof HI1 as [Hp1 Hs1 _ _ _ _ _ _ Hla1 Hlr1].
  pose proof HI2 as [Hp2 Hs2 _ _ _ _ _ _ Hla2 Hlr2'].
  pose proof (inv_len e2 d2 HI2) as Hl2.
  pose proof (inv_len e1 d1 HI1) as Hl1.
  assert (Hd1 : (match oe with Some id => assign_entry id k d | None => Some d end) = Some d1).
  { destruct oe; [exact Hass|now subst]. }
  assert (Hat_eq : forall v dd, at_ i d1 = Some (dd, v) -> dd = d2 /\ v = k).
  { intros v dd H. rewrite Hat in H. inversion H; auto. }
  unfold lk_use. rewrite Hent, Hd1.
  destruct rule.
  - (* name rule *)
    unfold encode_name_term_index. rewrite Hti.
    assert (Hdec : decode_name_term_index (if i =? e_last_reused e1 + 1 then 0 else i) d1 = Some (d2, k)).
    { unfold decode_name_term_index. rewrite <- Hlr1.
      destruct (i =? e_last_reused e1 + 1) eqn:E.
      - apply N.eqb_eq in E. cbn. rewrite <- E. exact Hat.
      - destruct (i =? 0) eqn:E0; [apply N.eqb_eq in E0; lia|]. exact Hat. }
    rewrite Hdec. eexists _, _, _. split; [reflexivity|]. split; [exact HI2|]. split; [congruence|].
    unfold obs_ok, nlen; cbn.
    split; [reflexivity|]. split; [destruct oe; [lia|exact I]|].
    split; [destruct (i =? e_last_reused e1 + 1); lia|]. split; [lia|]. split; [exact Hla2|exact Hlr2'].
  - (* prefix rule *)
    unfold encode_prefix_term_index.
    destruct (l_max (e_lookup e1) =? 0) eqn:E0; [apply N.eqb_eq in E0; lia|].
    destruct (is_nil k && (e_last_reused e1 =? 0)) eqn:Eemp.
    + (* the empty prefix before any prefix was used: id 0, nothing touched *)
      apply andb_prop in Eemp. destruct Eemp as [Hnil Hz]. apply N.eqb_eq in Hz.
      assert (k = []) by (destruct k; [reflexivity|discriminate]). subst k.
      unfold decode_prefix_term_index. cbn [N.eqb]. rewrite <- Hlr1, Hz. cbn.
      eexists _, _, _. split; [reflexivity|]. split; [exact HI1|]. split; [congruence|].
      unfold obs_ok, nlen; cbn.
      split; [reflexivity|]. split; [destruct oe; [lia|exact I]|].
      split; [lia|]. split; [lia|]. split; [exact Hla1|congruence].
    + rewrite Hti.
      set (ti := if e_last_reused e1 =? 0 then i else if i =? e_last_reused e1 then 0 else i).
      assert (Hdec : decode_prefix_term_index ti d1 = Some (d2, Some k)).
      { unfold decode_prefix_term_index, ti. rewrite <- Hlr1.
        destruct (e_last_reused e1 =? 0) eqn:Ez.
        - destruct (i =? 0) eqn:Ei; [apply N.eqb_eq in Ei; lia|]. rewrite Ei. rewrite Hat. reflexivity.
        - apply N.eqb_neq in Ez. destruct (i =? e_last_reused e1) eqn:Ep.
          + apply N.eqb_eq in Ep. cbn [N.eqb]. rewrite <- Ep.
            destruct (i =? 0) eqn:Ei; [apply N.eqb_eq in Ei; lia|]. rewrite Hat. reflexivity.
          + destruct (i =? 0) eqn:Ei; [apply N.eqb_eq in Ei; lia|]. rewrite Ei. rewrite Hat. reflexivity. }
      rewrite Hdec. eexists _, _, _. split; [reflexivity|]. split; [exact HI2|]. split; [congruence|].
      unfold obs_ok, nlen; cbn.
      split; [reflexivity|]. split; [destruct oe; [lia|exact I]|].
      split; [unfold ti; destruct (e_last_reused e1 =? 0); [lia|]; destruct (i =? e_last_reused e1); lia|].
      split; [lia|]. split; [exact Hla2|exact Hlr2'].
  - (* datatype rule *)
    unfold encode_datatype_term_index.
    destruct (l_max (e_lookup e1) =? 0) eqn:E0; [apply N.eqb_eq in E0; lia|].
    rewrite Hti.
    assert (Hdec : decode_datatype_term_index i d1 = Some (d2, k)).
    { unfold decode_datatype_term_index. destruct (i =? 0) eqn:Ei; [apply N.eqb_eq in Ei; lia|]. exact Hat. }
    rewrite Hdec. eexists _, _, _. split; [reflexivity|]. split; [exact HI2|]. split; [congruence|].
    unfold obs_ok, nlen; cbn.
    split; [reflexivity|]. split; [destruct oe; [lia|exact I]|].
    split; [lia|]. split; [lia|]. split; [exact Hla2|exact Hlr2'].
Qed.

(* the initial pair satisfies the invariant for every size >= 1 *)
Lemma inv_init (size : N) : 1 <= size -> SInv (lenc_init size) (ldec_init size).
Proof.
  intros H. constructor; cbn.
  - exact H.
  - rewrite repeat_length. lia.
  - constructor.
  - constructor.
  - tauto.
  - tauto.
  - intros _. unfold dlen; cbn. split; [tauto|lia].
  - discriminate.
  - reflexivity.
  - reflexivity.
Qed.

(* every history, every rule, every size >= 1 *)
Theorem lk_run_ok (rule : lk_rule) (keys : list str) (e : @lenc str) (d : @ldec str) :
  SInv e d ->
  Forall2 (fun k o => exists obs, o = Some obs /\ obs_ok (l_max (e_lookup e)) k obs) keys (lk_run rule keys e d).
Proof.
  revert e d; induction keys as [|k keys IH]; intros e d HI; cbn [lk_run].
  - constructor.
  - destruct (lk_use_ok rule k e d HI) as (e' & d' & o & Huse & HI' & Hmax & Hok).
    rewrite Huse. constructor.
    + exists o. split; [reflexivity|exact Hok].
    + rewrite <- Hmax. apply IH. exact HI'.
Qed.

Theorem api_lookup_ok (rule : lk_rule) (size : N) (keys : list str) :
  1 <= size ->
  Forall2 (fun k o => exists obs, o = Some obs /\ obs_ok size k obs) keys (api_lookup rule size keys).
Proof.
  intros H. unfold api_lookup.
  change size with (l_max (e_lookup (@lenc_init str size))) at 1.
  apply lk_run_ok. now apply inv_init.
Qed.

(* the premises are inhabited after evictions: size 2, five uses, three distinct keys *)
Example lookup_run_evicts :
  map (fun o => match o with Some obs => lo_entry obs | None => None end)
      (api_lookup LkName 2 [[97]; [98]; [97]; [99]; [98]])
  = [Some 0; Some 0; None; Some 2; Some 1].
Proof. vm_compute. reflexivity. Qed.
