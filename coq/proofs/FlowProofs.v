(* FlowProofs.v -- framing on the writer side neither loses, duplicates nor reorders rows:
   the rows of the frames handed out, followed by the rows still in the flow, are exactly the
   rows appended so far, in order (C01, C06, C07). *)
From Coq Require Import Arith Lia.
From PJ.Model Require Import Base Lookup Terms Encoder Streams.
From PJ.Proofs Require Import EncoderProofs.

Definition rows_of_opt (o : option frame) : list row := match o with Some f => f_rows f | None => [] end.

Fixpoint emitted_rows (evs : list tev) : list row :=
  match evs with
  | [] => []
  | Emit f :: r => f_rows f ++ emitted_rows r
  | _ :: r => emitted_rows r
  end.

Lemma emitted_rows_app a b : emitted_rows (a ++ b) = emitted_rows a ++ emitted_rows b.
Proof. induction a as [|x a IH]; cbn; [reflexivity|]. destruct x; cbn; rewrite IH; now rewrite ?app_assoc. Qed.

Lemma emitted_rows_emit_opt o : emitted_rows (emit_opt o) = rows_of_opt o.
Proof. destruct o; cbn; [now rewrite app_nil_r|reflexivity]. Qed.

Lemma emitted_rows_pulls n : emitted_rows (pulls n) = [].
Proof. induction n; cbn; auto. Qed.

(* the three frame producers conserve rows *)
Lemma frame_from_bounds_conserves (f : flow) :
  rows_of_opt (snd (frame_from_bounds f)) ++ fl_rows (fst (frame_from_bounds f)) = fl_rows f.
Proof.
  unfold frame_from_bounds. destruct (is_bounded (fl_kind f)); [|reflexivity].
  destruct (_ <=? _); [apply to_stream_frame_conserves|reflexivity].
Qed.
Lemma frame_from_graph_conserves (f : flow) :
  rows_of_opt (snd (frame_from_graph f)) ++ fl_rows (fst (frame_from_graph f)) = fl_rows f.
Proof. unfold frame_from_graph. destruct (fl_kind f); try reflexivity. apply to_stream_frame_conserves. Qed.
Lemma frame_from_dataset_conserves (f : flow) :
  rows_of_opt (snd (frame_from_dataset f)) ++ fl_rows (fst (frame_from_dataset f)) = fl_rows f.
Proof. unfold frame_from_dataset. destruct (fl_kind f); try reflexivity. apply to_stream_frame_conserves. Qed.

(* the rows a step appends: what encode_* returned *)
Definition appended_triple (terms : list term) (s : stream) : list row :=
  match encode_triple (st_integ s) terms (st_enc s) (st_rep s) with Ok (_, _, rows) => rows | Err _ => [] end.
Definition appended_quad (terms : list term) (s : stream) : list row :=
  match encode_quad (st_integ s) terms (st_enc s) (st_rep s) with Ok (_, _, rows) => rows | Err _ => [] end.

Lemma stream_triple_conserves terms s s' fr :
  stream_triple terms s = (s', Ok fr) ->
  rows_of_opt fr ++ fl_rows (st_flow s') = fl_rows (st_flow s) ++ appended_triple terms s.
Proof.
  unfold stream_triple, appended_triple. destruct (st_failed s); [discriminate|].
  destruct (encode_triple _ _ _ _) as [[[t' rp'] rows]|e]; [|discriminate].
  pose proof (frame_from_bounds_conserves (flow_extend (st_flow s) rows)) as H.
  destruct (frame_from_bounds (flow_extend (st_flow s) rows)) as [fl fr'].
  intros E; inversion E; subst. cbn in *. exact H.
Qed.

Lemma stream_quad_conserves terms s s' fr :
  stream_quad terms s = (s', Ok fr) ->
  rows_of_opt fr ++ fl_rows (st_flow s') = fl_rows (st_flow s) ++ appended_quad terms s.
Proof.
  unfold stream_quad, appended_quad. destruct (st_failed s); [discriminate|].
  destruct (encode_quad _ _ _ _) as [[[t' rp'] rows]|e]; [|discriminate].
  pose proof (frame_from_bounds_conserves (flow_extend (st_flow s) rows)) as H.
  destruct (frame_from_bounds (flow_extend (st_flow s) rows)) as [fl fr'].
  intros E; inversion E; subst. cbn in *. exact H.
Qed.

(* the rows a whole input appends, statement by statement, threading the stream state *)
Fixpoint appended_all (step : list term -> stream -> step_result) (app : list term -> stream -> list row)
         (stmts : list (list term)) (s : stream) : list row :=
  match stmts with
  | [] => []
  | st :: rest =>
    match step st s with
    | (s', Ok _) => app st s ++ appended_all step app rest s'
    | (_, Err _) => []
    end
  end.

Theorem feed_conserves (step : list term -> stream -> step_result) (app : list term -> stream -> list row)
        (stmts : list (list term)) (s s' : stream) (evs : list tev) :
  (forall t x x' fr, step t x = (x', Ok fr) -> rows_of_opt fr ++ fl_rows (st_flow x') = fl_rows (st_flow x) ++ app t x) ->
  feed step stmts s = (s', evs, true) ->
  emitted_rows evs ++ fl_rows (st_flow s') = fl_rows (st_flow s) ++ appended_all step app stmts s.
Proof.
  intros Hstep. revert s s' evs; induction stmts as [|st rest IH]; intros s s' evs; cbn [feed appended_all].
  - intros H; inversion H; subst. cbn. now rewrite app_nil_r.
  - destruct (step st s) as [s1 [fr|e]] eqn:E; [|intros H; inversion H].
    destruct (feed step rest s1) as [[s2 evs2] ok2] eqn:E2. intros H; inversion H; subst.
    cbn [emitted_rows]. rewrite emitted_rows_app, emitted_rows_emit_opt.
    rewrite <- app_assoc. rewrite (IH _ _ _ E2). rewrite app_assoc. rewrite (Hstep _ _ _ _ E).
    now rewrite <- app_assoc.
Qed.

Lemma finish_conserves b s s' evs :
  finish b s = (s', evs) -> emitted_rows evs ++ fl_rows (st_flow s') = fl_rows (st_flow s).
Proof.
  unfold finish.
  pose proof (frame_from_graph_conserves (st_flow s)) as Hg. pose proof (frame_from_dataset_conserves (st_flow s)) as Hd.
  destruct (if b then frame_from_graph (st_flow s) else frame_from_dataset (st_flow s)) as [fl1 fr1] eqn:E1.
  pose proof (to_stream_frame_conserves fl1) as Ht. destruct (to_stream_frame fl1) as [fl2 fr2].
  intros H; inversion H; subst. cbn in *. rewrite emitted_rows_app, !emitted_rows_emit_opt.
  rewrite <- app_assoc. unfold rows_of_opt in *. rewrite Ht.
  destruct b; rewrite E1 in *; cbn in *; assumption.
Qed.

(* TRIPLES: everything handed out is, in order, the options row, the declarations' rows and the
   rows of each statement -- nothing lost, duplicated or reordered, whatever the flow and frame size *)
Theorem triples_stream_rows (d : sdata) (s s' : stream) (evs : list tev) :
  triples_stream_frames d s = (s', evs) -> raised evs = None ->
  emitted_rows evs =
  fl_rows (st_flow (fst (ns_phase false d (enroll s)))) ++
  appended_all stream_triple appended_triple (d_stmts d) (fst (ns_phase false d (enroll s))).
Proof.
  unfold triples_stream_frames.
  destruct (ns_phase false d (enroll s)) as [s1 [u|e]] eqn:En; [|intros H; inversion H; subst; cbn; discriminate].
  destruct (feed stream_triple (d_stmts d) s1) as [[s2 evs2] ok] eqn:E. destruct ok.
  - destruct (finish true s2) as [s3 fin] eqn:F. intros H Hr; inversion H; subst. cbn [fst].
    pose proof (feed_conserves stream_triple appended_triple _ _ _ _ stream_triple_conserves E) as H1.
    pose proof (finish_conserves _ _ _ _ F) as H2. pose proof (finish_flushes _ _ _ _ F) as H3.
    rewrite H3, app_nil_r in H2. rewrite emitted_rows_app. rewrite H2. exact H1.
  - intros H Hr; inversion H; subst. exfalso. eapply feed_not_ok_raises; eauto.
Qed.

Theorem quads_stream_rows (d : sdata) (s s' : stream) (evs : list tev) :
  quads_stream_frames d s = (s', evs) -> raised evs = None ->
  emitted_rows evs =
  fl_rows (st_flow (fst (ns_phase true d (enroll s)))) ++
  appended_all stream_quad appended_quad (d_stmts d) (fst (ns_phase true d (enroll s))).
Proof.
  unfold quads_stream_frames.
  destruct (ns_phase true d (enroll s)) as [s1 [u|e]] eqn:En; [|intros H; inversion H; subst; cbn; discriminate].
  destruct (feed stream_quad (d_stmts d) s1) as [[s2 evs2] ok] eqn:E. destruct ok.
  - destruct (finish false s2) as [s3 fin] eqn:F. intros H Hr; inversion H; subst. cbn [fst].
    pose proof (feed_conserves stream_quad appended_quad _ _ _ _ stream_quad_conserves E) as H1.
    pose proof (finish_conserves _ _ _ _ F) as H2. pose proof (finish_flushes _ _ _ _ F) as H3.
    rewrite H3, app_nil_r in H2. rewrite emitted_rows_app. rewrite H2. exact H1.
  - intros H Hr; inversion H; subst. exfalso. eapply feed_not_ok_raises; eauto.
Qed.

(* the frames partition the rows: emitted_rows is the concatenation of the emitted frames' rows *)
Theorem emitted_rows_is_concat (evs : list tev) : emitted_rows evs = flat_map f_rows (emitted evs).
Proof. induction evs as [|x evs IH]; cbn; [reflexivity|]. destruct x; cbn; now rewrite ?IH. Qed.
