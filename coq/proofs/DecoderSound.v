(* DecoderSound.v -- C04: on every stream the Spec referee accepts, the model of pyjelly's decoder
   yields exactly the events the stream denotes.  Simulation between Spec.step and
   Decoder.decode_row under a state relation. *)
From Coq Require Import Arith Lia.
From PJ.Model Require Import Base Lookup Terms Wire Encoder Streams Decoder Spec.
From PJ.Proofs Require Import TermInd DecoderProofs OptionsProofs.

(* ---------- tables: Spec.tset / tget vs Lookup.set_nth / at_ ---------- *)
Lemma set_nth_tset n v (t : table) : (n < length t)%nat -> set_nth n (Some v) t = Some (tset n v t).
Proof.
  revert t; induction n as [|n IH]; intros [|x t]; cbn; intros H; try lia; [reflexivity|].
  rewrite IH by lia. reflexivity.
Qed.

Lemma tset_length n v (t : table) : length (tset n v t) = length t.
Proof. revert t; induction n as [|n IH]; intros [|x t]; cbn; auto. Qed.

Lemma in_table_range i (t : table) : in_table i t = true -> 1 <= i <= nlen t.
Proof. unfold in_table. intros H. apply andb_prop in H. destruct H as [H1 H2]. apply N.leb_le in H1, H2. lia. Qed.

(* the relation between the referee's state and the decoder's state: tables and ids ... *)
Record Rt (s : sstate) (st : dstate) : Prop := {
  r_names : d_data (ds_names st) = s_names s;
  r_prefixes : d_data (ds_prefixes st) = s_prefixes s;
  r_datatypes : d_data (ds_datatypes st) = s_datatypes s;
  r_la_n : d_last_assigned (ds_names st) = s_la_n s;
  r_la_p : d_last_assigned (ds_prefixes st) = s_la_p s;
  r_la_d : d_last_assigned (ds_datatypes st) = s_la_d s;
  r_nid : d_last_reused (ds_names st) = s_last_nid s;
  r_pid : d_last_reused (ds_prefixes st) = s_last_pid s }.

(* ... and previous terms and the open graph *)
Record R (s : sstate) (st : dstate) : Prop := {
  r_t : Rt s st;
  r_s : ds_s st = s_ps s; r_p : ds_p st = s_pp s; r_o : ds_o st = s_po s; r_g : ds_g st = s_pg s;
  r_open : ds_graph st = s_open s }.

(* decoding terms touches only the tables of the decoder *)
Definition dframe (st st' : dstate) : Prop :=
  ds_s st' = ds_s st /\ ds_p st' = ds_p st /\ ds_o st' = ds_o st /\ ds_g st' = ds_g st /\ ds_graph st' = ds_graph st.
Lemma dframe_refl st : dframe st st.
Proof. unfold dframe; repeat split. Qed.
Ltac dfr := first [apply dframe_refl | (unfold dframe; cbn; repeat split; reflexivity)].
Lemma dframe_trans a b c : dframe a b -> dframe b c -> dframe a c.
Proof. unfold dframe; intuition congruence. Qed.

(* the decoder's view of the options agrees with the referee's *)
Record Ropts (s : sstate) (ak : adapter_kind) (po : poptions) : Prop := {
  ro_ak : (phys s = 1 /\ ak = ATriples) \/ (phys s = 2 /\ ak = AQuads) \/ (phys s = 3 /\ ak = AGraphs);
  ro_valid : forall o, woptions_eqb o (s_opts s) = true -> validate_stream_options po o = true }.

(* every update of the referee's state that does not touch a field keeps the other fields *)
Ltac solveR HR := destruct HR; constructor; cbn; auto.

(* ---------- entries ---------- *)
Lemma entry_sim id v (t : table) la (d : @ldec str) t' la' :
  d_data d = t -> d_last_assigned d = la ->
  entry id v t la = SOk (t', la') ->
  exists d', assign id v d = Ok d' /\ d_data d' = t' /\ d_last_assigned d' = la' /\ d_last_reused d' = d_last_reused d.
Proof.
  intros Hd Hla. unfold entry. rewrite <- Hla.
  set (i := if id =? 0 then d_last_assigned d + 1 else id).
  destruct (in_table i t) eqn:E; [|discriminate]. intros H; inversion H; subst t' la'; clear H.
  pose proof (in_table_range _ _ E) as Hr. unfold nlen in Hr.
  unfold assign, assign_entry. fold i. unfold in_range. rewrite Hd.
  unfold in_table, nlen in E. rewrite E.
  rewrite set_nth_tset by lia. eexists. split; [reflexivity|]. cbn. auto.
Qed.

(* ---------- references ---------- *)
Lemma tget_at i (t : table) v (d : @ldec str) :
  d_data d = t -> tget i t = SOk v ->
  at_ i d = Some ({| d_data := d_data d; d_last_assigned := d_last_assigned d; d_last_reused := i |}, v).
Proof.
  intros Hd. unfold tget, at_, in_range, in_table, nlen. rewrite Hd.
  destruct ((1 <=? i) && (i <=? N.of_nat (length t))); [|discriminate].
  destruct (nth_error t (N.to_nat (i - 1))) as [[x|]|]; try discriminate.
  intros H; inversion H; reflexivity.
Qed.

(* an IRI *)
Lemma iri_sim pid nid s st s' i :
  Rt s st -> iri pid nid s = SOk (s', i) ->
  exists st', decode_iri pid nid st = Ok (st', i) /\ Rt s' st' /\ dframe st st'.
Proof.
  intros HR. unfold iri, sbind.
  set (n := if nid =? 0 then s_last_nid s + 1 else nid).
  set (p := if pid =? 0 then s_last_pid s else pid).
  destruct (tget n (s_names s)) as [name|] eqn:En; [|discriminate].
  destruct (if p =? 0 then SOk [] else tget p (s_prefixes s)) as [prefix|] eqn:Ep; [|discriminate].
  intros H; inversion H; subst s' i; clear H.
  unfold decode_iri, decode_name_term_index, decode_prefix_term_index, lift, bind.
  rewrite (r_nid _ _ HR), (r_pid _ _ HR). fold n p.
  rewrite (tget_at n _ name (ds_names st) (r_names _ _ HR) En).
  destruct (p =? 0) eqn:E0.
  - inversion Ep; subst prefix. eexists. split; [reflexivity|]. split; [|dfr].
    apply N.eqb_eq in E0. destruct HR; constructor; cbn; auto.
    subst p. destruct (pid =? 0) eqn:Ez; [congruence|apply N.eqb_neq in Ez; congruence].
  - rewrite (tget_at p _ prefix (ds_prefixes st) (r_prefixes _ _ HR) Ep).
    eexists. split; [reflexivity|]. split; [|dfr]. destruct HR; constructor; cbn; auto.
Qed.

Lemma is_nil_nlen {A} (t : list A) : is_nil t = false -> (nlen t =? 0) = false.
Proof.
  destruct t; [discriminate|]. intros _. unfold nlen. cbn [length].
  destruct (N.of_nat (S (length t)) =? 0) eqn:E; [|reflexivity]. apply N.eqb_eq in E. lia.
Qed.

(* a literal *)
Lemma literal_sim lex k s st t :
  Rt s st -> literal lex k s = SOk t ->
  exists st', decode_literal Generic lex k st = Ok (st', t) /\ Rt s st' /\ dframe st st'.
Proof.
  intros HR. unfold literal, decode_literal. cbn [mk_literal bind]. destruct k as [|tg|d].
  - intros H; inversion H; subst. eexists; split; [reflexivity|]. split; [assumption|dfr].
  - destruct (is_nil tg); [discriminate|]. intros H; inversion H; subst. eexists; split; [reflexivity|]. split; [assumption|dfr].
  - destruct (d =? 0) eqn:Ed; [discriminate|].
    destruct (is_nil (s_datatypes s)) eqn:En; [discriminate|]. unfold sbind.
    destruct (tget d (s_datatypes s)) as [dt|] eqn:Et; [|discriminate].
    intros H; inversion H; subst t; clear H.
    rewrite (r_datatypes _ _ HR).
    rewrite (is_nil_nlen _ En). unfold decode_datatype_term_index, lift, bind. rewrite Ed.
    rewrite (tget_at d _ dt (ds_datatypes st) (r_datatypes _ _ HR) Et).
    eexists. split; [reflexivity|]. split; [|dfr]. destruct HR; constructor; cbn; auto.
Qed.

(* a term, in either position *)
Lemma sterm_sim (w : wterm) : forall graph s st s' t,
  Rt s st -> sterm graph w s = SOk (s', t) ->
  exists st', decode_term Generic w st = Ok (st', t) /\ Rt s' st' /\ dframe st st'.
Proof.
  induction w as [p n|l|lex k| |a b c IHa IHb IHc] using wterm_ind'; intros graph s st s' t HR; cbn [sterm decode_term].
  - unfold sbind. destruct (iri p n s) as [[s1 i]|] eqn:E; [|discriminate].
    intros H; inversion H; subst. destruct (iri_sim _ _ _ _ _ _ HR E) as [st' [H1 [H2 H3]]].
    unfold bind. rewrite H1. eauto.
  - intros H; inversion H; subst. eexists; split; [reflexivity|]. split; [assumption|dfr].
  - unfold sbind. destruct (literal lex k s) as [t0|] eqn:E; [|discriminate].
    intros H; inversion H; subst. exact (literal_sim _ _ _ _ _ HR E).
  - destruct graph; [|discriminate]. intros H; inversion H; subst.
    eexists; split; [reflexivity|]. split; [assumption|dfr].
  - destruct graph; [discriminate|].
    destruct a as [a'|], b as [b'|], c as [c'|]; try discriminate. cbn [OP] in IHa, IHb, IHc. unfold sbind, bind.
    destruct (sterm false a' s) as [[s1 ta]|] eqn:Ea; [|discriminate].
    destruct (sterm false b' s1) as [[s2 tb]|] eqn:Eb; [|discriminate].
    destruct (sterm false c' s2) as [[s3 tc]|] eqn:Ec; [|discriminate].
    intros H; inversion H; subst.
    destruct (IHa _ _ _ _ _ HR Ea) as [st1 [D1 [R1 F1]]]. rewrite D1.
    destruct (IHb _ _ _ _ _ R1 Eb) as [st2 [D2 [R2 F2]]]. rewrite D2.
    destruct (IHc _ _ _ _ _ R2 Ec) as [st3 [D3 [R3 F3]]]. rewrite D3.
    eexists; split; [reflexivity|]. split; [assumption|]. eapply dframe_trans; [eassumption|]. eapply dframe_trans; eassumption.
Qed.

Lemma slot_sim graph w prev s st s' t :
  Rt s st -> slot graph w prev s = SOk (s', t) ->
  exists st', decode_slot Generic w prev st = Ok (st', t) /\ Rt s' st' /\ dframe st st'.
Proof.
  intros HR. unfold slot, decode_slot. destruct w as [w'|].
  - apply sterm_sim; assumption.
  - destruct prev; [|discriminate]. intros H; inversion H; subst.
    eexists; split; [reflexivity|]. split; [assumption|dfr].
Qed.

(* decoding terms only moves the "previous IRI" ids of the referee's state *)
Definition frame_eq (x x' : sstate) : Prop :=
  s_opts x' = s_opts x /\ s_names x' = s_names x /\ s_prefixes x' = s_prefixes x /\ s_datatypes x' = s_datatypes x /\
  s_la_n x' = s_la_n x /\ s_la_p x' = s_la_p x /\ s_la_d x' = s_la_d x /\
  s_ps x' = s_ps x /\ s_pp x' = s_pp x /\ s_po x' = s_po x /\ s_pg x' = s_pg x /\ s_open x' = s_open x.

Lemma frame_refl x : frame_eq x x.
Proof. unfold frame_eq; repeat split. Qed.

Lemma frame_trans x y z : frame_eq x y -> frame_eq y z -> frame_eq x z.
Proof. unfold frame_eq. intuition congruence. Qed.

Lemma iri_frame p n x x' i : iri p n x = SOk (x', i) -> frame_eq x x'.
Proof.
  unfold iri, sbind. destruct (tget _ _); [|discriminate].
  match goal with |- (match ?e with SOk _ => _ | SBad _ => _ end) = _ -> _ => destruct e; [|discriminate] end.
  intros H; inversion H; subst. unfold frame_eq; cbn. repeat split.
Qed.

Lemma sterm_frame (w : wterm) : forall graph x x' t, sterm graph w x = SOk (x', t) -> frame_eq x x'.
Proof.
  induction w as [p n|l|lex k| |a b c IHa IHb IHc] using wterm_ind'; intros graph x x' t; cbn [sterm].
  - unfold sbind. destruct (iri p n x) as [[x1 i]|] eqn:E; [|discriminate].
    intros H; inversion H; subst. eapply iri_frame; eauto.
  - intros H; inversion H; subst. apply frame_refl.
  - unfold sbind. destruct (literal _ _ _); [|discriminate]. intros H; inversion H; subst. apply frame_refl.
  - destruct graph; [|discriminate]. intros H; inversion H; subst. apply frame_refl.
  - destruct graph; [discriminate|]. destruct a as [a'|], b as [b'|], c as [c'|]; try discriminate.
    cbn [OP] in *. unfold sbind.
    destruct (sterm false a' x) as [[x1 ta]|] eqn:Ea; [|discriminate].
    destruct (sterm false b' x1) as [[x2 tb]|] eqn:Eb; [|discriminate].
    destruct (sterm false c' x2) as [[x3 tc]|] eqn:Ec; [|discriminate].
    intros H; inversion H; subst.
    eapply frame_trans; [eapply IHa; eauto|]. eapply frame_trans; [eapply IHb; eauto|]. eapply IHc; eauto.
Qed.

Lemma slot_frame graph w prev x x' t : slot graph w prev x = SOk (x', t) -> frame_eq x x'.
Proof.
  unfold slot. destruct w as [w'|]; [apply sterm_frame|].
  destruct prev; [|discriminate]. intros H; inversion H; subst. apply frame_refl.
Qed.

Lemma spo_frame a b c x x' ta tb tc : spo a b c x = SOk (x', ta, tb, tc) -> frame_eq x x'.
Proof.
  unfold spo, sbind.
  destruct (slot false a (s_ps x) x) as [[x1 xa]|] eqn:Ea; [|discriminate].
  destruct (slot false b (s_pp x) x1) as [[x2 xb]|] eqn:Eb; [|discriminate].
  destruct (slot false c (s_po x) x2) as [[x3 xc]|] eqn:Ec; [|discriminate].
  intros H; inversion H; subst.
  eapply frame_trans; [eapply slot_frame; eauto|]. eapply frame_trans; eapply slot_frame; eauto.
Qed.

Lemma spo_sim a b c s st s' ta tb tc :
  R s st -> spo a b c s = SOk (s', ta, tb, tc) ->
  exists st', decode_spo Generic a b c st = Ok (set_spo st' ta tb tc, ta, tb, tc) /\ Rt s' st' /\ dframe st st'.
Proof.
  intros HR. unfold spo, decode_spo, sbind, bind.
  destruct (slot false a (s_ps s) s) as [[s1 xa]|] eqn:Ea; [|discriminate].
  destruct (slot false b (s_pp s) s1) as [[s2 xb]|] eqn:Eb; [|discriminate].
  destruct (slot false c (s_po s) s2) as [[s3 xc]|] eqn:Ec; [|discriminate].
  intros H; inversion H; subst.
  destruct (slot_sim _ _ _ _ _ _ _ (r_t _ _ HR) Ea) as [st1 [D1 [R1 F1]]]. rewrite (r_s _ _ HR), D1.
  destruct (slot_sim _ _ _ _ _ _ _ R1 Eb) as [st2 [D2 [R2 F2]]]. rewrite (r_p _ _ HR), D2.
  destruct (slot_sim _ _ _ _ _ _ _ R2 Ec) as [st3 [D3 [R3 F3]]]. rewrite (r_o _ _ HR), D3.
  eexists. split; [reflexivity|]. split; [exact R3|].
  eapply dframe_trans; [eassumption|]. eapply dframe_trans; eassumption.
Qed.

(* ---------- one row ---------- *)
Lemma step_opts r s s' evs : step r s = SOk (s', evs) -> s_opts s' = s_opts s.
Proof.
  destruct r as [o|id v|id v|id v|a b c|a b c g|g| |name p n|]; cbn [step]; unfold sbind.
  - destruct (woptions_eqb _ _); [|discriminate]. intros H; inversion H; reflexivity.
  - destruct (entry _ _ _ _) as [[? ?]|]; [|discriminate]. intros H; inversion H; reflexivity.
  - destruct (entry _ _ _ _) as [[? ?]|]; [|discriminate]. intros H; inversion H; reflexivity.
  - destruct (entry _ _ _ _) as [[? ?]|]; [|discriminate]. intros H; inversion H; reflexivity.
  - destruct (phys s =? 1).
    + destruct (spo a b c s) as [[[[s1 ?] ?] ?]|] eqn:E; [|discriminate]. intros H; inversion H; subst; cbn.
      apply spo_frame in E. unfold frame_eq in E. tauto.
    + destruct (phys s =? 3); [|discriminate]. destruct (s_open s); [|discriminate].
      destruct (spo a b c s) as [[[[s1 ?] ?] ?]|] eqn:E; [|discriminate]. intros H; inversion H; subst; cbn.
      apply spo_frame in E. unfold frame_eq in E. tauto.
  - destruct (phys s =? 2); [|discriminate].
    destruct (spo a b c s) as [[[[s1 ?] ?] ?]|] eqn:E; [|discriminate].
    destruct (slot true g (s_pg s1) s1) as [[s2 ?]|] eqn:E2; [|discriminate]. intros H; inversion H; subst; cbn.
    apply spo_frame in E. apply slot_frame in E2. unfold frame_eq in *. intuition congruence.
  - destruct (phys s =? 3); [|discriminate]. destruct g as [w|]; [|discriminate].
    destruct (sterm true w s) as [[s1 ?]|] eqn:E; [|discriminate]. intros H; inversion H; subst; cbn.
    apply sterm_frame in E. unfold frame_eq in E. tauto.
  - destruct (phys s =? 3); [|discriminate]. destruct (s_open s); [|discriminate]. intros H; inversion H; reflexivity.
  - destruct (o_version (s_opts s) <? 2); [discriminate|].
    destruct (iri p n s) as [[s1 ?]|] eqn:E; [|discriminate]. intros H; inversion H; subst.
    apply iri_frame in E. unfold frame_eq in E. tauto.
  - discriminate.
Qed.

Lemma Ropts_keep s s' ak po : s_opts s' = s_opts s -> Ropts s ak po -> Ropts s' ak po.
Proof. intros H [A B]. constructor; unfold phys in *; rewrite H; assumption. Qed.

Ltac ak_is HO K :=
  let H := fresh in
  pose proof (ro_ak _ _ _ HO) as H;
  destruct H as [[? ?]|[[? ?]|[? ?]]]; try lia; subst; try reflexivity.

Theorem step_sim (r : row) (s s' : sstate) (evs : list event) (st : dstate) (ak : adapter_kind) (po : poptions) :
  R s st -> Ropts s ak po -> step r s = SOk (s', evs) ->
  exists st', decode_row Generic ak po r st = Ok (st', evs) /\ R s' st' /\ Ropts s' ak po.
Proof.
  intros HR HO Hstep.
  pose proof (Ropts_keep _ _ ak po (step_opts _ _ _ _ Hstep) HO) as HO'.
  revert Hstep. destruct HR as [Ht Hs Hp Ho Hg Hopen].
  destruct r as [o|id v|id v|id v|a b c|a b c g|g| |name p n|]; cbn [step decode_row]; unfold sbind, bind.
  - (* options *)
    destruct (woptions_eqb o (s_opts s)) eqn:E; [|discriminate]. intros H; inversion H; subst.
    rewrite (ro_valid _ _ _ HO o E). eexists. split; [reflexivity|]. split; [constructor; assumption|assumption].
  - (* prefix entry *)
    destruct (entry id v (s_prefixes s) (s_la_p s)) as [[t la]|] eqn:E; [|discriminate].
    intros H; inversion H; subst.
    destruct (entry_sim _ _ _ _ (ds_prefixes st) _ _ (r_prefixes _ _ Ht) (r_la_p _ _ Ht) E) as (d' & A & B & C & D).
    rewrite A. eexists. split; [reflexivity|]. split; [|assumption].
    constructor; cbn; auto. destruct Ht; constructor; cbn; auto. congruence.
  - (* name entry *)
    destruct (entry id v (s_names s) (s_la_n s)) as [[t la]|] eqn:E; [|discriminate].
    intros H; inversion H; subst.
    destruct (entry_sim _ _ _ _ (ds_names st) _ _ (r_names _ _ Ht) (r_la_n _ _ Ht) E) as (d' & A & B & C & D).
    rewrite A. eexists. split; [reflexivity|]. split; [|assumption].
    constructor; cbn; auto. destruct Ht; constructor; cbn; auto. congruence.
  - (* datatype entry *)
    destruct (entry id v (s_datatypes s) (s_la_d s)) as [[t la]|] eqn:E; [|discriminate].
    intros H; inversion H; subst.
    destruct (entry_sim _ _ _ _ (ds_datatypes st) _ _ (r_datatypes _ _ Ht) (r_la_d _ _ Ht) E) as (d' & A & B & C & D).
    rewrite A. eexists. split; [reflexivity|]. split; [|assumption].
    constructor; cbn; auto. destruct Ht; constructor; cbn; auto.
  - (* triple *)
    assert (HRfull : R s st) by (constructor; assumption).
    destruct (phys s =? 1) eqn:E1.
    + destruct (spo a b c s) as [[[[s1 ta] tb] tc]|] eqn:E; [|discriminate].
      intros H; inversion H; subst.
      destruct (spo_sim _ _ _ _ _ _ _ _ _ HRfull E) as [st1 [D1 [R1 F1]]]. rewrite D1.
      apply N.eqb_eq in E1. assert (ak = ATriples) by (ak_is HO ATriples). subst ak.
      pose proof (spo_frame _ _ _ _ _ _ _ _ E) as FE. unfold frame_eq in FE. unfold dframe in F1.
      eexists. split; [reflexivity|]. split; [|assumption].
      constructor; cbn; auto; try (destruct R1; constructor; cbn; auto; fail); intuition congruence.
    + destruct (phys s =? 3) eqn:E3; [|discriminate].
      destruct (s_open s) as [g0|] eqn:Eo; [|discriminate].
      destruct (spo a b c s) as [[[[s1 ta] tb] tc]|] eqn:E; [|discriminate].
      intros H; inversion H; subst.
      destruct (spo_sim _ _ _ _ _ _ _ _ _ HRfull E) as [st1 [D1 [R1 F1]]]. rewrite D1.
      apply N.eqb_eq in E3. apply N.eqb_neq in E1. assert (ak = AGraphs) by (ak_is HO AGraphs). subst ak.
      pose proof (spo_frame _ _ _ _ _ _ _ _ E) as FE. unfold frame_eq in FE. unfold dframe in F1.
      cbn [ds_graph set_spo].
      assert (Hgr : ds_graph st1 = Some g0) by intuition congruence. rewrite Hgr.
      eexists. split; [reflexivity|]. split; [|assumption].
      constructor; cbn; auto; try (destruct R1; constructor; cbn; auto; fail); intuition congruence.
  - (* quad *)
    assert (HRfull : R s st) by (constructor; assumption).
    destruct (phys s =? 2) eqn:E2; [|discriminate].
    destruct (spo a b c s) as [[[[s1 ta] tb] tc]|] eqn:E; [|discriminate].
    destruct (slot true g (s_pg s1) s1) as [[s2 tg]|] eqn:Eg; [|discriminate].
    intros H; inversion H; subst.
    destruct (spo_sim _ _ _ _ _ _ _ _ _ HRfull E) as [st1 [D1 [R1 F1]]]. rewrite D1.
    pose proof (spo_frame _ _ _ _ _ _ _ _ E) as FE. unfold frame_eq in FE. unfold dframe in F1.
    (* the graph slot is decoded in the state with s/p/o already remembered *)
    assert (R1' : Rt s1 (set_spo st1 ta tb tc)) by (destruct R1; constructor; cbn; auto).
    destruct (slot_sim _ _ _ _ _ _ _ R1' Eg) as [st2 [D2 [R2 F2]]].
    assert (Hpg : ds_g (set_spo st1 ta tb tc) = s_pg s1) by (cbn; intuition congruence).
    rewrite Hpg, D2.
    apply N.eqb_eq in E2. assert (ak = AQuads) by (ak_is HO AQuads). subst ak.
    pose proof (slot_frame _ _ _ _ _ _ Eg) as FG. unfold frame_eq in FG. unfold dframe in F2. cbn in F2.
    eexists. split; [reflexivity|]. split; [|assumption].
    constructor; cbn; auto; try (destruct R2; constructor; cbn; auto; fail); intuition congruence.
  - (* graph start *)
    destruct (phys s =? 3) eqn:E3; [|discriminate]. destruct g as [w|]; [|discriminate].
    destruct (sterm true w s) as [[s1 tg]|] eqn:E; [|discriminate]. intros H; inversion H; subst.
    destruct (sterm_sim _ _ _ _ _ _ Ht E) as [st1 [D1 [R1 F1]]]. rewrite D1.
    apply N.eqb_eq in E3. assert (ak = AGraphs) by (ak_is HO AGraphs). subst ak.
    pose proof (sterm_frame _ _ _ _ _ E) as FE. unfold frame_eq in FE. unfold dframe in F1.
    eexists. split; [reflexivity|]. split; [|assumption].
    constructor; cbn; auto; try (destruct R1; constructor; cbn; auto; fail); intuition congruence.
  - (* graph end *)
    destruct (phys s =? 3) eqn:E3; [|discriminate]. destruct (s_open s); [|discriminate].
    intros H; inversion H; subst.
    apply N.eqb_eq in E3. assert (ak = AGraphs) by (ak_is HO AGraphs). subst ak.
    eexists. split; [reflexivity|]. split; [|assumption].
    constructor; cbn; auto. destruct Ht; constructor; cbn; auto.
  - (* namespace *)
    destruct (o_version (s_opts s) <? 2); [discriminate|].
    destruct (iri p n s) as [[s1 i]|] eqn:E; [|discriminate]. intros H; inversion H; subst.
    destruct (iri_sim _ _ _ _ _ _ Ht E) as [st1 [D1 [R1 F1]]]. rewrite D1.
    pose proof (iri_frame _ _ _ _ _ E) as FE. unfold frame_eq in FE. unfold dframe in F1.
    eexists. split; [reflexivity|]. split; [|assumption].
    constructor; cbn; auto; intuition congruence.
  - discriminate.
Qed.

(* ---------- whole row sequences ---------- *)
Theorem run_from_sim (rows : list row) : forall (i : nat) (s : sstate) (acc evs : list event) (st : dstate) (ak : adapter_kind) (po : poptions),
  R s st -> Ropts s ak po -> run_from i rows s acc = Valid evs ->
  exists out, rows_obs Generic ak po rows st = (out, None) /\ evs = acc ++ out.
Proof.
  induction rows as [|r rows IH]; intros i s acc evs st ak po HR HO; cbn [run_from]; unfold rows_obs; cbn [decode_rows].
  - intros H; inversion H; subst. exists []. now rewrite app_nil_r.
  - destruct (step r s) as [[s' e1]|c] eqn:E; [|discriminate]. intros Hrun.
    destruct (step_sim _ _ _ _ _ _ _ HR HO E) as [st' [D [R' O']]]. rewrite D.
    destruct (IH _ _ _ _ _ _ _ R' O' Hrun) as [out [Hobs Hev]].
    unfold rows_obs in Hobs. destruct (decode_rows Generic ak po rows st') as [[st2 o2] err2].
    inversion Hobs; subst. exists (e1 ++ out). split; [reflexivity|]. now rewrite app_assoc.
Qed.

(* the referee's start state and the decoder's start state *)
Definition po_of (o : woptions) (delimited : bool) : poptions :=
  let nd := MAX_VERSION <=? o_version o in
  {| po_phys := o_phys o; po_logical := o_logical o; po_maxn := o_maxn o; po_maxp := o_maxp o; po_maxd := o_maxd o;
     po_name := o_name o; po_gen := o_gen o; po_star := o_star o;
     po_version := if nd then 2 else 1; po_delimited := delimited; po_nd := nd |}.

Lemma spec_compat_type_compat p l : (1 <=? p) && (p <=? 3) = true -> known_logical l = true -> spec_compat p l = true -> type_compat p l = true.
Proof.
  intros Hp Hl Hc. apply andb_prop in Hp. destruct Hp as [H1 H2]. apply N.leb_le in H1, H2.
  unfold known_logical in Hl. rewrite !orb_true_iff, !N.eqb_eq in Hl.
  assert (Hin : In (p, l) all_pairs).
  { assert (Hp3 : p = 1 \/ p = 2 \/ p = 3) by lia.
    destruct Hp3 as [Hp3|[Hp3|Hp3]]; subst p;
      destruct Hl as [[[[[[[Hl|Hl]|Hl]|Hl]|Hl]|Hl]|Hl]|Hl]; subst l; vm_compute; tauto. }
  rewrite (compat_is_spec _ _ Hin). exact Hc.
Qed.

Theorem start_sim (o : woptions) (s0 : sstate) (rows : list row) (md : list (str * str)) (delimited : bool) :
  start o = SOk s0 ->
  exists ak st0,
    options_from_frame {| f_rows := ROptions o :: rows; f_meta := md |} delimited = Ok (po_of o delimited) /\
    route (o_phys o) = Ok ak /\ decoder_new (po_of o delimited) = Ok st0 /\
    R s0 st0 /\ Ropts s0 ak (po_of o delimited).
Proof.
  unfold start.
  destruct (negb ((1 <=? o_phys o) && (o_phys o <=? 3))) eqn:Ep; [discriminate|].
  destruct (2 <? o_version o) eqn:Ev; [discriminate|].
  destruct ((o_maxn o <? 8) || (4096 <? o_maxn o) || (4096 <? o_maxp o) || (4096 <? o_maxd o)
            || negb (known_logical (o_logical o)) || negb (spec_compat (o_phys o) (o_logical o))) eqn:Eb; [discriminate|].
  intros H; inversion H; subst s0; clear H.
  apply negb_false_iff in Ep. rewrite !orb_false_iff in Eb.
  destruct Eb as [[[[[B1 B2] B3] B4] B5] B6]. apply negb_false_iff in B5, B6.
  apply N.ltb_ge in B1, B2, B3, B4, Ev.
  pose proof (spec_compat_type_compat _ _ Ep B5 B6) as Hc.
  assert (Hak : exists ak, route (o_phys o) = Ok ak /\
           ((o_phys o = 1 /\ ak = ATriples) \/ (o_phys o = 2 /\ ak = AQuads) \/ (o_phys o = 3 /\ ak = AGraphs))).
  { apply andb_prop in Ep. destruct Ep as [P1 P2]. apply N.leb_le in P1, P2. unfold route.
    assert (Hp3 : o_phys o = 1 \/ o_phys o = 2 \/ o_phys o = 3) by lia.
    destruct Hp3 as [Hp3|[Hp3|Hp3]]; rewrite Hp3; cbn; eauto 10. }
  destruct Hak as [ak [Hroute Hak]].
  exists ak. eexists. split; [|split; [exact Hroute|split; [|split]]].
  - unfold options_from_frame, first_options, bind; cbn. rewrite Hc. cbn.
    unfold preset_ok, MIN_NAME_LOOKUP_SIZE, MAX_LOOKUP_SIZE. replace (o_maxn o <? 8) with false by (symmetry; apply N.ltb_ge; lia).
    replace (o_maxn o <=? 4096) with true by (symmetry; apply N.leb_le; lia).
    replace (o_maxp o <=? 4096) with true by (symmetry; apply N.leb_le; lia).
    replace (o_maxd o <=? 4096) with true by (symmetry; apply N.leb_le; lia). reflexivity.
  - unfold decoder_new, ldec_new, bind, po_of, MAX_LOOKUP_SIZE; cbn.
    replace (4096 <? o_maxn o) with false by (symmetry; apply N.ltb_ge; lia).
    replace (4096 <? o_maxp o) with false by (symmetry; apply N.ltb_ge; lia).
    replace (4096 <? o_maxd o) with false by (symmetry; apply N.ltb_ge; lia). reflexivity.
  - constructor; cbn; auto. constructor; cbn; auto.
  - constructor; cbn; [exact Hak|].
    intros o' Heq. unfold woptions_eqb in Heq. repeat (apply andb_prop in Heq; destruct Heq as [Heq ?]).
    unfold validate_stream_options, po_of; cbn.
    repeat match goal with H : (_ =? _) = true |- _ => apply N.eqb_eq in H end.
    assert (Hn : str_eqb (o_name o) (o_name o') = true).
    { assert (Hsym : forall a b, str_eqb a b = str_eqb b a).
      { induction a as [|x a IHa]; intros [|y b]; cbn; auto. now rewrite N.eqb_sym, IHa. }
      rewrite Hsym. assumption. }
    rewrite Hn. replace (o_phys o =? o_phys o') with true by (symmetry; apply N.eqb_eq; congruence).
    replace (o_logical o =? o_logical o') with true by (symmetry; apply N.eqb_eq; congruence).
    replace (o_maxp o =? o_maxp o') with true by (symmetry; apply N.eqb_eq; congruence).
    replace (o_maxd o =? o_maxd o') with true by (symmetry; apply N.eqb_eq; congruence).
    replace (o_maxn o =? o_maxn o') with true by (symmetry; apply N.eqb_eq; congruence).
    assert (Hv : o_version o' = o_version o) by congruence. rewrite Hv. unfold MAX_VERSION.
    cbn. repeat rewrite andb_true_r.
    destruct (2 <=? o_version o) eqn:E2; [apply N.leb_le in E2|apply N.leb_gt in E2]; apply N.leb_le; lia.
Qed.

(* C04: every stream the referee accepts is decoded to exactly the events it denotes *)
Theorem decoder_sound (rows : list row) (evs : list event) (md : list (str * str)) (delimited : bool) :
  run rows = Valid evs ->
  exists o rest ak st0,
    rows = ROptions o :: rest /\
    options_from_frame {| f_rows := rows; f_meta := md |} delimited = Ok (po_of o delimited) /\
    route (o_phys o) = Ok ak /\ decoder_new (po_of o delimited) = Ok st0 /\
    rows_obs Generic ak (po_of o delimited) rows st0 = (evs, None).
Proof.
  unfold run. destruct rows as [|[o|?|?|?|?|?|?| |?|] rest]; try discriminate.
  destruct (start o) as [s0|c] eqn:Es; [|discriminate]. intros Hrun.
  destruct (start_sim o s0 rest md delimited Es) as (ak & st0 & Hopt & Hroute & Hdec & HR & HO).
  exists o, rest, ak, st0. split; [reflexivity|]. split; [exact Hopt|]. split; [exact Hroute|]. split; [exact Hdec|].
  (* the first row is the options row itself: validated against itself *)
  unfold rows_obs. cbn [decode_rows decode_row].
  assert (Hself : woptions_eqb o (s_opts s0) = true).
  { unfold start in Es. repeat match type of Es with (if ?c then _ else _) = _ => destruct c; [discriminate|] end.
    inversion Es; subst; cbn. unfold woptions_eqb.
    assert (Hr : forall a, str_eqb a a = true) by (induction a as [|x a IH]; cbn; [reflexivity|now rewrite N.eqb_refl, IH]).
    rewrite Hr, !N.eqb_refl, !Bool.eqb_reflx. reflexivity. }
  rewrite (ro_valid _ _ _ HO o Hself).
  destruct (run_from_sim rest 1 s0 [] evs st0 ak _ HR HO Hrun) as [out [Hobs Hev]].
  unfold rows_obs in Hobs. destruct (decode_rows Generic ak (po_of o delimited) rest st0) as [[st2 o2] err2].
  inversion Hobs; subst. reflexivity.
Qed.

(* ---------- frames: options from the first non-empty frame, any partition ---------- *)
Lemma skip_empty_first (fs : list frame) (r : row) (rest : list row) :
  flat_map f_rows fs = r :: rest ->
  exists sk first more tl, skip_empty fs = (sk, first :: more) /\ f_rows first = r :: tl.
Proof.
  induction fs as [|f fs IH]; cbn [flat_map skip_empty]; [discriminate|].
  destruct (f_rows f) as [|r0 rs] eqn:E; cbn [is_nil app].
  - intros H. destruct (IH H) as (sk & first & more & tl & Hs & Hf). rewrite Hs. eauto 8.
  - intros H. inversion H; subst. exists [], f, fs, rs. auto.
Qed.

Lemma options_from_first_row (f : frame) (o : woptions) (tl : list row) (d : bool) (rows : list row) (md : list (str * str)) :
  f_rows f = ROptions o :: tl ->
  options_from_frame f d = options_from_frame {| f_rows := ROptions o :: rows; f_meta := md |} d.
Proof. intros H. unfold options_from_frame, first_options. rewrite H. reflexivity. Qed.

Theorem decoder_sound_frames (fs : list frame) (evs : list event) (d : bool) :
  run_frames fs = Valid evs ->
  exists po ak st0 sk first more,
    skip_empty fs = (sk, first :: more) /\ options_from_frame first d = Ok po /\
    route (po_phys po) = Ok ak /\ decoder_new po = Ok st0 /\
    flat_obs (decode_frames Generic ak po fs st0) = (evs, None).
Proof.
  unfold run_frames. intros Hrun.
  destruct (decoder_sound _ _ [] d Hrun) as (o & rest & ak & st0 & Hrows & Hopt & Hroute & Hdec & Hobs).
  destruct (skip_empty_first fs _ _ Hrows) as (sk & first & more & tl & Hs & Hf).
  exists (po_of o d), ak, st0, sk, first, more. split; [exact Hs|]. split.
  - rewrite (options_from_first_row first o tl d rest [] Hf). rewrite <- Hrows. exact Hopt.
  - split; [exact Hroute|]. split; [exact Hdec|]. rewrite flat_is_rows. exact Hobs.
Qed.
