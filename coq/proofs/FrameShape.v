(* FrameShape.v -- every frame a serializer generator hands out is "plain": it has at least one
   row and no metadata (frames are only ever built by to_stream_frame from a non-empty buffer). *)
From Coq Require Import Arith Lia.
From PJ.Model Require Import Base Lookup Terms Encoder Streams.

Definition plain (f : frame) : Prop := f_meta f = [] /\ f_rows f <> [].
Definition oplain (o : option frame) : Prop := match o with Some f => plain f | None => True end.
Definition all_plain (evs : list tev) : Prop := Forall plain (emitted evs).

Lemma emitted_app' a b : emitted (a ++ b) = emitted a ++ emitted b.
Proof. induction a as [|x a IH]; cbn; [reflexivity|]. destruct x; cbn; now rewrite ?IH. Qed.

Lemma all_plain_app a b : all_plain a -> all_plain b -> all_plain (a ++ b).
Proof. unfold all_plain. rewrite emitted_app'. intros. apply Forall_app. auto. Qed.
Lemma all_plain_nil : all_plain [].
Proof. constructor. Qed.
Lemma all_plain_emit_opt o : oplain o -> all_plain (emit_opt o).
Proof. destruct o; cbn; intros H; [constructor; [exact H|constructor]|constructor]. Qed.
Lemma all_plain_pull evs : all_plain evs -> all_plain (Pull :: evs).
Proof. exact (fun H => H). Qed.
Lemma all_plain_raise e : all_plain [Raise e].
Proof. constructor. Qed.

Lemma to_stream_frame_plain f : oplain (snd (to_stream_frame f)).
Proof. unfold to_stream_frame. destruct (fl_rows f) eqn:E; cbn; [exact I|]. split; [reflexivity|discriminate]. Qed.
Lemma frame_from_bounds_plain f : oplain (snd (frame_from_bounds f)).
Proof. unfold frame_from_bounds. destruct (is_bounded _); [|exact I]. destruct (_ <=? _); [apply to_stream_frame_plain|exact I]. Qed.
Lemma frame_from_graph_plain f : oplain (snd (frame_from_graph f)).
Proof. unfold frame_from_graph. destruct (fl_kind f); try exact I. apply to_stream_frame_plain. Qed.
Lemma frame_from_dataset_plain f : oplain (snd (frame_from_dataset f)).
Proof. unfold frame_from_dataset. destruct (fl_kind f); try exact I. apply to_stream_frame_plain. Qed.

Lemma stream_triple_plain terms s s' fr : stream_triple terms s = (s', Ok fr) -> oplain fr.
Proof.
  unfold stream_triple, refuse. destruct (st_failed s); [discriminate|].
  destruct (encode_triple _ _ _ _) as [[[t' rp'] rows]|e]; [|discriminate].
  pose proof (frame_from_bounds_plain (flow_extend (st_flow s) rows)) as P.
  destruct (frame_from_bounds _) as [fl fr']. intros H; inversion H; subst. exact P.
Qed.
Lemma stream_quad_plain terms s s' fr : stream_quad terms s = (s', Ok fr) -> oplain fr.
Proof.
  unfold stream_quad, refuse. destruct (st_failed s); [discriminate|].
  destruct (encode_quad _ _ _ _) as [[[t' rp'] rows]|e]; [|discriminate].
  pose proof (frame_from_bounds_plain (flow_extend (st_flow s) rows)) as P.
  destruct (frame_from_bounds _) as [fl fr']. intros H; inversion H; subst. exact P.
Qed.

Lemma feed_plain (step : list term -> stream -> step_result) stmts :
  (forall t x x' fr, step t x = (x', Ok fr) -> oplain fr) ->
  forall s s' evs ok, feed step stmts s = (s', evs, ok) -> all_plain evs.
Proof.
  intros Hstep. induction stmts as [|st rest IH]; intros s s' evs ok; cbn [feed].
  - intros H; inversion H; subst. constructor.
  - destruct (step st s) as [s1 [fr|e]] eqn:E.
    + destruct (feed step rest s1) as [[s2 evs2] ok2] eqn:E2. intros H; inversion H; subst.
      apply all_plain_pull. apply all_plain_app; [apply all_plain_emit_opt; eapply Hstep; eauto|eapply IH; eauto].
    + intros H; inversion H; subst. constructor.
Qed.

Lemma finish_plain b s s' evs : finish b s = (s', evs) -> all_plain evs.
Proof.
  unfold finish.
  pose proof (frame_from_graph_plain (st_flow s)) as P1. pose proof (frame_from_dataset_plain (st_flow s)) as P2.
  destruct b.
  - destruct (frame_from_graph (st_flow s)) as [fl1 fr1]. pose proof (to_stream_frame_plain fl1) as P3.
    destruct (to_stream_frame fl1) as [fl2 fr2]. intros H; inversion H; subst.
    apply all_plain_app; apply all_plain_emit_opt; assumption.
  - destruct (frame_from_dataset (st_flow s)) as [fl1 fr1]. pose proof (to_stream_frame_plain fl1) as P3.
    destruct (to_stream_frame fl1) as [fl2 fr2]. intros H; inversion H; subst.
    apply all_plain_app; apply all_plain_emit_opt; assumption.
Qed.

Theorem triples_frames_plain d s s' evs : triples_stream_frames d s = (s', evs) -> all_plain evs.
Proof.
  unfold triples_stream_frames. destruct (ns_phase false d (enroll s)) as [s1 [u|e]]; [|intros H; inversion H; constructor].
  destruct (feed stream_triple (d_stmts d) s1) as [[s2 evs2] ok] eqn:E.
  pose proof (feed_plain _ _ stream_triple_plain _ _ _ _ E) as P. destruct ok.
  - destruct (finish true s2) as [s3 fin] eqn:F. intros H; inversion H; subst.
    apply all_plain_app; [exact P|eapply finish_plain; eauto].
  - intros H; inversion H; subst. exact P.
Qed.

Theorem quads_frames_plain d s s' evs : quads_stream_frames d s = (s', evs) -> all_plain evs.
Proof.
  unfold quads_stream_frames. destruct (ns_phase true d (enroll s)) as [s1 [u|e]]; [|intros H; inversion H; constructor].
  destruct (feed stream_quad (d_stmts d) s1) as [[s2 evs2] ok] eqn:E.
  pose proof (feed_plain _ _ stream_quad_plain _ _ _ _ E) as P. destruct ok.
  - destruct (finish false s2) as [s3 fin] eqn:F. intros H; inversion H; subst.
    apply all_plain_app; [exact P|eapply finish_plain; eauto].
  - intros H; inversion H; subst. exact P.
Qed.

Lemma graph_triples_plain triples : forall s s' evs ok, graph_triples triples s = (s', evs, ok) -> all_plain evs.
Proof.
  induction triples as [|tr rest IH]; intros s s' evs ok; cbn [graph_triples].
  - intros H; inversion H; constructor.
  - destruct (stream_triple tr s) as [s1 [fr|e]] eqn:E.
    + destruct (graph_triples rest s1) as [[s2 evs2] ok2] eqn:E2. intros H; inversion H; subst.
      apply all_plain_app; [apply all_plain_emit_opt; eapply stream_triple_plain; eauto|eapply IH; eauto].
    + intros H; inversion H; subst. constructor.
Qed.

Lemma stream_graph_plain g ts s s' evs ok : stream_graph g ts s = (s', evs, ok) -> all_plain evs.
Proof.
  unfold stream_graph. destruct (st_failed s); [intros H; inversion H; constructor|].
  destruct (encode_graph_start _ _ _) as [[t' rows]|e]; [|intros H; inversion H; constructor].
  destruct (graph_triples ts _) as [[s2 evs2] ok2] eqn:E. pose proof (graph_triples_plain _ _ _ _ _ E) as P.
  destruct ok2.
  - pose proof (frame_from_bounds_plain (flow_extend (st_flow s2) [RGraphEnd])) as Pb.
    destruct (frame_from_bounds _) as [fl fr]. intros H; inversion H; subst.
    apply all_plain_app; [exact P|apply all_plain_emit_opt; exact Pb].
  - intros H; inversion H; subst. exact P.
Qed.

Lemma all_plain_pulls n : all_plain (pulls n).
Proof. induction n; [constructor|exact IHn]. Qed.

Lemma feed_graphs_generic_plain graphs : forall first s s' evs ok,
  feed_graphs_generic first graphs s = (s', evs, ok) -> all_plain evs.
Proof.
  induction graphs as [|[g ts] rest IH]; intros first s s' evs ok; cbn [feed_graphs_generic].
  - intros H; inversion H; constructor.
  - destruct (stream_graph g ts s) as [[s1 evs1] ok1] eqn:E. pose proof (stream_graph_plain _ _ _ _ _ _ E) as P.
    destruct ok1.
    + destruct (feed_graphs_generic false rest s1) as [[s2 evs2] ok2] eqn:E2. intros H; inversion H; subst.
      apply all_plain_app; [apply all_plain_pulls|]. apply all_plain_app; [exact P|eapply IH; eauto].
    + intros H; inversion H; subst. apply all_plain_app; [apply all_plain_pulls|exact P].
Qed.

Theorem graphs_frames_plain d s s' evs : graphs_stream_frames_generic d s = (s', evs) -> all_plain evs.
Proof.
  unfold graphs_stream_frames_generic. destruct (ns_phase true d (enroll s)) as [s1 [u|e]]; [|intros H; inversion H; constructor].
  destruct (d_stmts d) as [|st rest].
  - destruct (finish false s1) as [s3 fin] eqn:F. intros H; inversion H; subst. apply all_plain_pull. eapply finish_plain; eauto.
  - destruct (feed_graphs_generic true _ s1) as [[s2 evs2] ok] eqn:E.
    pose proof (feed_graphs_generic_plain _ _ _ _ _ _ E) as P. destruct ok.
    + destruct (finish false s2) as [s3 fin] eqn:F. intros H; inversion H; subst.
      apply all_plain_app; [exact P|eapply finish_plain; eauto].
    + intros H; inversion H; subst. exact P.
Qed.
