(* Den.v -- what a wire term denotes relative to the writer's tables: each IRI / datatype reference
   is an index at which the writer's table holds the intended string, with the zero forms
   resolved against the running "previous IRI" ids.  Sound for the Spec referee whenever the
   referee's tables mirror the writer's on the keys used; monotone in the tables as long as
   those keys keep their indices -- which is how deferral within a statement is handled. *)
From Coq Require Import Arith Lia.
From PJ.Model Require Import Base Lookup Terms Encoder Spec.
From PJ.Proofs Require Import TermInd DecoderSound.

(* the term the reader obtains for an API term (C01's notion of equality):
   xsd:string is the plain literal, empty language tag / datatype mean none, a datatype wins over a tag *)
Fixpoint norm (t : term) : term :=
  match t with
  | TLit lex lang dt =>
    match truthy dt with
    | Some d => if str_eqb d xsd_string
                then (match truthy lang with Some l => TLit lex (Some l) None | None => TLit lex None None end)
                else TLit lex None (Some d)
    | None => match truthy lang with Some l => TLit lex (Some l) None | None => TLit lex None None end
    end
  | TTriple s p o => TTriple (norm s) (norm p) (norm o)
  | _ => t
  end.

Section Den.
Context (fN fP fD : str -> option N) (KN KP KD : str -> Prop).

Inductive Den : N * N -> wterm -> term -> N * N -> Prop :=
| DIri lp ln p n prefix name p' n' :
    n' = (if n =? 0 then ln + 1 else n) -> KN name -> fN name = Some n' ->
    p' = (if p =? 0 then lp else p) ->
    ((p' = 0 /\ prefix = []) \/ (KP prefix /\ fP prefix = Some p')) ->
    Den (lp, ln) (WIri p n) (TIri (prefix ++ name)) (p', n')
| DBnode L l : Den L (WBnode l) (TBnode l) L
| DLitPlain L lex : Den L (WLit lex LkNone) (TLit lex None None) L
| DLitLang L lex tag : is_nil tag = false -> Den L (WLit lex (LkLang tag)) (TLit lex (Some tag) None) L
| DLitDt L lex d dt : d <> 0 -> KD dt -> fD dt = Some d -> Den L (WLit lex (LkDt d)) (TLit lex None (Some dt)) L
| DDefault L : Den L WDefault TDefault L
| DTriple L L1 L2 L3 a b c ta tb tc :
    Den L a ta L1 -> Den L1 b tb L2 -> Den L2 c tc L3 -> a <> WDefault -> b <> WDefault -> c <> WDefault ->
    Den L (WTriple (Some a) (Some b) (Some c)) (TTriple ta tb tc) L3.
End Den.

(* monotone: the keys used keep their indices *)
Lemma Den_mono fN fP fD (KN KP KD : str -> Prop) fN' fP' fD' (KN' KP' KD' : str -> Prop) L w tm L' :
  (forall k i, KN k -> fN k = Some i -> fN' k = Some i) -> (forall k, KN k -> KN' k) ->
  (forall k i, KP k -> fP k = Some i -> fP' k = Some i) -> (forall k, KP k -> KP' k) ->
  (forall k i, KD k -> fD k = Some i -> fD' k = Some i) -> (forall k, KD k -> KD' k) ->
  Den fN fP fD KN KP KD L w tm L' -> Den fN' fP' fD' KN' KP' KD' L w tm L'.
Proof.
  intros HN HKN HP HKP HD HKD H. induction H.
  - eapply DIri; eauto. destruct H3 as [?|[? ?]]; [now left|right; eauto].
  - constructor.
  - constructor.
  - now constructor.
  - constructor; eauto.
  - constructor.
  - econstructor; eauto.
Qed.

(* sound for the referee *)
Definition wf_pos (graph : bool) (w : wterm) : Prop :=
  if graph then (match w with WTriple _ _ _ => False | _ => True end) else w <> WDefault.

Lemma Den_sound fN fP fD (KN KP KD : str -> Prop) :
  forall L w tm L', Den fN fP fD KN KP KD L w tm L' ->
  forall graph ss, wf_pos graph w ->
    (forall k i, KN k -> fN k = Some i -> tget i (s_names ss) = SOk k) ->
    (forall k i, KP k -> fP k = Some i -> tget i (s_prefixes ss) = SOk k /\ 1 <= i) ->
    (forall k i, KD k -> fD k = Some i -> tget i (s_datatypes ss) = SOk k) ->
    s_last_pid ss = fst L -> s_last_nid ss = snd L ->
    exists ss', sterm graph w ss = SOk (ss', tm) /\ frame_eq ss ss' /\ s_last_pid ss' = fst L' /\ s_last_nid ss' = snd L'.
Proof.
  intros L w tm L' H. induction H; intros graph ss Hwf HN HP HD HLp HLn; cbn [fst snd] in *.
  - (* IRI *)
    cbn [sterm]. unfold sbind, iri. rewrite HLn, HLp. rewrite <- H, <- H2.
    rewrite (HN _ _ H0 H1).
    destruct H3 as [[Hp0 Hpre]|[HK Hf]].
    + subst prefix. rewrite Hp0. cbn. eexists. split; [reflexivity|]. split; [|split; reflexivity].
      unfold frame_eq; cbn. repeat split.
    + destruct (HP _ _ HK Hf) as [Hget Hpos].
      replace (p' =? 0) with false by (symmetry; apply N.eqb_neq; lia).
      rewrite Hget. eexists. split; [reflexivity|]. split; [|split; reflexivity].
      unfold frame_eq; cbn. repeat split.
  - eexists. split; [reflexivity|]. split; [apply frame_refl|auto].
  - eexists. split; [reflexivity|]. split; [apply frame_refl|auto].
  - cbn [sterm literal]. rewrite H. cbn. eexists. split; [reflexivity|]. split; [apply frame_refl|auto].
  - cbn [sterm literal]. replace (d =? 0) with false by (symmetry; apply N.eqb_neq; assumption).
    pose proof (HD _ _ H0 H1) as Hget.
    assert (Hne : is_nil (s_datatypes ss) = false).
    { destruct (s_datatypes ss); [|reflexivity]. unfold tget, in_table, nlen in Hget. cbn in Hget.
      destruct (1 <=? d) eqn:E1; cbn in Hget; try discriminate.
      destruct (d <=? 0) eqn:E2; cbn in Hget; try discriminate. apply N.leb_le in E1, E2. lia. }
    rewrite Hne. unfold sbind. rewrite Hget. eexists. split; [reflexivity|]. split; [apply frame_refl|auto].
  - cbn [sterm]. unfold wf_pos in Hwf. destruct graph; [|congruence].
    eexists. split; [reflexivity|]. split; [apply frame_refl|auto].
  - cbn [sterm]. unfold wf_pos in Hwf. destruct graph; [contradiction|].
    destruct (IHDen1 false ss H2 HN HP HD HLp HLn) as (s1 & E1 & F1 & P1 & N1). unfold sbind. rewrite E1.
    assert (T1 : s_names s1 = s_names ss /\ s_prefixes s1 = s_prefixes ss /\ s_datatypes s1 = s_datatypes ss) by (unfold frame_eq in F1; tauto).
    destruct T1 as (Tn1 & Tp1 & Td1).
    destruct (IHDen2 false s1 H3) as (s2 & E2 & F2 & P2 & N2); try (rewrite ?Tn1, ?Tp1, ?Td1; assumption). rewrite E2.
    assert (T2 : s_names s2 = s_names ss /\ s_prefixes s2 = s_prefixes ss /\ s_datatypes s2 = s_datatypes ss) by (unfold frame_eq in F2; intuition congruence).
    destruct T2 as (Tn2 & Tp2 & Td2).
    destruct (IHDen3 false s2 H4) as (s3 & E3 & F3 & P3 & N3); try (rewrite ?Tn2, ?Tp2, ?Td2; assumption). rewrite E3.
    eexists. split; [reflexivity|]. split; [|auto].
    eapply frame_trans; [exact F1|]. eapply frame_trans; eassumption.
Qed.
