(* EncLookup.v -- one lookup table of the writer against one table of the Spec referee, inside a
   statement: entry rows keep the mirror invariant, touched keys keep their index (recency + the
   per-statement guard), and every index the writer hands out is resolved by the referee. *)
From Coq Require Import Arith Lia Permutation.
From PJ.Model Require Import Base Lookup Terms Encoder Spec.
From PJ.Proofs Require Import Mirror MirrorRun Recency DecoderSound.

Notation sfind := (find str_eqb).

Definition mkd (T : table) (la lr : N) : @ldec str := {| d_data := T; d_last_assigned := la; d_last_reused := lr |}.

(* the writer's table mirrors the referee's table (last-reused is the writer's own business here) *)
(* ... and conversely every filled slot of the referee's table is a live entry of the writer, at that
   index (so a string the writer does not hold is nowhere in the referee's table: C19, no redundant
   entries) *)
Definition Conv (e : slenc) (T : table) : Prop :=
  forall j k, nth_error T j = Some (Some k) -> In (k, N.of_nat j + 1) (l_data (e_lookup e)).

Definition InvT (e : slenc) (T : table) (la : N) : Prop :=
  @Inv str e (mkd T la (e_last_reused e)) /\ Conv e T.

Lemma conv_move k (e : slenc) l' la lr T :
  move_to_end str_eqb k (e_lookup e) = Some l' -> Conv e T ->
  Conv {| e_lookup := l'; e_last_assigned := la; e_last_reused := lr |} T.
Proof.
  intros Hmv HC j k' Hj. cbn. specialize (HC j k' Hj). unfold move_to_end in Hmv.
  destruct (find str_eqb k (l_data (e_lookup e))) as [i|] eqn:Ef; [|discriminate]. inversion Hmv; subst; cbn.
  eapply Permutation_in; [apply Permutation_sym; apply (move_perm str_eqb str_eqb_spec); exact Ef|exact HC].
Qed.

Lemma conv_init size : Conv (lenc_init size) (repeat None (N.to_nat size)).
Proof.
  intros j k H. exfalso. assert (G : forall n j, nth_error (repeat (@None str) n) j <> Some (Some k)).
  { induction n as [|n IH]; intros [|j']; cbn; try discriminate. apply IH. }
  exact (G _ _ H).
Qed.

(* ---- assign_entry / at_ on the decoder's representation = entry / tget of the referee ---- *)
Lemma assign_is_entry id k T la lr d' :
  assign_entry id k (mkd T la lr) = Some d' ->
  entry id k T la = SOk (d_data d', d_last_assigned d') /\ d_last_reused d' = lr.
Proof.
  unfold assign_entry, entry, in_range, in_table, nlen; cbn.
  set (i := if id =? 0 then la + 1 else id).
  destruct ((1 <=? i) && (i <=? N.of_nat (length T))) eqn:E; [|discriminate].
  apply andb_prop in E. destruct E as [E1 E2]. apply N.leb_le in E1, E2.
  rewrite set_nth_tset by lia. intros H; inversion H; subst; cbn. auto.
Qed.

Lemma at_is_tget i T la lr d' k : at_ i (mkd T la lr) = Some (d', k) -> tget i T = SOk k.
Proof.
  unfold at_, tget, in_range, in_table, nlen; cbn.
  destruct ((1 <=? i) && (i <=? N.of_nat (length T))); [|discriminate].
  destruct (nth_error T (N.to_nat (i - 1))) as [[v|]|]; try discriminate. intros H; inversion H; reflexivity.
Qed.

(* a live writer entry is resolved by the referee *)
Lemma live_entry_resolves e T la k i : InvT e T la -> sfind k (l_data (e_lookup e)) = Some i -> tget i T = SOk k /\ 1 <= i.
Proof.
  intros [HI _] Hf. apply (find_In str_eqb str_eqb_spec) in Hf.
  destruct HI as [Hp Hs Hk Hi Hr Hm Hfl Hfu Hla Hlr]. cbn in *.
  pose proof (Hr _ _ Hf) as Hrange. pose proof (Hm _ _ Hf) as Hnth.
  unfold tget, in_table, nlen. replace ((1 <=? i) && (i <=? N.of_nat (length T))) with true.
  - rewrite Hnth. split; [reflexivity|lia].
  - symmetry. apply andb_true_intro. split; apply N.leb_le; lia.
Qed.

(* ---- touched keys as a list ---- *)
Lemma mem_str_existsb k l : mem_str k l = existsb (str_eqb k) l.
Proof. induction l as [|x l IH]; cbn; [reflexivity|]. now rewrite IH. Qed.

Lemma mem_str_In k l : mem_str k l = true <-> In k l.
Proof.
  rewrite mem_str_existsb, existsb_exists. split.
  - intros [x [Hx Hk]]. destruct (str_eqb_spec k x); [subst; assumption|discriminate].
  - intros H. exists k. split; [assumption|]. destruct (str_eqb_spec k k); congruence.
Qed.

Lemma set_add_spec k l : forall x, In x (set_add k l) <-> x = k \/ In x l.
Proof.
  intros x. unfold set_add. destruct (mem_str k l) eqn:E.
  - apply mem_str_In in E. split; [tauto|]. intros [->|H]; assumption.
  - cbn. split; intros [H|H]; auto.
Qed.

Lemma set_add_nodup k l : NoDup l -> NoDup (set_add k l).
Proof.
  intros H. unfold set_add. destruct (mem_str k l) eqn:E; [assumption|]. constructor; [|assumption].
  intro Hin. apply mem_str_In in Hin. congruence.
Qed.

Lemma set_add_touched k l : set_add k l = if existsb (str_eqb k) l then l else k :: l.
Proof. unfold set_add. now rewrite mem_str_existsb. Qed.

(* the per-statement state of one table *)
Record Wk (e : slenc) (touched : list str) : Prop := {
  wk_nodup : NoDup touched;
  wk_touched : Touched (e_lookup e) touched;
  wk_live : forall k, In k touched -> sfind k (l_data (e_lookup e)) <> None }.

Lemma wk_start e : Wk e [].
Proof. constructor; [constructor|apply touched_nil|cbn; tauto]. Qed.

(* NoDup lists with the same elements have the same length *)
Lemma nodup_same_length (a b : list str) : NoDup a -> NoDup b -> (forall x, In x a <-> In x b) -> length a = length b.
Proof.
  intros Ha Hb H. apply Nat.le_antisymm; apply NoDup_incl_length; auto; intros x Hx; apply H; assumption.
Qed.

(* a miss: the reader's slot i is overwritten with k, the writer drops whatever had index i *)
Lemma conv_insert k (tb : slenc) T la l' i d' :
  @Inv str tb (mkd T la (e_last_reused tb)) -> Conv tb T ->
  insert k (e_lookup tb) = Some (l', i) ->
  assign_entry (if i =? e_last_assigned tb + 1 then 0 else i) k (mkd T la (e_last_reused tb)) = Some d' ->
  Conv {| e_lookup := l'; e_last_assigned := i; e_last_reused := e_last_reused tb |} (d_data d').
Proof.
  intros HI HC Hins Ha.
  pose proof HI as [Hp Hs Hk Hi Hr Hm Hfl Hfu Hla Hlr]. cbn in Hs, Hm, Hla, Hlr.
  (* the inserted index and what survives *)
  assert (Hkeep : 1 <= i /\ In (k, i) (l_data l') /\ forall k' i', In (k', i') (l_data (e_lookup tb)) -> i' <> i -> In (k', i') (l_data l')).
  { unfold insert in Hins. destruct (l_max (e_lookup tb) =? 0); [discriminate|].
    destruct (l_evicting (e_lookup tb)).
    - destruct (l_data (e_lookup tb)) as [|[k0 i0] rest] eqn:Ed; [discriminate|]. inversion Hins; subst; cbn.
      split; [apply (Hr k0 i); now left|]. split; [apply in_or_app; right; now left|].
      intros k' i' [Heq|Hin] Hne; [inversion Heq; subst; contradiction|apply in_or_app; now left].
    - inversion Hins; subst; cbn. split; [lia|]. split; [apply in_or_app; right; now left|].
      intros k' i' Hin _. apply in_or_app; now left. }
  destruct Hkeep as (Hi1 & Hnew & Hold).
  unfold assign_entry in Ha. cbn [d_last_assigned d_data mkd] in Ha.
  set (ix := if (if i =? e_last_assigned tb + 1 then 0 else i) =? 0 then la + 1 else (if i =? e_last_assigned tb + 1 then 0 else i)) in Ha.
  assert (Hix : ix = i).
  { subst ix. rewrite Hla. destruct (N.eqb_spec i (la + 1)) as [->|Hne]; cbn [N.eqb]; [reflexivity|].
    destruct (N.eqb_spec i 0); [lia|reflexivity]. }
  rewrite Hix in Ha. destruct (in_range i (mkd T la (e_last_reused tb))); [|discriminate].
  destruct (set_nth (N.to_nat (i - 1)) (Some k) T) as [T'|] eqn:Es; [|discriminate]. inversion Ha; subst d'; cbn.
  intros j k' Hj. cbn.
  destruct (Nat.eq_dec (N.to_nat (i - 1)) j) as [Hej|Hne].
  - subst j. rewrite (set_nth_same _ _ _ _ Es) in Hj. inversion Hj; subst k'.
    replace (N.of_nat (N.to_nat (i - 1)) + 1) with i by lia. exact Hnew.
  - rewrite (set_nth_other _ _ _ _ _ Es Hne) in Hj. apply Hold; [exact (HC _ _ Hj)|]. lia.
Qed.

(* ---- entry_index: the guard, then hit or miss ---- *)
Theorem entry_index_spec (tb tb' : slenc) (keys keys' : list str) (k : str) (oe : option N) (T : table) (la : N) :
  InvT tb T la -> Wk tb keys ->
  entry_index tb keys k = Ok (tb', keys', oe) ->
  (match oe with
   | Some id => exists T' la', entry id k T la = SOk (T', la') /\ InvT tb' T' la'
   | None => InvT tb' T la
   end) /\
  Wk tb' keys' /\ keys' = set_add k keys /\
  (forall k', In k' keys -> sfind k' (l_data (e_lookup tb')) = sfind k' (l_data (e_lookup tb))) /\
  lmax tb' = lmax tb /\ e_last_reused tb' = e_last_reused tb.
Proof.
  intros [HI HC] [Hnd Htc Hlive]. unfold entry_index.
  destruct (lmax tb <? nlen (set_add k keys)) eqn:Eg; [discriminate|]. apply N.ltb_ge in Eg.
  destruct (encode_entry_index str_eqb k tb) as [[t1 oe1]|] eqn:Ee; [|discriminate].
  intros H; inversion H; subst tb' keys' oe; clear H.
  pose proof HI as [Hp Hs Hk Hi Hr Hm Hfl Hfu Hla Hlr]. cbn in Hs, Hm, Hla, Hlr.
  unfold encode_entry_index in Ee.
  destruct (move_to_end str_eqb k (e_lookup tb)) as [l'|] eqn:Emv.
  - (* hit *)
    inversion Ee; subst t1 oe1; clear Ee.
    destruct (hit_mirror str_eqb str_eqb_spec k tb _ l' HI Emv) as [HI' _].
    pose proof (move_to_end_find str_eqb str_eqb_spec k _ _ Hk Emv) as Hfind.
    split; [split; [exact HI'|exact (conv_move _ _ _ _ _ _ Emv HC)]|]. split; [|split; [reflexivity|split; [|split]]].
    + constructor; cbn.
      * now apply set_add_nodup.
      * rewrite set_add_touched. exact (touched_move str_eqb str_eqb_spec k _ l' keys Hk Htc Emv).
      * intros k' Hk'. rewrite Hfind. apply set_add_spec in Hk'. destruct Hk' as [->|Hk'].
        -- unfold move_to_end in Emv. destruct (sfind k (l_data (e_lookup tb))); [discriminate|discriminate].
        -- now apply Hlive.
    + intros k' _. cbn. apply Hfind.
    + unfold lmax; cbn. unfold move_to_end in Emv. destruct (sfind k _); [|discriminate]. inversion Emv; reflexivity.
    + reflexivity.
  - (* miss *)
    assert (Hnf : sfind k (l_data (e_lookup tb)) = None).
    { unfold move_to_end in Emv. destruct (sfind k _); [discriminate|reflexivity]. }
    pose proof (find_None str_eqb str_eqb_spec k _ Hnf) as Hnotin.
    assert (Hknew : ~ In k keys) by (intro Hc; exact (Hlive _ Hc Hnf)).
    destruct (insert k (e_lookup tb)) as [[l' i]|] eqn:Eins; [|discriminate].
    inversion Ee; subst t1 oe1; clear Ee.
    destruct (insert_mirror k tb _ l' i HI Hnotin Eins) as [d' [Ha [HI' [Hin Hrange]]]].
    cbn in Ha. change (mkd T la (e_last_reused tb)) with (mkd T la (e_last_reused tb)) in Ha.
    destruct (assign_is_entry _ _ _ _ _ _ Ha) as [Hent Hlr'].
    assert (Hset : set_add k keys = k :: keys).
    { unfold set_add. destruct (mem_str k keys) eqn:E; [apply mem_str_In in E; contradiction|reflexivity]. }
    split.
    + exists (d_data d'), (d_last_assigned d'). split; [exact Hent|].
      pose proof (conv_insert k tb T la l' i d' HI HC Eins Ha) as HC'.
      unfold InvT; cbn. destruct d' as [dd dla dlr]; cbn in *. subst dlr. split; [exact HI'|exact HC'].
    + assert (Hmax : l_max l' = l_max (e_lookup tb)).
      { unfold insert in Eins. destruct (l_max (e_lookup tb) =? 0); [discriminate|].
        destruct (l_evicting (e_lookup tb)); [destruct (l_data (e_lookup tb)) as [|[? ?] ?]; [discriminate|]|];
          inversion Eins; reflexivity. }
      destruct (l_evicting (e_lookup tb)) eqn:Eev.
      * (* evicting: the head is not touched, by the guard *)
        specialize (Hfu eq_refl). unfold dlen in Hfu.
        assert (Hhead : exists k0 i0 rest, l_data (e_lookup tb) = (k0, i0) :: rest /\ ~ In k0 keys).
        { destruct Htc as (pre & suf & Hd & Ht).
          destruct pre as [|[k0 i0] pre].
          - exfalso. cbn in Hd.
            assert (Hlen : length keys = length (Lookup.keys suf)).
            { apply nodup_same_length; [assumption| rewrite <- Hd; exact Hk | exact Ht]. }
            rewrite Hset in Eg. unfold nlen in Eg. cbn [length] in Eg. unfold Lookup.keys in Hlen. rewrite map_length in Hlen.
            rewrite <- Hd in Hlen. unfold lmax in Eg. lia.
          - exists k0, i0, (pre ++ suf). split; [exact Hd|]. intro Hc. apply Ht in Hc.
            rewrite Hd in Hk. cbn in Hk. inversion Hk as [|? ? Hn ?]; subst. apply Hn.
            unfold Lookup.keys in *. rewrite map_app. apply in_or_app. now right. }
        destruct (touched_insert_evict str_eqb str_eqb_spec k _ l' i keys Hk Htc Eev Hhead Eins) as [Ht' Hst].
        split; [|split; [reflexivity|split; [|split]]].
        -- rewrite Hset. constructor; cbn.
           ++ constructor; assumption.
           ++ exact Ht'.
           ++ intros k' [<-|Hk']; [apply (In_find str_eqb str_eqb_spec) in Hin; [congruence|destruct HI'; assumption]|].
              rewrite (Hst _ Hk'). now apply Hlive.
        -- intros k' Hk'. cbn. now apply Hst.
        -- unfold lmax; cbn. exact Hmax.
        -- reflexivity.
      * destruct (touched_insert_fill str_eqb str_eqb_spec k _ l' i keys Htc Eev Eins) as [Ht' Hst].
        split; [|split; [reflexivity|split; [|split]]].
        -- rewrite Hset. constructor; cbn.
           ++ constructor; assumption.
           ++ exact Ht'.
           ++ intros k' [<-|Hk']; [apply (In_find str_eqb str_eqb_spec) in Hin; [congruence|destruct HI'; assumption]|].
              rewrite Hst by (intro; subst; contradiction). now apply Hlive.
        -- intros k' Hk'. cbn. apply Hst. intro; subst; contradiction.
        -- unfold lmax; cbn. exact Hmax.
        -- reflexivity.
Qed.

(* ---- encode_term_index of a touched key: only the recency order and last-reused move ---- *)
Theorem term_index_spec (e e' : slenc) (keys : list str) (k : str) (i : N) (T : table) (la : N) :
  InvT e T la -> Wk e keys -> In k keys ->
  encode_term_index str_eqb k e = Some (e', i) ->
  InvT e' T la /\ Wk e' keys /\ sfind k (l_data (e_lookup e)) = Some i /\
  (forall k', sfind k' (l_data (e_lookup e')) = sfind k' (l_data (e_lookup e))) /\
  lmax e' = lmax e /\ e_last_reused e' = i /\ e_last_assigned e' = e_last_assigned e.
Proof.
  intros [HI HC] [Hnd Htc Hlive] Hk. unfold encode_term_index.
  destruct (move_to_end str_eqb k (e_lookup e)) as [l'|] eqn:Emv; [|discriminate].
  pose proof HI as [Hp Hs Hkk Hi Hr Hm Hfl Hfu Hla Hlr].
  pose proof (move_to_end_find str_eqb str_eqb_spec k _ _ Hkk Emv) as Hfind.
  destruct (sfind k (l_data l')) as [j|] eqn:Ej; [|discriminate]. intros H; inversion H; subst e' j; clear H.
  destruct (hit_mirror str_eqb str_eqb_spec k e _ l' HI Emv) as [HI' _].
  assert (Hmax : l_max l' = l_max (e_lookup e)).
  { unfold move_to_end in Emv. destruct (sfind k _); [|discriminate]. inversion Emv; reflexivity. }
  split; [|split; [|split; [|split; [|split; [|split]]]]].
  - split; [|exact (conv_move _ _ _ _ _ _ Emv HC)].
    cbn in *. destruct HI' as [A1 A2 A3 A4 A5 A6 A7 A8 A9 A10]. constructor; cbn in *; auto.
  - constructor; cbn; [assumption| |].
    + assert (Hex : existsb (str_eqb k) keys = true) by (rewrite <- mem_str_existsb; now apply mem_str_In).
      pose proof (touched_move str_eqb str_eqb_spec k _ l' keys Hkk Htc Emv) as Ht. now rewrite Hex in Ht.
    + intros k' Hk'. rewrite Hfind. now apply Hlive.
  - rewrite <- Hfind. exact Ej.
  - exact Hfind.
  - unfold lmax; cbn. exact Hmax.
  - reflexivity.
  - reflexivity.
Qed.
