(* HintProofs.v -- C08: the delimiting heuristic on the byte shapes the wire format produces. *)
From Coq Require Import Lia ZArith ZifyBool ZifyN.
From PJ.Model Require Import Base Terms Wire Decoder.
Ltac Zify.zify_post_hook ::= Z.to_euclidean_division_equations.

Lemma venc_nonempty f n : venc f n <> [].
Proof. destruct f; cbn; [discriminate|]. destruct (n <? 128); discriminate. Qed.

Lemma varint_small n : n < 128 -> varint n = [n].
Proof.
  intros H. unfold varint. destruct (N.size_nat n) eqn:E; cbn; [reflexivity|].
  destruct (n <? 128) eqn:E2; [reflexivity|lia].
Qed.

Lemma size_nat_pos n : 128 <= n -> exists f, N.size_nat n = S f.
Proof. intros H. destruct n as [|p]; [lia|]. cbn. destruct p; cbn; eauto. Qed.

Lemma varint_hd n : exists b tl, varint n = b :: tl /\ (b = 10 <-> n = 10).
Proof.
  destruct (N.ltb_spec n 128) as [Hlt|Hge].
  - exists n, []. rewrite varint_small by assumption. split; [reflexivity|tauto].
  - destruct (size_nat_pos n Hge) as [f Hf]. unfold varint. rewrite Hf. cbn.
    destruct (n <? 128) eqn:E; [lia|].
    eexists _, _. split; [reflexivity|]. split; intros H; lia.
Qed.

(* a frame body that starts with a row: tag 0x0A, length, row bytes *)
Definition starts_with_row (fb : list N) : Prop :=
  exists r more, fb = 10 :: varint (nlen r) ++ r ++ more.

Theorem hint_delimited (fb rest : list N) :
  fb = [] \/ starts_with_row fb ->
  let b := varint (nlen fb) ++ fb ++ rest in
  (3 <= length b)%nat -> hint (firstn 3 b) = true.
Proof.
  intros Hfb b Hlen. subst b. unfold nlen in *.
  destruct (varint_hd (N.of_nat (length fb))) as [b0 [tl [Hv Hb0]]].
  destruct (N.eq_dec (N.of_nat (length fb)) 10) as [H10|Hne].
  - destruct Hfb as [->|[r [more ->]]]; [cbn in H10; lia|].
    rewrite H10. rewrite (varint_small 10) by lia.
    assert (Hr : N.of_nat (length r) <= 8).
    { cbn [length] in H10. rewrite !app_length in H10.
      pose proof (venc_nonempty (N.size_nat (nlen r)) (nlen r)) as Hn.
      unfold varint in H10. destruct (venc _ _) as [|x xs]; [congruence|]. cbn [length] in H10. lia. }
    unfold nlen. rewrite (varint_small (N.of_nat (length r))) by lia.
    cbn. destruct (N.eqb_spec (N.of_nat (length r)) 10); [lia|]. reflexivity.
  - rewrite Hv in *. assert (b0 <> 10) by tauto.
    cbn [app] in *. destruct (tl ++ fb ++ rest) as [|b1 [|b2 t]]; cbn in Hlen; try lia.
    cbn. destruct (N.eqb_spec b0 10); [contradiction|reflexivity].
Qed.

(* a non-delimited stream: one frame whose first row is an options row *)
Theorem hint_single (opts more : list N) :
  let row := 10 :: varint (nlen opts) ++ opts in
  let b := 10 :: varint (nlen row) ++ row ++ more in
  hint (firstn 3 b) = false.
Proof.
  intros row b. subst b. unfold nlen in *.
  destruct (varint_hd (N.of_nat (length row))) as [b1 [tl [Hv Hb1]]].
  rewrite Hv. cbn [app].
  destruct (N.eq_dec (N.of_nat (length row)) 10) as [H10|Hne].
  - rewrite H10 in Hv. rewrite (varint_small 10) in Hv by lia. inversion Hv; subst b1 tl.
    subst row. cbn. reflexivity.
  - assert (b1 <> 10) by tauto.
    destruct (tl ++ row ++ more) as [|b2 t] eqn:E.
    + exfalso. subst row. destruct tl; cbn in E; discriminate.
    + cbn. destruct (N.eqb_spec b1 10); [contradiction|reflexivity].
Qed.

(* instantiation with the model's own serialiser *)
Lemma f_len1 payload : f_len 1 payload = 10 :: varint (nlen payload) ++ payload.
Proof. unfold f_len, tag. change (1 * 8 + 2) with 10. rewrite (varint_small 10) by lia. reflexivity. Qed.

Lemma ser_frame_rows_shape (f : frame) :
  f_rows f <> [] -> starts_with_row (ser_frame f).
Proof.
  intros Hne. unfold ser_frame. destruct (f_rows f) as [|r rs]; [contradiction|].
  cbn [flat_map]. rewrite f_len1.
  exists (ser_row r), (flat_map (fun r0 => f_len 1 (ser_row r0)) rs ++ flat_map ser_meta (f_meta f)).
  cbn [app]. rewrite <- !app_assoc. reflexivity.
Qed.

Lemma ser_frame_empty (f : frame) : f_rows f = [] -> f_meta f = [] -> ser_frame f = [].
Proof. intros H1 H2. unfold ser_frame. rewrite H1, H2. reflexivity. Qed.

(* everything write_delimited produces whose first frame is empty or starts with a row *)
Theorem write_delimited_detected (f : frame) (fs : list frame) :
  (f_rows f = [] /\ f_meta f = []) \/ f_rows f <> [] ->
  let b := write_delimited (f :: fs) in
  (3 <= length b)%nat -> hint (firstn 3 b) = true.
Proof.
  intros H b Hlen. subst b. unfold write_delimited in *. cbn [flat_map] in *.
  unfold write_delimited1 in *. rewrite <- app_assoc in *.
  apply hint_delimited; [|exact Hlen].
  destruct H as [[H1 H2]|H]; [left; now apply ser_frame_empty|right; now apply ser_frame_rows_shape].
Qed.

(* everything write_single produces whose first row is an options row *)
Theorem write_single_detected (o : woptions) (rows : list row) (md : list (str * str)) :
  hint (firstn 3 (write_single {| f_rows := ROptions o :: rows; f_meta := md |})) = false.
Proof.
  unfold write_single, ser_frame. cbn [f_rows f_meta flat_map ser_row].
  rewrite f_len1. rewrite (f_len1 (ser_options o)). cbn [app]. rewrite <- !app_assoc.
  apply (hint_single (ser_options o)).
Qed.

(* the truth table of the docstring, for all 2^24 headers *)
Theorem hint_truth_table (b0 b1 b2 : N) :
  hint [b0; b1; b2] = negb (b0 =? 10) || ((b1 =? 10) && negb (b2 =? 10)).
Proof. reflexivity. Qed.

Theorem hint_short (h : list N) : (length h < 3)%nat -> hint h = false.
Proof. destruct h as [|a [|b [|c t]]]; cbn; intros; try reflexivity; lia. Qed.

(* non-vacuity: a 10-byte first frame holding one 8-byte row is delimited *)
Example ten_byte_frame :
  let f := {| f_rows := [ROptions {| o_name := []; o_phys := 1; o_gen := false; o_star := false; o_maxn := 8;
                                     o_maxp := 0; o_maxd := 0; o_logical := 0; o_version := 1 |}]; f_meta := [] |} in
  nlen (ser_frame f) = 10 /\ firstn 3 (write_delimited [f]) = [10; 10; 8].
Proof. vm_compute. split; reflexivity. Qed.
