(* Mirror.v -- the mirror invariant between the writer's Lookup/LookupEncoder and the reader's
   LookupDecoder (C05), and its preservation by every use of a key under each of the three
   index rules. *)
From Coq Require Import Lia Permutation.
From PJ.Model Require Import Base Lookup.

Section Mirror.
Context {K : Type} (eqb : K -> K -> bool).
Context (eqb_spec : forall a b, reflect (a = b) (eqb a b)).

Notation find := (find eqb).
Notation remove := (remove eqb).

(* ---------- mirror invariant ---------- *)
Record Inv (e : @lenc K) (d : @ldec K) : Prop := {
  inv_pos : 1 <= l_max (e_lookup e);
  inv_size : N.of_nat (length (d_data d)) = l_max (e_lookup e);
  inv_nodup_k : NoDup (keys (l_data (e_lookup e)));
  inv_nodup_i : NoDup (idxs (l_data (e_lookup e)));
  inv_range : forall k i, In (k, i) (l_data (e_lookup e)) -> 1 <= i <= l_max (e_lookup e);
  inv_mirror : forall k i, In (k, i) (l_data (e_lookup e)) -> nth_error (d_data d) (N.to_nat (i - 1)) = Some (Some k);
  inv_fill : l_evicting (e_lookup e) = false ->
             (forall k i, In (k, i) (l_data (e_lookup e)) -> i <= dlen (e_lookup e)) /\ dlen (e_lookup e) < l_max (e_lookup e);
  inv_full : l_evicting (e_lookup e) = true -> dlen (e_lookup e) = l_max (e_lookup e);
  inv_la : e_last_assigned e = d_last_assigned d;
  inv_lr : e_last_reused e = d_last_reused d;
}.

Lemma find_In k d i : find k d = Some i -> In (k, i) d.
Proof.
  induction d as [|[k' i'] d IH]; cbn; [discriminate|].
  destruct (eqb_spec k k') as [->|Hne]; intros H.
  - inversion H; subst; now left.
  - right; auto.
Qed.

Lemma find_None k d : find k d = None -> ~ In k (keys d).
Proof.
  induction d as [|[k' i'] d IH]; cbn; [tauto|].
  destruct (eqb_spec k k') as [->|Hne]; [discriminate|].
  intros H [Heq|Hin]; [congruence|]. now apply IH.
Qed.

Lemma In_find k i d : NoDup (keys d) -> In (k, i) d -> find k d = Some i.
Proof.
  induction d as [|[k' i'] d IH]; cbn; [tauto|].
  intros Hnd [Heq|Hin].
  - inversion Heq; subst. destruct (eqb_spec k k); congruence.
  - inversion Hnd as [|? ? Hnotin Hnd']; subst.
    destruct (eqb_spec k k') as [->|Hne].
    + exfalso. apply Hnotin. change k' with (fst (k', i)). now apply in_map.
    + auto.
Qed.

Lemma move_perm k d i : find k d = Some i -> Permutation (remove k d ++ [(k, i)]) d.
Proof.
  induction d as [|[k' i'] d IH]; cbn; [discriminate|].
  destruct (eqb_spec k k') as [->|Hne]; intros H.
  - inversion H; subst. rewrite Permutation_app_comm. cbn. reflexivity.
  - cbn. constructor. auto.
Qed.

(* everything in Inv that mentions l_data is invariant under permutation *)
Lemma Inv_perm (e : lenc) (d : ldec) (data' : list (K * N)) :
  Inv e d -> Permutation data' (l_data (e_lookup e)) ->
  Inv {| e_lookup := {| l_data := data'; l_max := l_max (e_lookup e); l_evicting := l_evicting (e_lookup e) |};
         e_last_assigned := e_last_assigned e; e_last_reused := e_last_reused e |} d.
Proof.
  intros [Hp Hs Hk Hi Hr Hm Hf Hfu Hla Hlr] HP.
  assert (HPk : Permutation (keys data') (keys (l_data (e_lookup e)))) by now apply Permutation_map.
  assert (HPi : Permutation (idxs data') (idxs (l_data (e_lookup e)))) by now apply Permutation_map.
  assert (Hlen : length data' = length (l_data (e_lookup e))) by now apply Permutation_length.
  constructor; cbn; auto.
  - eapply Permutation_NoDup; [symmetry; eassumption|assumption].
  - eapply Permutation_NoDup; [symmetry; eassumption|assumption].
  - intros k i Hin. apply (Hr k). eapply Permutation_in; eassumption.
  - intros k i Hin. apply Hm. eapply Permutation_in; eassumption.
  - intros He. destruct (Hf He) as [H1 H2]. unfold dlen in *; cbn. rewrite Hlen. split; auto.
    intros k i Hin. apply (H1 k). eapply Permutation_in; eassumption.
  - intros He. unfold dlen in *; cbn. rewrite Hlen. auto.
Qed.

Lemma NoDup_app_singleton_r {A} (l : list A) x : NoDup l -> ~ In x l -> NoDup (l ++ [x]).
Proof.
  intros Hnd Hnin. eapply Permutation_NoDup; [apply Permutation_app_comm|]. cbn. now constructor.
Qed.

Lemma set_nth_length {A} n (x : A) l l' : set_nth n x l = Some l' -> length l' = length l.
Proof.
  revert l l'; induction n as [|n IH]; intros [|h t] l'; cbn; try discriminate.
  - intros H; inversion H; reflexivity.
  - destruct (set_nth n x t) eqn:E; [|discriminate]. intros H; inversion H; cbn. f_equal. eauto.
Qed.

Lemma set_nth_some {A} n (x : A) l : (n < length l)%nat -> exists l', set_nth n x l = Some l'.
Proof.
  revert l; induction n as [|n IH]; intros [|h t]; cbn; try lia; intros Hlt.
  - eauto.
  - destruct (IH t) as [t' Ht]; [lia|]. rewrite Ht. eauto.
Qed.

Lemma set_nth_same {A} n (x : A) l l' : set_nth n x l = Some l' -> nth_error l' n = Some x.
Proof.
  revert l l'; induction n as [|n IH]; intros [|h t] l'; cbn; try discriminate.
  - intros H; inversion H; reflexivity.
  - destruct (set_nth n x t) eqn:E; [|discriminate]. intros H; inversion H; cbn. eauto.
Qed.

Lemma set_nth_other {A} n m (x : A) l l' : set_nth n x l = Some l' -> n <> m -> nth_error l' m = nth_error l m.
Proof.
  revert m l l'; induction n as [|n IH]; intros m [|h t] l'; cbn; try discriminate.
  - intros H Hne; inversion H; subst. destruct m; [congruence|reflexivity].
  - destruct (set_nth n x t) eqn:E; [|discriminate]. intros H Hne; inversion H; subst.
    destruct m; cbn; [reflexivity|]. eapply IH; eauto.
Qed.

(* ---- a miss: insert on the writer + assign_entry on the reader ---- *)
Lemma insert_mirror (k : K) (e : lenc) (d : ldec) l' i :
  Inv e d -> ~ In k (keys (l_data (e_lookup e))) ->
  insert k (e_lookup e) = Some (l', i) ->
  let id := if i =? e_last_assigned e + 1 then 0 else i in
  exists d', assign_entry id k d = Some d' /\
    Inv {| e_lookup := l'; e_last_assigned := i; e_last_reused := e_last_reused e |} d' /\
    In (k, i) (l_data l') /\ 1 <= i <= l_max (e_lookup e).
Proof.
  intros HI Hnotin Hins id.
  destruct HI as [Hp Hs Hk Hi Hr Hm Hf Hfu Hla Hlr].
  unfold insert in Hins.
  destruct (l_max (e_lookup e) =? 0) eqn:Hmax0; [discriminate|]. apply N.eqb_neq in Hmax0.
  (* the index the reader resolves *)
  assert (Hid : (if id =? 0 then d_last_assigned d + 1 else id) = i /\ True).
  { split; [|exact I]. unfold id. rewrite <- Hla.
    destruct (i =? e_last_assigned e + 1) eqn:E.
    - apply N.eqb_eq in E. cbn. lia.
    - destruct (i =? 0) eqn:E0; [|reflexivity].
      apply N.eqb_eq in E0. subst i.
      (* i = 0 impossible: shown below per case; handle by range later *)
      exfalso.
      destruct (l_evicting (e_lookup e)) eqn:Hev.
      + destruct (l_data (e_lookup e)) as [|[k0 i0] d0] eqn:Hd; [discriminate|].
        inversion Hins; subst. specialize (Hr k0 0 (or_introl eq_refl)). lia.
      + inversion Hins. lia. }
  destruct Hid as [Hid _]. unfold id in *. clear id.
  destruct (l_evicting (e_lookup e)) eqn:Hev.
  - (* evicting: reuse the head's index *)
    destruct (l_data (e_lookup e)) as [|[k0 i0] d0] eqn:Hd; [discriminate|].
    inversion Hins; subst l' i0; clear Hins.
    assert (Hri : 1 <= i <= l_max (e_lookup e)) by (apply (Hr k0); now left).
    assert (Hlt : (N.to_nat (i - 1) < length (d_data d))%nat) by lia.
    destruct (set_nth_some (N.to_nat (i - 1)) (Some k) (d_data d) Hlt) as [data' Hset].
    exists {| d_data := data'; d_last_assigned := i; d_last_reused := d_last_reused d |}.
    split; [|split; [|split]].
    + unfold assign_entry. rewrite Hid. unfold in_range.
      replace (1 <=? i) with true by (symmetry; apply N.leb_le; lia).
      replace (i <=? N.of_nat (length (d_data d))) with true by (symmetry; apply N.leb_le; lia).
      cbn. rewrite Hset. reflexivity.
    + cbn in Hk, Hi. inversion Hk as [|? ? Hk1 Hk2]; subst. inversion Hi as [|? ? Hi1 Hi2]; subst.
      constructor; cbn.
      * exact Hp.
      * rewrite (set_nth_length _ _ _ _ Hset). exact Hs.
      * unfold keys. rewrite map_app. cbn. apply NoDup_app_singleton_r; [exact Hk2|].
        intro Hin. apply Hnotin. cbn. now right.
      * unfold idxs. rewrite map_app. cbn. apply NoDup_app_singleton_r; [exact Hi2| exact Hi1].
      * intros k' i' Hin. apply in_app_or in Hin. destruct Hin as [Hin|[Heq|[]]].
        -- apply (Hr k' i'). now right.
        -- inversion Heq; subst. exact Hri.
      * intros k' i' Hin. apply in_app_or in Hin. destruct Hin as [Hin|[Heq|[]]].
        -- rewrite (set_nth_other _ (N.to_nat (i' - 1)) _ _ _ Hset).
           ++ apply Hm. now right.
           ++ assert (i' <> i). { intro; subst i'. apply Hi1. change i with (snd (k', i)). now apply in_map. }
              assert (1 <= i') by (apply (Hr k' i'); now right). lia.
        -- inversion Heq; subst. eapply set_nth_same; eauto.
      * discriminate.
      * intros _. specialize (Hfu eq_refl). unfold dlen in *. rewrite Hd in Hfu. cbn [l_data l_max length] in *. rewrite app_length. cbn [length]. lia.
      * reflexivity.
      * exact Hlr.
    + cbn. apply in_or_app. right. now left.
    + exact Hri.
  - (* filling: next fresh index *)
    inversion Hins; subst l' i; clear Hins.
    destruct (Hf eq_refl) as [Hle Hlt']. unfold dlen in *.
    set (i := N.of_nat (length (l_data (e_lookup e))) + 1) in *.
    assert (Hri : 1 <= i <= l_max (e_lookup e)) by lia.
    assert (Hlt : (N.to_nat (i - 1) < length (d_data d))%nat) by lia.
    destruct (set_nth_some (N.to_nat (i - 1)) (Some k) (d_data d) Hlt) as [data' Hset].
    exists {| d_data := data'; d_last_assigned := i; d_last_reused := d_last_reused d |}.
    split; [|split; [|split]].
    + unfold assign_entry. rewrite Hid. unfold in_range.
      replace (1 <=? i) with true by (symmetry; apply N.leb_le; lia).
      replace (i <=? N.of_nat (length (d_data d))) with true by (symmetry; apply N.leb_le; lia).
      cbn. rewrite Hset. reflexivity.
    + constructor; cbn.
      * exact Hp.
      * rewrite (set_nth_length _ _ _ _ Hset). exact Hs.
      * unfold keys. rewrite map_app. cbn. apply NoDup_app_singleton_r; assumption.
      * unfold idxs. rewrite map_app. cbn. apply NoDup_app_singleton_r; [assumption|].
        intro Hin. apply in_map_iff in Hin. destruct Hin as [[k' i'] [Heq Hin]]. cbn in Heq. subst i'.
        specialize (Hle _ _ Hin). lia.
      * intros k' i' Hin. apply in_app_or in Hin. destruct Hin as [Hin|[Heq|[]]].
        -- now apply (Hr k' i').
        -- inversion Heq; subst. exact Hri.
      * intros k' i' Hin. apply in_app_or in Hin. destruct Hin as [Hin|[Heq|[]]].
        -- rewrite (set_nth_other _ (N.to_nat (i' - 1)) _ _ _ Hset).
           ++ now apply Hm.
           ++ specialize (Hle _ _ Hin). assert (1 <= i') by now apply (Hr k' i'). lia.
        -- inversion Heq; subst. eapply set_nth_same; eauto.
      * intros Hev'. apply N.eqb_neq in Hev'. unfold dlen; cbn [l_data l_max]. rewrite app_length. cbn [length]. split.
        -- intros k' i' Hin. apply in_app_or in Hin. destruct Hin as [Hin|[Heq|[]]].
           ++ specialize (Hle _ _ Hin). lia.
           ++ inversion Heq; subst. lia.
        -- lia.
      * intros Hev'. apply N.eqb_eq in Hev'. unfold dlen; cbn [l_data l_max]. rewrite app_length. cbn [length]. lia.
      * reflexivity.
      * exact Hlr.
    + cbn. apply in_or_app. right. now left.
    + exact Hri.
Qed.


(* ---- a hit: move_to_end only permutes ---- *)
Lemma hit_mirror (k : K) (e : lenc) (d : ldec) l' :
  Inv e d -> move_to_end eqb k (e_lookup e) = Some l' ->
  Inv {| e_lookup := l'; e_last_assigned := e_last_assigned e; e_last_reused := e_last_reused e |} d
  /\ exists i, In (k, i) (l_data l') /\ In (k, i) (l_data (e_lookup e)).
Proof.
  intros HI Hmv. unfold move_to_end in Hmv.
  destruct (find k (l_data (e_lookup e))) as [i|] eqn:Hf; [|discriminate].
  inversion Hmv; subst l'; clear Hmv. split.
  - apply (Inv_perm e d _ HI). now apply move_perm.
  - exists i. split; [cbn; apply in_or_app; right; now left | now apply find_In].
Qed.

(* ---- phase 1 of a use: the entry row (if any) against the reader ---- *)
Lemma entry_mirror (k : K) (e : lenc) (d : ldec) :
  Inv e d ->
  exists e1 oe d1 i,
     encode_entry_index eqb k e = Some (e1, oe) /\
     match oe with None => d1 = d | Some id => assign_entry id k d = Some d1 end /\
     Inv e1 d1 /\ In (k, i) (l_data (e_lookup e1)) /\ l_max (e_lookup e1) = l_max (e_lookup e) /\
     match oe with None => True | Some id => id <= l_max (e_lookup e) end.
Proof.
  intros HI.
  unfold encode_entry_index.
    destruct (move_to_end eqb k (e_lookup e)) as [l'|] eqn:Hmv.
    - destruct (hit_mirror k e d l' HI Hmv) as [HI' [i [Hin _]]].
      exists {| e_lookup := l'; e_last_assigned := e_last_assigned e; e_last_reused := e_last_reused e |}, None, d, i.
      split; [reflexivity|]. split; [reflexivity|]. split; [exact HI'|]. split; [exact Hin|]. split; [|exact I].
      unfold move_to_end in Hmv. destruct (find k (l_data (e_lookup e))); [|discriminate]. inversion Hmv as [Hl]. reflexivity.
    - assert (Hnf : find k (l_data (e_lookup e)) = None).
      { unfold move_to_end in Hmv. destruct (find k _); [discriminate|reflexivity]. }
      pose proof (find_None k _ Hnf) as Hnotin.
      destruct (insert k (e_lookup e)) as [[l' i]|] eqn:Hins.
      + destruct (insert_mirror k e d l' i HI Hnotin Hins) as [d' [Ha [HI' [Hin Hr]]]].
        eexists _, (Some _), d', i.
        split; [reflexivity|]. split; [exact Ha|]. split; [exact HI'|]. split; [exact Hin|]. split.
        * unfold insert in Hins. destruct (l_max (e_lookup e) =? 0); [discriminate|].
          destruct (l_evicting (e_lookup e)); [destruct (l_data (e_lookup e)) as [|[? ?] ?]; [discriminate|]|];
          inversion Hins; reflexivity.
        * destruct (i =? e_last_assigned e + 1); lia.
      + (* insert cannot fail under Inv *)
        exfalso. destruct HI as [Hp Hs Hk Hi Hr Hm Hf Hfu Hla Hlr]. unfold insert in Hins.
        destruct (l_max (e_lookup e) =? 0) eqn:E0; [apply N.eqb_eq in E0; lia|].
        destruct (l_evicting (e_lookup e)) eqn:Hev; [|discriminate].
        specialize (Hfu eq_refl). unfold dlen in Hfu.
        destruct (l_data (e_lookup e)) as [|[k0 i0] d0]; [cbn in Hfu; lia|discriminate].
Qed.

(* ---- phase 2: the term index; a hit that moves the key to the end and records it ---- *)
Lemma term_mirror (k : K) (i : N) (e : lenc) (d : ldec) :
  Inv e d -> In (k, i) (l_data (e_lookup e)) ->
  exists e2 d2,
    encode_term_index eqb k e = Some (e2, i) /\
    at_ i d = Some (d2, k) /\ Inv e2 d2 /\
    e_last_reused e2 = i /\ l_max (e_lookup e2) = l_max (e_lookup e) /\
    length (l_data (e_lookup e2)) = length (l_data (e_lookup e)) /\ 1 <= i <= l_max (e_lookup e).
Proof.
  intros HI Hin.
  pose proof HI as [Hp Hs Hk Hi Hr Hm Hf Hfu Hla Hlr].
  assert (Hfind : find k (l_data (e_lookup e)) = Some i) by now apply In_find.
  unfold encode_term_index, move_to_end. rewrite Hfind. cbn [l_data].
  assert (Hfind' : find k (remove k (l_data (e_lookup e)) ++ [(k, i)]) = Some i).
  { apply In_find.
    - eapply Permutation_NoDup; [symmetry; apply Permutation_map; apply move_perm; exact Hfind|exact Hk].
    - apply in_or_app; right; now left. }
  rewrite Hfind'.
  assert (Hri : 1 <= i <= l_max (e_lookup e)) by now apply (Hr k).
  eexists _, {| d_data := d_data d; d_last_assigned := d_last_assigned d; d_last_reused := i |}.
  split; [reflexivity|]. split; [|split; [|split; [|split; [|split]]]].
  - unfold at_, in_range.
    replace (1 <=? i) with true by (symmetry; apply N.leb_le; lia).
    replace (i <=? N.of_nat (length (d_data d))) with true by (symmetry; apply N.leb_le; lia).
    cbn. rewrite (Hm k i Hin). reflexivity.
  - pose proof (Inv_perm e d _ HI (move_perm k _ i Hfind)) as [Hp' Hs' Hk' Hi' Hr' Hm' Hf' Hfu' Hla' Hlr'].
    constructor; cbn in *; auto.
  - reflexivity.
  - reflexivity.
  - cbn. apply Permutation_length. now apply move_perm.
  - exact Hri.
Qed.

End Mirror.
