(* SentOnce.v -- C19: with a table large enough for all the distinct strings of a history, each
   string is transmitted exactly once -- an entry row goes out at the first use of a string and at no
   later use.  Stated, like C05, about Api.api_lookup (writer and reader coupled) for every rule set,
   every size and every history whose strings come from a set no larger than the table. *)
From Coq Require Import Arith Lia Permutation.
From PJ.Model Require Import Base Lookup Terms Encoder Api.
From PJ.Proofs Require Import Mirror MirrorRun EncLookup.

Notation kset e := (keys (l_data (e_lookup e))).

Lemma keys_perm {K} (a b : list (K * N)) : Permutation a b -> forall x, In x (keys a) <-> In x (keys b).
Proof. intros P x. unfold keys. split; apply Permutation_in; [apply Permutation_map; exact P|apply Permutation_map; apply Permutation_sym; exact P]. Qed.

Lemma move_kset k (l l' : @lookup str) : move_to_end str_eqb k l = Some l' -> forall x, In x (keys (l_data l')) <-> In x (keys (l_data l)).
Proof.
  unfold move_to_end. destruct (find str_eqb k (l_data l)) as [i|] eqn:E; [|discriminate]. intros H; inversion H; subst; cbn.
  apply keys_perm. apply (move_perm str_eqb str_eqb_spec k). exact E.
Qed.

Lemma term_index_kset k (e e' : slenc) i : encode_term_index str_eqb k e = Some (e', i) -> forall x, In x (kset e') <-> In x (kset e).
Proof.
  unfold encode_term_index. destruct (move_to_end str_eqb k (e_lookup e)) as [l'|] eqn:E; [|discriminate].
  destruct (find str_eqb k (l_data l')); [|discriminate]. intros H; inversion H; subst; cbn. exact (move_kset k _ _ E).
Qed.

Lemma rule_term_kset (rule : lk_rule) k (e e' : slenc) i :
  (match rule with
   | LkName => encode_name_term_index str_eqb k e
   | LkPrefix => encode_prefix_term_index str_eqb (is_nil k) k e
   | LkDatatype => encode_datatype_term_index str_eqb k e
   end) = Some (e', i) -> forall x, In x (kset e') <-> In x (kset e).
Proof.
  destruct rule.
  - unfold encode_name_term_index. destruct (encode_term_index str_eqb k e) as [[e1 c]|] eqn:E; [|discriminate].
    intros H; inversion H; subst. eapply term_index_kset; eauto.
  - unfold encode_prefix_term_index. destruct (l_max (e_lookup e) =? 0); [intros H; inversion H; tauto|].
    destruct (is_nil k && (e_last_reused e =? 0)); [intros H; inversion H; tauto|].
    destruct (encode_term_index str_eqb k e) as [[e1 c]|] eqn:E; [|discriminate].
    intros H; inversion H; subst. eapply term_index_kset; eauto.
  - unfold encode_datatype_term_index. destruct (l_max (e_lookup e) =? 0); [intros H; inversion H; tauto|].
    intros H. eapply term_index_kset; eauto.
Qed.

(* a hit sends nothing and keeps the set; a miss on a table that is not yet full sends an entry and adds the key *)
Lemma entry_index_hit k (e e1 : slenc) oe : In k (kset e) -> NoDup (kset e) ->
  encode_entry_index str_eqb k e = Some (e1, oe) -> oe = None /\ forall x, In x (kset e1) <-> In x (kset e).
Proof.
  intros Hin Hnd. unfold encode_entry_index.
  destruct (move_to_end str_eqb k (e_lookup e)) as [l'|] eqn:E.
  - intros H; inversion H; subst; cbn. split; [reflexivity|exact (move_kset k _ _ E)].
  - exfalso. unfold move_to_end in E. destruct (find str_eqb k (l_data (e_lookup e))) eqn:F; [discriminate|].
    apply (find_None str_eqb str_eqb_spec) in F. contradiction.
Qed.

Lemma entry_index_miss k (e e1 : slenc) oe : ~ In k (kset e) -> l_evicting (e_lookup e) = false ->
  encode_entry_index str_eqb k e = Some (e1, oe) -> oe <> None /\ forall x, In x (kset e1) <-> x = k \/ In x (kset e).
Proof.
  intros Hnin Hev. unfold encode_entry_index.
  destruct (move_to_end str_eqb k (e_lookup e)) as [l'|] eqn:E.
  - exfalso. unfold move_to_end in E. destruct (find str_eqb k (l_data (e_lookup e))) as [i|] eqn:F; [|discriminate].
    apply (find_In str_eqb str_eqb_spec) in F. apply Hnin. unfold keys. change k with (fst (k, i)). now apply in_map.
  - unfold insert. destruct (l_max (e_lookup e) =? 0); [discriminate|]. rewrite Hev.
    intros H; inversion H; subst; cbn. split; [discriminate|].
    intros x. unfold keys. rewrite map_app, in_app_iff. cbn.
    split; [intros [H0|[H0|[]]]; [right; exact H0|left; auto] | intros [H0|H0]; [right; left; auto|left; exact H0]].
Qed.

(* first-use flags of a history *)
Fixpoint first_flags (seen : list str) (ks : list str) : list bool :=
  match ks with
  | [] => []
  | k :: r => negb (mem_str k seen) :: first_flags (set_add k seen) r
  end.

Lemma nodup_lt (seen univ : list str) (k : str) :
  NoDup seen -> NoDup univ -> incl seen univ -> In k univ -> ~ In k seen -> (length seen < length univ)%nat.
Proof.
  intros Hs Hu Hi Hk Hn. assert (H : (length (k :: seen) <= length univ)%nat).
  { apply NoDup_incl_length; [constructor; assumption|]. intros x [<-|Hx]; [exact Hk|now apply Hi]. }
  cbn in H. lia.
Qed.

Theorem lk_run_sent_once (rule : lk_rule) (univ : list str) (ks : list str) : forall (e : slenc) (d : @ldec str) (seen : list str),
  SInv e d -> NoDup univ -> N.of_nat (length univ) <= l_max (e_lookup e) ->
  Forall (fun k => In k univ) ks -> NoDup seen -> incl seen univ -> (forall x, In x seen <-> In x (kset e)) ->
  Forall2 (fun first o => exists obs, o = Some obs /\ (lo_entry obs <> None <-> first = true))
          (first_flags seen ks) (lk_run rule ks e d).
Proof.
  induction ks as [|k ks IH]; intros e d seen HI Hu Hsz Hks Hs Hincl Hset; cbn [first_flags lk_run]; [constructor|].
  inversion Hks as [|? ? Hk Hks']; subst.
  destruct (lk_use_ok rule k e d HI) as (e' & d' & o & Huse & HI' & Hmax & _).
  rewrite Huse.
  pose proof HI as [Hp Hsize Hnd _ _ _ Hfill Hfull _ _].
  unfold lk_use in Huse.
  destruct (encode_entry_index str_eqb k e) as [[e1 oe]|] eqn:Ee; [|discriminate].
  destruct (match oe with Some id => assign_entry id k d | None => Some d end) as [d1|]; [|discriminate].
  destruct (match rule with LkName => encode_name_term_index str_eqb k e1 | LkPrefix => encode_prefix_term_index str_eqb (is_nil k) k e1
                       | LkDatatype => encode_datatype_term_index str_eqb k e1 end) as [[e2 ti]|] eqn:Et; [|discriminate].
  pose proof (rule_term_kset rule k e1 e2 ti Et) as Hk2.
  assert (Hobs : lo_entry o = oe /\ e' = e2).
  { inversion Huse; subst; cbn. auto. }
  destruct Hobs as [Hoe ->].
  assert (Hsz' : N.of_nat (length univ) <= l_max (e_lookup e2)) by (rewrite Hmax; exact Hsz).
  destruct (mem_str k seen) eqn:Em.
  - (* seen before: a hit, nothing is sent *)
    assert (Hks_in : In k seen) by (apply mem_str_In; exact Em).
    assert (Hin : In k (kset e)) by (apply Hset; exact Hks_in).
    destruct (entry_index_hit k e e1 oe Hin Hnd Ee) as [-> Hk1].
    assert (Hadd : set_add k seen = seen) by (unfold set_add; now rewrite Em).
    rewrite Hadd. constructor.
    + exists o. split; [reflexivity|]. rewrite Hoe. cbn. split; [congruence|discriminate].
    + apply (IH e2 d' seen); try assumption. intros x. rewrite Hk2, Hk1. apply Hset.
  - (* first use: the table is not full yet, an entry goes out *)
    assert (Hnin : ~ In k seen) by (intro Hc; apply mem_str_In in Hc; congruence).
    assert (Hnin' : ~ In k (kset e)) by (intro Hc; apply Hnin; apply Hset; exact Hc).
    assert (Hlen : length (l_data (e_lookup e)) = length seen).
    { transitivity (length (kset e)); [unfold keys; now rewrite map_length|].
      symmetry. apply nodup_same_length; assumption. }
    assert (Hev : l_evicting (e_lookup e) = false).
    { destruct (l_evicting (e_lookup e)) eqn:Ev; [|reflexivity]. exfalso.
      specialize (Hfull eq_refl). unfold dlen in Hfull. rewrite Hlen in Hfull.
      pose proof (nodup_lt seen univ k Hs Hu Hincl Hk Hnin). lia. }
    destruct (entry_index_miss k e e1 oe Hnin' Hev Ee) as [Hoe' Hk1].
    assert (Hadd : set_add k seen = k :: seen) by (unfold set_add; now rewrite Em).
    rewrite Hadd. constructor.
    + exists o. split; [reflexivity|]. rewrite Hoe. cbn. split; [reflexivity|intros _; exact Hoe'].
    + apply (IH e2 d' (k :: seen)); try assumption.
      * constructor; assumption.
      * intros x [<-|Hx]; [exact Hk|now apply Hincl].
      * intros x. rewrite Hk2, Hk1. cbn [In]. rewrite Hset. split; intros [H|H]; auto.
Qed.

(* every rule, every size, every history over a set of strings no larger than the table *)
Theorem api_lookup_sent_once (rule : lk_rule) (size : N) (univ ks : list str) :
  1 <= size -> NoDup univ -> N.of_nat (length univ) <= size -> Forall (fun k => In k univ) ks ->
  Forall2 (fun first o => exists obs, o = Some obs /\ (lo_entry obs <> None <-> first = true))
          (first_flags [] ks) (api_lookup rule size ks).
Proof.
  intros H1 Hu Hsz Hks. unfold api_lookup.
  apply (lk_run_sent_once rule univ ks (lenc_init size) (ldec_init size) []); try assumption.
  - now apply inv_init.
  - constructor.
  - intros x [].
  - intros x. cbn. tauto.
Qed.

(* non-vacuity: three strings through a table of three, seven uses *)
Example sent_once_example :
  map (fun o => match o with Some obs => lo_entry obs | None => None end)
      (api_lookup LkPrefix 3 [[97]; [98]; [97]; [99]; [98]; [99]; [97]])
  = [Some 0; Some 0; None; Some 0; None; None; None].
Proof. vm_compute. reflexivity. Qed.
