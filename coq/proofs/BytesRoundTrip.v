(* BytesRoundTrip.v -- C01 at the byte level: what the generic serializer model writes (delimited),
   fed as bytes to the parser model (framing detection, frame reader, protobuf parser, decoder),
   comes back as exactly the statements that went in, in order, with a normal end of stream. *)
From Coq Require Import Arith Lia.
From PJ.Model Require Import Base Lookup Terms Wire Encoder Streams Decoder Spec.
From PJ.Proofs Require Import FrameShape WireProofs WireRT BytesE2E EncStream EncGraphs.

Lemma first_plain evs : all_plain evs ->
  match emitted evs with f :: _ => (f_rows f = [] /\ f_meta f = []) \/ f_rows f <> [] | [] => True end.
Proof. unfold all_plain. destruct (emitted evs) as [|f fs]; [trivial|]. intros H. inversion H as [|? ? [_ Hp] _]. now right. Qed.

Theorem triples_bytes_round_trip (o : soptions) (s s' : stream) (d : sdata) (evs : list tev) (grouped : bool) :
  stream_new TripleStream Generic o = Ok s -> cfg_ok o (st_logical s) ->
  p_nd (so_params o) = false -> fl_rows (st_flow s) = [] ->
  triples_stream_frames d s = (s', evs) -> raised evs = None -> Forall small (emitted evs) ->
  let r := parse_stream Generic grouped false (write_delimited (emitted evs)) in
  flat_events r = flat_map event_of_triple (d_stmts d) /\ pr_end r = PEnd /\
  length (pr_frames r) = length (emitted evs).
Proof.
  intros Hnew Hcfg Hnd Hfresh Hrun Hraise Hsmall.
  apply valid_bytes_decode_delimited; [|exact Hsmall|apply first_plain; eapply triples_frames_plain; eauto].
  unfold run_frames. eapply triples_stream_valid; eauto.
Qed.

Theorem quads_bytes_round_trip (o : soptions) (s s' : stream) (d : sdata) (evs : list tev) (grouped : bool) :
  stream_new QuadStream Generic o = Ok s -> cfg_ok o (st_logical s) ->
  p_nd (so_params o) = false -> fl_rows (st_flow s) = [] ->
  quads_stream_frames d s = (s', evs) -> raised evs = None -> Forall small (emitted evs) ->
  let r := parse_stream Generic grouped false (write_delimited (emitted evs)) in
  flat_events r = flat_map event_of_quad (d_stmts d) /\ pr_end r = PEnd /\
  length (pr_frames r) = length (emitted evs).
Proof.
  intros Hnew Hcfg Hnd Hfresh Hrun Hraise Hsmall.
  apply valid_bytes_decode_delimited; [|exact Hsmall|apply first_plain; eapply quads_frames_plain; eauto].
  unfold run_frames. eapply quads_stream_valid; eauto.
Qed.

Theorem graphs_bytes_round_trip (o : soptions) (s s' : stream) (d : sdata) (evs : list tev) (grouped : bool) :
  stream_new GraphStream Generic o = Ok s -> cfg_ok o (st_logical s) ->
  p_nd (so_params o) = false -> fl_rows (st_flow s) = [] -> forallb wf_quad (d_stmts d) = true ->
  graphs_stream_frames_generic d s = (s', evs) -> raised evs = None -> Forall small (emitted evs) ->
  let r := parse_stream Generic grouped false (write_delimited (emitted evs)) in
  flat_events r = flat_map event_of_quad (d_stmts d) /\ pr_end r = PEnd /\
  length (pr_frames r) = length (emitted evs).
Proof.
  intros Hnew Hcfg Hnd Hfresh Hwf Hrun Hraise Hsmall.
  apply valid_bytes_decode_delimited; [|exact Hsmall|apply first_plain; eapply graphs_frames_plain; eauto].
  unfold run_frames. eapply graphs_stream_valid; eauto.
Qed.

(* non-delimited: a run that emitted exactly one frame, written with write_single *)
Theorem triples_bytes_round_trip_single (o : soptions) (s s' : stream) (d : sdata) (evs : list tev) (f : frame) (grouped : bool) :
  stream_new TripleStream Generic o = Ok s -> cfg_ok o (st_logical s) ->
  p_nd (so_params o) = false -> fl_rows (st_flow s) = [] ->
  triples_stream_frames d s = (s', evs) -> raised evs = None -> emitted evs = [f] -> small f ->
  let r := parse_stream Generic grouped false (write_single f) in
  flat_events r = flat_map event_of_triple (d_stmts d) /\ pr_end r = PEnd.
Proof.
  intros Hnew Hcfg Hnd Hfresh Hrun Hraise Hone Hsmall.
  pose proof (triples_stream_valid _ _ _ _ _ Hnew Hcfg Hnd Hfresh Hrun Hraise) as Hv. rewrite Hone in Hv.
  destruct (valid_bytes_decode_single f _ grouped Hv Hsmall) as (A & B & _). auto.
Qed.

(* ---- with namespace declarations (on or off): declarations first, then the statements ---- *)
From PJ.Proofs Require Import EncNamespace EncNamespace2.

Theorem triples_bytes_round_trip_ns (o : soptions) (s s' : stream) (d : sdata) (evs : list tev) (grouped : bool) :
  stream_new TripleStream Generic o = Ok s -> cfg_ok o (st_logical s) -> fl_rows (st_flow s) = [] ->
  triples_stream_frames d s = (s', evs) -> raised evs = None -> Forall small (emitted evs) ->
  let r := parse_stream Generic grouped false (write_delimited (emitted evs)) in
  flat_events r = ns_events o d ++ flat_map event_of_triple (d_stmts d) /\ pr_end r = PEnd.
Proof.
  intros Hnew Hcfg Hfresh Hrun Hraise Hsmall.
  assert (Hv : run_frames (emitted evs) = Valid (ns_events o d ++ flat_map event_of_triple (d_stmts d))) by (unfold run_frames; eapply triples_stream_valid_ns; eauto).
  destruct (valid_bytes_decode_delimited (emitted evs) _ grouped Hv Hsmall) as (A & B & _); [apply first_plain; eapply triples_frames_plain; eauto|auto].
Qed.

Theorem quads_bytes_round_trip_ns (o : soptions) (s s' : stream) (d : sdata) (evs : list tev) (grouped : bool) :
  stream_new QuadStream Generic o = Ok s -> cfg_ok o (st_logical s) -> fl_rows (st_flow s) = [] ->
  quads_stream_frames d s = (s', evs) -> raised evs = None -> Forall small (emitted evs) ->
  let r := parse_stream Generic grouped false (write_delimited (emitted evs)) in
  flat_events r = ns_events o d ++ flat_map event_of_quad (d_stmts d) /\ pr_end r = PEnd.
Proof.
  intros Hnew Hcfg Hfresh Hrun Hraise Hsmall.
  assert (Hv : run_frames (emitted evs) = Valid (ns_events o d ++ flat_map event_of_quad (d_stmts d))) by (unfold run_frames; eapply quads_stream_valid_ns; eauto).
  destruct (valid_bytes_decode_delimited (emitted evs) _ grouped Hv Hsmall) as (A & B & _); [apply first_plain; eapply quads_frames_plain; eauto|auto].
Qed.

Theorem graphs_bytes_round_trip_ns (o : soptions) (s s' : stream) (d : sdata) (evs : list tev) (grouped : bool) :
  stream_new GraphStream Generic o = Ok s -> cfg_ok o (st_logical s) -> fl_rows (st_flow s) = [] ->
  forallb wf_quad (d_stmts d) = true ->
  graphs_stream_frames_generic d s = (s', evs) -> raised evs = None -> Forall small (emitted evs) ->
  let r := parse_stream Generic grouped false (write_delimited (emitted evs)) in
  flat_events r = ns_events o d ++ flat_map event_of_quad (d_stmts d) /\ pr_end r = PEnd.
Proof.
  intros Hnew Hcfg Hfresh Hwf Hrun Hraise Hsmall.
  assert (Hv : run_frames (emitted evs) = Valid (ns_events o d ++ flat_map event_of_quad (d_stmts d))) by (unfold run_frames; eapply graphs_stream_valid_ns; eauto).
  destruct (valid_bytes_decode_delimited (emitted evs) _ grouped Hv Hsmall) as (A & B & _); [apply first_plain; eapply graphs_frames_plain; eauto|auto].
Qed.

(* ---- non-delimited output of the other stream classes ---- *)
Theorem quads_bytes_round_trip_single (o : soptions) (s s' : stream) (d : sdata) (evs : list tev) (f : frame) (grouped : bool) :
  stream_new QuadStream Generic o = Ok s -> cfg_ok o (st_logical s) -> fl_rows (st_flow s) = [] ->
  quads_stream_frames d s = (s', evs) -> raised evs = None -> emitted evs = [f] -> small f ->
  let r := parse_stream Generic grouped false (write_single f) in
  flat_events r = ns_events o d ++ flat_map event_of_quad (d_stmts d) /\ pr_end r = PEnd.
Proof.
  intros Hnew Hcfg Hfresh Hrun Hraise Hone Hsmall.
  pose proof (quads_stream_valid_ns _ _ _ _ _ Hnew Hcfg Hfresh Hrun Hraise) as Hv. rewrite Hone in Hv.
  destruct (valid_bytes_decode_single f _ grouped Hv Hsmall) as (A & B & _). auto.
Qed.

Theorem graphs_bytes_round_trip_single (o : soptions) (s s' : stream) (d : sdata) (evs : list tev) (f : frame) (grouped : bool) :
  stream_new GraphStream Generic o = Ok s -> cfg_ok o (st_logical s) -> fl_rows (st_flow s) = [] ->
  forallb wf_quad (d_stmts d) = true ->
  graphs_stream_frames_generic d s = (s', evs) -> raised evs = None -> emitted evs = [f] -> small f ->
  let r := parse_stream Generic grouped false (write_single f) in
  flat_events r = ns_events o d ++ flat_map event_of_quad (d_stmts d) /\ pr_end r = PEnd.
Proof.
  intros Hnew Hcfg Hfresh Hwf Hrun Hraise Hone Hsmall.
  pose proof (graphs_stream_valid_ns _ _ _ _ _ Hnew Hcfg Hfresh Hwf Hrun Hraise) as Hv. rewrite Hone in Hv.
  destruct (valid_bytes_decode_single f _ grouped Hv Hsmall) as (A & B & _). auto.
Qed.
