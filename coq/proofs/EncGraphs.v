(* EncGraphs.v -- C03 / C01 for the GRAPHS physical type (generic GraphStream): graph starts,
   the triples of each graph, graph ends; what is handed out is accepted by the referee and
   denotes the input quads, in order, run by run. *)
From Coq Require Import Arith Lia.
From PJ.Model Require Import Base Lookup Terms Encoder Streams Spec.
From PJ.Proofs Require Import Mirror MirrorRun DecoderSound EncLookup Den EncoderProofs FlowProofs EncTerm EncStmt EncStream OptionsProofs.

(* ---- graph start ---- *)
Theorem encode_graph_start_valid (g : term) (t t' : tenc) (rp : repeated) (rows : list row) (ss : sstate) :
  JS t rp ss -> phys ss = 3 ->
  encode_graph_start Generic g t = Ok (t', rows) ->
  exists ss', steps rows ss = SOk (ss', []) /\ JS t' rp ss' /\ s_opts ss' = s_opts ss /\ s_open ss' = Some (norm g).
Proof.
  intros HJS Hphys. unfold encode_graph_start, bind.
  pose proof (JS_start _ _ _ HJS) as J0.
  destruct (encode_graph_term Generic g (start_statement t)) as [[[t1 r1] w]|] eqn:E; [|discriminate].
  intros H; inversion H; subst t' rows; clear H.
  destruct (encode_graph_term_valid _ _ _ _ _ _ J0 E) as (s1 & S1 & J1 & N1 & D1 & St1 & W1).
  destruct HJS as [A B C HLp HLn Hps Hpp Hpo Hpg].
  unfold nontab_eq in N1. destruct N1 as (NO & NP & NN & NS & NPp & NPo & NG & NOp).
  destruct (J_resolves _ _ J1) as (RN & RP & RD).
  assert (HL0p : s_last_pid s1 = fst (Lt (start_statement t))) by (cbn; congruence).
  assert (HL0n : s_last_nid s1 = snd (Lt (start_statement t))) by (cbn; congruence).
  destruct (Den_sound _ _ _ _ _ _ _ _ _ _ D1 true s1 W1 RN RP RD HL0p HL0n) as (s2 & E2 & F2 & P2 & N2).
  exists (upd_open s2 (Some (norm g))). split; [|split; [|split]].
  - rewrite steps_app, S1. cbn [steps step]. unfold phys in *. rewrite NO, Hphys. cbn [N.eqb Pos.eqb].
    unfold sbind. rewrite E2. reflexivity.
  - pose proof (J_frame _ _ _ J1 F2) as J2. destruct J2 as [Jn _ Jp Jd]. unfold frame_eq in F2.
    refine {| js_n := _; js_p := _; js_d := _; js_lp := _; js_ln := _; js_s := _; js_pp := _; js_o := _; js_g := _ |}; cbn.
    + exact Jn.
    + destruct Jp as [Jp|[Jp _]]; [now left|now right].
    + destruct Jd as [Jd|[Jd _]]; [now left|now right].
    + exact P2.
    + exact N2.
    + intuition congruence.
    + intuition congruence.
    + intuition congruence.
    + intuition congruence.
  - cbn. unfold frame_eq in F2. intuition congruence.
  - reflexivity.
Qed.

(* ---- the triples of one graph ---- *)
Definition quad_event (g : term) (tr : list term) : list event :=
  match tr with s :: p :: o :: _ => [EQuad (norm s) (norm p) (norm o) (norm g)] | _ => [] end.

Definition appended_triples := appended_all stream_triple appended_triple.

Lemma stream_triple_ok_flags terms s s' fr :
  stream_triple terms s = (s', Ok fr) -> st_failed s' = st_failed s /\ st_failed s = false /\ st_class s' = st_class s /\ st_opts s' = st_opts s.
Proof.
  unfold stream_triple. destruct (st_failed s) eqn:F; [discriminate|].
  destruct (encode_triple _ _ _ _) as [[[t' rp'] rows]|]; [|discriminate].
  destruct (frame_from_bounds _). intros H; inversion H; subst; cbn. auto.
Qed.

Lemma graph_triples_valid (g : term) (ts : list (list term)) : forall (s s' : stream) (evs : list tev) (ss : sstate),
  st_integ s = Generic -> JS (st_enc s) (st_rep s) ss -> phys ss = 3 -> s_open ss = Some (norm g) ->
  graph_triples ts s = (s', evs, true) ->
  exists ss', steps (appended_triples ts s) ss = SOk (ss', flat_map (quad_event g) ts) /\
              JS (st_enc s') (st_rep s') ss' /\ s_opts ss' = s_opts ss /\ s_open ss' = Some (norm g) /\ st_integ s' = Generic /\
              emitted_rows evs ++ fl_rows (st_flow s') = fl_rows (st_flow s) ++ appended_triples ts s.
Proof.
  induction ts as [|tr rest IH]; intros s s' evs ss Hig HJ Hph Hop; cbn [graph_triples appended_triples appended_all flat_map].
  - intros H; inversion H; subst. exists ss. cbn. rewrite app_nil_r.
    split; [reflexivity|]. split; [exact HJ|]. auto.
  - destruct (stream_triple tr s) as [s1 [fr|e]] eqn:E; [|intros H; inversion H].
    destruct (graph_triples rest s1) as [[s2 evs2] ok2] eqn:E2. intros H; inversion H; subst.
    destruct (stream_triple_encode _ _ _ _ E) as [Henc Hig1]. rewrite Hig in Henc.
    destruct (encode_triple_valid_in_graph _ _ _ _ _ _ _ _ HJ Hph Hop Henc) as (a & b & c & tl & ss1 & Hst & Hsteps & HJ1 & Ho & Hop1).
    assert (Hph1 : phys ss1 = 3) by (unfold phys in *; congruence).
    destruct (IH _ _ _ ss1 (eq_trans Hig1 Hig) HJ1 Hph1 Hop1 E2) as (ss2 & Hrest & HJ2 & Ho2 & Hop2 & Hig2 & Hcons).
    exists ss2. fold appended_triples. split; [rewrite steps_app, Hsteps, Hrest; subst tr; reflexivity|].
    split; [exact HJ2|]. split; [congruence|]. split; [exact Hop2|]. split; [exact Hig2|].
    rewrite emitted_rows_app, emitted_rows_emit_opt. rewrite <- app_assoc, Hcons.
    rewrite app_assoc. rewrite (stream_triple_conserves _ _ _ _ E). now rewrite <- app_assoc.
Qed.

(* ---- one whole graph: start, triples, end ---- *)
Definition graph_rows (g : term) (ts : list (list term)) (s : stream) : list row :=
  match encode_graph_start (st_integ s) g (st_enc s) with
  | Ok (t', rows) =>
    rows ++ appended_triples ts (with_enc s t' (st_rep s) (flow_extend (st_flow s) rows)) ++ [RGraphEnd]
  | Err _ => []
  end.

Theorem stream_graph_valid (g : term) (ts : list (list term)) (s s' : stream) (evs : list tev) (ss : sstate) :
  st_integ s = Generic -> JS (st_enc s) (st_rep s) ss -> phys ss = 3 ->
  stream_graph g ts s = (s', evs, true) ->
  exists ss', steps (graph_rows g ts s) ss = SOk (ss', flat_map (quad_event g) ts) /\
              JS (st_enc s') (st_rep s') ss' /\ s_opts ss' = s_opts ss /\ st_integ s' = Generic /\
              emitted_rows evs ++ fl_rows (st_flow s') = fl_rows (st_flow s) ++ graph_rows g ts s.
Proof.
  intros Hig HJ Hph. unfold stream_graph, graph_rows. rewrite Hig.
  destruct (st_failed s); [intros H; inversion H|].
  destruct (encode_graph_start Generic g (st_enc s)) as [[t' rows]|] eqn:Eg; [|intros H; inversion H].
  set (s1 := with_enc s t' (st_rep s) (flow_extend (st_flow s) rows)).
  destruct (graph_triples ts s1) as [[s2 evs2] ok] eqn:Et. destruct ok; [|intros H; inversion H].
  destruct (frame_from_bounds (flow_extend (st_flow s2) [RGraphEnd])) as [fl fr] eqn:Ef.
  intros H; inversion H; subst s' evs; clear H.
  destruct (encode_graph_start_valid _ _ _ _ _ _ HJ Hph Eg) as (ss1 & S1 & J1 & O1 & Op1).
  assert (Hph1 : phys ss1 = 3) by (unfold phys in *; congruence).
  destruct (graph_triples_valid g ts s1 s2 evs2 ss1 Hig J1 Hph1 Op1 Et) as (ss2 & S2 & J2 & O2 & Op2 & Hig2 & Hcons).
  exists (upd_open ss2 None). split; [|split; [|split; [|split]]].
  - rewrite steps_app, S1, steps_app, S2. cbn [steps step]. unfold phys in *. rewrite O2, O1, Hph. cbn [N.eqb Pos.eqb].
    rewrite Op2. cbn. now rewrite app_nil_r.
  - cbn. destruct J2 as [A B C D E F G H I]. constructor; cbn; auto.
  - cbn. congruence.
  - cbn. exact Hig2.
  - cbn. rewrite emitted_rows_app, emitted_rows_emit_opt.
    pose proof (frame_from_bounds_conserves (flow_extend (st_flow s2) [RGraphEnd])) as Hc. rewrite Ef in Hc. cbn in Hc.
    rewrite <- app_assoc. rewrite Hc. rewrite app_assoc, Hcons. subst s1. cbn. now rewrite <- !app_assoc.
Qed.

(* ---- all graphs of an input ---- *)
Fixpoint graphs_rows (gs : list (term * list (list term))) (s : stream) : list row :=
  match gs with
  | [] => []
  | (g, ts) :: rest =>
    match stream_graph g ts s with
    | (s', _, true) => graph_rows g ts s ++ graphs_rows rest s'
    | _ => []
    end
  end.

Definition run_events (gts : term * list (list term)) : list event := flat_map (quad_event (fst gts)) (snd gts).

Theorem feed_graphs_generic_valid (gs : list (term * list (list term))) : forall (first : bool) (s s' : stream) (evs : list tev) (ss : sstate),
  st_integ s = Generic -> JS (st_enc s) (st_rep s) ss -> phys ss = 3 ->
  feed_graphs_generic first gs s = (s', evs, true) ->
  exists ss', steps (graphs_rows gs s) ss = SOk (ss', flat_map run_events gs) /\
              emitted_rows evs ++ fl_rows (st_flow s') = fl_rows (st_flow s) ++ graphs_rows gs s.
Proof.
  induction gs as [|[g ts] rest IH]; intros first s s' evs ss Hig HJ Hph; cbn [feed_graphs_generic graphs_rows flat_map].
  - intros H; inversion H; subst. exists ss. cbn. now rewrite app_nil_r.
  - destruct (stream_graph g ts s) as [[s1 evs1] ok1] eqn:E. destruct ok1; [|intros H; inversion H].
    destruct (feed_graphs_generic false rest s1) as [[s2 evs2] ok2] eqn:E2. intros H; inversion H; subst.
    destruct (stream_graph_valid _ _ _ _ _ _ Hig HJ Hph E) as (ss1 & S1 & J1 & O1 & Hig1 & Hc1).
    assert (Hph1 : phys ss1 = 3) by (unfold phys in *; congruence).
    destruct (IH _ _ _ _ ss1 Hig1 J1 Hph1 E2) as (ss2 & S2 & Hc2).
    exists ss2. split; [rewrite steps_app, S1, S2; reflexivity|].
    rewrite !emitted_rows_app, emitted_rows_pulls. cbn [app]. rewrite <- app_assoc, Hc2.
    rewrite app_assoc, Hc1. now rewrite <- app_assoc.
Qed.

(* ---- split_to_graphs: the runs put back together are the input quads ---- *)
Definition wf_quad (st : list term) : bool := match st with _ :: _ :: _ :: _ :: _ => true | _ => false end.

Lemma quad_event_of (st : list term) : wf_quad st = true ->
  forall g, graph_of st = Some g -> quad_event g (firstn 3 st) = event_of_quad st.
Proof.
  destruct st as [|a [|b [|c [|d rest]]]]; cbn; try discriminate. intros _ g H. inversion H; reflexivity.
Qed.

Lemma split_runs_events (stmts : list (list term)) : forall (cur : option (term * list (list term))),
  forallb wf_quad stmts = true ->
  flat_map run_events (split_runs stmts cur) =
  (match cur with Some gts => run_events gts | None => [] end) ++ flat_map event_of_quad stmts.
Proof.
  induction stmts as [|st rest IH]; intros cur Hwf; cbn [split_runs flat_map forallb].
  - destruct cur as [[g ts]|]; cbn; now rewrite ?app_nil_r.
  - cbn [forallb] in Hwf. apply andb_prop in Hwf. destruct Hwf as [Hst Hrest].
    assert (Hg : exists g, graph_of st = Some g) by (destruct st as [|a [|b [|c [|d r]]]]; try discriminate; cbn; eauto).
    destruct Hg as [g Hg]. rewrite Hg.
    destruct cur as [[g0 ts]|].
    + destruct (term_eqb g0 g) eqn:Eg.
      * apply term_eqb_true in Eg. subst g0. rewrite (IH _ Hrest). unfold run_events. cbn [fst snd].
        rewrite flat_map_app. cbn [flat_map]. rewrite app_nil_r. rewrite (quad_event_of st Hst g Hg). now rewrite <- app_assoc.
      * cbn [flat_map]. rewrite (IH _ Hrest). unfold run_events at 2. cbn [fst snd flat_map]. rewrite app_nil_r.
        rewrite (quad_event_of st Hst g Hg). reflexivity.
    + rewrite (IH _ Hrest). unfold run_events. cbn [fst snd flat_map]. rewrite app_nil_r.
      now rewrite (quad_event_of st Hst g Hg).
Qed.

(* ---- the whole GRAPHS stream (declarations off) ---- *)
Theorem graphs_stream_valid (o : soptions) (s s' : stream) (d : sdata) (evs : list tev) :
  stream_new GraphStream Generic o = Ok s -> cfg_ok o (st_logical s) ->
  p_nd (so_params o) = false -> fl_rows (st_flow s) = [] ->
  forallb wf_quad (d_stmts d) = true ->
  graphs_stream_frames_generic d s = (s', evs) -> raised evs = None ->
  run (flat_map f_rows (emitted evs)) = Valid (flat_map event_of_quad (d_stmts d)).
Proof.
  intros Hnew Hcfg Hnd Hfresh Hwf Hrun Hraise.
  destruct (start_of_stream _ _ _ Hnew Hcfg) as (w & ss0 & Hrow & Hstart & HJ & Hph & Hig & Hfl & Henc & Hrep & Hig' & Hopts & Hver & Ho).
  assert (Hns : ns_phase true d (enroll s) = (enroll s, Ok tt)) by (apply ns_phase_off; rewrite Hopts, Ho; exact Hnd).
  unfold graphs_stream_frames_generic in Hrun. rewrite Hns in Hrun.
  assert (HJ' : JS (st_enc (enroll s)) (st_rep (enroll s)) ss0) by (rewrite Henc, Hrep; exact HJ).
  rewrite <- emitted_rows_is_concat.
  destruct (d_stmts d) as [|st0 rest] eqn:Ed.
  - destruct (finish false (enroll s)) as [s3 fin] eqn:F. inversion Hrun; subst s' evs; clear Hrun.
    pose proof (finish_conserves _ _ _ _ F) as H2. pose proof (finish_flushes _ _ _ _ F) as H3.
    rewrite H3, app_nil_r in H2. cbn [emitted_rows]. rewrite H2, Hfl, Hfresh. cbn [app run]. rewrite Hstart. reflexivity.
  - rewrite <- Ed in *.
    destruct (feed_graphs_generic true (split_runs (d_stmts d) None) (enroll s)) as [[s2 evs2] ok] eqn:Efeed.
    destruct ok.
    + destruct (finish false s2) as [s3 fin] eqn:F. inversion Hrun; subst s' evs; clear Hrun.
      destruct (feed_graphs_generic_valid _ _ _ _ _ ss0 Hig' HJ' Hph Efeed) as (ss' & Hsteps & Hcons).
      pose proof (finish_conserves _ _ _ _ F) as H2. pose proof (finish_flushes _ _ _ _ F) as H3.
      rewrite H3, app_nil_r in H2.
      rewrite emitted_rows_app, H2. rewrite Hcons, Hfl, Hfresh. cbn [app run]. rewrite Hstart.
      rewrite (steps_run_from _ 1 _ [] _ _ Hsteps). cbn [app].
      rewrite (split_runs_events _ None Hwf). reflexivity.
    + inversion Hrun; subst. exfalso. eapply feed_graphs_generic_not_ok; eauto.
Qed.
