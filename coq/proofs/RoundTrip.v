(* RoundTrip.v -- C01: writer model then reader model is the identity (up to [norm]) on statement
   sequences, composed from encoder validity and decoder soundness through the Spec referee. *)
From Coq Require Import Arith Lia.
From PJ.Model Require Import Base Lookup Terms Wire Encoder Streams Decoder Spec.
From PJ.Proofs Require Import DecoderProofs DecoderSound EncStream.

Theorem triples_round_trip (o : soptions) (s s' : stream) (d : sdata) (evs : list tev) (delimited : bool) :
  stream_new TripleStream Generic o = Ok s -> cfg_ok o (st_logical s) ->
  p_nd (so_params o) = false -> fl_rows (st_flow s) = [] ->
  triples_stream_frames d s = (s', evs) -> raised evs = None ->
  exists po ak st0 sk first more,
    skip_empty (emitted evs) = (sk, first :: more) /\ options_from_frame first delimited = Ok po /\
    route (po_phys po) = Ok ak /\ decoder_new po = Ok st0 /\
    flat_obs (decode_frames Generic ak po (emitted evs) st0) = (flat_map event_of_triple (d_stmts d), None).
Proof.
  intros. apply decoder_sound_frames. unfold run_frames. eapply triples_stream_valid; eauto.
Qed.

Theorem quads_round_trip (o : soptions) (s s' : stream) (d : sdata) (evs : list tev) (delimited : bool) :
  stream_new QuadStream Generic o = Ok s -> cfg_ok o (st_logical s) ->
  p_nd (so_params o) = false -> fl_rows (st_flow s) = [] ->
  quads_stream_frames d s = (s', evs) -> raised evs = None ->
  exists po ak st0 sk first more,
    skip_empty (emitted evs) = (sk, first :: more) /\ options_from_frame first delimited = Ok po /\
    route (po_phys po) = Ok ak /\ decoder_new po = Ok st0 /\
    flat_obs (decode_frames Generic ak po (emitted evs) st0) = (flat_map event_of_quad (d_stmts d), None).
Proof.
  intros. apply decoder_sound_frames. unfold run_frames. eapply quads_stream_valid; eauto.
Qed.

From PJ.Proofs Require Import EncGraphs.

Theorem graphs_round_trip (o : soptions) (s s' : stream) (d : sdata) (evs : list tev) (delimited : bool) :
  stream_new GraphStream Generic o = Ok s -> cfg_ok o (st_logical s) ->
  p_nd (so_params o) = false -> fl_rows (st_flow s) = [] -> forallb wf_quad (d_stmts d) = true ->
  graphs_stream_frames_generic d s = (s', evs) -> raised evs = None ->
  exists po ak st0 sk first more,
    skip_empty (emitted evs) = (sk, first :: more) /\ options_from_frame first delimited = Ok po /\
    route (po_phys po) = Ok ak /\ decoder_new po = Ok st0 /\
    flat_obs (decode_frames Generic ak po (emitted evs) st0) = (flat_map event_of_quad (d_stmts d), None).
Proof.
  intros. apply decoder_sound_frames. unfold run_frames. eapply graphs_stream_valid; eauto.
Qed.
