(* NonVacuity.v -- the premises of the whole-stream theorems are satisfiable: a concrete stream with a
   name table at its minimum (8), a prefix table of 2 (so prefix slots are evicted and re-assigned,
   by explicit and by sequential ids), a datatype table of 1, frames of 2 rows, a language-tagged and
   a typed literal, a repeated subject -- and every hypothesis of the C01 / C03 / C19 / byte-level
   theorems holds of it (by computation).  Also a rejected statement for C20 and an invalid stream
   for C16. *)
From Coq Require Import Arith Lia.
From PJ.Model Require Import Base Lookup Terms Wire Encoder Streams Decoder Spec Audit.
From PJ.Proofs Require Import EncStream WireProofs WireRT BytesE2E AudStmt AudStream EncPoison.

Local Open Scope N_scope.

Definition ex_opts : soptions :=
  {| so_flow := None; so_frame_size := 2; so_logical := 1;
     so_params := {| p_gen := false; p_star := false; p_delimited := true; p_nd := false; p_name := [110] |};
     so_maxn := 8; so_maxp := 2; so_maxd := 1 |}.

Definition iri (p n : N) : term := TIri ([104; 116; 116; 112; 58; 47; 47; p; 47] ++ [n]).
Definition ex_stmts : list (list term) :=
  [ [iri 97 120; iri 98 121; iri 97 122];                       (* two namespaces fill the prefix table *)
    [iri 97 120; iri 98 121; TLit [49] None (Some [100; 116])]; (* repeated s and p; a typed literal *)
    [iri 99 120; iri 98 121; TLit [104; 105] (Some [101; 110]) None];   (* a third namespace: a slot is re-assigned *)
    [TBnode [98]; iri 97 120; iri 99 121] ].
Definition ex_data : sdata := {| d_is_sink := false; d_namespaces := []; d_stmts := ex_stmts |}.


Ltac solve_forall := repeat (first [apply Forall_nil | apply Forall_cons]); try (vm_compute; reflexivity).

Example whole_stream_premises_satisfiable :
  exists s s' evs,
    stream_new TripleStream Generic ex_opts = Ok s /\ cfg_ok ex_opts (st_logical s) /\
    p_nd (so_params ex_opts) = false /\ fl_rows (st_flow s) = [] /\
    triples_stream_frames ex_data s = (s', evs) /\ raised evs = None /\
    Forall small (emitted evs) /\ stmts_nrm ex_stmts /\
    (* non-trivial: several frames, and a prefix entry that re-assigns a slot with an explicit id *)
    (3 <= length (emitted evs))%nat /\ In (RPrefix 2 [104; 116; 116; 112; 58; 47; 47; 99; 47]) (flat_map f_rows (emitted evs)).
Proof.
  eexists. eexists. eexists.
  split; [vm_compute; reflexivity|].
  split; [unfold cfg_ok; vm_compute; repeat split; discriminate|].
  split; [reflexivity|]. split; [reflexivity|].
  split; [vm_compute; reflexivity|].
  split; [vm_compute; reflexivity|].
  split; [solve_forall|].
  split; [unfold stmts_nrm; solve_forall|].
  split; [vm_compute; lia|].
  vm_compute. tauto.
Qed.

(* C20: a run in which the third statement is rejected (a term the writer cannot encode): two statements
   are accepted, and the theorem's conclusion speaks about them *)
Definition ex_stmts_poison : list (list term) :=
  [ [iri 97 120; iri 98 121; iri 97 122]; [iri 97 120; iri 98 121; TBnode [98]]; [iri 97 120; TOther; iri 98 122]; [iri 97 121; iri 98 121; iri 97 122] ].

Example catch_and_continue_non_trivial :
  exists s, stream_new TripleStream Generic ex_opts = Ok s /\
    length (accepted stream_triple ex_stmts_poison (enroll s)) = 2%nat /\
    raised (snd (drive stream_triple ex_stmts_poison (enroll s))) <> None.
Proof.
  eexists. split; [vm_compute; reflexivity|]. split; [vm_compute; reflexivity|]. vm_compute. discriminate.
Qed.

(* C16 / C10: an invalid catalogued stream and a valid multi-frame stream exist (hypotheses of the
   byte-level theorems) *)
Definition ex_wopts : woptions :=
  {| o_name := []; o_phys := 1; o_gen := false; o_star := false; o_maxn := 8; o_maxp := 1; o_maxd := 0; o_logical := 1; o_version := 1 |}.
Definition ex_invalid_frame : frame :=
  mkframe [ROptions ex_wopts; RName 0 [97]; RTriple (Some (WIri 0 1)) (Some (WIri 0 1)) (Some (WIri 0 5))].

Example invalid_stream_premises_satisfiable :
  f_rows ex_invalid_frame <> [] /\
  (exists i evs, run (f_rows ex_invalid_frame) = Invalid i Unfilled evs) /\ catalogued Unfilled = true /\
  wf_frame ex_invalid_frame /\ small ex_invalid_frame.
Proof.
  split; [discriminate|]. split; [eexists; eexists; vm_compute; reflexivity|]. split; [reflexivity|].
  split; [unfold wf_frame; cbn [f_rows ex_invalid_frame mkframe]; repeat constructor; vm_compute; try reflexivity; try (intro; discriminate)|vm_compute; reflexivity].
Qed.

Definition ex_f1 : frame := mkframe [ROptions ex_wopts; RPrefix 0 [104]; RName 0 [97]; RTriple (Some (WIri 1 0)) (Some (WIri 0 1)) (Some (WBnode [98]))].
Definition ex_f2 : frame := mkframe [RName 0 [99]; RTriple None None (Some (WIri 0 0))].
Definition ex_f3 : frame := mkframe [RTriple (Some (WBnode [120])) None None].

Example truncation_premises_satisfiable :
  (exists evs, run_frames ([ex_f1; ex_f2] ++ ex_f3 :: []) = Valid evs /\ length evs = 3%nat) /\
  Forall small [ex_f1; ex_f2] /\ small ex_f3 /\ flat_map f_rows [ex_f1; ex_f2] <> [] /\
  (0 < 3 < length (write_delimited1 ex_f3))%nat.
Proof.
  split; [eexists; split; vm_compute; reflexivity|].
  split; [solve_forall|]. split; [vm_compute; reflexivity|]. split; [discriminate|]. vm_compute. lia.
Qed.

(* C19: the audit of that stream, computed: seven lookup entries were sent (a datatype entry included), nothing is counted against it *)
Example audit_of_the_example :
  exists s, stream_new TripleStream Generic ex_opts = Ok s /\
    audit (flat_map f_rows (emitted (snd (triples_stream_frames ex_data s)))) =
    Some {| c_redundant := 0; c_elision := 0; c_zero := 0; c_gstart := 0; c_entries := 7 |}.
Proof. eexists. split; [vm_compute; reflexivity|]. vm_compute. reflexivity. Qed.
