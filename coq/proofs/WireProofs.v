(* WireProofs.v -- varint round trip and prefix behaviour; the length-prefixed frame reader on a
   stream cut at an arbitrary byte offset (C10). *)
From Coq Require Import Arith Lia.
From PJ.Model Require Import Base Terms Wire.

(* ---------- varint ---------- *)
Lemma pow128_succ k : 128 ^ N.of_nat (S k) = 128 * 128 ^ N.of_nat k.
Proof. rewrite Nat2N.inj_succ. apply N.pow_succ_r'. Qed.

Lemma pow128_pos k : 1 <= 128 ^ N.of_nat k.
Proof. induction k as [|k IH]; [cbn; lia|]. rewrite pow128_succ. lia. Qed.

Lemma shift_split n shift : (n mod 128) * 2 ^ shift + (n / 128) * 2 ^ (shift + 7) = n * 2 ^ shift.
Proof.
  rewrite N.pow_add_r. change (2 ^ 7) with 128.
  rewrite (N.div_mod n 128) at 3 by lia. lia.
Qed.

Lemma byte_mod n : (n mod 128 + 128) mod 128 = n mod 128.
Proof.
  assert (H : n mod 128 < 128) by (apply N.mod_lt; lia).
  replace (n mod 128 + 128) with (n mod 128 + 1 * 128) by lia.
  rewrite N.mod_add by lia. apply N.mod_small. exact H.
Qed.

Lemma venc_vdec (fe : nat) : forall (n : N) (fd : nat) (shift acc : N) (rest : list N),
  n < 128 ^ N.of_nat (S fe) -> n < 128 ^ N.of_nat fd -> (1 <= fd)%nat ->
  vdec fd shift acc (venc fe n ++ rest) = Some (acc + n * 2 ^ shift, rest).
Proof.
  induction fe as [|fe IH]; intros n fd shift acc rest Hn Hd Hfd.
  - cbn [venc app]. destruct fd as [|fd]; [lia|]. cbn [vdec].
    assert (n < 128) by (rewrite pow128_succ in Hn; cbn in Hn; lia).
    rewrite N.shiftl_mul_pow2, N.mod_small by assumption.
    replace (n <? 128) with true by (symmetry; apply N.ltb_lt; assumption). reflexivity.
  - cbn [venc]. destruct (N.ltb_spec n 128) as [Hlt|Hge].
    + cbn [app]. destruct fd as [|fd]; [lia|]. cbn [vdec].
      rewrite N.shiftl_mul_pow2, N.mod_small by assumption.
      replace (n <? 128) with true by (symmetry; apply N.ltb_lt; assumption). reflexivity.
    + cbn [app]. destruct fd as [|fd]; [lia|]. cbn [vdec].
      assert (Hb : n mod 128 < 128) by (apply N.mod_lt; lia).
      replace (n mod 128 + 128 <? 128) with false by (symmetry; apply N.ltb_ge; apply N.le_add_l).
      rewrite byte_mod, N.shiftl_mul_pow2.
      assert (Hq : n / 128 < 128 ^ N.of_nat (S fe)).
      { rewrite (pow128_succ (S fe)) in Hn. apply N.div_lt_upper_bound; lia. }
      assert (Hq2 : n / 128 < 128 ^ N.of_nat fd).
      { rewrite pow128_succ in Hd. apply N.div_lt_upper_bound; lia. }
      assert (Hfd' : (1 <= fd)%nat).
      { destruct fd; [|lia]. cbn in Hq2. assert (1 <= n / 128) by (apply N.div_le_lower_bound; lia). lia. }
      rewrite (IH _ _ _ _ _ Hq Hq2 Hfd'). f_equal. f_equal. rewrite <- N.add_assoc. f_equal. apply shift_split.
Qed.

Lemma size_nat_bound n : n < 128 ^ N.of_nat (S (N.size_nat n)).
Proof.
  destruct n as [|p]; [cbn; lia|].
  assert (H : N.pos p < 2 ^ N.of_nat (N.size_nat (N.pos p))).
  { cbn [N.size_nat]. induction p as [p IH|p IH|]; cbn [Pos.size_nat].
    - rewrite Nat2N.inj_succ, N.pow_succ_r'. lia.
    - rewrite Nat2N.inj_succ, N.pow_succ_r'. lia.
    - cbn. lia. }
  eapply N.lt_le_trans; [exact H|].
  eapply N.le_trans; [apply (N.pow_le_mono_l 2 128); lia|].
  apply N.pow_le_mono_r; lia.
Qed.

Definition varint_max : N := 128 ^ 10.

Theorem varint_round_trip (n : N) (rest : list N) :
  n < varint_max -> varint_dec (varint n ++ rest) = Some (n, rest).
Proof.
  intros H. unfold varint_dec, varint.
  rewrite (venc_vdec (N.size_nat n) n 10 0 0 rest (size_nat_bound n)); [|exact H|lia].
  cbn. f_equal. f_equal. lia.
Qed.

(* all bytes of a varint but the last have the continuation bit *)
Lemma venc_nonempty f n : venc f n <> [].
Proof. destruct f; cbn; [discriminate|]. destruct (n <? 128); discriminate. Qed.

Lemma vdec_proper_prefix (fe : nat) : forall (n : N) (j fd : nat) (shift acc : N),
  n < 128 ^ N.of_nat (S fe) -> (j < length (venc fe n))%nat ->
  vdec fd shift acc (firstn j (venc fe n)) = None.
Proof.
  induction fe as [|fe IH]; intros n j fd shift acc Hn Hj.
  - cbn [venc length] in *. assert (j = 0)%nat by lia. subst. cbn. destruct fd; reflexivity.
  - cbn [venc] in *. destruct (N.ltb_spec n 128) as [Hlt|Hge].
    + cbn [length] in Hj. assert (j = 0)%nat by lia. subst. cbn. destruct fd; reflexivity.
    + cbn [length] in Hj. destruct j as [|j]; [cbn; destruct fd; reflexivity|].
      cbn [firstn]. destruct fd as [|fd]; [reflexivity|]. cbn [vdec].
      assert (Hb : n mod 128 < 128) by (apply N.mod_lt; lia).
      replace (n mod 128 + 128 <? 128) with false by (symmetry; apply N.ltb_ge; apply N.le_add_l).
      apply IH; [|lia]. rewrite (pow128_succ (S fe)) in Hn. apply N.div_lt_upper_bound; lia.
Qed.

Theorem varint_proper_prefix (n : N) (j : nat) :
  (j < length (varint n))%nat -> varint_dec (firstn j (varint n)) = None.
Proof. intros H. unfold varint_dec, varint in *. apply vdec_proper_prefix; [apply size_nat_bound|exact H]. Qed.

(* ---------- take ---------- *)
Lemma take_app {A} (a b : list A) : take (length a) (a ++ b) = Some (a, b).
Proof. induction a as [|x a IH]; cbn; [reflexivity|]. now rewrite IH. Qed.

(* ---------- the frame reader over a delimited stream and its truncations ---------- *)
(* frames whose serialisation the wire parser reads back; this is the wire round trip, tied to
   protobuf by the correspondence check and taken here as a premise on the frames at hand *)
Definition readable (f : frame) : Prop :=
  parse_frame (ser_frame f) = Some f /\ nlen (ser_frame f) < varint_max /\
  (ser_frame f = [] -> f = mkframe []).

Lemma frame_iterator_fuel_mono (fuel : nat) : forall b, (length b <= fuel)%nat ->
  frame_iterator fuel b = frame_iterator (length b) b.
Proof.
  (* both fuels suffice: each frame read consumes at least one byte *)
  assert (H : forall n fuel b, (length b <= n)%nat -> (n <= fuel)%nat -> frame_iterator fuel b = frame_iterator n b).
  { induction n as [|n IH]; intros fu b Hb Hf.
    - destruct b; [|cbn in Hb; lia]. destruct fu; reflexivity.
    - destruct fu as [|fu]; [lia|]. destruct b as [|x b]; [reflexivity|]. cbn [frame_iterator].
      destruct (varint_dec (x :: b)) as [[size b1]|] eqn:E; [|reflexivity].
      assert (Hlen : (length b1 <= n)%nat).
      { unfold varint_dec in E. assert (G : forall fd sh ac bb v r, vdec fd sh ac bb = Some (v, r) -> (length r < length bb)%nat).
        { induction fd as [|fd IHf]; intros sh ac bb v r; [discriminate|]. destruct bb as [|y bb]; [discriminate|]. cbn [vdec].
          destruct (y <? 128); [intros Q; inversion Q; subst; cbn; lia|]. intros Q. apply IHf in Q. cbn. lia. }
        apply G in E. cbn in *. lia. }
      destruct (size =? 0).
      + rewrite (IH fu b1) by lia. reflexivity.
      + destruct (nlen b1 <? size); [reflexivity|].
        destruct (take (N.to_nat size) b1) as [[payload b2]|] eqn:Et; [|reflexivity].
        destruct (parse_frame payload); [|reflexivity].
        assert (Hl2 : (length b2 <= n)%nat).
        { assert (G : forall k (l a r : list N), take k l = Some (a, r) -> (length r <= length l)%nat).
          { induction k as [|k IHk]; intros l a r; cbn; [intros Q; inversion Q; lia|].
            destruct l as [|z l]; [discriminate|]. destruct (take k l) as [[a' r']|] eqn:Q'; [|discriminate].
            intros Q; inversion Q; subst. apply IHk in Q'. cbn. lia. }
          apply G in Et. lia. }
        rewrite (IH fu b2) by lia. reflexivity. }
  intros b Hb. apply H; [lia|exact Hb].
Qed.

Lemma read_one (f : frame) (rest : list N) (fuel : nat) :
  readable f -> (length (write_delimited1 f ++ rest) <= fuel)%nat ->
  frame_iterator fuel (write_delimited1 f ++ rest) =
  let '(fs, e) := frame_iterator (length rest) rest in (f :: fs, e).
Proof.
  intros [Hp [Hsz Hemp]] Hfuel. unfold write_delimited1 in *.
  set (payload := ser_frame f) in *.
  destruct fuel as [|fuel].
  { pose proof (venc_nonempty (N.size_nat (nlen payload)) (nlen payload)). unfold varint in Hfuel.
    destruct (venc _ _); [contradiction|cbn in Hfuel; lia]. }
  rewrite <- app_assoc.
  destruct (varint (nlen payload) ++ payload ++ rest) as [|x l] eqn:Eb.
  { pose proof (venc_nonempty (N.size_nat (nlen payload)) (nlen payload)). unfold varint in Eb. destruct (venc _ _); [contradiction|discriminate]. }
  cbn [frame_iterator]. rewrite <- Eb. rewrite (varint_round_trip _ _ Hsz).
  assert (Hrest : (length rest <= fuel)%nat).
  { rewrite <- app_assoc in Hfuel. rewrite Eb in Hfuel. rewrite <- Eb in Hfuel. rewrite !app_length in Hfuel.
    pose proof (venc_nonempty (N.size_nat (nlen payload)) (nlen payload)). unfold varint in Hfuel. destruct (venc _ _); [contradiction|cbn in Hfuel; lia]. }
  destruct (nlen payload =? 0) eqn:E0.
  - apply N.eqb_eq in E0. assert (payload = []) by (destruct payload; [reflexivity|unfold nlen in E0; cbn in E0; lia]).
    rewrite H. cbn [app]. rewrite (frame_iterator_fuel_mono fuel rest Hrest).
    rewrite (Hemp H). reflexivity.
  - replace (nlen (payload ++ rest) <? nlen payload) with false
      by (symmetry; apply N.ltb_ge; unfold nlen; rewrite app_length; lia).
    unfold nlen at 1. rewrite Nat2N.id. rewrite take_app. rewrite Hp.
    rewrite (frame_iterator_fuel_mono fuel rest Hrest). reflexivity.
Qed.

(* the whole stream reads back as its frames *)
Theorem read_frames_delimited (fs : list frame) :
  Forall readable fs -> read_frames (write_delimited fs) = (fs, FiEof).
Proof.
  unfold read_frames. induction fs as [|f fs IH]; intros H; [reflexivity|].
  inversion H as [|? ? Hf Hfs]; subst. unfold write_delimited in *. cbn [flat_map].
  rewrite (read_one f _ _ Hf (le_n _)). rewrite (IH Hfs). reflexivity.
Qed.

(* a cut inside a frame: the frames wholly before the cut, then an error -- never a frame made
   from the delivered part *)
Lemma cut_inside_one (f : frame) (j : nat) (fuel : nat) :
  readable f -> (0 < j < length (write_delimited1 f))%nat ->
  frame_iterator fuel (firstn j (write_delimited1 f)) = ([], FiError).
Proof.
  intros [Hp [Hsz Hemp]] Hj. unfold write_delimited1 in *. set (payload := ser_frame f) in *.
  destruct (firstn j (varint (nlen payload) ++ payload)) as [|x l] eqn:Eb.
  { destruct j; [lia|]. pose proof (venc_nonempty (N.size_nat (nlen payload)) (nlen payload)). unfold varint in Eb. destruct (venc _ _); [contradiction|discriminate]. }
  destruct fuel as [|fuel]; [reflexivity|]. cbn [frame_iterator]. rewrite <- Eb.
  destruct (Nat.lt_ge_cases j (length (varint (nlen payload)))) as [Hv|Hv].
  - (* cut inside the size *)
    rewrite firstn_app. replace (j - length (varint (nlen payload)))%nat with 0%nat by lia. cbn [firstn]. rewrite app_nil_r.
    rewrite (varint_proper_prefix _ _ Hv). reflexivity.
  - (* cut inside the payload *)
    rewrite firstn_app. rewrite firstn_all2 by lia.
    rewrite (varint_round_trip _ _ Hsz). rewrite app_length in Hj.
    set (m := (j - length (varint (nlen payload)))%nat) in *.
    assert (Hm : (m < length payload)%nat) by lia.
    destruct (nlen payload =? 0) eqn:E0; [apply N.eqb_eq in E0; unfold nlen in E0; lia|].
    replace (nlen (firstn m payload) <? nlen payload) with true; [reflexivity|].
    symmetry. apply N.ltb_lt. unfold nlen. rewrite firstn_length. lia.
Qed.

Theorem read_frames_truncated (fs1 : list frame) (f : frame) (j : nat) :
  Forall readable fs1 -> readable f -> (0 < j < length (write_delimited1 f))%nat ->
  read_frames (write_delimited fs1 ++ firstn j (write_delimited1 f)) = (fs1, FiError).
Proof.
  unfold read_frames. induction fs1 as [|g fs1 IH]; intros H Hf Hj.
  - cbn [write_delimited flat_map app]. apply cut_inside_one; assumption.
  - inversion H as [|? ? Hg Hgs]; subst. unfold write_delimited in *. cbn [flat_map].
    rewrite <- app_assoc. rewrite (read_one g _ _ Hg (le_n _)). rewrite (IH Hgs Hf Hj). reflexivity.
Qed.
