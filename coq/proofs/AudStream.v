(* AudStream.v -- C19 for whole streams: the audit of Audit.v (the one the check runs on pyjelly's
   bytes) counts nothing against anything the generic serializers write, for inputs in normal form:
   no redundant lookup entry, no missed elision of a repeated term, no missed zero form of an id,
   no graph opened twice in a row. *)
From Coq Require Import Arith Lia.
From PJ.Model Require Import Base Lookup Terms Encoder Streams Spec Audit.
From PJ.Proofs Require Import Mirror MirrorRun DecoderSound EncLookup Den EncoderProofs FlowProofs EncTerm EncStmt EncStream
  EncNamespace EncNamespace2 EncGraphs OptionsProofs AuditBase AudTerm AudStmt.

Definition stmts_nrm (stmts : list (list term)) : Prop := Forall (Forall nrm) stmts.

(* ---- all statements of a TRIPLES / QUADS input ---- *)
Theorem triples_all_clean (stmts : list (list term)) : forall (s s' : stream) (evs : list tev) (ss : sstate) (lg : option term),
  st_integ s = Generic -> JS (st_enc s) (st_rep s) ss -> phys ss = 1 -> stmts_nrm stmts -> rp_nrm (st_rep s) ->
  feed stream_triple stmts s = (s', evs, true) ->
  exists ss', Clean (appended_all stream_triple appended_triple stmts s) ss lg ss' lg.
Proof.
  induction stmts as [|st rest IH]; intros s s' evs ss lg Hig HJ Hph Hn Hrp; cbn [feed appended_all].
  - intros _. exists ss. apply Clean_nil.
  - inversion Hn as [|? ? Hst Hrest]; subst.
    destruct (stream_triple st s) as [s1 [fr|e]] eqn:E; [|intros H; inversion H].
    destruct (feed stream_triple rest s1) as [[s2 evs2] ok2] eqn:E2. intros H; inversion H; subst.
    destruct (stream_triple_encode _ _ _ _ E) as [Henc Hig1]. rewrite Hig in Henc.
    destruct (encode_triple_valid _ _ _ _ _ _ _ HJ Hph Henc) as (a & b & c & tl & ss1 & Hst' & Hsteps & HJ1 & Ho & _).
    destruct (encode_triple_clean _ _ _ _ _ _ _ _ _ lg HJ Hst Hrp Henc Hsteps HJ1) as [C1 Hrp1].
    assert (Hph1 : phys ss1 = 1) by (unfold phys in *; congruence).
    destruct (IH _ _ _ ss1 lg (eq_trans Hig1 Hig) HJ1 Hph1 Hrest Hrp1 E2) as [ss2 C2].
    exists ss2. eapply Clean_app; eauto.
Qed.

Theorem quads_all_clean (stmts : list (list term)) : forall (s s' : stream) (evs : list tev) (ss : sstate) (lg : option term),
  st_integ s = Generic -> JS (st_enc s) (st_rep s) ss -> phys ss = 2 -> stmts_nrm stmts -> rp_nrm (st_rep s) ->
  feed stream_quad stmts s = (s', evs, true) ->
  exists ss', Clean (appended_all stream_quad appended_quad stmts s) ss lg ss' lg.
Proof.
  induction stmts as [|st rest IH]; intros s s' evs ss lg Hig HJ Hph Hn Hrp; cbn [feed appended_all].
  - intros _. exists ss. apply Clean_nil.
  - inversion Hn as [|? ? Hst Hrest]; subst.
    destruct (stream_quad st s) as [s1 [fr|e]] eqn:E; [|intros H; inversion H].
    destruct (feed stream_quad rest s1) as [[s2 evs2] ok2] eqn:E2. intros H; inversion H; subst.
    destruct (stream_quad_encode _ _ _ _ E) as [Henc Hig1]. rewrite Hig in Henc.
    destruct (encode_quad_valid _ _ _ _ _ _ _ HJ Hph Henc) as (a & b & c & g & tl & ss1 & Hst' & Hsteps & HJ1 & Ho & _).
    destruct (encode_quad_clean _ _ _ _ _ _ _ _ _ lg HJ Hst Hrp Henc Hsteps HJ1) as [C1 Hrp1].
    assert (Hph1 : phys ss1 = 2) by (unfold phys in *; congruence).
    destruct (IH _ _ _ ss1 lg (eq_trans Hig1 Hig) HJ1 Hph1 Hrest Hrp1 E2) as [ss2 C2].
    exists ss2. eapply Clean_app; eauto.
Qed.

(* ---- the namespace phase ---- *)
Lemma declare_all_clean (ns : list (str * str)) : forall (s s' : stream) (ss : sstate) (lg : option term),
  st_integ s = Generic -> JS (st_enc s) (st_rep s) ss -> 2 <= o_version (s_opts ss) ->
  declare_all ns s = (s', Ok tt) ->
  exists rows ss', fl_rows (st_flow s') = fl_rows (st_flow s) ++ rows /\ Clean rows ss lg ss' lg /\ st_rep s' = st_rep s.
Proof.
  induction ns as [|[name iri] ns IH]; intros s s' ss lg Hig HJ Hver; cbn [declare_all].
  - intros H; inversion H; subst. exists [], ss. rewrite app_nil_r. split; [reflexivity|]. split; [apply Clean_nil|reflexivity].
  - destruct (namespace_declaration name iri s) as [s1 [u|e]] eqn:E; [|discriminate].
    unfold namespace_declaration in E. destruct (st_failed s); [discriminate|].
    destruct (encode_namespace_declaration name iri (st_enc s)) as [[t1 r1]|] eqn:En; [|discriminate].
    inversion E; subst s1; clear E. intros Hrest.
    destruct (encode_namespace_valid _ _ _ _ _ _ _ HJ Hver En) as (ss1 & S1 & J1 & O1 & _).
    pose proof (encode_namespace_clean _ _ _ _ _ _ _ _ _ lg HJ En S1) as C1.
    assert (Hver1 : 2 <= o_version (s_opts ss1)) by (rewrite O1; exact Hver).
    destruct (IH (with_enc s t1 (st_rep s) (flow_extend (st_flow s) r1)) s' ss1 lg Hig J1 Hver1 Hrest) as (rows & ss2 & Hfl & C2 & Hr2).
    exists (r1 ++ rows), ss2. cbn in Hfl. split; [rewrite Hfl; now rewrite app_assoc|]. split; [eapply Clean_app; eauto|exact Hr2].
Qed.

Lemma ns_phase_clean (always : bool) (o : soptions) (d : sdata) (s s1 : stream) (u : unit) (ss0 : sstate) (lg : option term) :
  st_integ s = Generic -> JS (st_enc s) (st_rep s) ss0 -> st_opts s = o ->
  (p_nd (so_params o) = true -> 2 <= o_version (s_opts ss0)) ->
  ns_phase always d s = (s1, Ok u) ->
  exists rows ss1, fl_rows (st_flow s1) = fl_rows (st_flow s) ++ rows /\ Clean rows ss0 lg ss1 lg /\ st_rep s1 = st_rep s.
Proof.
  intros Hig HJ Hopts Hver. unfold ns_phase. rewrite Hopts.
  destruct (p_nd (so_params o)) eqn:End.
  - destruct (d_is_sink d).
    + intros Ed. destruct u. exact (declare_all_clean _ _ _ ss0 lg Hig HJ (Hver eq_refl) Ed).
    + destruct always; [discriminate|]. intros H; inversion H; subst. exists [], ss0. rewrite app_nil_r. split; [reflexivity|]. split; [apply Clean_nil|reflexivity].
  - intros H; inversion H; subst. exists [], ss0. rewrite app_nil_r. split; [reflexivity|]. split; [apply Clean_nil|reflexivity].
Qed.

(* the audit of a stream that starts with its options row *)
Lemma audit_of_clean (w : woptions) (rest : list row) (ss0 ss' : sstate) (lg' : option term) :
  start w = SOk ss0 -> Clean rest ss0 None ss' lg' -> exists c, audit (ROptions w :: rest) = Some c /\ clean c.
Proof.
  intros Hs (c & A & C). exists c. cbn [audit]. rewrite Hs, audit_from_aud, A, cadd_zero_l. auto.
Qed.

Lemma rp_nrm_init : rp_nrm repeated_init.
Proof. repeat split. Qed.

(* ---- whole TRIPLES / QUADS streams, declarations on or off ---- *)
Theorem triples_stream_clean (o : soptions) (s s' : stream) (d : sdata) (evs : list tev) :
  stream_new TripleStream Generic o = Ok s -> cfg_ok o (st_logical s) -> fl_rows (st_flow s) = [] ->
  stmts_nrm (d_stmts d) ->
  triples_stream_frames d s = (s', evs) -> raised evs = None ->
  exists c, audit (flat_map f_rows (emitted evs)) = Some c /\ clean c.
Proof.
  intros Hnew Hcfg Hfresh Hnrm Hrun Hraise.
  destruct (start_of_stream _ _ _ Hnew Hcfg) as (w & ss0 & Hrow & Hstart & HJ & Hph & Hig & Hfl & Henc & Hrep & Hig' & Hopts & Hver & Ho).
  pose proof (triples_stream_rows _ _ _ _ Hrun Hraise) as Hrows.
  unfold triples_stream_frames in Hrun.
  assert (HJ' : JS (st_enc (enroll s)) (st_rep (enroll s)) ss0) by (rewrite Henc, Hrep; exact HJ).
  assert (Hso : s_opts ss0 = w).
  { unfold start in Hstart. repeat match type of Hstart with (if ?c then _ else _) = _ => destruct c; [discriminate|] end. inversion Hstart; reflexivity. }
  destruct (ns_phase false d (enroll s)) as [s1 [u|e]] eqn:Hphase; [|inversion Hrun; subst; cbn in Hraise; discriminate].
  assert (Hv : p_nd (so_params o) = true -> 2 <= o_version (s_opts ss0)).
  { intros End. rewrite Hso, Hver. unfold params_version. rewrite End. lia. }
  destruct (ns_phase_valid false o d _ _ _ ss0 Hig' HJ' (eq_trans Hopts Ho) Hv Hphase) as (nsrows & ss1 & Hfl1 & Hsteps1 & HJ1 & Ho1 & Hig1).
  destruct (ns_phase_clean false o d _ _ _ ss0 None Hig' HJ' (eq_trans Hopts Ho) Hv Hphase) as (nsrows' & ss1' & Hfl1' & C1 & Hrep1).
  assert (nsrows' = nsrows) by (rewrite Hfl1 in Hfl1'; now apply app_inv_head in Hfl1'). subst nsrows'.
  pose proof (Clean_state _ _ _ _ _ _ _ C1 Hsteps1); subst ss1'.
  cbn [fst] in Hrows. rewrite Hfl1, Hfl, Hfresh in Hrows. cbn [app] in Hrows.
  rewrite <- emitted_rows_is_concat, Hrows.
  destruct (feed stream_triple (d_stmts d) s1) as [[s2 evs2] ok] eqn:Efeed.
  destruct ok.
  - assert (Hph1 : phys ss1 = 1) by (unfold phys in *; rewrite Ho1; exact Hph).
    assert (Hrp1 : rp_nrm (st_rep s1)).
    { rewrite Hrep1, Hrep. unfold stream_new in Hnew. destruct (negb _); [discriminate|]. unfold bind in Hnew.
      destruct (match so_flow o with Some f => Ok f | None => infer_flow TripleStream o end); [|discriminate].
      destruct (negb _); [discriminate|]. inversion Hnew; subst; cbn. apply rp_nrm_init. }
    destruct (triples_all_clean _ _ _ _ ss1 None Hig1 HJ1 Hph1 Hnrm Hrp1 Efeed) as [ss' C2].
    eapply audit_of_clean; [exact Hstart|]. eapply Clean_app; eauto.
  - inversion Hrun; subst. exfalso. eapply feed_not_ok_raises; eauto.
Qed.

Theorem quads_stream_clean (o : soptions) (s s' : stream) (d : sdata) (evs : list tev) :
  stream_new QuadStream Generic o = Ok s -> cfg_ok o (st_logical s) -> fl_rows (st_flow s) = [] ->
  stmts_nrm (d_stmts d) ->
  quads_stream_frames d s = (s', evs) -> raised evs = None ->
  exists c, audit (flat_map f_rows (emitted evs)) = Some c /\ clean c.
Proof.
  intros Hnew Hcfg Hfresh Hnrm Hrun Hraise.
  destruct (start_of_stream _ _ _ Hnew Hcfg) as (w & ss0 & Hrow & Hstart & HJ & Hph & Hig & Hfl & Henc & Hrep & Hig' & Hopts & Hver & Ho).
  pose proof (quads_stream_rows _ _ _ _ Hrun Hraise) as Hrows.
  unfold quads_stream_frames in Hrun.
  assert (HJ' : JS (st_enc (enroll s)) (st_rep (enroll s)) ss0) by (rewrite Henc, Hrep; exact HJ).
  assert (Hso : s_opts ss0 = w).
  { unfold start in Hstart. repeat match type of Hstart with (if ?c then _ else _) = _ => destruct c; [discriminate|] end. inversion Hstart; reflexivity. }
  destruct (ns_phase true d (enroll s)) as [s1 [u|e]] eqn:Hphase; [|inversion Hrun; subst; cbn in Hraise; discriminate].
  assert (Hv : p_nd (so_params o) = true -> 2 <= o_version (s_opts ss0)).
  { intros End. rewrite Hso, Hver. unfold params_version. rewrite End. lia. }
  destruct (ns_phase_valid true o d _ _ _ ss0 Hig' HJ' (eq_trans Hopts Ho) Hv Hphase) as (nsrows & ss1 & Hfl1 & Hsteps1 & HJ1 & Ho1 & Hig1).
  destruct (ns_phase_clean true o d _ _ _ ss0 None Hig' HJ' (eq_trans Hopts Ho) Hv Hphase) as (nsrows' & ss1' & Hfl1' & C1 & Hrep1).
  assert (nsrows' = nsrows) by (rewrite Hfl1 in Hfl1'; now apply app_inv_head in Hfl1'). subst nsrows'.
  pose proof (Clean_state _ _ _ _ _ _ _ C1 Hsteps1); subst ss1'.
  cbn [fst] in Hrows. rewrite Hfl1, Hfl, Hfresh in Hrows. cbn [app] in Hrows.
  rewrite <- emitted_rows_is_concat, Hrows.
  destruct (feed stream_quad (d_stmts d) s1) as [[s2 evs2] ok] eqn:Efeed.
  destruct ok.
  - assert (Hph1 : phys ss1 = 2) by (unfold phys in *; rewrite Ho1; exact Hph).
    assert (Hrp1 : rp_nrm (st_rep s1)).
    { rewrite Hrep1, Hrep. unfold stream_new in Hnew. destruct (negb _); [discriminate|]. unfold bind in Hnew.
      destruct (match so_flow o with Some f => Ok f | None => infer_flow QuadStream o end); [|discriminate].
      destruct (negb _); [discriminate|]. inversion Hnew; subst; cbn. apply rp_nrm_init. }
    destruct (quads_all_clean _ _ _ _ ss1 None Hig1 HJ1 Hph1 Hnrm Hrp1 Efeed) as [ss' C2].
    eapply audit_of_clean; [exact Hstart|]. eapply Clean_app; eauto.
  - inversion Hrun; subst. exfalso. eapply feed_not_ok_raises; eauto.
Qed.

(* ---------- GRAPHS streams ---------- *)
Lemma graph_triples_clean (g : term) (ts : list (list term)) : forall (s s' : stream) (evs : list tev) (ss : sstate) (lg : option term),
  st_integ s = Generic -> JS (st_enc s) (st_rep s) ss -> phys ss = 3 -> s_open ss = Some (norm g) ->
  stmts_nrm ts -> rp_nrm (st_rep s) ->
  graph_triples ts s = (s', evs, true) ->
  exists ss', Clean (appended_triples ts s) ss lg ss' lg /\ rp_nrm (st_rep s').
Proof.
  induction ts as [|tr rest IH]; intros s s' evs ss lg Hig HJ Hph Hop Hn Hrp; cbn [graph_triples appended_triples appended_all].
  - intros H; inversion H; subst. exists ss. split; [apply Clean_nil|exact Hrp].
  - inversion Hn as [|? ? Htr Hrest]; subst.
    destruct (stream_triple tr s) as [s1 [fr|e]] eqn:E; [|intros H; inversion H].
    destruct (graph_triples rest s1) as [[s2 evs2] ok2] eqn:E2. intros H; inversion H; subst.
    destruct (stream_triple_encode _ _ _ _ E) as [Henc Hig1]. rewrite Hig in Henc.
    destruct (encode_triple_valid_in_graph _ _ _ _ _ _ _ _ HJ Hph Hop Henc) as (a & b & c & tl & ss1 & Hst & Hsteps & HJ1 & Ho & Hop1).
    destruct (encode_triple_clean _ _ _ _ _ _ _ _ _ lg HJ Htr Hrp Henc Hsteps HJ1) as [C1 Hrp1].
    assert (Hph1 : phys ss1 = 3) by (unfold phys in *; congruence).
    destruct (IH _ _ _ ss1 lg (eq_trans Hig1 Hig) HJ1 Hph1 Hop1 Hrest Hrp1 E2) as (ss2 & C2 & Hrp2).
    exists ss2. fold appended_triples. split; [eapply Clean_app; eauto|exact Hrp2].
Qed.

Lemma str_eqb_rfl a : str_eqb a a = true.
Proof. destruct (str_eqb_spec a a); congruence. Qed.
Lemma opt_str_eqb_rfl (a : option str) : opt_eqb str_eqb a a = true.
Proof. destruct a; cbn; [apply str_eqb_rfl|reflexivity]. Qed.
Lemma term_eqb_rfl a : term_eqb a a = true.
Proof.
  induction a as [x|x|l g d|s IHs p IHp o IHo| |]; cbn; try reflexivity; try apply str_eqb_rfl.
  - now rewrite str_eqb_rfl, !opt_str_eqb_rfl.
  - now rewrite IHs, IHp, IHo.
Qed.
Lemma term_eqb_sym_false a b : term_eqb a b = false -> term_eqb b a = false.
Proof.
  intros H. destruct (term_eqb b a) eqn:E; [|reflexivity]. apply term_eqb_true in E. subst. rewrite term_eqb_rfl in H. discriminate.
Qed.

Theorem stream_graph_clean (g : term) (ts : list (list term)) (s s' : stream) (evs : list tev) (ss : sstate) (lg : option term) :
  st_integ s = Generic -> JS (st_enc s) (st_rep s) ss -> phys ss = 3 ->
  nrm g -> stmts_nrm ts -> rp_nrm (st_rep s) ->
  match lg with Some g0 => term_eqb g0 g = false | None => True end ->
  stream_graph g ts s = (s', evs, true) ->
  exists ss', Clean (graph_rows g ts s) ss lg ss' (Some g) /\ rp_nrm (st_rep s').
Proof.
  intros Hig HJ Hph Hng Hn Hrp Hlg. unfold stream_graph, graph_rows. rewrite Hig.
  destruct (st_failed s); [intros H; inversion H|].
  destruct (encode_graph_start Generic g (st_enc s)) as [[t' rows]|] eqn:Eg; [|intros H; inversion H].
  set (s1 := with_enc s t' (st_rep s) (flow_extend (st_flow s) rows)).
  destruct (graph_triples ts s1) as [[s2 evs2] ok] eqn:Et. destruct ok; [|intros H; inversion H].
  destruct (frame_from_bounds (flow_extend (st_flow s2) [RGraphEnd])) as [fl fr] eqn:Ef.
  intros H; inversion H; subst s' evs; clear H.
  destruct (encode_graph_start_valid _ _ _ _ _ _ HJ Hph Eg) as (ss1 & S1 & J1 & O1 & Op1).
  assert (Hlg' : match lg with Some g0 => term_eqb (norm g) g0 = false | None => True end).
  { destruct lg as [g0|]; [|exact I]. rewrite Hng. now apply term_eqb_sym_false. }
  pose proof (encode_graph_start_clean _ _ _ _ _ _ _ _ lg (norm g) HJ Eg S1 Op1 Hlg') as C1.
  assert (Hph1 : phys ss1 = 3) by (unfold phys in *; congruence).
  destruct (graph_triples_valid g ts s1 s2 evs2 ss1 Hig J1 Hph1 Op1 Et) as (ss2 & S2 & J2 & O2 & Op2 & Hig2 & Hcons).
  destruct (graph_triples_clean g ts s1 s2 evs2 ss1 (Some (norm g)) Hig J1 Hph1 Op1 Hn Hrp Et) as (ss2' & C2 & Hrp2).
  destruct (Clean_steps _ _ _ _ _ C2) as [e2 He2]. assert (ss2' = ss2) by congruence. subst ss2'.
  assert (Hend : step RGraphEnd ss2 = SOk (upd_open ss2 None, [])).
  { cbn [step]. unfold phys in *. rewrite O2, O1, Hph. cbn [N.eqb Pos.eqb]. rewrite Op2. reflexivity. }
  exists (upd_open ss2 None). rewrite Hng in *. split.
  - eapply Clean_app; [exact C1|]. eapply Clean_app; [exact C2|]. eapply graph_end_clean; exact Hend.
  - cbn. exact Hrp2.
Qed.

(* consecutive runs carry different graph terms *)
Fixpoint chain (prev : option term) (gs : list (term * list (list term))) : Prop :=
  match gs with
  | [] => True
  | (g, _) :: rest => match prev with Some g0 => term_eqb g0 g = false | None => True end /\ chain (Some g) rest
  end.

Lemma split_runs_chain (stmts : list (list term)) : forall cur,
  match cur with
  | Some (g0, ts) => exists ts' rest', split_runs stmts cur = (g0, ts') :: rest' /\ chain (Some g0) rest'
  | None => chain None (split_runs stmts None)
  end.
Proof.
  induction stmts as [|st rest IH]; intros cur; cbn [split_runs].
  - destruct cur as [[g0 ts]|]; [|exact I]. exists ts, []. split; [reflexivity|exact I].
  - set (g := match graph_of st with Some g => g | None => TOther end).
    destruct cur as [[g0 ts]|].
    + destruct (term_eqb g0 g) eqn:E.
      * exact (IH (Some (g0, ts ++ [firstn 3 st]))).
      * destruct (IH (Some (g, [firstn 3 st]))) as (ts' & rest' & Hs & Hc). rewrite Hs.
        exists ts, ((g, ts') :: rest'). split; [reflexivity|]. cbn [chain]. split; [exact E|exact Hc].
    + destruct (IH (Some (g, [firstn 3 st]))) as (ts' & rest' & Hs & Hc). rewrite Hs. cbn [chain]. split; [exact I|exact Hc].
Qed.

Definition runs_nrm (gs : list (term * list (list term))) : Prop := Forall (fun gts => nrm (fst gts) /\ stmts_nrm (snd gts)) gs.

Lemma firstn_nrm n st : Forall nrm st -> Forall nrm (firstn n st).
Proof. revert st; induction n as [|n IH]; intros [|x st] H; cbn; try constructor; inversion H; subst; auto. Qed.

Lemma split_runs_nrm (stmts : list (list term)) : forall cur, stmts_nrm stmts ->
  match cur with Some (g0, ts) => nrm g0 /\ stmts_nrm ts | None => True end ->
  runs_nrm (split_runs stmts cur).
Proof.
  induction stmts as [|st rest IH]; intros cur Hn Hc; cbn [split_runs].
  - destruct cur as [[g0 ts]|]; constructor; [exact Hc|constructor].
  - inversion Hn as [|? ? Hst Hrest]; subst.
    assert (Hg : nrm (match graph_of st with Some g => g | None => TOther end)).
    { unfold graph_of. destruct (nth_error st 3) as [g|] eqn:E; [|reflexivity].
      apply nth_error_In in E. rewrite Forall_forall in Hst. now apply Hst. }
    assert (Ht : Forall nrm (firstn 3 st)) by now apply firstn_nrm.
    destruct cur as [[g0 ts]|].
    + destruct Hc as [Hg0 Hts]. destruct (term_eqb g0 _).
      * apply IH; [exact Hrest|]. split; [exact Hg0|]. apply Forall_app. split; [exact Hts|constructor; [exact Ht|constructor]].
      * constructor; [split; assumption|]. apply IH; [exact Hrest|]. split; [exact Hg|constructor; [exact Ht|constructor]].
    + apply IH; [exact Hrest|]. split; [exact Hg|constructor; [exact Ht|constructor]].
Qed.

Theorem feed_graphs_generic_clean (gs : list (term * list (list term))) : forall (first : bool) (s s' : stream) (evs : list tev) (ss : sstate) (lg : option term),
  st_integ s = Generic -> JS (st_enc s) (st_rep s) ss -> phys ss = 3 ->
  runs_nrm gs -> chain lg gs -> rp_nrm (st_rep s) ->
  feed_graphs_generic first gs s = (s', evs, true) ->
  exists ss' lg', Clean (graphs_rows gs s) ss lg ss' lg'.
Proof.
  induction gs as [|[g ts] rest IH]; intros first s s' evs ss lg Hig HJ Hph Hn Hc Hrp; cbn [feed_graphs_generic graphs_rows].
  - intros H; inversion H; subst. exists ss, lg. apply Clean_nil.
  - inversion Hn as [|? ? [Hng Hnts] Hnrest]; subst. cbn [fst snd] in *. cbn [chain] in Hc. destruct Hc as [Hlg Hc].
    destruct (stream_graph g ts s) as [[s1 evs1] ok1] eqn:E. destruct ok1; [|intros H; inversion H].
    destruct (feed_graphs_generic false rest s1) as [[s2 evs2] ok2] eqn:E2. intros H; inversion H; subst.
    destruct (stream_graph_valid _ _ _ _ _ _ Hig HJ Hph E) as (ss1 & S1 & J1 & O1 & Hig1 & Hc1).
    destruct (stream_graph_clean _ _ _ _ _ _ lg Hig HJ Hph Hng Hnts Hrp Hlg E) as (ss1' & C1 & Hrp1).
    pose proof (Clean_state _ _ _ _ _ _ _ C1 S1); subst ss1'.
    assert (Hph1 : phys ss1 = 3) by (unfold phys in *; congruence).
    destruct (IH _ _ _ _ ss1 (Some g) Hig1 J1 Hph1 Hnrest Hc Hrp1 E2) as (ss2 & lg2 & C2).
    exists ss2, lg2. eapply Clean_app; eauto.
Qed.

Theorem graphs_stream_clean (o : soptions) (s s' : stream) (d : sdata) (evs : list tev) :
  stream_new GraphStream Generic o = Ok s -> cfg_ok o (st_logical s) -> fl_rows (st_flow s) = [] ->
  stmts_nrm (d_stmts d) ->
  graphs_stream_frames_generic d s = (s', evs) -> raised evs = None ->
  exists c, audit (flat_map f_rows (emitted evs)) = Some c /\ clean c.
Proof.
  intros Hnew Hcfg Hfresh Hnrm Hrun Hraise.
  destruct (start_of_stream _ _ _ Hnew Hcfg) as (w & ss0 & Hrow & Hstart & HJ & Hph & Hig & Hfl & Henc & Hrep & Hig' & Hopts & Hver & Ho).
  unfold graphs_stream_frames_generic in Hrun.
  assert (HJ' : JS (st_enc (enroll s)) (st_rep (enroll s)) ss0) by (rewrite Henc, Hrep; exact HJ).
  assert (Hso : s_opts ss0 = w).
  { unfold start in Hstart. repeat match type of Hstart with (if ?c then _ else _) = _ => destruct c; [discriminate|] end. inversion Hstart; reflexivity. }
  destruct (ns_phase true d (enroll s)) as [s1 [u|e]] eqn:Hphase; [|inversion Hrun; subst; cbn in Hraise; discriminate].
  assert (Hv : p_nd (so_params o) = true -> 2 <= o_version (s_opts ss0)).
  { intros End. rewrite Hso, Hver. unfold params_version. rewrite End. lia. }
  destruct (ns_phase_valid true o d _ _ _ ss0 Hig' HJ' (eq_trans Hopts Ho) Hv Hphase) as (nsrows & ss1 & Hfl1 & Hsteps1 & HJ1 & Ho1 & Hig1).
  destruct (ns_phase_clean true o d _ _ _ ss0 None Hig' HJ' (eq_trans Hopts Ho) Hv Hphase) as (nsrows' & ss1' & Hfl1' & C1 & Hrep1).
  assert (nsrows' = nsrows) by (rewrite Hfl1 in Hfl1'; now apply app_inv_head in Hfl1'). subst nsrows'.
  pose proof (Clean_state _ _ _ _ _ _ _ C1 Hsteps1); subst ss1'.
  assert (Hph1 : phys ss1 = 3) by (unfold phys in *; rewrite Ho1; exact Hph).
  rewrite <- emitted_rows_is_concat.
  destruct (d_stmts d) as [|st0 rest] eqn:Ed.
  - destruct (finish false s1) as [s3 fin] eqn:F. inversion Hrun; subst s' evs; clear Hrun.
    pose proof (finish_conserves _ _ _ _ F) as H2. pose proof (finish_flushes _ _ _ _ F) as H3.
    rewrite H3, app_nil_r in H2. cbn [emitted_rows]. rewrite H2, Hfl1, Hfl, Hfresh. cbn [app].
    eapply audit_of_clean; [exact Hstart|exact C1].
  - rewrite <- Ed in *.
    destruct (feed_graphs_generic true (split_runs (d_stmts d) None) s1) as [[s2 evs2] ok] eqn:Efeed.
    destruct ok.
    + destruct (finish false s2) as [s3 fin] eqn:F. inversion Hrun; subst s' evs; clear Hrun.
      destruct (feed_graphs_generic_valid _ _ _ _ _ ss1 Hig1 HJ1 Hph1 Efeed) as (ss' & Hsteps & Hcons).
      assert (Hrp1 : rp_nrm (st_rep s1)).
      { rewrite Hrep1, Hrep. unfold stream_new in Hnew. destruct (negb _); [discriminate|]. unfold bind in Hnew.
        destruct (match so_flow o with Some f => Ok f | None => infer_flow GraphStream o end); [|discriminate].
        destruct (negb _); [discriminate|]. inversion Hnew; subst; cbn. apply rp_nrm_init. }
      destruct (feed_graphs_generic_clean _ _ _ _ _ ss1 None Hig1 HJ1 Hph1
                  (split_runs_nrm _ None Hnrm I) (split_runs_chain (d_stmts d) None) Hrp1 Efeed) as (ss2 & lg2 & C2).
      pose proof (finish_conserves _ _ _ _ F) as H2. pose proof (finish_flushes _ _ _ _ F) as H3.
      rewrite H3, app_nil_r in H2.
      rewrite emitted_rows_app, H2. rewrite Hcons, Hfl1, Hfl, Hfresh. cbn [app].
      eapply audit_of_clean; [exact Hstart|]. eapply Clean_app; eauto.
    + inversion Hrun; subst. exfalso. eapply feed_graphs_generic_not_ok; eauto.
Qed.
