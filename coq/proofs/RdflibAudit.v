(* RdflibAudit.v -- C19 for the rdflib serializers: what an rdflib triples / quads run writes is, event for event, what its generic twin
   writes (TwinRun.v), so the audit of the generic serializers (AudStream.v: nothing redundant, no missed elision, no zero form or
   repeated graph start) holds of the rdflib ones -- a theorem now, where it used to rest on the correspondence check. *)
From Coq Require Import Arith Lia.
From PJ.Model Require Import Base Lookup Terms Wire Encoder Streams Decoder Audit.
From PJ.Proofs Require Import AgreeProofs EncoderProofs EncStream EncRdflib EncRdflibQuads TwinRun AuditBase AudStmt AudStream.

Lemma stream_new_generic_cfg c o sr : stream_new c Rdflib o = Ok sr ->
  stream_new c Generic o = Ok (twin sr) /\ st_logical (twin sr) = st_logical sr /\ fl_rows (st_flow (twin sr)) = fl_rows (st_flow sr).
Proof. intros H. split; [exact (stream_new_twin _ _ _ H) | split; reflexivity]. Qed.

Theorem rdf_triples_stream_clean (o : soptions) (s s' : stream) (d : rdata) (evs : list tev) :
  stream_new TripleStream Rdflib o = Ok s -> cfg_ok o (st_logical s) -> fl_rows (st_flow s) = [] ->
  rd_kind d <> RDataset -> stmts_rdf11 (rd_stmts d) = true -> stmts_nrm (rd_stmts d) ->
  rdf_triples_stream_frames d s = (s', evs) -> raised evs = None ->
  exists c, audit (flat_map f_rows (emitted evs)) = Some c /\ clean c.
Proof.
  intros Hnew Hcfg Hfresh Hk H11 Hnrm Hrun Hraise.
  destruct (stream_new_generic_cfg _ _ _ Hnew) as (Hg & Hl & Hf).
  pose proof (same_options_same_frames_triples o s (twin s) d Hnew Hg Hk H11) as Hsame. rewrite Hrun in Hsame. cbn [snd] in Hsame.
  destruct (triples_stream_frames (sdata_of d) (twin s)) as [sg' evg] eqn:Eg. cbn [snd] in Hsame. subst evg.
  exact (triples_stream_clean o (twin s) sg' (sdata_of d) evs Hg ltac:(rewrite Hl; exact Hcfg) ltac:(rewrite Hf; exact Hfresh) Hnrm Eg Hraise).
Qed.

Lemma nrm_gcorr g : nrm g -> nrm (gcorr_inv g).
Proof. destruct g as [x|x|l lg dt|a b c| |]; cbn [gcorr_inv]; intros H; try exact H. destruct (str_eqb x rdflib_default_graph); [|exact H]. reflexivity. Qed.

Lemma stmts_nrm_inv stmts : stmts_nrm stmts -> stmts_nrm (map quad_inv stmts).
Proof.
  unfold stmts_nrm. induction 1 as [|st rest Hst _ IH]; cbn [map]; constructor; [|exact IH].
  destruct st as [|a [|b [|c [|g r]]]]; cbn [quad_inv]; try exact Hst.
  inversion Hst as [|? ? Ha H1]; subst. inversion H1 as [|? ? Hb H2]; subst. inversion H2 as [|? ? Hc H3]; subst. inversion H3 as [|? ? Hg H4]; subst.
  repeat constructor; try assumption. now apply nrm_gcorr.
Qed.

Theorem rdf_quads_stream_clean (o : soptions) (s s' : stream) (d : rdata) (evs : list tev) :
  stream_new QuadStream Rdflib o = Ok s -> cfg_ok o (st_logical s) -> fl_rows (st_flow s) = [] ->
  forallb spo_rdf11 (rd_stmts d) = true -> stmts_nrm (rd_stmts d) ->
  rdf_quads_stream_frames d s = (s', evs) -> raised evs = None ->
  exists c, audit (flat_map f_rows (emitted evs)) = Some c /\ clean c.
Proof.
  intros Hnew Hcfg Hfresh H11 Hnrm Hrun Hraise.
  destruct (stream_new_twinq _ _ _ Hnew) as (Hg & Hig & Hok).
  pose proof (same_options_same_frames_quads o s s' (twinq s) d evs Hnew Hg H11 Hrun Hraise) as Hsame.
  destruct (quads_stream_frames (sdata_inv d) (twinq s)) as [sg' evg] eqn:Eg. cbn [snd] in Hsame. subst evg.
  exact (quads_stream_clean o (twinq s) sg' (sdata_inv d) evs Hg Hcfg Hfresh (stmts_nrm_inv _ Hnrm) Eg Hraise).
Qed.
