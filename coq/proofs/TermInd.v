(* TermInd.v -- induction principle for wire terms (quoted triples nest through [option]). *)
From PJ.Model Require Import Base Terms.

Section WInd.
Context (P : wterm -> Prop).
Definition OP (o : option wterm) : Prop := match o with Some x => P x | None => True end.
Context (HIri : forall p n, P (WIri p n)) (HBnode : forall l, P (WBnode l))
        (HLit : forall lex k, P (WLit lex k)) (HDefault : P WDefault)
        (HTriple : forall a b c, OP a -> OP b -> OP c -> P (WTriple a b c)).

Fixpoint wterm_ind' (w : wterm) : P w :=
  match w with
  | WIri p n => HIri p n
  | WBnode l => HBnode l
  | WLit lex k => HLit lex k
  | WDefault => HDefault
  | WTriple a b c =>
    HTriple a b c
      (match a return OP a with Some x => wterm_ind' x | None => I end)
      (match b return OP b with Some x => wterm_ind' x | None => I end)
      (match c return OP c with Some x => wterm_ind' x | None => I end)
  end.
End WInd.
