(* WireRT.v -- the wire round trip: the model's protobuf parser reads back what the model's
   serialiser writes, for every well-formed frame (field values below 2^32, terms where the
   schema allows them) of fewer than 128^10 bytes.  This discharges the premise [readable] of
   WireProofs for those frames. *)
From Coq Require Import Arith Lia.
From PJ.Model Require Import Base Terms Wire.
From PJ.Proofs Require Import TermInd WireProofs.

Local Open Scope N_scope.

(* ---------- a message as a list of fields ---------- *)
Definition ser_field (fv : N * wval) : list N :=
  match snd fv with
  | VVar n => f_varint (fst fv) n
  | VLen p => f_len (fst fv) p
  | VFix p => []
  end.
Definition fields_ser (fs : list (N * wval)) : list N := flat_map ser_field fs.

Definition fld_ok (fv : N * wval) : Prop :=
  1 <= fst fv /\ fst fv < 2 ^ 28 /\
  match snd fv with VVar n => n < 2 ^ 32 | VLen _ => True | VFix _ => False end.

Lemma fields_ser_app a b : fields_ser (a ++ b) = fields_ser a ++ fields_ser b.
Proof. unfold fields_ser. apply flat_map_app. Qed.

Lemma varint_nonempty n : (1 <= length (varint n))%nat.
Proof. unfold varint. pose proof (venc_nonempty (N.size_nat n) n). destruct (venc _ _); [contradiction|cbn; lia]. Qed.

Lemma pow_2_32_lt : 2 ^ 32 < varint_max.
Proof. unfold varint_max. vm_compute. reflexivity. Qed.

Lemma tag_dec field wt rest : 1 <= field -> field < 2 ^ 28 -> wt < 8 ->
  varint_dec (tag field wt ++ rest) = Some (field * 8 + wt, rest).
Proof.
  intros H1 H2 H3. unfold tag. apply varint_round_trip.
  eapply N.lt_trans; [|exact pow_2_32_lt].
  assert (field * 8 + wt < 2 ^ 28 * 8) by lia. change (2 ^ 32) with (2 ^ 28 * 16). lia.
Qed.

Lemma take_app_N {A} (a b : list A) : take (N.to_nat (nlen a)) (a ++ b) = Some (a, b).
Proof. unfold nlen. rewrite Nat2N.id. apply take_app. Qed.

Lemma nlen_app {A} (a b : list A) : nlen (a ++ b) = nlen a + nlen b.
Proof. unfold nlen. rewrite app_length. lia. Qed.

Lemma d0 field : (field * 8 + 0) / 8 = field.
Proof. rewrite N.add_0_r. apply N.div_mul. lia. Qed.
Lemma m0 field : (field * 8 + 0) mod 8 = 0.
Proof. rewrite N.add_0_r. apply N.mod_mul. lia. Qed.
Lemma d2 field : (field * 8 + 2) / 8 = field.
Proof. rewrite N.div_add_l by lia. cbn. lia. Qed.
Lemma m2 field : (field * 8 + 2) mod 8 = 2.
Proof. rewrite N.add_comm, N.mod_add by lia. reflexivity. Qed.

(* one field off the front *)
Lemma parse_fields_cons fuel fv rest :
  fld_ok fv -> nlen (ser_field fv) < varint_max -> (length (ser_field fv ++ rest) <= fuel)%nat ->
  exists fuel', (length rest <= fuel')%nat /\
  parse_fields fuel (ser_field fv ++ rest) =
  match parse_fields fuel' rest with Some r => Some (fv :: r) | None => None end.
Proof.
  destruct fv as [field v]. intros (H1 & H2 & Hv) Hsz Hfuel. cbn [fst snd] in *.
  destruct v as [n|p|p]; [| |contradiction]; unfold ser_field in *; cbn [fst snd] in *.
  - (* varint field *)
    unfold f_varint in *.
    destruct fuel as [|fuel].
    { pose proof (varint_nonempty (field * 8 + 0)). unfold tag in Hfuel. rewrite !app_length in Hfuel. lia. }
    exists fuel. split.
    { pose proof (varint_nonempty (field * 8 + 0)). unfold tag in Hfuel. rewrite !app_length in Hfuel. lia. }
    destruct ((tag field 0 ++ varint n) ++ rest) as [|x l] eqn:Eb.
    { pose proof (varint_nonempty (field * 8 + 0)). unfold tag in Eb. destruct (varint (field * 8 + 0)); [cbn in H; lia|discriminate]. }
    cbn [parse_fields]. rewrite <- Eb. rewrite <- app_assoc. rewrite (tag_dec field 0) by (try assumption; lia).
    rewrite d0, m0.
    replace (field =? 0) with false by (symmetry; apply N.eqb_neq; lia). cbn [N.eqb].
    rewrite varint_round_trip by (eapply N.lt_trans; [exact Hv|exact pow_2_32_lt]). reflexivity.
  - (* length-delimited field *)
    unfold f_len in *.
    assert (Hp : nlen p < varint_max).
    { rewrite !nlen_app in Hsz. lia. }
    destruct fuel as [|fuel].
    { pose proof (varint_nonempty (field * 8 + 2)). unfold tag in Hfuel. rewrite !app_length in Hfuel. lia. }
    exists fuel. split.
    { pose proof (varint_nonempty (field * 8 + 2)). unfold tag in Hfuel. rewrite !app_length in Hfuel. lia. }
    destruct ((tag field 2 ++ varint (nlen p) ++ p) ++ rest) as [|x l] eqn:Eb.
    { pose proof (varint_nonempty (field * 8 + 2)). unfold tag in Eb. destruct (varint (field * 8 + 2)); [cbn in H; lia|discriminate]. }
    cbn [parse_fields]. rewrite <- Eb. rewrite <- !app_assoc. rewrite (tag_dec field 2) by (try assumption; lia).
    rewrite d2, m2.
    replace (field =? 0) with false by (symmetry; apply N.eqb_neq; lia). cbn [N.eqb Pos.eqb].
    rewrite varint_round_trip by exact Hp.
    replace (nlen (p ++ rest) <? nlen p) with false by (symmetry; apply N.ltb_ge; rewrite nlen_app; lia).
    rewrite take_app_N. reflexivity.
Qed.

Lemma ser_field_nonempty fv : fld_ok fv -> (1 <= length (ser_field fv))%nat.
Proof.
  destruct fv as [field v]. intros (_ & _ & Hv). destruct v; [| |contradiction]; unfold ser_field, f_varint, f_len, tag; cbn [fst snd];
    rewrite !app_length; pose proof (varint_nonempty (field * 8 + 0)); pose proof (varint_nonempty (field * 8 + 2)); lia.
Qed.

(* Lemma A: a serialised field list parses back to itself *)
Lemma parse_fields_ser (fs : list (N * wval)) : forall fuel,
  Forall fld_ok fs -> nlen (fields_ser fs) < varint_max -> (length (fields_ser fs) <= fuel)%nat ->
  parse_fields fuel (fields_ser fs) = Some fs.
Proof.
  induction fs as [|fv fs IH]; intros fuel Hok Hsz Hfuel.
  - cbn. destruct fuel; reflexivity.
  - inversion Hok as [|? ? Hfv Hfs]; subst. unfold fields_ser in *. cbn [flat_map] in *.
    assert (Hsz1 : nlen (ser_field fv) < varint_max) by (rewrite nlen_app in Hsz; lia).
    destruct (parse_fields_cons fuel fv _ Hfv Hsz1 Hfuel) as (fuel' & Hf' & ->).
    rewrite IH; [reflexivity|exact Hfs| rewrite nlen_app in Hsz; lia |exact Hf'].
Qed.

Lemma fields_of_ser fs : Forall fld_ok fs -> nlen (fields_ser fs) < varint_max ->
  fields_of (fields_ser fs) = Some fs.
Proof. intros H1 H2. unfold fields_of. apply parse_fields_ser; [exact H1|exact H2|lia]. Qed.

(* ---------- optional scalar fields as field lists ---------- *)
Definition ov (f n : N) : list (N * wval) := if n =? 0 then [] else [(f, VVar n)].
Definition os (f : N) (s : str) : list (N * wval) := if is_nil s then [] else [(f, VLen s)].
Definition ob (f : N) (b : bool) : list (N * wval) := if b then [(f, VVar 1)] else [].

Lemma ser_ov f n : f_varint_opt f n = fields_ser (ov f n).
Proof. unfold f_varint_opt, ov. destruct (n =? 0); cbn; now rewrite ?app_nil_r. Qed.
Lemma ser_os f s : f_str_opt f s = fields_ser (os f s).
Proof. unfold f_str_opt, os. destruct (is_nil s); cbn; now rewrite ?app_nil_r. Qed.
Lemma ser_ob f b : f_bool_opt f b = fields_ser (ob f b).
Proof. unfold f_bool_opt, ob. destruct b; cbn; now rewrite ?app_nil_r. Qed.
Lemma ser_one f p : f_len f p = fields_ser [(f, VLen p)].
Proof. cbn. now rewrite app_nil_r. Qed.
Lemma ser_onev f n : f_varint f n = fields_ser [(f, VVar n)].
Proof. cbn. now rewrite app_nil_r. Qed.

Lemma ok_ov f n : 1 <= f -> f < 2 ^ 28 -> n < 2 ^ 32 -> Forall fld_ok (ov f n).
Proof. intros. unfold ov. destruct (n =? 0); [constructor|]. constructor; [|constructor]. split; [|split]; cbn [fst snd]; (assumption || exact I). Qed.
Lemma ok_os f s : 1 <= f -> f < 2 ^ 28 -> Forall fld_ok (os f s).
Proof. intros. unfold os. destruct (is_nil s); [constructor|]. constructor; [|constructor]. split; [|split]; cbn [fst snd]; (assumption || exact I). Qed.
Lemma ok_ob f b : 1 <= f -> f < 2 ^ 28 -> Forall fld_ok (ob f b).
Proof. intros. unfold ob. destruct b; [|constructor]. constructor; [|constructor]. split; [|split]; cbn [fst snd]; (assumption || reflexivity). Qed.
Lemma ok_one f p : 1 <= f -> f < 2 ^ 28 -> Forall fld_ok [(f, VLen p)].
Proof. intros. constructor; [|constructor]. split; [|split]; cbn [fst snd]; (assumption || exact I). Qed.

(* ---------- field getters over appended lists ---------- *)
Lemma get_var_app f a b d : get_var f (a ++ b) d = get_var f b (get_var f a d).
Proof.
  revert d. induction a as [|[f' v] a IH]; intros d; cbn; [reflexivity|].
  destruct v; try apply IH. destruct (f' =? f); apply IH.
Qed.
Lemma get_len_app f a b d : get_len f (a ++ b) d = get_len f b (get_len f a d).
Proof.
  revert d. induction a as [|[f' v] a IH]; intros d; cbn; [reflexivity|].
  destruct v; try apply IH. destruct (f' =? f); apply IH.
Qed.

Lemma u32_small n : n < 2 ^ 32 -> u32 n = n.
Proof. intros H. unfold u32. change 4294967296 with (2 ^ 32). now apply N.mod_small. Qed.

Lemma get_var_ov f f' n d : get_var f (ov f' n) d = if (f' =? f) && negb (n =? 0) then u32 n else d.
Proof. unfold ov. destruct (n =? 0); cbn; [now rewrite Bool.andb_false_r|]. destruct (f' =? f); reflexivity. Qed.
Lemma get_var_os f f' s d : get_var f (os f' s) d = d.
Proof. unfold os. destruct (is_nil s); reflexivity. Qed.
Lemma get_var_ob f f' b d : get_var f (ob f' b) d = if (f' =? f) && b then 1 else d.
Proof. unfold ob. destruct b; cbn; [|now rewrite Bool.andb_false_r]. destruct (f' =? f); reflexivity. Qed.
Lemma get_var_one_len f f' p d : get_var f [(f', VLen p)] d = d.
Proof. reflexivity. Qed.
Lemma get_len_ov f f' n d : get_len f (ov f' n) d = d.
Proof. unfold ov. destruct (n =? 0); reflexivity. Qed.
Lemma get_len_ob f f' b d : get_len f (ob f' b) d = d.
Proof. unfold ob. destruct b; reflexivity. Qed.
Lemma get_len_os f f' s d : get_len f (os f' s) d = if (f' =? f) && negb (is_nil s) then s else d.
Proof. unfold os. destruct (is_nil s); cbn; [now rewrite Bool.andb_false_r|]. destruct (f' =? f); reflexivity. Qed.

Lemma val_ov n : n < 2 ^ 32 -> (if negb (n =? 0) then u32 n else 0) = n.
Proof. intros H. destruct (N.eqb_spec n 0); cbn; [congruence|now apply u32_small]. Qed.
Lemma val_os (s : str) : (if negb (is_nil s) then s else []) = s.
Proof. destruct s; reflexivity. Qed.
Lemma val_ob (b : bool) : negb ((if b then 1 else 0) =? 0) = b.
Proof. destruct b; reflexivity. Qed.

Ltac getters :=
  rewrite ?get_var_app, ?get_len_app;
  rewrite ?get_var_ov, ?get_var_os, ?get_var_ob, ?get_len_ov, ?get_len_ob, ?get_len_os, ?get_var_one_len;
  cbn [N.eqb Pos.eqb andb].

(* ---------- RdfIri ---------- *)
Definition iri_fields (p n : N) := ov 1 p ++ ov 2 n.
Lemma ser_iri_fields p n : ser_iri p n = fields_ser (iri_fields p n).
Proof. unfold ser_iri, iri_fields. now rewrite fields_ser_app, !ser_ov. Qed.

Lemma parse_iri_ser p n : p < 2 ^ 32 -> n < 2 ^ 32 -> nlen (ser_iri p n) < varint_max ->
  parse_iri (ser_iri p n) = Some (p, n).
Proof.
  intros Hp Hn Hsz. unfold parse_iri. rewrite ser_iri_fields in *.
  rewrite fields_of_ser; [| |exact Hsz].
  - unfold iri_fields. getters. now rewrite !val_ov.
  - unfold iri_fields. apply Forall_app. split; apply ok_ov; (assumption || lia || (cbn; lia)).
Qed.

(* ---------- RdfLiteral ---------- *)
Definition wf_kind (k : wlitkind) : Prop := match k with LkDt d => d < 2 ^ 32 | _ => True end.
Definition kind_fields (k : wlitkind) : list (N * wval) :=
  match k with LkNone => [] | LkLang t => [(2, VLen t)] | LkDt d => [(3, VVar d)] end.
Definition lit_fields (lex : str) (k : wlitkind) := os 1 lex ++ kind_fields k.

Lemma ser_lit_fields lex k : ser_lit lex k = fields_ser (lit_fields lex k).
Proof.
  unfold ser_lit, lit_fields. rewrite fields_ser_app, ser_os. f_equal.
  destruct k; cbn; now rewrite ?app_nil_r.
Qed.

Lemma lit_kind_app a b acc : lit_kind (a ++ b) acc = lit_kind b (lit_kind a acc).
Proof.
  revert acc. induction a as [|[f v] a IH]; intros acc; cbn; [reflexivity|].
  destruct v; try apply IH; destruct (f =? _); apply IH.
Qed.
Lemma lit_kind_os s acc : lit_kind (os 1 s) acc = acc.
Proof. unfold os. destruct (is_nil s); reflexivity. Qed.

Lemma parse_lit_ser lex k : wf_kind k -> nlen (ser_lit lex k) < varint_max ->
  parse_lit (ser_lit lex k) = Some (WLit lex k).
Proof.
  intros Hk Hsz. unfold parse_lit. rewrite ser_lit_fields in *.
  rewrite fields_of_ser; [| |exact Hsz].
  - unfold lit_fields. rewrite get_len_app, lit_kind_app, lit_kind_os, get_len_os. cbn [N.eqb Pos.eqb andb].
    f_equal. f_equal.
    + destruct k; cbn; apply val_os.
    + destruct k; cbn; [reflexivity|reflexivity|]. cbn in Hk. now rewrite u32_small.
  - unfold lit_fields. apply Forall_app. split; [apply ok_os; cbn; lia|].
    destruct k; cbn; [constructor| |]; (constructor; [|constructor]); (split; [|split]); cbn; try lia; try exact I. exact Hk.
Qed.

(* ---------- RdfStreamOptions ---------- *)
Definition wf_options (o : woptions) : Prop :=
  o_phys o < 2 ^ 32 /\ o_maxn o < 2 ^ 32 /\ o_maxp o < 2 ^ 32 /\ o_maxd o < 2 ^ 32 /\
  o_logical o < 2 ^ 32 /\ o_version o < 2 ^ 32.

Definition options_fields (o : woptions) :=
  os 1 (o_name o) ++ ov 2 (o_phys o) ++ ob 3 (o_gen o) ++ ob 4 (o_star o) ++ ov 9 (o_maxn o) ++
  ov 10 (o_maxp o) ++ ov 11 (o_maxd o) ++ ov 14 (o_logical o) ++ ov 15 (o_version o).

Lemma ser_options_fields o : ser_options o = fields_ser (options_fields o).
Proof. unfold ser_options, options_fields. now rewrite !fields_ser_app, !ser_ov, !ser_ob, ser_os. Qed.

Lemma parse_options_ser o : wf_options o -> nlen (ser_options o) < varint_max ->
  parse_options (ser_options o) = Some o.
Proof.
  intros (H1 & H2 & H3 & H4 & H5 & H6) Hsz. unfold parse_options. rewrite ser_options_fields in *.
  rewrite fields_of_ser; [| |exact Hsz].
  - unfold options_fields. getters. rewrite !val_ov by assumption. rewrite val_os, !val_ob.
    destruct o; reflexivity.
  - unfold options_fields. repeat (apply Forall_app; split);
      first [apply ok_os; cbn; lia | apply ok_ov; (assumption || (cbn; lia)) | apply ok_ob; cbn; lia].
Qed.

(* ---------- lookup entries, metadata ---------- *)
Definition entry_fields (id : N) (v : str) := ov 1 id ++ os 2 v.
Lemma ser_entry_fields id v : ser_entry id v = fields_ser (entry_fields id v).
Proof. unfold ser_entry, entry_fields. now rewrite fields_ser_app, ser_ov, ser_os. Qed.

Lemma parse_entry_ser id v : id < 2 ^ 32 -> nlen (ser_entry id v) < varint_max ->
  parse_entry (ser_entry id v) = Some (id, v).
Proof.
  intros Hid Hsz. unfold parse_entry. rewrite ser_entry_fields in *.
  rewrite fields_of_ser; [| |exact Hsz].
  - unfold entry_fields. getters. now rewrite val_ov, val_os.
  - unfold entry_fields. apply Forall_app. split; [apply ok_ov|apply ok_os]; (assumption || (cbn; lia)).
Qed.

Definition meta_fields (kv : str * str) := os 1 (fst kv) ++ os 2 (snd kv).
Lemma parse_meta_ser kv : nlen (fields_ser (meta_fields kv)) < varint_max ->
  parse_meta (fields_ser (meta_fields kv)) = Some kv.
Proof.
  intros Hsz. unfold parse_meta. rewrite fields_of_ser; [| |exact Hsz].
  - unfold meta_fields. getters. rewrite !val_os. now destruct kv.
  - unfold meta_fields. apply Forall_app. split; apply ok_os; cbn; lia.
Qed.

(* ---------- terms in s/p/o slots ---------- *)
Fixpoint wf_spo (t : wterm) : Prop :=
  match t with
  | WIri p n => p < 2 ^ 32 /\ n < 2 ^ 32
  | WBnode _ => True
  | WLit _ k => wf_kind k
  | WTriple s p o =>
    (match s with Some x => wf_spo x | None => True end) /\
    (match p with Some x => wf_spo x | None => True end) /\
    (match o with Some x => wf_spo x | None => True end)
  | WDefault => False
  end.
Definition wf_slot (o : option wterm) : Prop := match o with Some x => wf_spo x | None => True end.

Fixpoint depth (t : wterm) : nat :=
  match t with
  | WTriple s p o =>
    S (Nat.max (match s with Some x => depth x | None => O end)
       (Nat.max (match p with Some x => depth x | None => O end)
                (match o with Some x => depth x | None => O end)))
  | _ => O
  end.
Definition depth_slot (o : option wterm) : nat := match o with Some x => depth x | None => O end.

Definition spo_field (base : N) (t : wterm) : list (N * wval) :=
  match t with
  | WIri p n => [(base, VLen (ser_iri p n))]
  | WBnode l => [(base + 1, VLen l)]
  | WLit lex k => [(base + 2, VLen (ser_lit lex k))]
  | WTriple s p o => [(base + 3, VLen (ser_triple s p o))]
  | WDefault => []
  end.
Definition slot_fields (base : N) (o : option wterm) := match o with Some t => spo_field base t | None => [] end.
Definition triple_fields (s p o : option wterm) := slot_fields 1 s ++ slot_fields 5 p ++ slot_fields 9 o.

Lemma ser_spo_fields base t : ser_spo base t = fields_ser (spo_field base t).
Proof. destruct t; cbn [ser_spo spo_field]; rewrite ?ser_one; reflexivity. Qed.
Lemma ser_slot_fields base o : ser_slot base o = fields_ser (slot_fields base o).
Proof. destruct o; [apply ser_spo_fields|reflexivity]. Qed.
Lemma ser_triple_fields s p o : ser_triple s p o = fields_ser (triple_fields s p o).
Proof. unfold ser_triple, triple_fields. now rewrite !fields_ser_app, !ser_slot_fields. Qed.

(* unfolding equation of the nested fixpoint *)
Lemma ptf_nil fuel s p o : parse_triple_fields fuel [] s p o = Some (s, p, o).
Proof. destruct fuel; reflexivity. Qed.

Definition set_slot (slot : N) (t s p o : option wterm) :=
  if slot =? 0 then (t, p, o) else if slot =? 1 then (s, t, o) else (s, p, t).

(* a field outside 1..12 is skipped *)
Lemma ptf_skip fuel f v r s p o : (1 <=? f) && (f <=? 12) = false ->
  parse_triple_fields fuel ((f, v) :: r) s p o = parse_triple_fields fuel r s p o.
Proof. intros H. destruct fuel; cbn; rewrite H; reflexivity. Qed.

Lemma ptf_iri fuel f r s p o pi ni b : (1 <=? f) && (f <=? 12) = true -> (f - 1) mod 4 = 0 ->
  parse_iri b = Some (pi, ni) ->
  parse_triple_fields fuel ((f, VLen b) :: r) s p o =
  let '(s1, p1, o1) := set_slot ((f - 1) / 4) (Some (WIri pi ni)) s p o in parse_triple_fields fuel r s1 p1 o1.
Proof.
  intros H Hk Hb. unfold set_slot. destruct fuel; cbn; rewrite H, Hk, Hb;
    destruct ((f - 1) / 4 =? 0); try reflexivity; destruct ((f - 1) / 4 =? 1); reflexivity.
Qed.
Lemma ptf_bnode fuel f r s p o b : (1 <=? f) && (f <=? 12) = true -> (f - 1) mod 4 = 1 ->
  parse_triple_fields fuel ((f, VLen b) :: r) s p o =
  let '(s1, p1, o1) := set_slot ((f - 1) / 4) (Some (WBnode b)) s p o in parse_triple_fields fuel r s1 p1 o1.
Proof.
  intros H Hk. unfold set_slot. destruct fuel; cbn; rewrite H, Hk;
    destruct ((f - 1) / 4 =? 0); try reflexivity; destruct ((f - 1) / 4 =? 1); reflexivity.
Qed.
Lemma ptf_lit fuel f r s p o l b : (1 <=? f) && (f <=? 12) = true -> (f - 1) mod 4 = 2 ->
  parse_lit b = Some l ->
  parse_triple_fields fuel ((f, VLen b) :: r) s p o =
  let '(s1, p1, o1) := set_slot ((f - 1) / 4) (Some l) s p o in parse_triple_fields fuel r s1 p1 o1.
Proof.
  intros H Hk Hb. unfold set_slot. destruct fuel; cbn; rewrite H, Hk, Hb;
    destruct ((f - 1) / 4 =? 0); try reflexivity; destruct ((f - 1) / 4 =? 1); reflexivity.
Qed.
Lemma ptf_quoted fuel f r s p o fs' s' p' o' b : (1 <=? f) && (f <=? 12) = true -> (f - 1) mod 4 = 3 ->
  fields_of b = Some fs' -> parse_triple_fields fuel fs' None None None = Some (s', p', o') ->
  parse_triple_fields (S fuel) ((f, VLen b) :: r) s p o =
  let '(s1, p1, o1) := set_slot ((f - 1) / 4) (Some (WTriple s' p' o')) s p o in parse_triple_fields (S fuel) r s1 p1 o1.
Proof.
  intros H Hk Hb Hin. unfold set_slot. cbn. rewrite H, Hk, Hb, Hin.
  destruct ((f - 1) / 4 =? 0); try reflexivity; destruct ((f - 1) / 4 =? 1); reflexivity.
Qed.

Lemma one_sz f p M : nlen (fields_ser [(f, VLen p)]) < M -> nlen p < M.
Proof. cbn. rewrite app_nil_r. unfold f_len. rewrite !nlen_app. lia. Qed.

Lemma ok_spo base t : 1 <= base -> base + 3 < 2 ^ 28 -> Forall fld_ok (spo_field base t).
Proof.
  intros H1 H2. destruct t; cbn; [| | | |constructor]; (constructor; [|constructor]); (split; [|split]); cbn [fst snd]; try lia; exact I.
Qed.
Lemma ok_slot base x : 1 <= base -> base + 3 < 2 ^ 28 -> Forall fld_ok (slot_fields base x).
Proof. intros. destruct x; [now apply ok_spo|constructor]. Qed.
Lemma ok_triple a b c : Forall fld_ok (triple_fields a b c).
Proof. unfold triple_fields. repeat (apply Forall_app; split); apply ok_slot; cbn; lia. Qed.

Definition Pspo (t : wterm) : Prop :=
  wf_spo t -> forall fuel base slotn r s p o, (depth t <= fuel)%nat ->
  (slotn = 0 \/ slotn = 1 \/ slotn = 2) -> base = 4 * slotn + 1 ->
  nlen (fields_ser (spo_field base t)) < varint_max ->
  parse_triple_fields fuel (spo_field base t ++ r) s p o =
  let '(s1, p1, o1) := set_slot slotn (Some t) s p o in parse_triple_fields fuel r s1 p1 o1.

Definition after_slot (slotn : N) (x s p o : option wterm) :=
  match x with Some _ => set_slot slotn x s p o | None => (s, p, o) end.

Lemma slot_parse (x : option wterm) : OP Pspo x -> wf_slot x ->
  forall fuel base slotn r s p o, (depth_slot x <= fuel)%nat ->
  (slotn = 0 \/ slotn = 1 \/ slotn = 2) -> base = 4 * slotn + 1 ->
  nlen (fields_ser (slot_fields base x)) < varint_max ->
  parse_triple_fields fuel (slot_fields base x ++ r) s p o =
  let '(s1, p1, o1) := after_slot slotn x s p o in parse_triple_fields fuel r s1 p1 o1.
Proof.
  destruct x as [t|]; cbn [OP wf_slot depth_slot slot_fields after_slot].
  - intros HP Hwf fuel base slotn r s p o Hd Hs Hb Hsz. exact (HP Hwf fuel base slotn r s p o Hd Hs Hb Hsz).
  - intros _ _ fuel base slotn r s p o _ _ _ _. reflexivity.
Qed.

Lemma triple_parse a b c : OP Pspo a -> OP Pspo b -> OP Pspo c -> wf_slot a -> wf_slot b -> wf_slot c ->
  forall fuel r, (depth_slot a <= fuel)%nat -> (depth_slot b <= fuel)%nat -> (depth_slot c <= fuel)%nat ->
  nlen (fields_ser (triple_fields a b c)) < varint_max ->
  parse_triple_fields fuel (triple_fields a b c ++ r) None None None = parse_triple_fields fuel r a b c.
Proof.
  intros Pa Pb Pc Wa Wb Wc fuel r Da Db Dc Hsz. unfold triple_fields in *.
  rewrite !fields_ser_app, !nlen_app in Hsz. rewrite <- !app_assoc.
  rewrite (slot_parse a Pa Wa fuel 1 0) by (auto; lia).
  destruct a; cbn [after_slot set_slot N.eqb].
  - rewrite (slot_parse b Pb Wb fuel 5 1) by (auto; lia).
    destruct b; cbn [after_slot set_slot N.eqb Pos.eqb];
      rewrite (slot_parse c Pc Wc fuel 9 2) by (auto; lia);
      destruct c; reflexivity.
  - rewrite (slot_parse b Pb Wb fuel 5 1) by (auto; lia).
    destruct b; cbn [after_slot set_slot N.eqb Pos.eqb];
      rewrite (slot_parse c Pc Wc fuel 9 2) by (auto; lia);
      destruct c; reflexivity.
Qed.

Lemma spo_parse_all : forall t, Pspo t.
Proof.
  apply wterm_ind'; unfold Pspo.
  - (* IRI *)
    intros pi ni [Hp Hn] fuel base slotn r s p o _ Hs -> Hsz. cbn [spo_field app] in *. apply one_sz in Hsz.
    rewrite (ptf_iri fuel _ r s p o pi ni); [| | |apply parse_iri_ser; assumption];
      destruct Hs as [-> | [-> | ->]]; reflexivity.
  - (* blank node *)
    intros l _ fuel base slotn r s p o _ Hs -> Hsz. cbn [spo_field app] in *.
    rewrite (ptf_bnode fuel _ r s p o l); destruct Hs as [-> | [-> | ->]]; reflexivity.
  - (* literal *)
    intros lex k Hk fuel base slotn r s p o _ Hs -> Hsz. cbn [spo_field app] in *. apply one_sz in Hsz.
    rewrite (ptf_lit fuel _ r s p o (WLit lex k)); [| | |apply parse_lit_ser; assumption];
      destruct Hs as [-> | [-> | ->]]; reflexivity.
  - intros [].
  - (* quoted triple *)
    intros a b c Pa Pb Pc (Wa & Wb & Wc) fuel base slotn r s p o Hd Hs -> Hsz. cbn [spo_field app] in *. apply one_sz in Hsz.
    destruct fuel as [|fuel]; [cbn in Hd; lia|]. cbn [depth] in Hd.
    assert (Hf : fields_of (ser_triple a b c) = Some (triple_fields a b c)).
    { rewrite ser_triple_fields in *. apply fields_of_ser; [apply ok_triple|exact Hsz]. }
    assert (Hin : parse_triple_fields fuel (triple_fields a b c) None None None = Some (a, b, c)).
    { rewrite <- (app_nil_r (triple_fields a b c)). rewrite triple_parse; try assumption.
      - apply ptf_nil.
      - unfold depth_slot. destruct a; lia.
      - unfold depth_slot. destruct b; lia.
      - unfold depth_slot. destruct c; lia.
      - rewrite ser_triple_fields in Hsz. exact Hsz. }
    rewrite (ptf_quoted fuel _ r s p o (triple_fields a b c) a b c (ser_triple a b c)); [| | |exact Hf|exact Hin];
      destruct Hs as [-> | [-> | ->]]; reflexivity.
Qed.

(* nesting depth is bounded by the serialised length (the parser's fuel) *)
Lemma f_len_len f p : (2 + length p <= length (f_len f p))%nat.
Proof.
  unfold f_len, tag. rewrite !app_length.
  pose proof (varint_nonempty (f * 8 + 2)). pose proof (varint_nonempty (nlen p)). lia.
Qed.

Lemma depth_le_len : forall t base, (depth t <= length (ser_spo base t))%nat.
Proof.
  apply (wterm_ind' (fun t => forall base, (depth t <= length (ser_spo base t))%nat)); cbn [depth]; try (intros; lia).
  intros a b c Ha Hb Hc base. cbn [ser_spo].
  pose proof (f_len_len (base + 3)
    ((match a with Some t' => ser_spo 1 t' | None => [] end) ++
     (match b with Some t' => ser_spo 5 t' | None => [] end) ++
     (match c with Some t' => ser_spo 9 t' | None => [] end))) as H.
  rewrite !app_length in H.
  assert (Da : (match a with Some x => depth x | None => O end <= length (match a with Some t' => ser_spo 1 t' | None => [] end))%nat)
    by (destruct a; [apply Ha|cbn; lia]).
  assert (Db : (match b with Some x => depth x | None => O end <= length (match b with Some t' => ser_spo 5 t' | None => [] end))%nat)
    by (destruct b; [apply Hb|cbn; lia]).
  assert (Dc : (match c with Some x => depth x | None => O end <= length (match c with Some t' => ser_spo 9 t' | None => [] end))%nat)
    by (destruct c; [apply Hc|cbn; lia]).
  lia.
Qed.

Lemma depth_slot_le base x : (depth_slot x <= length (fields_ser (slot_fields base x)))%nat.
Proof. destruct x; cbn [depth_slot slot_fields]; [rewrite <- ser_spo_fields; apply depth_le_len|lia]. Qed.

(* a whole RdfTriple payload *)
Lemma triple_payload_parse a b c extra :
  wf_slot a -> wf_slot b -> wf_slot c ->
  nlen (fields_ser (triple_fields a b c)) < varint_max ->
  (length (fields_ser (triple_fields a b c)) <= extra)%nat ->
  forall r, parse_triple_fields extra (triple_fields a b c ++ r) None None None = parse_triple_fields extra r a b c.
Proof.
  intros Wa Wb Wc Hsz Hlen r.
  assert (Pa : OP Pspo a) by (destruct a; cbn; [apply spo_parse_all|exact I]).
  assert (Pb : OP Pspo b) by (destruct b; cbn; [apply spo_parse_all|exact I]).
  assert (Pc : OP Pspo c) by (destruct c; cbn; [apply spo_parse_all|exact I]).
  unfold triple_fields in Hlen. rewrite !fields_ser_app, !app_length in Hlen.
  pose proof (depth_slot_le 1 a). pose proof (depth_slot_le 5 b). pose proof (depth_slot_le 9 c).
  apply triple_parse; try assumption; lia.
Qed.

(* ---------- graph terms ---------- *)
Definition wf_graph (g : option wterm) : Prop :=
  match g with
  | None => True
  | Some (WIri p n) => p < 2 ^ 32 /\ n < 2 ^ 32
  | Some (WBnode _) => True
  | Some WDefault => True
  | Some (WLit _ k) => wf_kind k
  | Some (WTriple _ _ _) => False
  end.

Definition graph_fields (base : N) (g : option wterm) : list (N * wval) :=
  match g with
  | None => []
  | Some (WIri p n) => [(base, VLen (ser_iri p n))]
  | Some (WBnode l) => [(base + 1, VLen l)]
  | Some WDefault => [(base + 2, VLen [])]
  | Some (WLit lex k) => [(base + 3, VLen (ser_lit lex k))]
  | Some (WTriple _ _ _) => []
  end.
Lemma ser_graph_fields base g : ser_graph base g = fields_ser (graph_fields base g).
Proof. destruct g as [[]|]; cbn [ser_graph graph_fields]; rewrite ?ser_one; reflexivity. Qed.

Lemma ok_graph base g : 1 <= base -> base + 3 < 2 ^ 28 -> Forall fld_ok (graph_fields base g).
Proof.
  intros H1 H2. destruct g as [[]|]; cbn; try constructor; try (split; [|split]); cbn [fst snd]; try lia; try exact I; constructor.
Qed.

Lemma fields_of_nil : fields_of [] = Some [].
Proof. reflexivity. Qed.

Lemma graph_parse base g g0 : wf_graph g -> nlen (fields_ser (graph_fields base g)) < varint_max ->
  parse_graph_fields base (graph_fields base g) g0 = Some (match g with Some _ => g | None => g0 end).
Proof.
  intros Hwf Hsz. destruct g as [[pi ni|l|lex k|a b c|]|]; cbn [graph_fields wf_graph] in *; try contradiction; try reflexivity.
  - apply one_sz in Hsz. destruct Hwf. cbn [parse_graph_fields]. rewrite N.eqb_refl, parse_iri_ser by assumption. reflexivity.
  - cbn [parse_graph_fields]. replace (base + 1 =? base) with false by (symmetry; apply N.eqb_neq; lia).
    rewrite N.eqb_refl. reflexivity.
  - apply one_sz in Hsz. cbn [parse_graph_fields].
    replace (base + 3 =? base) with false by (symmetry; apply N.eqb_neq; lia).
    replace (base + 3 =? base + 1) with false by (symmetry; apply N.eqb_neq; lia).
    replace (base + 3 =? base + 2) with false by (symmetry; apply N.eqb_neq; lia).
    rewrite N.eqb_refl, parse_lit_ser by assumption. reflexivity.
  - cbn [parse_graph_fields].
    replace (base + 2 =? base) with false by (symmetry; apply N.eqb_neq; lia).
    replace (base + 2 =? base + 1) with false by (symmetry; apply N.eqb_neq; lia).
    rewrite N.eqb_refl, fields_of_nil. reflexivity.
Qed.

(* the graph parser skips the s/p/o fields of a quad; the triple parser skips the graph field *)
Lemma graph_skips_spo (fs : list (N * wval)) g0 :
  Forall (fun fv => fst fv <= 12 /\ exists p, snd fv = VLen p) fs ->
  forall r, parse_graph_fields 13 (fs ++ r) g0 = parse_graph_fields 13 r g0.
Proof.
  induction 1 as [|[f v] fs [Hf [p Hp]] _ IH]; intros r; [reflexivity|]. cbn [fst snd] in *. subst v. cbn [app parse_graph_fields].
  replace (f =? 13) with false by (symmetry; apply N.eqb_neq; lia).
  replace (f =? 13 + 1) with false by (symmetry; apply N.eqb_neq; lia).
  replace (f =? 13 + 2) with false by (symmetry; apply N.eqb_neq; lia).
  replace (f =? 13 + 3) with false by (symmetry; apply N.eqb_neq; lia).
  apply IH.
Qed.

Lemma spo_fields_small base t : base + 3 <= 12 ->
  Forall (fun fv => fst fv <= 12 /\ exists p, snd fv = VLen p) (spo_field base t).
Proof. intros H. destruct t; cbn; constructor; try constructor; cbn [fst snd]; try lia; eauto. Qed.
Lemma triple_fields_small a b c :
  Forall (fun fv => fst fv <= 12 /\ exists p, snd fv = VLen p) (triple_fields a b c).
Proof.
  unfold triple_fields. repeat (apply Forall_app; split);
    match goal with |- Forall _ (slot_fields _ ?x) => destruct x; [apply spo_fields_small; lia|constructor] end.
Qed.

Lemma ptf_skips_graph fuel g s p o : parse_triple_fields fuel (graph_fields 13 g) s p o = Some (s, p, o).
Proof.
  destruct g as [[]|]; cbn [graph_fields]; try apply ptf_nil; rewrite ptf_skip by reflexivity; apply ptf_nil.
Qed.

(* ---------- rows ---------- *)
Definition wf_row (r : row) : Prop :=
  match r with
  | ROptions o => wf_options o
  | RPrefix id _ | RName id _ | RDatatype id _ => id < 2 ^ 32
  | RTriple s p o => wf_slot s /\ wf_slot p /\ wf_slot o
  | RQuad s p o g => wf_slot s /\ wf_slot p /\ wf_slot o /\ wf_graph g
  | RGraphStart g => wf_graph g
  | RGraphEnd => True
  | RNamespace _ p n => p < 2 ^ 32 /\ n < 2 ^ 32
  | REmpty => True
  end.

Definition ns_fields (name : str) (p n : N) := os 1 name ++ [(2, VLen (ser_iri p n))].

Definition row_fields (r : row) : list (N * wval) :=
  match r with
  | ROptions o => [(1, VLen (ser_options o))]
  | RTriple s p o => [(2, VLen (ser_triple s p o))]
  | RQuad s p o g => [(3, VLen (ser_triple s p o ++ ser_graph 13 g))]
  | RGraphStart g => [(4, VLen (ser_graph 1 g))]
  | RGraphEnd => [(5, VLen [])]
  | RNamespace name p n => [(6, VLen (fields_ser (ns_fields name p n)))]
  | RName id v => [(9, VLen (ser_entry id v))]
  | RPrefix id v => [(10, VLen (ser_entry id v))]
  | RDatatype id v => [(11, VLen (ser_entry id v))]
  | REmpty => []
  end.

Lemma ser_row_fields r : ser_row r = fields_ser (row_fields r).
Proof.
  destruct r; cbn [ser_row row_fields]; rewrite ?ser_one; try reflexivity.
  unfold ns_fields. now rewrite fields_ser_app, ser_os, <- ser_one.
Qed.

Lemma ok_row r : Forall fld_ok (row_fields r).
Proof. destruct r; cbn; try constructor; try (split; [|split]); cbn [fst snd]; try lia; try exact I; constructor. Qed.

Lemma parse_row_ser r : wf_row r -> nlen (ser_row r) < varint_max -> parse_row (ser_row r) = Some r.
Proof.
  intros Hwf Hsz. unfold parse_row. rewrite ser_row_fields in *.
  rewrite fields_of_ser; [|apply ok_row|exact Hsz].
  destruct r as [o|id v|id v|id v|s p o|s p o g|g| |name pi ni|]; cbn [row_fields wf_row] in *; try reflexivity;
    try apply one_sz in Hsz; cbn [parse_row_fields N.eqb Pos.eqb].
  - now rewrite parse_options_ser.
  - now rewrite parse_entry_ser.
  - now rewrite parse_entry_ser.
  - now rewrite parse_entry_ser.
  - (* triple *)
    destruct Hwf as (Ws & Wp & Wo). rewrite ser_triple_fields in *.
    rewrite fields_of_ser by (try apply ok_triple; assumption).
    rewrite <- (app_nil_r (triple_fields s p o)) at 2.
    rewrite triple_payload_parse by (try assumption; lia). now rewrite ptf_nil.
  - (* quad *)
    destruct Hwf as (Ws & Wp & Wo & Wg). rewrite ser_triple_fields, ser_graph_fields, <- fields_ser_app in *.
    rewrite fields_of_ser; [| apply Forall_app; split; [apply ok_triple|apply ok_graph; cbn; lia] | exact Hsz].
    assert (Hsz3 : nlen (fields_ser (triple_fields s p o)) < varint_max) by (rewrite fields_ser_app, nlen_app in Hsz; lia).
    assert (Hszg : nlen (fields_ser (graph_fields 13 g)) < varint_max) by (rewrite fields_ser_app, nlen_app in Hsz; lia).
    rewrite triple_payload_parse by (try assumption; rewrite fields_ser_app, app_length; lia).
    rewrite ptf_skips_graph.
    rewrite (graph_skips_spo _ None (triple_fields_small s p o)).
    rewrite graph_parse by assumption. destruct g; reflexivity.
  - (* graph start *)
    rewrite ser_graph_fields in *.
    rewrite fields_of_ser; [|apply ok_graph; cbn; lia|exact Hsz].
    rewrite graph_parse by assumption. destruct g; reflexivity.
  - (* namespace declaration *)
    destruct Hwf as [Hp Hn].
    assert (Hi : nlen (ser_iri pi ni) < varint_max).
    { unfold ns_fields in Hsz. rewrite fields_ser_app, nlen_app in Hsz.
      assert (nlen (ser_iri pi ni) < varint_max); [|assumption]. apply (one_sz 2). lia. }
    rewrite fields_of_ser; [| |exact Hsz].
    + unfold ns_fields. rewrite !get_len_app, !get_len_os. cbn [get_len N.eqb Pos.eqb andb].
      rewrite parse_iri_ser by assumption. now rewrite val_os.
    + unfold ns_fields. apply Forall_app. split; [apply ok_os; cbn; lia|apply ok_one; cbn; lia].
Qed.

(* ---------- frames ---------- *)
Definition wf_frame (f : frame) : Prop := Forall wf_row (f_rows f).

Definition frame_fields (f : frame) : list (N * wval) :=
  map (fun r => (1, VLen (ser_row r))) (f_rows f) ++
  map (fun kv => (15, VLen (fields_ser (meta_fields kv)))) (f_meta f).

Lemma ser_frame_fields f : ser_frame f = fields_ser (frame_fields f).
Proof.
  unfold ser_frame, frame_fields. rewrite fields_ser_app. f_equal.
  - induction (f_rows f) as [|r rows IH]; [reflexivity|]. cbn [flat_map map]. rewrite IH.
    change (fields_ser ((1, VLen (ser_row r)) :: ?l)) with (ser_field (1, VLen (ser_row r)) ++ fields_ser l). reflexivity.
  - induction (f_meta f) as [|kv md IH]; [reflexivity|]. cbn [flat_map map]. rewrite IH.
    unfold ser_meta, meta_fields. rewrite fields_ser_app, !ser_os. reflexivity.
Qed.

Lemma fields_ser_cons x l : fields_ser (x :: l) = ser_field x ++ fields_ser l.
Proof. reflexivity. Qed.

Lemma ok_frame f : Forall fld_ok (frame_fields f).
Proof.
  unfold frame_fields. apply Forall_app. split; apply Forall_forall; intros x Hx; apply in_map_iff in Hx;
    destruct Hx as [y [<- _]]; (split; [|split]); cbn [fst snd]; try lia; exact I.
Qed.

Lemma parse_meta_part md : nlen (fields_ser (map (fun kv => (15, VLen (fields_ser (meta_fields kv)))) md)) < varint_max ->
  parse_frame_fields (map (fun kv => (15, VLen (fields_ser (meta_fields kv)))) md) = Some ([], md).
Proof.
  induction md as [|kv md IH]; intros Hsz; [reflexivity|]. cbn [map parse_frame_fields N.eqb Pos.eqb].
  cbn [map] in Hsz. rewrite fields_ser_cons, nlen_app in Hsz.
  rewrite parse_meta_ser.
  - rewrite IH by lia. reflexivity.
  - apply (one_sz 15). cbn [fields_ser flat_map]. rewrite app_nil_r. lia.
Qed.

Lemma parse_rows_part rows rest md : Forall wf_row rows ->
  nlen (fields_ser (map (fun r => (1, VLen (ser_row r))) rows ++ rest)) < varint_max ->
  parse_frame_fields rest = Some ([], md) ->
  parse_frame_fields (map (fun r => (1, VLen (ser_row r))) rows ++ rest) = Some (rows, md).
Proof.
  induction 1 as [|r rows Hr Hrows IH]; intros Hsz Hrest; [exact Hrest|]. cbn [map app parse_frame_fields N.eqb Pos.eqb].
  cbn [map app] in Hsz. rewrite fields_ser_cons, nlen_app in Hsz.
  rewrite parse_row_ser.
  - rewrite IH by (try assumption; lia). reflexivity.
  - exact Hr.
  - apply (one_sz 1). cbn [fields_ser flat_map]. rewrite app_nil_r. lia.
Qed.

(* the wire round trip *)
Theorem parse_frame_ser (f : frame) :
  wf_frame f -> nlen (ser_frame f) < varint_max -> parse_frame (ser_frame f) = Some f.
Proof.
  intros Hwf Hsz. unfold parse_frame. rewrite ser_frame_fields in *.
  rewrite fields_of_ser; [|apply ok_frame|exact Hsz].
  unfold frame_fields in *.
  rewrite (parse_rows_part _ _ (f_meta f) Hwf Hsz).
  - destruct f; reflexivity.
  - apply parse_meta_part. rewrite fields_ser_app, nlen_app in Hsz. lia.
Qed.

Lemma ser_frame_nil f : ser_frame f = [] -> f = mkframe [].
Proof.
  destruct f as [rows md]. unfold ser_frame, mkframe. cbn [f_rows f_meta]. intros H.
  apply app_eq_nil in H. destruct H as [H1 H2].
  destruct rows as [|r rows].
  - destruct md as [|kv md]; [reflexivity|]. cbn [flat_map] in H2. apply app_eq_nil in H2. destruct H2 as [H2 _].
    unfold ser_meta in H2. pose proof (f_len_len 15 (f_str_opt 1 (fst kv) ++ f_str_opt 2 (snd kv))) as L. rewrite H2 in L. cbn in L. lia.
  - cbn [flat_map] in H1. apply app_eq_nil in H1. destruct H1 as [H1 _].
    pose proof (f_len_len 1 (ser_row r)) as L. rewrite H1 in L. cbn in L. lia.
Qed.

Theorem wf_readable (f : frame) : wf_frame f -> nlen (ser_frame f) < varint_max -> readable f.
Proof.
  intros Hwf Hsz. split; [now apply parse_frame_ser|]. split; [exact Hsz|apply ser_frame_nil].
Qed.

(* the byte-level theorems of WireProofs without the [readable] premise *)
Definition sendable (f : frame) : Prop := wf_frame f /\ nlen (ser_frame f) < varint_max.

Theorem read_frames_delimited_wf (fs : list frame) :
  Forall sendable fs -> read_frames (write_delimited fs) = (fs, FiEof).
Proof.
  intros H. apply read_frames_delimited. eapply Forall_impl; [|exact H]. intros f [H1 H2]. now apply wf_readable.
Qed.

Theorem read_frames_truncated_wf (fs1 : list frame) (f : frame) (j : nat) :
  Forall sendable fs1 -> sendable f -> (0 < j < length (write_delimited1 f))%nat ->
  read_frames (write_delimited fs1 ++ firstn j (write_delimited1 f)) = (fs1, FiError).
Proof.
  intros H [Hf1 Hf2] Hj. apply read_frames_truncated; [|now apply wf_readable|exact Hj].
  eapply Forall_impl; [|exact H]. intros g [H1 H2]. now apply wf_readable.
Qed.

(* the frames already delivered are read the same whatever bytes follow them -- a further frame, a
   fragment of one, garbage, or nothing *)
Theorem read_frames_prefix (fs1 : list frame) (rest : list N) :
  Forall sendable fs1 ->
  read_frames (write_delimited fs1 ++ rest) = let '(fs', e) := read_frames rest in (fs1 ++ fs', e).
Proof.
  unfold read_frames. induction fs1 as [|f fs1 IH]; intros H.
  - cbn [write_delimited flat_map app]. destruct (frame_iterator (length rest) rest); reflexivity.
  - inversion H as [|? ? [Hf1 Hf2] Hfs]; subst. unfold write_delimited in *. cbn [flat_map]. rewrite <- app_assoc.
    rewrite (read_one f _ _ (wf_readable f Hf1 Hf2) (le_n _)). rewrite (IH Hfs).
    destruct (frame_iterator (length rest) rest) as [fs' e]. reflexivity.
Qed.
