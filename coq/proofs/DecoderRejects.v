(* DecoderRejects.v -- C16 against the referee: when Spec.run stops at row i with a catalogued class,
   the decoder model raises at that very row, having yielded exactly the events of the rows before
   it -- nothing invented, nothing after. *)
From Coq Require Import Arith Lia.
From PJ.Model Require Import Base Lookup Terms Wire Encoder Streams Decoder Spec.
From PJ.Proofs Require Import TermInd DecoderProofs DecoderSound.

(* ---- references ---- *)
Lemma tget_bad_at i (t : table) c (d : @ldec str) : d_data d = t -> tget i t = SBad c -> at_ i d = None.
Proof.
  intros Hd. unfold tget, at_, in_range, in_table, nlen. rewrite Hd.
  destruct ((1 <=? i) && (i <=? N.of_nat (length t))); [|reflexivity].
  destruct (nth_error t (N.to_nat (i - 1))) as [[x|]|]; try discriminate; reflexivity.
Qed.

Lemma entry_bad id v (t : table) la c (d : @ldec str) :
  d_data d = t -> d_last_assigned d = la -> entry id v t la = SBad c -> assign id v d = Err IndexErr.
Proof.
  intros Hd Hla. unfold entry, assign, assign_entry, in_range, in_table, nlen. rewrite Hd, Hla.
  destruct ((1 <=? (if id =? 0 then la + 1 else id)) && ((if id =? 0 then la + 1 else id) <=? N.of_nat (length t))); [discriminate|reflexivity].
Qed.

Lemma iri_bad pid nid s st c : Rt s st -> iri pid nid s = SBad c -> exists e, decode_iri pid nid st = Err e.
Proof.
  intros HR. unfold iri, sbind, decode_iri, decode_name_term_index, decode_prefix_term_index, lift, bind.
  rewrite (r_nid _ _ HR), (r_pid _ _ HR).
  set (n := if nid =? 0 then s_last_nid s + 1 else nid). set (p := if pid =? 0 then s_last_pid s else pid).
  destruct (tget n (s_names s)) as [name|c1] eqn:En.
  - rewrite (tget_at n _ name (ds_names st) (r_names _ _ HR) En).
    destruct (p =? 0); [discriminate|].
    destruct (tget p (s_prefixes s)) as [prefix|c2] eqn:Ep; [discriminate|].
    rewrite (tget_bad_at p _ c2 (ds_prefixes st) (r_prefixes _ _ HR) Ep). eauto.
  - rewrite (tget_bad_at n _ c1 (ds_names st) (r_names _ _ HR) En). eauto.
Qed.

Lemma literal_bad lex k s st c :
  Rt s st -> literal lex k s = SBad c -> catalogued c = true -> exists e, decode_literal Generic lex k st = Err e.
Proof.
  intros HR. unfold literal, decode_literal. cbn [mk_literal bind]. destruct k as [|tg|d]; [discriminate| |].
  - destruct (is_nil tg); [|discriminate]. intros H; inversion H; subst. discriminate.
  - rewrite (r_datatypes _ _ HR). destruct (d =? 0) eqn:Ed.
    + intros _ _. destruct (nlen (s_datatypes s) =? 0); [eauto|]. unfold decode_datatype_term_index, lift, bind. rewrite Ed. eauto.
    + destruct (is_nil (s_datatypes s)) eqn:En.
      * intros _ _. destruct (s_datatypes s); [|discriminate]. cbn. eauto.
      * rewrite (is_nil_nlen _ En). unfold sbind. destruct (tget d (s_datatypes s)) as [dt|c2] eqn:Et; [discriminate|].
        intros _ _. unfold decode_datatype_term_index, lift, bind. rewrite Ed.
        rewrite (tget_bad_at d _ c2 (ds_datatypes st) (r_datatypes _ _ HR) Et). eauto.
Qed.

(* a term: the referee rejects with a catalogued class -> the decoder raises *)
Lemma sterm_bad (w : wterm) : forall graph s st c,
  Rt s st -> sterm graph w s = SBad c -> catalogued c = true -> exists e, decode_term Generic w st = Err e.
Proof.
  induction w as [p n|l|lex k| |a b c0 IHa IHb IHc] using wterm_ind'; intros graph s st c HR; cbn [sterm decode_term].
  - unfold sbind. destruct (iri p n s) as [[s1 i]|c1] eqn:E; [discriminate|]. intros H _; inversion H; subst.
    destruct (iri_bad _ _ _ _ _ HR E) as [e He]. unfold bind. rewrite He. eauto.
  - discriminate.
  - unfold sbind. destruct (literal lex k s) as [t0|c1] eqn:E; [discriminate|]. intros H Hc; inversion H; subst.
    eapply literal_bad; eauto.
  - destruct graph; [discriminate|]. intros H Hc; inversion H; subst. discriminate.
  - destruct graph; [intros H Hc; inversion H; subst; discriminate|].
    destruct a as [a'|], b as [b'|], c0 as [c'|];
      try (intros _ _; unfold bind;
           repeat match goal with |- context [decode_term Generic ?w ?s0] => destruct (decode_term Generic w s0) as [[? ?]|] end;
           eauto; fail).
    cbn [OP] in *. unfold sbind, bind.
    destruct (sterm false a' s) as [[s1 ta]|c1] eqn:Ea.
    + destruct (sterm_sim _ _ _ _ _ _ HR Ea) as [st1 [D1 [R1 _]]]. rewrite D1.
      destruct (sterm false b' s1) as [[s2 tb]|c2] eqn:Eb.
      * destruct (sterm_sim _ _ _ _ _ _ R1 Eb) as [st2 [D2 [R2 _]]]. rewrite D2.
        destruct (sterm false c' s2) as [[s3 tc]|c3] eqn:Ec; [discriminate|].
        intros H Hc; inversion H; subst. destruct (IHc _ _ _ _ R2 Ec Hc) as [e He]. rewrite He. eauto.
      * intros H Hc; inversion H; subst. destruct (IHb _ _ _ _ R1 Eb Hc) as [e He]. rewrite He. eauto.
    + intros H Hc; inversion H; subst. destruct (IHa _ _ _ _ HR Ea Hc) as [e He]. rewrite He. eauto.
Qed.

Lemma slot_bad graph w prev s st c :
  Rt s st -> slot graph w prev s = SBad c -> catalogued c = true -> exists e, decode_slot Generic w prev st = Err e.
Proof.
  intros HR. unfold slot, decode_slot. destruct w as [w'|]; [apply sterm_bad; assumption|].
  destruct prev; [discriminate|]. eauto.
Qed.

Lemma spo_bad a b c0 s st c :
  R s st -> spo a b c0 s = SBad c -> catalogued c = true -> exists e, decode_spo Generic a b c0 st = Err e.
Proof.
  intros HR. unfold spo, decode_spo, sbind, bind.
  rewrite (DecoderSound.r_s _ _ HR), (DecoderSound.r_p _ _ HR), (DecoderSound.r_o _ _ HR).
  destruct (slot false a (s_ps s) s) as [[s1 xa]|c1] eqn:Ea.
  - destruct (slot_sim _ _ _ _ _ _ _ (r_t _ _ HR) Ea) as [st1 [D1 [R1 _]]]. rewrite D1.
    destruct (slot false b (s_pp s) s1) as [[s2 xb]|c2] eqn:Eb.
    + destruct (slot_sim _ _ _ _ _ _ _ R1 Eb) as [st2 [D2 [R2 _]]]. rewrite D2.
      destruct (slot false c0 (s_po s) s2) as [[s3 xc]|c3] eqn:Ec; [discriminate|].
      intros H Hc; inversion H; subst. destruct (slot_bad _ _ _ _ _ _ R2 Ec Hc) as [e He]. rewrite He. eauto.
    + intros H Hc; inversion H; subst. destruct (slot_bad _ _ _ _ _ _ R1 Eb Hc) as [e He]. rewrite He. eauto.
  - intros H Hc; inversion H; subst. destruct (slot_bad _ _ _ _ _ _ (r_t _ _ HR) Ea Hc) as [e He]. rewrite He. eauto.
Qed.

(* ---- one row ---- *)
Theorem step_reject (r : row) (s : sstate) (c : vclass) (st : dstate) (ak : adapter_kind) (po : poptions) :
  R s st -> Ropts s ak po -> step r s = SBad c -> catalogued c = true ->
  exists e, decode_row Generic ak po r st = Err e.
Proof.
  intros HR HO. pose proof HR as [Ht Hs Hp Ho Hg Hopen].
  destruct r as [o|id v|id v|id v|a b c0|a b c0 g|g| |name p n|]; cbn [step decode_row]; unfold sbind, bind.
  - destruct (woptions_eqb _ _); [discriminate|]. intros H Hc; inversion H; subst; discriminate.
  - destruct (entry id v (s_prefixes s) (s_la_p s)) as [[t la]|c1] eqn:E; [discriminate|]. intros _ _.
    rewrite (entry_bad _ _ _ _ _ _ (r_prefixes _ _ Ht) (r_la_p _ _ Ht) E). eauto.
  - destruct (entry id v (s_names s) (s_la_n s)) as [[t la]|c1] eqn:E; [discriminate|]. intros _ _.
    rewrite (entry_bad _ _ _ _ _ _ (r_names _ _ Ht) (r_la_n _ _ Ht) E). eauto.
  - destruct (entry id v (s_datatypes s) (s_la_d s)) as [[t la]|c1] eqn:E; [discriminate|]. intros _ _.
    rewrite (entry_bad _ _ _ _ _ _ (r_datatypes _ _ Ht) (r_la_d _ _ Ht) E). eauto.
  - (* triple *)
    destruct (phys s =? 1) eqn:E1.
    + destruct (spo a b c0 s) as [[[[s1 ta] tb] tc]|c1] eqn:E; [discriminate|].
      intros H Hc; inversion H; subst. destruct (spo_bad _ _ _ _ _ _ HR E Hc) as [e He]. rewrite He. eauto.
    + destruct (phys s =? 3) eqn:E3.
      * destruct (s_open s) as [g0|] eqn:Eo.
        -- destruct (spo a b c0 s) as [[[[s1 ta] tb] tc]|c1] eqn:E; [discriminate|].
           intros H Hc; inversion H; subst. destruct (spo_bad _ _ _ _ _ _ HR E Hc) as [e He]. rewrite He. eauto.
        -- intros _ _. apply N.eqb_eq in E3. apply N.eqb_neq in E1.
           assert (ak = AGraphs) by (ak_is HO AGraphs). subst ak.
           assert (Hgr : ds_graph st = None) by congruence.
           destruct (reject_triple_outside_graph Generic po a b c0 st Hgr) as [e He]. cbn [decode_row] in He. unfold bind in He. eauto.
      * (* row kind: a triple in a QUADS stream *)
        intros _ _. apply N.eqb_neq in E1, E3.
        assert (ak = AQuads) by (ak_is HO AQuads). subst ak.
        destruct (reject_triple_in_quads Generic po a b c0 st) as [e He]. cbn [decode_row] in He. unfold bind in He. eauto.
  - (* quad *)
    destruct (phys s =? 2) eqn:E2.
    + destruct (spo a b c0 s) as [[[[s1 ta] tb] tc]|c1] eqn:E.
      * destruct (slot true g (s_pg s1) s1) as [[s2 tg]|c2] eqn:Eg; [discriminate|].
        intros H Hc; inversion H; subst.
        destruct (spo_sim _ _ _ _ _ _ _ _ _ HR E) as [st1 [D1 [R1 F1]]]. rewrite D1.
        assert (R1' : Rt s1 (set_spo st1 ta tb tc)) by (destruct R1; constructor; cbn; auto).
        pose proof (spo_frame _ _ _ _ _ _ _ _ E) as FE. unfold frame_eq in FE. unfold dframe in F1.
        assert (Hpg : ds_g (set_spo st1 ta tb tc) = s_pg s1) by (cbn; intuition congruence).
        rewrite Hpg. destruct (slot_bad _ _ _ _ _ _ R1' Eg Hc) as [e He]. rewrite He. eauto.
      * intros H Hc; inversion H; subst. destruct (spo_bad _ _ _ _ _ _ HR E Hc) as [e He]. rewrite He. eauto.
    + intros _ _. apply N.eqb_neq in E2.
      destruct (ro_ak _ _ _ HO) as [[? ?]|[[? ?]|[? ?]]]; try lia; subst ak.
      * destruct (reject_quad_in_triples Generic po a b c0 g st) as [e He]. cbn [decode_row] in He. unfold bind in He. eauto.
      * destruct (reject_quad_in_graphs Generic po a b c0 g st) as [e He]. cbn [decode_row] in He. unfold bind in He. eauto.
  - (* graph start *)
    destruct (phys s =? 3) eqn:E3.
    + destruct g as [w|]; [|intros H Hc; inversion H; subst; discriminate].
      destruct (sterm true w s) as [[s1 tg]|c1] eqn:E; [discriminate|].
      intros H Hc; inversion H; subst. destruct (sterm_bad _ _ _ _ _ Ht E Hc) as [e He]. rewrite He. eauto.
    + intros _ _. apply N.eqb_neq in E3.
      assert (Hne : ak <> AGraphs) by (destruct (ro_ak _ _ _ HO) as [[? ?]|[[? ?]|[? ?]]]; try lia; subst; discriminate).
      destruct (reject_graph_rows_outside_graphs Generic po ak g st Hne) as [[e He] _]. cbn [decode_row] in He. unfold bind in He. eauto.
  - (* graph end *)
    destruct (phys s =? 3) eqn:E3.
    + destruct (s_open s); [discriminate|]. intros H Hc; inversion H; subst; discriminate.
    + intros _ _. apply N.eqb_neq in E3.
      assert (Hne : ak <> AGraphs) by (destruct (ro_ak _ _ _ HO) as [[? ?]|[[? ?]|[? ?]]]; try lia; subst; discriminate).
      destruct (reject_graph_rows_outside_graphs Generic po ak None st Hne) as [_ [e He]]. cbn [decode_row] in He. eauto.
  - (* namespace *)
    destruct (o_version (s_opts s) <? 2); [intros H Hc; inversion H; subst; discriminate|].
    destruct (iri p n s) as [[s1 i]|c1] eqn:E; [discriminate|].
    intros H Hc; inversion H; subst. destruct (iri_bad _ _ _ _ _ Ht E) as [e He]. rewrite He. eauto.
  - intros _ _. eauto.
Qed.

(* ---- whole row sequences: the decoder stops exactly where the referee does ---- *)
Theorem run_from_reject (rows : list row) : forall (i j : nat) (s : sstate) (acc evs : list event) (c : vclass) (st : dstate) (ak : adapter_kind) (po : poptions),
  R s st -> Ropts s ak po -> run_from i rows s acc = Invalid j c evs -> catalogued c = true ->
  exists out e, rows_obs Generic ak po rows st = (out, Some e) /\ evs = acc ++ out.
Proof.
  induction rows as [|r rows IH]; intros i j s acc evs c st ak po HR HO; cbn [run_from]; [discriminate|].
  unfold rows_obs. cbn [decode_rows].
  destruct (step r s) as [[s' e1]|c1] eqn:E.
  - intros Hrun Hc. destruct (step_sim _ _ _ _ _ _ _ HR HO E) as [st' [D [R' O']]]. rewrite D.
    destruct (IH _ _ _ _ _ _ _ _ _ R' O' Hrun Hc) as (out & e & Hobs & Hev).
    unfold rows_obs in Hobs. destruct (decode_rows Generic ak po rows st') as [[st2 o2] err2]. inversion Hobs; subst.
    exists (e1 ++ out), e. split; [reflexivity|]. now rewrite app_assoc.
  - intros H Hc; inversion H; subst. destruct (step_reject _ _ _ _ _ _ HR HO E Hc) as [e He]. rewrite He.
    exists [], e. split; [reflexivity|]. now rewrite app_nil_r.
Qed.

(* ---- from the first row: the whole pipeline on one row sequence ---- *)
(* options, routing, decoder construction, rows: the events yielded and the exception, if any *)
Definition decode_all (rows : list row) (md : list (str * str)) (delimited : bool) : list event * option exn :=
  match options_from_frame {| f_rows := rows; f_meta := md |} delimited with
  | Err e => ([], Some e)
  | Ok po =>
    match route (po_phys po) with
    | Err e => ([], Some e)
    | Ok ak =>
      match decoder_new po with
      | Err e => ([], Some e)
      | Ok st => rows_obs Generic ak po rows st
      end
    end
  end.

Theorem decoder_rejects (rows : list row) (i : nat) (c : vclass) (evs : list event) (md : list (str * str)) (delimited : bool) :
  rows <> [] -> run rows = Invalid i c evs -> catalogued c = true ->
  exists e, decode_all rows md delimited = (evs, Some e).
Proof.
  intros Hne. unfold run, decode_all.
  destruct rows as [|r0 rest]; [contradiction|].
  destruct r0 as [o|?|?|?|?|?|?| |?|];
    try (intros H Hc; inversion H; subst;
         match goal with |- context [options_from_frame {| f_rows := ?r :: rest; f_meta := md |} delimited] =>
           assert (Hr : forall o0, r <> ROptions o0) by (intros o0; discriminate);
           destruct (reject_missing_options {| f_rows := r :: rest; f_meta := md |} delimited r rest eq_refl Hr) as [e He];
           rewrite He; eauto
         end).
  destruct (start o) as [s0|c0] eqn:Es.
  - intros Hrun Hc.
    destruct (start_sim o s0 rest md delimited Es) as (ak & st0 & Hopt & Hroute & Hdec & HR & HO).
    rewrite Hopt. cbn [po_phys po_of]. rewrite Hroute, Hdec.
    unfold rows_obs. cbn [decode_rows decode_row].
    assert (Hself : woptions_eqb o (s_opts s0) = true).
    { unfold start in Es. repeat match type of Es with (if ?c then _ else _) = _ => destruct c; [discriminate|] end.
      inversion Es; subst; cbn. unfold woptions_eqb.
      assert (Hr : forall a, str_eqb a a = true) by (induction a as [|x a IH]; cbn; [reflexivity|now rewrite N.eqb_refl, IH]).
      rewrite Hr, !N.eqb_refl, !Bool.eqb_reflx. reflexivity. }
    rewrite (ro_valid _ _ _ HO o Hself).
    destruct (run_from_reject rest 1 i s0 [] evs c st0 ak _ HR HO Hrun Hc) as (out & e & Hobs & Hev).
    unfold rows_obs in Hobs. destruct (decode_rows Generic ak (po_of o delimited) rest st0) as [[st2 o2] err2].
    inversion Hobs; subst. cbn. eauto.
  - (* the options themselves are refused *)
    intros H Hc; inversion H; subst i c evs; clear H.
    unfold start in Es.
    destruct (negb ((1 <=? o_phys o) && (o_phys o <=? 3))) eqn:Ep.
    + (* unsupported stream type: refused when routing, at the latest *)
      unfold options_from_frame, first_options, bind; cbn.
      destruct (negb (type_compat (o_phys o) (o_logical o))); [eauto|].
      destruct (negb (preset_ok (o_maxn o) (o_maxp o) (o_maxd o))); [eauto|]. cbn [po_phys].
      assert (Hr : exists e, route (o_phys o) = Err e).
      { apply reject_unsupported_type. apply negb_true_iff, andb_false_iff in Ep.
        destruct Ep as [Ep|Ep]; apply N.leb_gt in Ep; lia. }
      destruct Hr as [e He]. rewrite He. eauto.
    + destruct (2 <? o_version o) eqn:Ev.
      * (* unsupported version: refused by the options row's own validation *)
        inversion Es; subst c0. apply N.ltb_lt in Ev.
        unfold options_from_frame, first_options, bind; cbn.
        destruct (negb (type_compat (o_phys o) (o_logical o))); [eauto|].
        destruct (negb (preset_ok (o_maxn o) (o_maxp o) (o_maxd o))); [eauto|]. cbn [po_phys].
        destruct (route (o_phys o)) as [ak|]; [|eauto].
        match goal with |- context [decoder_new ?po] => destruct (decoder_new po) as [st|] eqn:Ed; [|eauto] end.
        unfold rows_obs. cbn [decode_rows decode_row].
        rewrite reject_newer_version; [eauto| |exact Ev].
        cbn. unfold MAX_VERSION. destruct (2 <=? o_version o); lia.
      * (* BadOptions is not a catalogued class *)
        destruct (_ || _) in Es; [inversion Es; subst c0; discriminate|discriminate].
Qed.
