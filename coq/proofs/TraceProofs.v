(* TraceProofs.v -- C11, write side, in terms of the generator's trace: with a bounded flow the
   serializer never pulls more than frame_size statements from its input without handing a frame to
   the caller in between (the final pull that finds the input exhausted included). *)
From Coq Require Import Arith Lia.
From PJ.Model Require Import Base Lookup Terms Encoder Streams.
From PJ.Proofs Require Import EncoderProofs.

Definition pend (s : stream) : nat := length (fl_rows (st_flow s)).
Definition fsz (s : stream) : nat := N.to_nat (fl_frame_size (st_flow s)).

(* never more than n consecutive pulls without an emission; k = pulls since the last emission *)
Fixpoint gap_ok (n k : nat) (evs : list tev) : Prop :=
  match evs with
  | [] => True
  | Pull :: r => (S k <= n)%nat /\ gap_ok n (S k) r
  | Emit _ :: r => gap_ok n 0 r
  | Raise _ :: r => gap_ok n k r
  end.

Lemma encode_triple_rows ig terms t rp t' rp' rows : encode_triple ig terms t rp = Ok (t', rp', rows) -> (1 <= length rows)%nat.
Proof.
  unfold encode_triple, bind, nth_term. destruct terms as [|s [|p [|o rest]]]; cbn [nth_error]; try discriminate.
  - destruct (encode_slot _ _ _ _) as [[[[? ?] ?] ?]|]; discriminate.
  - destruct (encode_slot _ _ _ _) as [[[[t1 ?] ?] ?]|]; [|discriminate]. destruct (encode_slot _ _ _ t1) as [[[[? ?] ?] ?]|]; discriminate.
  - destruct (encode_slot _ _ _ _) as [[[[t1 r1] ?] ?]|]; [|discriminate]. destruct (encode_slot _ _ _ t1) as [[[[t2 r2] ?] ?]|]; [|discriminate].
    destruct (encode_slot _ _ _ t2) as [[[[t3 r3] ?] ?]|]; [|discriminate]. intros H; inversion H; subst. rewrite !app_length. cbn. lia.
Qed.

Lemma encode_quad_rows ig terms t rp t' rp' rows : encode_quad ig terms t rp = Ok (t', rp', rows) -> (1 <= length rows)%nat.
Proof.
  unfold encode_quad, bind, nth_term. destruct terms as [|s [|p [|o [|g rest]]]]; cbn [nth_error]; try discriminate.
  - destruct (encode_slot _ _ _ _) as [[[[? ?] ?] ?]|]; discriminate.
  - destruct (encode_slot _ _ _ _) as [[[[t1 ?] ?] ?]|]; [|discriminate]. destruct (encode_slot _ _ _ t1) as [[[[? ?] ?] ?]|]; discriminate.
  - destruct (encode_slot _ _ _ _) as [[[[t1 ?] ?] ?]|]; [|discriminate]. destruct (encode_slot _ _ _ t1) as [[[[t2 ?] ?] ?]|]; [|discriminate].
    destruct (encode_slot _ _ _ t2) as [[[[? ?] ?] ?]|]; discriminate.
  - destruct (encode_slot _ _ _ _) as [[[[t1 r1] ?] ?]|]; [|discriminate]. destruct (encode_slot _ _ _ t1) as [[[[t2 r2] ?] ?]|]; [|discriminate].
    destruct (encode_slot _ _ _ t2) as [[[[t3 r3] ?] ?]|]; [|discriminate]. destruct (encode_gslot _ _ _ t3) as [[[[t4 r4] ?] ?]|]; [|discriminate].
    intros H; inversion H; subst. rewrite !app_length. cbn. lia.
Qed.

(* one accepted statement on a bounded flow: either a frame goes out and nothing stays pending, or
   nothing goes out and the pending rows grew, staying below the frame size *)
Lemma bounded_step (f : flow) (rows : list row) :
  is_bounded (fl_kind f) = true -> (1 <= length rows)%nat ->
  let '(fl, fr) := frame_from_bounds (flow_extend f rows) in
  fl_frame_size fl = fl_frame_size f /\ fl_kind fl = fl_kind f /\
  ((fr = None /\ length (fl_rows fl) = (length (fl_rows f) + length rows)%nat /\ (length (fl_rows fl) < N.to_nat (fl_frame_size f))%nat) \/
   ((exists x, fr = Some x) /\ fl_rows fl = [])).
Proof.
  intros Hb Hr. unfold frame_from_bounds, flow_extend. cbn [fl_kind flow_set_rows fl_frame_size fl_rows]. rewrite Hb.
  destruct (fl_frame_size f <=? nlen (fl_rows f ++ rows)) eqn:E.
  - unfold to_stream_frame. cbn [fl_rows flow_set_rows]. destruct (fl_rows f ++ rows) as [|r0 rs] eqn:Er.
    + apply (f_equal (@length row)) in Er. rewrite app_length in Er. cbn in Er. lia.
    + cbn. split; [reflexivity|]. split; [reflexivity|]. right. split; [eauto|reflexivity].
  - cbn. split; [reflexivity|]. split; [reflexivity|]. left. split; [reflexivity|]. rewrite app_length. split; [reflexivity|].
    apply N.leb_gt in E. unfold nlen in E. rewrite app_length in E. lia.
Qed.

Definition step_shape (step : list term -> stream -> step_result) : Prop :=
  forall t s s1 fr, is_bounded (fl_kind (st_flow s)) = true -> step t s = (s1, Ok fr) ->
    fsz s1 = fsz s /\ is_bounded (fl_kind (st_flow s1)) = true /\
    ((fr = None /\ (pend s + 1 <= pend s1)%nat /\ (pend s1 < fsz s)%nat) \/ ((exists x, fr = Some x) /\ pend s1 = 0%nat)).

Lemma stream_triple_shape : step_shape stream_triple.
Proof.
  intros t s s1 fr Hb. unfold stream_triple, refuse. destruct (st_failed s); [discriminate|].
  destruct (encode_triple _ _ _ _) as [[[t' rp'] rows]|] eqn:E; [|discriminate].
  pose proof (encode_triple_rows _ _ _ _ _ _ _ E) as Hr. pose proof (bounded_step (st_flow s) rows Hb Hr) as H.
  destruct (frame_from_bounds (flow_extend (st_flow s) rows)) as [fl fr']. intros Q; inversion Q; subst.
  destruct H as (A & B & C). unfold fsz, pend. cbn [st_flow with_enc]. split; [now rewrite A|]. split; [now rewrite B|].
  destruct C as [(C1 & C2 & C3)|(C1 & C2)]; [left|right].
  - split; [exact C1|]. split; [lia|exact C3].
  - split; [exact C1|]. now rewrite C2.
Qed.

Lemma stream_quad_shape : step_shape stream_quad.
Proof.
  intros t s s1 fr Hb. unfold stream_quad, refuse. destruct (st_failed s); [discriminate|].
  destruct (encode_quad _ _ _ _) as [[[t' rp'] rows]|] eqn:E; [|discriminate].
  pose proof (encode_quad_rows _ _ _ _ _ _ _ E) as Hr. pose proof (bounded_step (st_flow s) rows Hb Hr) as H.
  destruct (frame_from_bounds (flow_extend (st_flow s) rows)) as [fl fr']. intros Q; inversion Q; subst.
  destruct H as (A & B & C). unfold fsz, pend. cbn [st_flow with_enc]. split; [now rewrite A|]. split; [now rewrite B|].
  destruct C as [(C1 & C2 & C3)|(C1 & C2)]; [left|right].
  - split; [exact C1|]. split; [lia|exact C3].
  - split; [exact C1|]. now rewrite C2.
Qed.

Theorem feed_gap (step : list term -> stream -> step_result) (stmts : list (list term)) : step_shape step ->
  forall (s s' : stream) (evs : list tev) (ok : bool) (k : nat),
    is_bounded (fl_kind (st_flow s)) = true -> (k <= pend s)%nat -> (pend s < fsz s)%nat ->
    feed step stmts s = (s', evs, ok) -> gap_ok (fsz s) k evs.
Proof.
  intros Hshape. induction stmts as [|st rest IH]; intros s s' evs ok k Hb Hk Hp; cbn [feed].
  - intros H; inversion H; subst. cbn. split; [lia|exact I].
  - destruct (step st s) as [s1 [fr|e]] eqn:E.
    + destruct (feed step rest s1) as [[s2 evs2] ok2] eqn:E2. intros H; inversion H; subst.
      destruct (Hshape _ _ _ _ Hb E) as (Hf & Hb1 & Hc). cbn [gap_ok]. split; [lia|].
      destruct Hc as [(-> & C2 & C3)|([x ->] & C2)]; cbn [emit_opt app gap_ok].
      * rewrite <- Hf. eapply (IH s1 _ _ _ (S k) Hb1); [lia|lia|exact E2].
      * rewrite <- Hf. eapply (IH s1 _ _ _ 0%nat Hb1); [lia|lia|exact E2].
    + intros H; inversion H; subst. cbn. split; [lia|exact I].
Qed.

(* whole generators: a fresh flat TripleStream / QuadStream with a bounded flow *)
Theorem triples_trace_gap (stmts : list (list term)) (s s' : stream) (evs : list tev) (ok : bool) :
  is_bounded (fl_kind (st_flow s)) = true -> (pend s < fsz s)%nat ->
  feed stream_triple stmts s = (s', evs, ok) -> gap_ok (fsz s) 0 evs.
Proof. intros Hb Hp H. eapply (feed_gap stream_triple stmts stream_triple_shape); eauto. lia. Qed.

Theorem quads_trace_gap (stmts : list (list term)) (s s' : stream) (evs : list tev) (ok : bool) :
  is_bounded (fl_kind (st_flow s)) = true -> (pend s < fsz s)%nat ->
  feed stream_quad stmts s = (s', evs, ok) -> gap_ok (fsz s) 0 evs.
Proof. intros Hb Hp H. eapply (feed_gap stream_quad stmts stream_quad_shape); eauto. lia. Qed.
