(* EncPoisonGraphs.v -- C20 for GraphStream: graph() calls driven with catch-and-continue.  Graphs
   accepted in full are written in full; the first rejected graph contributes its graph start and the
   triples accepted before the rejection (the model, like the code, has appended them already) and
   closes the stream; every later call is refused without a trace.  What is written is a valid
   stream denoting exactly those statements. *)
From Coq Require Import Arith Lia.
From PJ.Model Require Import Base Lookup Terms Encoder Streams Spec.
From PJ.Proofs Require Import Mirror MirrorRun DecoderSound EncLookup Den EncoderProofs FlowProofs EncTerm EncStmt EncStream EncPoison EncGraphs.

Lemma graph_triples_partial (g : term) (ts : list (list term)) : forall (s s' : stream) (evs : list tev) (ss : sstate),
  st_integ s = Generic -> JS (st_enc s) (st_rep s) ss -> phys ss = 3 -> s_open ss = Some (norm g) ->
  graph_triples ts s = (s', evs, false) ->
  exists ss', steps (appended_triples ts s) ss = SOk (ss', flat_map (quad_event g) (accepted stream_triple ts s)) /\
              emitted_rows evs ++ fl_rows (st_flow s') = fl_rows (st_flow s) ++ appended_triples ts s /\
              st_failed s' = true.
Proof.
  induction ts as [|tr rest IH]; intros s s' evs ss Hig HJ Hph Hop; cbn [graph_triples appended_triples appended_all accepted flat_map].
  - intros H; inversion H.
  - destruct (stream_triple tr s) as [s1 [fr|e]] eqn:E.
    + destruct (graph_triples rest s1) as [[s2 evs2] ok2] eqn:E2. intros H; inversion H; subst.
      destruct (stream_triple_encode _ _ _ _ E) as [Henc Hig1]. rewrite Hig in Henc.
      destruct (encode_triple_valid_in_graph _ _ _ _ _ _ _ _ HJ Hph Hop Henc) as (a & b & c & tl & ss1 & Hst & Hsteps & HJ1 & Ho & Hop1).
      assert (Hph1 : phys ss1 = 3) by (unfold phys in *; congruence).
      destruct (IH _ _ _ ss1 (eq_trans Hig1 Hig) HJ1 Hph1 Hop1 E2) as (ss2 & Hrest & Hcons & Hf).
      exists ss2. fold appended_triples. split; [rewrite steps_app, Hsteps, Hrest; subst tr; reflexivity|]. split; [|exact Hf].
      rewrite emitted_rows_app, emitted_rows_emit_opt. rewrite <- app_assoc, Hcons.
      rewrite app_assoc. rewrite (stream_triple_conserves _ _ _ _ E). now rewrite <- app_assoc.
    + intros H; inversion H; subst.
      destruct (rejection_closes tr s s' e (or_introl E)) as (Hf & Hfl & _ & _).
      exists ss. cbn. rewrite Hfl, app_nil_r. auto.
Qed.

(* what one graph() call leaves behind when it is rejected *)
Definition partial_events (g : term) (ts : list (list term)) (s : stream) : list event :=
  if st_failed s then [] else
  match encode_graph_start Generic g (st_enc s) with
  | Err _ => []
  | Ok (t', rows) =>
    flat_map (quad_event g) (accepted stream_triple ts (with_enc s t' (st_rep s) (flow_extend (st_flow s) rows)))
  end.

Definition partial_rows (g : term) (ts : list (list term)) (s : stream) : list row :=
  if st_failed s then [] else
  match encode_graph_start Generic g (st_enc s) with
  | Err _ => []
  | Ok (t', rows) => rows ++ appended_triples ts (with_enc s t' (st_rep s) (flow_extend (st_flow s) rows))
  end.

Lemma stream_graph_rejected (g : term) (ts : list (list term)) (s s' : stream) (evs : list tev) (ss : sstate) :
  st_integ s = Generic -> JS (st_enc s) (st_rep s) ss -> phys ss = 3 ->
  stream_graph g ts s = (s', evs, false) ->
  exists ss', steps (partial_rows g ts s) ss = SOk (ss', partial_events g ts s) /\
              emitted_rows evs ++ fl_rows (st_flow s') = fl_rows (st_flow s) ++ partial_rows g ts s /\
              st_failed s' = true.
Proof.
  intros Hig HJ Hph. unfold stream_graph, partial_rows, partial_events. rewrite Hig.
  destruct (st_failed s) eqn:F.
  - intros H; inversion H; subst. exists ss. cbn. rewrite app_nil_r. auto.
  - destruct (encode_graph_start Generic g (st_enc s)) as [[t' rows]|] eqn:Eg.
    + set (s1 := with_enc s t' (st_rep s) (flow_extend (st_flow s) rows)).
      destruct (graph_triples ts s1) as [[s2 evs2] ok] eqn:Et. destruct ok.
      * destruct (frame_from_bounds _). intros H; inversion H.
      * intros H; inversion H; subst s' evs; clear H.
        destruct (encode_graph_start_valid _ _ _ _ _ _ HJ Hph Eg) as (ss1 & S1 & J1 & O1 & Op1).
        assert (Hph1 : phys ss1 = 3) by (unfold phys in *; congruence).
        destruct (graph_triples_partial g ts s1 s2 evs2 ss1 Hig J1 Hph1 Op1 Et) as (ss2 & S2 & Hcons & Hf).
        exists ss2. split; [rewrite steps_app, S1, S2; reflexivity|]. split; [|exact Hf].
        rewrite Hcons. subst s1. cbn. now rewrite <- app_assoc.
    + intros H; inversion H; subst. exists ss. cbn. rewrite app_nil_r. auto.
Qed.

(* catch-and-continue over graph() calls *)
Fixpoint drive_graphs (gs : list (term * list (list term))) (s : stream) : stream * list tev :=
  match gs with
  | [] => (s, [])
  | (g, ts) :: rest =>
    let '(s', evs, _) := stream_graph g ts s in
    let '(s'', evs') := drive_graphs rest s' in (s'', evs ++ evs')
  end.

Fixpoint accepted_events (gs : list (term * list (list term))) (s : stream) : list event :=
  match gs with
  | [] => []
  | (g, ts) :: rest =>
    match stream_graph g ts s with
    | (s', _, true) => flat_map (quad_event g) ts ++ accepted_events rest s'
    | (_, _, false) => partial_events g ts s
    end
  end.

Lemma drive_graphs_failed gs : forall s, st_failed s = true ->
  fst (drive_graphs gs s) = s /\ emitted_rows (snd (drive_graphs gs s)) = [].
Proof.
  induction gs as [|[g ts] rest IH]; intros s Hf; cbn [drive_graphs]; [auto|].
  destruct (failed_stream_refuses_all s g ts [] [] Hf) as [H1 _]. rewrite H1.
  specialize (IH s Hf). destruct (drive_graphs rest s) as [s2 evs2]. cbn in *. destruct IH as [A B]. split; [exact A|exact B].
Qed.

Theorem drive_graphs_valid (gs : list (term * list (list term))) : forall (s : stream) (ss : sstate),
  st_integ s = Generic -> JS (st_enc s) (st_rep s) ss -> phys ss = 3 ->
  let '(s', evs) := drive_graphs gs s in
  exists rows ss',
    emitted_rows evs ++ fl_rows (st_flow s') = fl_rows (st_flow s) ++ rows /\
    steps rows ss = SOk (ss', accepted_events gs s).
Proof.
  induction gs as [|[g ts] rest IH]; intros s ss Hig HJ Hph; cbn [drive_graphs accepted_events].
  - exists [], ss. cbn. now rewrite app_nil_r.
  - destruct (stream_graph g ts s) as [[s1 evs1] ok] eqn:E. destruct ok.
    + destruct (stream_graph_valid _ _ _ _ _ _ Hig HJ Hph E) as (ss1 & S1 & J1 & O1 & Hig1 & Hc1).
      assert (Hph1 : phys ss1 = 3) by (unfold phys in *; congruence).
      specialize (IH s1 ss1 Hig1 J1 Hph1). destruct (drive_graphs rest s1) as [s2 evs2]. destruct IH as (rows & ss2 & Hc & Hs).
      exists (graph_rows g ts s ++ rows), ss2. split.
      * rewrite emitted_rows_app. rewrite <- app_assoc, Hc. rewrite app_assoc, Hc1. now rewrite <- app_assoc.
      * rewrite steps_app, S1, Hs. reflexivity.
    + destruct (stream_graph_rejected _ _ _ _ _ _ Hig HJ Hph E) as (ss1 & S1 & Hc1 & Hf).
      destruct (drive_graphs_failed rest s1 Hf) as [H1 H2].
      destruct (drive_graphs rest s1) as [s2 evs2]. cbn in H1, H2. subst s2.
      exists (partial_rows g ts s), ss1. split; [|exact S1].
      rewrite emitted_rows_app, H2, app_nil_r. exact Hc1.
Qed.

Theorem catch_and_continue_graphs (o : soptions) (s : stream) (gs : list (term * list (list term))) :
  stream_new GraphStream Generic o = Ok s -> cfg_ok o (st_logical s) -> fl_rows (st_flow s) = [] ->
  let '(s', evs) := drive_graphs gs (enroll s) in
  run (emitted_rows evs ++ fl_rows (st_flow s')) = Valid (accepted_events gs (enroll s)).
Proof.
  intros Hnew Hcfg Hfresh.
  destruct (start_of_stream _ _ _ Hnew Hcfg) as (w & ss0 & Hrow & Hstart & HJ & Hph & Hig & Hfl & Henc & Hrep & Hig' & Hopts & Hver & Ho).
  assert (HJ' : JS (st_enc (enroll s)) (st_rep (enroll s)) ss0) by (rewrite Henc, Hrep; exact HJ).
  pose proof (drive_graphs_valid gs (enroll s) ss0 Hig' HJ' Hph) as H.
  destruct (drive_graphs gs (enroll s)) as [s' evs]. destruct H as (rows & ss' & Hc & Hs).
  rewrite Hc, Hfl, Hfresh. cbn [app run]. rewrite Hstart. rewrite (steps_run_from _ 1 _ [] _ _ Hs). reflexivity.
Qed.
