(* HeaderBytes.v -- C13 from bytes: the options a stream was created with are exactly the options
   the reader derives from the bytes that stream writes, delimited or not. *)
From Coq Require Import Arith Lia.
From PJ.Model Require Import Base Lookup Terms Wire Encoder Streams Decoder Spec.
From PJ.Proofs Require Import HintProofs WireProofs WireRT OptionsProofs BytesE2E.

Definition expected_options (c : stream_class) (o : soptions) (s : stream) (d : bool) : poptions :=
  {| po_phys := physical_type c; po_logical := st_logical s;
     po_maxn := so_maxn o; po_maxp := so_maxp o; po_maxd := so_maxd o;
     po_name := p_name (so_params o); po_gen := p_gen (so_params o); po_star := p_star (so_params o);
     po_version := if p_nd (so_params o) then 2 else 1; po_delimited := d; po_nd := p_nd (so_params o) |}.

Theorem header_from_bytes_delimited (c : stream_class) (ig : integ) (o : soptions) (s : stream)
    (rows : list row) (md : list (str * str)) (rest : list frame) :
  stream_new c ig o = Ok s ->
  let f := {| f_rows := options_row s :: rows; f_meta := md |} in
  Forall sendable (f :: rest) ->
  get_options_and_frames (write_delimited (f :: rest)) = Ok (expected_options c o s true, f :: rest, FiEof, 1%nat).
Proof.
  intros Hnew f Hs.
  assert (Hlong : (3 <= length (write_delimited (f :: rest)))%nat).
  { apply write_delimited_long. cbn [flat_map f_rows f]. discriminate. }
  assert (Hhint : hint (firstn 3 (write_delimited (f :: rest))) = true).
  { apply write_delimited_detected; [right; cbn; discriminate|exact Hlong]. }
  unfold get_options_and_frames, get_options_and_frames_h. rewrite Hhint.
  rewrite (read_frames_delimited_wf _ Hs). cbn [skip_empty f_rows f is_nil].
  unfold f. rewrite (header_fidelity c ig o s rows md true Hnew). reflexivity.
Qed.

Theorem header_from_bytes_single (c : stream_class) (ig : integ) (o : soptions) (s : stream)
    (rows : list row) (md : list (str * str)) :
  stream_new c ig o = Ok s ->
  let f := {| f_rows := options_row s :: rows; f_meta := md |} in
  sendable f ->
  get_options_and_frames (write_single f) = Ok (expected_options c o s false, [f], FiEof, 1%nat).
Proof.
  intros Hnew f [Hwf Hsm].
  assert (Hhint : hint (firstn 3 (write_single f)) = false).
  { unfold f, options_row. apply write_single_detected. }
  unfold get_options_and_frames, get_options_and_frames_h. rewrite Hhint.
  unfold write_single. rewrite (parse_frame_ser f Hwf Hsm). cbn [f_rows f is_nil].
  unfold f. rewrite (header_fidelity c ig o s rows md false Hnew). reflexivity.
Qed.
