(* AuditBase.v -- C19: "clean" rows.  [row_clean r s s' lg] says the audit of Audit.v counts nothing
   against row r read in referee state s (leading to s'): no redundant entry, no missed elision, no
   missed zero form, no repeated graph start.  [all_clean] runs it along a row list; it is tied to
   Audit.audit below.  Also: what an entry_index miss tells about the referee's table. *)
From Coq Require Import Arith Lia.
From PJ.Model Require Import Base Lookup Terms Encoder Spec Audit.
From PJ.Proofs Require Import Mirror MirrorRun Recency DecoderSound EncLookup EncoderProofs EncTerm.

Definition clean (c : counters) : Prop :=
  c_redundant c = 0 /\ c_elision c = 0 /\ c_zero c = 0 /\ c_gstart c = 0.

Lemma clean_means c : clean c <-> (c_redundant c = 0 /\ c_elision c = 0 /\ c_zero c = 0 /\ c_gstart c = 0).
Proof. reflexivity. Qed.

Lemma clean_zero : clean zero_counters. Proof. repeat split. Qed.
Lemma clean_cadd a b : clean a -> clean b -> clean (cadd a b).
Proof. intros (A1 & A2 & A3 & A4) (B1 & B2 & B3 & B4). unfold clean, cadd; cbn. lia. Qed.

(* the graph-start bookkeeping of audit_from, factored out *)
Definition gs_counters (r : row) (s' : sstate) (lg : option term) : counters * option term :=
  match r with
  | RGraphStart _ =>
    match s_open s', lg with
    | Some g, Some g0 => ({| c_redundant := 0; c_elision := 0; c_zero := 0; c_gstart := b2n (term_eqb g g0); c_entries := 0 |}, Some g)
    | Some g, None => (zero_counters, Some g)
    | None, _ => (zero_counters, lg)
    end
  | _ => (zero_counters, lg)
  end.

Definition row_counters (r : row) (s s' : sstate) (lg : option term) : counters :=
  cadd (audit_row r s s') (fst (gs_counters r s' lg)).
Definition next_lg (r : row) (s' : sstate) (lg : option term) : option term := snd (gs_counters r s' lg).

(* counters of a row list, with the final referee state and last graph *)
Fixpoint aud (rows : list row) (s : sstate) (lg : option term) : option (sstate * option term * counters) :=
  match rows with
  | [] => Some (s, lg, zero_counters)
  | r :: rest =>
    match step r s with
    | SBad _ => None
    | SOk (s', _) =>
      match aud rest s' (next_lg r s' lg) with
      | Some (s2, lg2, c2) => Some (s2, lg2, cadd (row_counters r s s' lg) c2)
      | None => None
      end
    end
  end.

Lemma cadd_assoc a b c : cadd (cadd a b) c = cadd a (cadd b c).
Proof. unfold cadd; cbn. f_equal; lia. Qed.
Lemma cadd_zero_r a : cadd a zero_counters = a.
Proof. destruct a; unfold cadd, zero_counters; cbn. f_equal; lia. Qed.
Lemma cadd_zero_l a : cadd zero_counters a = a.
Proof. destruct a; unfold cadd, zero_counters; cbn. f_equal; lia. Qed.

(* aud is audit_from *)
Lemma audit_from_aud rows : forall s lg acc,
  audit_from rows s lg acc = match aud rows s lg with Some (_, _, c) => Some (cadd acc c) | None => None end.
Proof.
  induction rows as [|r rest IH]; intros s lg acc; cbn [audit_from aud].
  - now rewrite cadd_zero_r.
  - destruct (step r s) as [[s' ev]|]; [|reflexivity].
    assert (E : (let '(c', lastg') :=
                   match r with
                   | RGraphStart _ =>
                     match s_open s', lg with
                     | Some g, Some g0 => (cadd (audit_row r s s') {| c_redundant := 0; c_elision := 0; c_zero := 0; c_gstart := b2n (term_eqb g g0); c_entries := 0 |}, Some g)
                     | Some g, None => (audit_row r s s', Some g)
                     | None, _ => (audit_row r s s', lg)
                     end
                   | _ => (audit_row r s s', lg)
                   end in audit_from rest s' lastg' (cadd acc c')) =
                audit_from rest s' (next_lg r s' lg) (cadd acc (row_counters r s s' lg))).
    { unfold next_lg, row_counters, gs_counters.
      destruct r; cbn [fst snd]; rewrite ?cadd_zero_r; try reflexivity.
      destruct (s_open s'); [destruct lg|]; cbn [fst snd]; rewrite ?cadd_zero_r; reflexivity. }
    etransitivity; [exact E|]. rewrite IH.
    destruct (aud rest s' (next_lg r s' lg)) as [[[s2 lg2] c2]|]; [|reflexivity]. now rewrite cadd_assoc.
Qed.

Lemma aud_app a b : forall s lg,
  aud (a ++ b) s lg =
  match aud a s lg with
  | Some (s1, lg1, c1) => match aud b s1 lg1 with Some (s2, lg2, c2) => Some (s2, lg2, cadd c1 c2) | None => None end
  | None => None
  end.
Proof.
  induction a as [|r a IH]; intros s lg; cbn [app aud].
  - destruct (aud b s lg) as [[[s2 lg2] c2]|]; [|reflexivity]. now rewrite cadd_zero_l.
  - destruct (step r s) as [[s' ev]|]; [|reflexivity]. rewrite IH.
    destruct (aud a s' (next_lg r s' lg)) as [[[s1 lg1] c1]|]; [|reflexivity].
    destruct (aud b s1 lg1) as [[[s2 lg2] c2]|]; [|reflexivity]. now rewrite cadd_assoc.
Qed.

(* clean runs: the counters of the rows are clean; the state is the one [steps] computes *)
Definition Clean (rows : list row) (s : sstate) (lg : option term) (s' : sstate) (lg' : option term) : Prop :=
  exists c, aud rows s lg = Some (s', lg', c) /\ clean c.

Lemma Clean_nil s lg : Clean [] s lg s lg.
Proof. exists zero_counters. split; [reflexivity|apply clean_zero]. Qed.

Lemma Clean_app a b s lg s1 lg1 s2 lg2 : Clean a s lg s1 lg1 -> Clean b s1 lg1 s2 lg2 -> Clean (a ++ b) s lg s2 lg2.
Proof.
  intros (c1 & A1 & C1) (c2 & A2 & C2). exists (cadd c1 c2). rewrite aud_app, A1, A2. split; [reflexivity|now apply clean_cadd].
Qed.

Lemma Clean_one r s lg s' ev : step r s = SOk (s', ev) -> clean (row_counters r s s' lg) ->
  Clean [r] s lg s' (next_lg r s' lg).
Proof.
  intros Hs Hc. exists (row_counters r s s' lg). cbn [aud]. rewrite Hs. rewrite cadd_zero_r. split; [reflexivity|exact Hc].
Qed.

(* the state part of aud is steps *)
Lemma aud_steps rows : forall s lg s' lg' c, aud rows s lg = Some (s', lg', c) -> exists evs, steps rows s = SOk (s', evs).
Proof.
  induction rows as [|r rest IH]; intros s lg s' lg' c; cbn [aud steps].
  - intros H; inversion H; subst. eauto.
  - destruct (step r s) as [[s1 e1]|]; [|discriminate].
    destruct (aud rest s1 (next_lg r s1 lg)) as [[[s2 lg2] c2]|] eqn:E; [|discriminate]. intros H; inversion H; subst.
    destruct (IH _ _ _ _ _ E) as [evs He]. rewrite He. eauto.
Qed.

Lemma Clean_steps rows s lg s' lg' : Clean rows s lg s' lg' -> exists evs, steps rows s = SOk (s', evs).
Proof. intros (c & A & _). eapply aud_steps; eauto. Qed.

(* ---------- lookup level: what a miss means for the referee's table ---------- *)
Lemma resident_nth v (T : table) : resident v T = true -> exists j, nth_error T j = Some (Some v).
Proof.
  induction T as [|[x|] T IH]; cbn; [discriminate| |].
  - destruct (str_eqb_spec v x) as [->|Hne]; cbn.
    + intros _. exists 0%nat. reflexivity.
    + intros H. destruct (IH H) as [j Hj]. exists (S j). exact Hj.
  - intros H. destruct (IH H) as [j Hj]. exists (S j). exact Hj.
Qed.

Theorem entry_index_audit (tb tb' : slenc) (keys keys' : list str) (k : str) (id : N) (T : table) (la : N) :
  InvT tb T la -> entry_index tb keys k = Ok (tb', keys', Some id) ->
  resident k T = false /\ (id = 0 \/ id <> la + 1).
Proof.
  intros [HI HC]. unfold entry_index. destruct (lmax tb <? nlen (set_add k keys)); [discriminate|].
  destruct (encode_entry_index str_eqb k tb) as [[t1 oe1]|] eqn:Ee; [|discriminate].
  intros H; inversion H; subst t1 keys' oe1; clear H.
  pose proof HI as [Hp Hs Hk Hi Hr Hm Hfl Hfu Hla Hlr]. cbn in Hla.
  split.
  - destruct (resident k T) eqn:Er; [|reflexivity]. exfalso.
    destruct (resident_nth _ _ Er) as [j Hj]. specialize (HC _ _ Hj).
    apply (In_find str_eqb str_eqb_spec) in HC; [|exact Hk].
    unfold encode_entry_index, move_to_end in Ee. rewrite HC in Ee. discriminate.
  - destruct (sequential_entry_uses_zero _ _ _ _ Ee) as [->|[Hne _]]; [now left|right]. rewrite <- Hla. exact Hne.
Qed.
