(* RdflibFlush.v -- C06 for the rdflib copies of the generators (hand-copied in the code, so also here):
   when they end without raising nothing is left in the flow; and C15 at the level of whole parses:
   the events a parse yields do not depend on the flat / grouped entry point, and on streams without
   quoted triples not on the integration either. *)
From Coq Require Import Arith Lia.
From PJ.Model Require Import Base Lookup Terms Wire Encoder Streams Decoder.
From PJ.Proofs Require Import EncoderProofs FlowProofs EncRdflibDataset EncRdflibQuads AgreeProofs.

Theorem rdf_stream_frames_flushes (d : rdata) (s s' : stream) (evs : list tev) :
  rdf_stream_frames d s = (s', evs) -> raised evs = None -> fl_rows (st_flow s') = [].
Proof.
  unfold rdf_stream_frames. destruct (st_class s).
  - unfold rdf_triples_stream_frames.
    destruct (rdf_ns_phase true d (enroll s)) as [s1 [u|e]]; [|intros H; inversion H; subst; cbn; discriminate].
    destruct (rdf_feed_triple_graphs _ s1) as [[s2 evs2] ok] eqn:E. destruct ok.
    + pose proof (to_stream_frame_empties (st_flow s2)) as Hc. destruct (to_stream_frame (st_flow s2)) as [fl fr].
      intros H _; inversion H; subst. exact Hc.
    + intros H Hr; inversion H; subst. exfalso. eapply rdf_feed_not_ok; eauto.
  - unfold rdf_quads_stream_frames.
    destruct (rdf_ns_phase false d (enroll s)) as [s1 [u|e]]; [|intros H; inversion H; subst; cbn; discriminate].
    destruct (feed stream_quad (rd_stmts d) s1) as [[s2 evs2] ok] eqn:E. destruct ok.
    + destruct (finish false s2) as [s3 fin] eqn:F. intros H _; inversion H; subst. eapply finish_flushes; eauto.
    + intros H Hr; inversion H; subst. exfalso. eapply feed_not_ok_raises; eauto.
  - unfold rdf_graphs_stream_frames.
    destruct (rdf_ns_phase false d (enroll s)) as [s1 [u|e]]; [|intros H; inversion H; subst; cbn; discriminate].
    destruct (feed_graphs (rd_graphs d) s1) as [[s2 evs2] ok] eqn:E. destruct ok.
    + destruct (finish false s2) as [s3 fin] eqn:F. intros H _; inversion H; subst. eapply finish_flushes; eauto.
    + intros H Hr; inversion H; subst. exfalso. rewrite raised_app in Hr.
      assert (Hpre : raised (match rd_kind d with RGen => Pull :: pulls (length (rd_stmts d)) | _ => [] end) = None)
        by (destruct (rd_kind d); try reflexivity; apply (pulls_raised (S (length (rd_stmts d))))).
      rewrite Hpre in Hr. eapply feed_graphs_not_ok; eauto.
Qed.

(* the events of a (non-strict) parse do not depend on the flat / grouped entry point *)
Theorem parse_entry_points_agree (ig : integ) (g1 g2 : bool) (b : list N) :
  parse_stream ig g1 false b = parse_stream ig g2 false b.
Proof. reflexivity. Qed.

(* ---- C07, writing, rdflib: grouped_stream_to_frames over Graph sinks is the generic grouped write ---- *)
From PJ.Model Require Import Api.
From PJ.Proofs Require Import EncRdflib GroupedProofs.

Lemma rdf_grouped_as_generic (sinks : list rdata) : forall (s : stream),
  Forall (fun d => rd_kind d <> RDataset) sinks -> st_class s = TripleStream ->
  rdf_grouped_frames sinks s = grouped_frames (map sdata_of sinks) s.
Proof.
  induction sinks as [|d rest IH]; intros s Hk Hc; cbn [rdf_grouped_frames grouped_frames map]; [reflexivity|].
  inversion Hk as [|? ? Hd Hrest]; subst.
  unfold rdf_stream_frames, stream_frames. rewrite Hc. rewrite (rdf_triples_as_generic d s Hd).
  destruct (triples_stream_frames (sdata_of d) s) as [s1 evs1] eqn:E.
  destruct (raised evs1); [reflexivity|].
  rewrite (IH s1 Hrest); [reflexivity|]. rewrite (triples_stream_frames_class _ _ _ _ E). exact Hc.
Qed.

Theorem rdf_grouped_write_one_frame_per_graph (sinks : list rdata) (s s' : stream) (evs : list tev) :
  Forall (fun d => rd_kind d <> RDataset) sinks -> st_class s = TripleStream -> fl_kind (st_flow s) = FGraphs ->
  rdf_grouped_frames sinks s = (s', evs) -> raised evs = None ->
  emitted evs = flat_map one_frame (per_sink_rows (map sdata_of sinks) s).
Proof.
  intros Hk Hc Hf Hrun Hr. rewrite (rdf_grouped_as_generic sinks s Hk Hc) in Hrun.
  exact (grouped_write_one_frame_per_sink _ _ _ _ Hc Hf Hrun Hr).
Qed.
