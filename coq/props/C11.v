(* C11 -- bounded buffering on write, no read-ahead needed on parse. *)
From PJ.Model Require Import Base Terms Encoder Streams Decoder.
From PJ.Proofs Require Import EncoderProofs DecoderProofs.

(* Write side: with a bounded flow (the flat delimited case) of frame size >= 1, after every
   accepted statement fewer than frame_size rows are pending -- over whole inputs of any length. *)
Theorem C11_pending_below_frame_size :
  forall (stmts : list (list term)) (s s' : stream) (evs : list tev) (ok : bool),
    bounded_stream s -> pending_ok s ->
    (feed stream_triple stmts s = (s', evs, ok) \/ feed stream_quad stmts s = (s', evs, ok)) ->
    pending_ok s' /\ bounded_stream s'.
Proof.
  intros stmts s s' evs ok Hb Hp [H|H].
  - exact (feed_pending stream_triple stmts s s' evs ok stream_triple_pending step_err_keeps_flow_triple Hb Hp H).
  - exact (feed_pending stream_quad stmts s s' evs ok stream_quad_pending step_err_keeps_flow_quad Hb Hp H).
Qed.
Print Assumptions C11_pending_below_frame_size.

(* a constructed flow never has frame size 0 *)
Theorem C11_frame_size_positive : forall k l fs, 1 <= fl_frame_size (flow_new k l fs).
Proof. exact flow_new_frame_size. Qed.
Print Assumptions C11_frame_size_positive.

(* Read side: the items of frames 1..j are determined by frames 1..j alone. *)
Theorem C11_no_read_ahead :
  forall (ig : integ) (ak : adapter_kind) (po : poptions) (fs1 fs2 : list frame) (st : dstate),
    exists tail, decode_frames ig ak po (fs1 ++ fs2) st = decode_frames ig ak po fs1 st ++ tail /\
                 (last_err (decode_frames ig ak po fs1 st) <> None -> tail = []).
Proof. exact frames_prefix. Qed.
Print Assumptions C11_no_read_ahead.

(* In terms of the generator's trace (Pull = next() on the caller's iterator, Emit = a frame handed
   to the caller): with a bounded flow the serializer never pulls more than frame_size statements
   without handing out a frame in between -- the pull that finds the input exhausted included. *)
From PJ.Proofs Require Import TraceProofs.
Theorem C11_never_pulls_far_ahead_triples :
  forall (stmts : list (list term)) (s s' : stream) (evs : list tev) (ok : bool),
    is_bounded (fl_kind (st_flow s)) = true -> (pend s < fsz s)%nat ->
    feed stream_triple stmts s = (s', evs, ok) -> gap_ok (fsz s) 0 evs.
Proof. exact triples_trace_gap. Qed.
Print Assumptions C11_never_pulls_far_ahead_triples.

Theorem C11_never_pulls_far_ahead_quads :
  forall (stmts : list (list term)) (s s' : stream) (evs : list tev) (ok : bool),
    is_bounded (fl_kind (st_flow s)) = true -> (pend s < fsz s)%nat ->
    feed stream_quad stmts s = (s', evs, ok) -> gap_ok (fsz s) 0 evs.
Proof. exact quads_trace_gap. Qed.
Print Assumptions C11_never_pulls_far_ahead_quads.

(* Read side, from bytes: what the parser yields for the frames delivered so far does not depend on the
   bytes that follow them -- more frames, a fragment of one, garbage, or nothing.  No look-ahead beyond
   the frame being read is ever needed to decide what a delivered frame means. *)
From PJ.Model Require Import Wire Spec.
From PJ.Proofs Require Import WireProofs WireRT BytesE2E.
Theorem C11_delivered_frames_decide_from_bytes :
  forall (fs1 : list frame) (rest : list N) (evs1 : list event) (grouped : bool),
    run_frames fs1 = Valid evs1 -> Forall small fs1 ->
    (match fs1 with g :: _ => (f_rows g = [] /\ f_meta g = []) \/ f_rows g <> [] | [] => True end) ->
    let r := parse_stream Generic grouped false (write_delimited fs1 ++ rest) in
    exists tail, flat_events r = evs1 ++ tail /\ (length fs1 <= length (pr_frames r))%nat.
Proof. exact delivered_frames_decide_bytes. Qed.
Print Assumptions C11_delivered_frames_decide_from_bytes.

Theorem C11_frames_read_regardless_of_what_follows :
  forall (fs1 : list frame) (rest : list N),
    Forall sendable fs1 ->
    read_frames (write_delimited fs1 ++ rest) = let '(fs', e) := read_frames rest in (fs1 ++ fs', e).
Proof. exact read_frames_prefix. Qed.
Print Assumptions C11_frames_read_regardless_of_what_follows.
