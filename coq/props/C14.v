(* C14 -- namespace declarations round-trip and never affect statements. *)
From PJ.Model Require Import Base Terms Encoder Streams.
From PJ.Proofs Require Import EncoderProofs.

(* With the option off the namespace phase does nothing: no declaration row, no table touched. *)
Theorem C14_off_writes_nothing :
  forall (always : bool) (d : sdata) (s : stream),
    p_nd (so_params (st_opts s)) = false -> ns_phase always d s = (s, Ok tt).
Proof. exact ns_phase_off. Qed.
Print Assumptions C14_off_writes_nothing.

(* The declared protocol version is 2 exactly when declarations are enabled. *)
Theorem C14_version_iff_declarations :
  forall p : sparams, params_version p = 2 <-> p_nd p = true.
Proof. exact version_iff_declarations. Qed.
Print Assumptions C14_version_iff_declarations.

(* A namespace IRI loses nothing in the prefix/name split. *)
Theorem C14_split_iri_lossless : forall iri : str, let '(p, n) := split_iri iri in p ++ n = iri.
Proof. exact split_iri_app. Qed.
Print Assumptions C14_split_iri_lossless.

From PJ.Model Require Import Spec Decoder.
From PJ.Proofs Require Import EncTerm EncStmt EncStream EncNamespace DecoderSound DecoderProofs.

(* Every (prefix, IRI) bound on the sink is denoted by the written stream as a Prefix event with the
   same name and the same IRI, in binding order, before the statements -- and the statements are
   the same whether declarations are on or off (ns_events is [] when the option is off).  Any table
   sizes the writer accepts, incl. ones where declarations evict. *)
Theorem C14_declarations_and_statements :
  forall (o : soptions) (s s' : stream) (d : sdata) (evs : list tev),
    stream_new TripleStream Generic o = Ok s -> cfg_ok o (st_logical s) -> fl_rows (st_flow s) = [] ->
    triples_stream_frames d s = (s', evs) -> raised evs = None ->
    run (flat_map f_rows (emitted evs)) = Valid (ns_events o d ++ flat_map event_of_triple (d_stmts d)).
Proof. exact triples_stream_valid_ns. Qed.
Print Assumptions C14_declarations_and_statements.

(* One declaration from any inter-statement state: accepted by the referee as exactly
   Prefix name iri, invariant kept. *)
Theorem C14_one_declaration :
  forall (name iri : str) (t t' : tenc) (rp : repeated) (rows : list row) (ss : sstate),
    JS t rp ss -> 2 <= o_version (s_opts ss) ->
    encode_namespace_declaration name iri t = Ok (t', rows) ->
    exists ss', steps rows ss = SOk (ss', [EPrefix name iri]) /\ JS t' rp ss' /\ s_opts ss' = s_opts ss /\ s_open ss' = s_open ss.
Proof. exact encode_namespace_valid. Qed.
Print Assumptions C14_one_declaration.

(* ... and the reader delivers what the stream denotes (C04), so the declarations arrive. *)
Theorem C14_reader_delivers_declarations :
  forall (fs : list frame) (evs : list event) (dl : bool),
    run_frames fs = Valid evs ->
    exists po ak st0 sk first more,
      skip_empty fs = (sk, first :: more) /\ options_from_frame first dl = Ok po /\
      route (po_phys po) = Ok ak /\ decoder_new po = Ok st0 /\
      flat_obs (decode_frames Generic ak po fs st0) = (evs, None).
Proof. exact decoder_sound_frames. Qed.
Print Assumptions C14_reader_delivers_declarations.

(* the same for QuadStream and GraphStream: declarations first, in order, then exactly the statements
   -- with declarations off [ns_events] is empty, so switching them on or off never changes the
   statements delivered *)
From PJ.Proofs Require Import EncGraphs EncNamespace2.
Theorem C14_declarations_and_statements_quads :
  forall (o : soptions) (s s' : stream) (d : sdata) (evs : list tev),
    stream_new QuadStream Generic o = Ok s -> cfg_ok o (st_logical s) -> fl_rows (st_flow s) = [] ->
    quads_stream_frames d s = (s', evs) -> raised evs = None ->
    run (flat_map f_rows (emitted evs)) = Valid (ns_events o d ++ flat_map event_of_quad (d_stmts d)).
Proof. exact quads_stream_valid_ns. Qed.
Print Assumptions C14_declarations_and_statements_quads.

Theorem C14_declarations_and_statements_graphs :
  forall (o : soptions) (s s' : stream) (d : sdata) (evs : list tev),
    stream_new GraphStream Generic o = Ok s -> cfg_ok o (st_logical s) -> fl_rows (st_flow s) = [] ->
    forallb wf_quad (d_stmts d) = true ->
    graphs_stream_frames_generic d s = (s', evs) -> raised evs = None ->
    run (flat_map f_rows (emitted evs)) = Valid (ns_events o d ++ flat_map event_of_quad (d_stmts d)).
Proof. exact graphs_stream_valid_ns. Qed.
Print Assumptions C14_declarations_and_statements_graphs.

(* ---- and from bytes: serializer -> write_delimited -> parser yields the declarations, in order,
   then exactly the statements, for the three stream classes ---- *)
From PJ.Model Require Import Wire.
From PJ.Proofs Require Import WireRT BytesE2E BytesRoundTrip.
Theorem C14_bytes_declarations_then_statements_triples :
  forall (o : soptions) (s s' : stream) (d : sdata) (evs : list tev) (grouped : bool),
    stream_new TripleStream Generic o = Ok s -> cfg_ok o (st_logical s) -> fl_rows (st_flow s) = [] ->
    triples_stream_frames d s = (s', evs) -> raised evs = None -> Forall small (emitted evs) ->
    let r := parse_stream Generic grouped false (write_delimited (emitted evs)) in
    flat_events r = ns_events o d ++ flat_map event_of_triple (d_stmts d) /\ pr_end r = PEnd.
Proof. exact triples_bytes_round_trip_ns. Qed.
Print Assumptions C14_bytes_declarations_then_statements_triples.

Theorem C14_bytes_declarations_then_statements_quads :
  forall (o : soptions) (s s' : stream) (d : sdata) (evs : list tev) (grouped : bool),
    stream_new QuadStream Generic o = Ok s -> cfg_ok o (st_logical s) -> fl_rows (st_flow s) = [] ->
    quads_stream_frames d s = (s', evs) -> raised evs = None -> Forall small (emitted evs) ->
    let r := parse_stream Generic grouped false (write_delimited (emitted evs)) in
    flat_events r = ns_events o d ++ flat_map event_of_quad (d_stmts d) /\ pr_end r = PEnd.
Proof. exact quads_bytes_round_trip_ns. Qed.
Print Assumptions C14_bytes_declarations_then_statements_quads.

Theorem C14_bytes_declarations_then_statements_graphs :
  forall (o : soptions) (s s' : stream) (d : sdata) (evs : list tev) (grouped : bool),
    stream_new GraphStream Generic o = Ok s -> cfg_ok o (st_logical s) -> fl_rows (st_flow s) = [] ->
    forallb wf_quad (d_stmts d) = true ->
    graphs_stream_frames_generic d s = (s', evs) -> raised evs = None -> Forall small (emitted evs) ->
    let r := parse_stream Generic grouped false (write_delimited (emitted evs)) in
    flat_events r = ns_events o d ++ flat_map event_of_quad (d_stmts d) /\ pr_end r = PEnd.
Proof. exact graphs_bytes_round_trip_ns. Qed.
Print Assumptions C14_bytes_declarations_then_statements_graphs.

(* the rdflib TripleStream (Graph.serialize) with declarations on: the store's bindings, in the order
   rdflib lists them, then the triples *)
From PJ.Proofs Require Import EncRdflib EncRdflibNs.
Theorem C14_rdflib_declarations_and_statements :
  forall (o : soptions) (s s' : stream) (d : rdata) (evs : list tev),
    stream_new TripleStream Rdflib o = Ok s -> cfg_ok o (st_logical s) -> fl_rows (st_flow s) = [] ->
    rd_kind d <> RDataset -> stmts_rdf11 (rd_stmts d) = true ->
    rdf_triples_stream_frames d s = (s', evs) -> raised evs = None ->
    run (flat_map f_rows (emitted evs)) = Valid (rdf_ns_events o d ++ flat_map event_of_triple (rd_stmts d)).
Proof. exact rdf_triples_stream_valid_ns. Qed.
Print Assumptions C14_rdflib_declarations_and_statements.
