(* C14 -- namespace declarations round-trip and never affect statements. *)
From PJ.Model Require Import Base Terms Encoder Streams.
From PJ.Proofs Require Import EncoderProofs.

(* With the option off the namespace phase does nothing: no declaration row, no table touched. *)
Theorem C14_off_writes_nothing :
  forall (always : bool) (d : sdata) (s : stream),
    p_nd (so_params (st_opts s)) = false -> ns_phase always d s = (s, Ok tt).
Proof. exact ns_phase_off. Qed.
Print Assumptions C14_off_writes_nothing.

(* The declared protocol version is 2 exactly when declarations are enabled. *)
Theorem C14_version_iff_declarations :
  forall p : sparams, params_version p = 2 <-> p_nd p = true.
Proof. exact version_iff_declarations. Qed.
Print Assumptions C14_version_iff_declarations.

(* A namespace IRI loses nothing in the prefix/name split. *)
Theorem C14_split_iri_lossless : forall iri : str, let '(p, n) := split_iri iri in p ++ n = iri.
Proof. exact split_iri_app. Qed.
Print Assumptions C14_split_iri_lossless.
