(* C03 -- encoder validity.  Theorems are added here as they are proved. *)
From PJ.Model Require Import Base.
