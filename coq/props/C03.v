(* C03 -- every emitted stream is valid Jelly for an independent decoder. *)
From PJ.Model Require Import Base Lookup Terms Encoder Streams Spec Api.
From PJ.Proofs Require Import Mirror MirrorRun EncoderProofs Den EncTerm EncStmt EncStream.

(* For EVERY input and every configuration the constructors accept -- any flow kind and frame size,
   any table sizes from the smallest (names >= 8) up to 4096 -- whatever the generic TripleStream
   hands out without raising is accepted by the Spec referee (options first, every entry id and
   reference in range and defined earlier with the intended value, zero forms by the delta rules,
   complete first statement and quoted triples, row kinds matching the physical type) and denotes
   exactly the normalised input statements, in order.  No "fits" premise: when a statement does not
   fit a table the writer raises (C18). *)
Theorem C03_encoder_valid_triples :
  forall (o : soptions) (s s' : stream) (d : sdata) (evs : list tev),
    stream_new TripleStream Generic o = Ok s -> cfg_ok o (st_logical s) ->
    p_nd (so_params o) = false -> fl_rows (st_flow s) = [] ->
    triples_stream_frames d s = (s', evs) -> raised evs = None ->
    run (flat_map f_rows (emitted evs)) = Valid (flat_map event_of_triple (d_stmts d)).
Proof. exact triples_stream_valid. Qed.
Print Assumptions C03_encoder_valid_triples.

Theorem C03_encoder_valid_quads :
  forall (o : soptions) (s s' : stream) (d : sdata) (evs : list tev),
    stream_new QuadStream Generic o = Ok s -> cfg_ok o (st_logical s) ->
    p_nd (so_params o) = false -> fl_rows (st_flow s) = [] ->
    quads_stream_frames d s = (s', evs) -> raised evs = None ->
    run (flat_map f_rows (emitted evs)) = Valid (flat_map event_of_quad (d_stmts d)).
Proof. exact quads_stream_valid. Qed.
Print Assumptions C03_encoder_valid_quads.

(* One statement from any state that satisfies the inter-statement invariant: the induction step. *)
Theorem C03_statement_valid :
  forall (terms : list term) (t t' : tenc) (rp rp' : repeated) (rows : list row) (ss : sstate),
    JS t rp ss -> phys ss = 1 ->
    encode_triple Generic terms t rp = Ok (t', rp', rows) ->
    exists s p o rest ss',
      terms = s :: p :: o :: rest /\
      steps rows ss = SOk (ss', [ETriple (norm s) (norm p) (norm o)]) /\
      JS t' rp' ss' /\ s_opts ss' = s_opts ss /\ s_open ss' = s_open ss.
Proof. exact encode_triple_valid. Qed.
Print Assumptions C03_statement_valid.

(* the lookup core *)
Theorem C03_lookup_indices_resolve :
  forall (rule : lk_rule) (size : N) (keys : list str),
    1 <= size ->
    Forall2 (fun k o => exists obs, o = Some obs /\ obs_ok size k obs) keys (api_lookup rule size keys).
Proof. exact api_lookup_ok. Qed.
Print Assumptions C03_lookup_indices_resolve.

(* non-vacuity: a stream with evictions in a 1-slot prefix table is produced and is Valid *)
Example tiny_tables_valid :
  let o := {| so_flow := None; so_frame_size := 2; so_logical := 1;
              so_params := {| p_gen := true; p_star := true; p_delimited := true; p_nd := false; p_name := [] |};
              so_maxn := 8; so_maxp := 1; so_maxd := 0 |} in
  let d := {| d_is_sink := false; d_namespaces := [];
              d_stmts := [[TIri [104;47;97]; TIri [104;47;98]; TLit [120] None None];
                          [TIri [105;47;97]; TIri [105;47;98]; TIri [105;47;97]];
                          [TIri [105;47;97]; TIri [104;47;98]; TBnode [98]]] |} in
  match stream_new TripleStream Generic o with
  | Ok s => let '(_, evs) := triples_stream_frames d s in
            raised evs = None /\ (length (emitted evs) >= 3)%nat /\
            run (flat_map f_rows (emitted evs)) = Valid (flat_map event_of_triple (d_stmts d))
  | Err _ => False
  end.
Proof. vm_compute. repeat split; auto. Qed.

From PJ.Proofs Require Import EncGraphs.

(* The GRAPHS physical type (generic GraphStream): graph starts, the triples of each run of equal
   graph names, graph ends -- accepted by the referee (graphs bracketed, triples only inside a
   graph) and denoting the input quads in order. *)
Theorem C03_encoder_valid_graphs :
  forall (o : soptions) (s s' : stream) (d : sdata) (evs : list tev),
    stream_new GraphStream Generic o = Ok s -> cfg_ok o (st_logical s) ->
    p_nd (so_params o) = false -> fl_rows (st_flow s) = [] -> forallb wf_quad (d_stmts d) = true ->
    graphs_stream_frames_generic d s = (s', evs) -> raised evs = None ->
    run (flat_map f_rows (emitted evs)) = Valid (flat_map event_of_quad (d_stmts d)).
Proof. exact graphs_stream_valid. Qed.
Print Assumptions C03_encoder_valid_graphs.

(* Every stream the referee accepts is wire-well-formed (ids, option values < 2^32; terms where the
   schema allows them), so what the encoder emits survives protobuf serialisation and parsing
   (C01_wire_round_trip): validity at the row level is validity of the bytes. *)
From PJ.Model Require Import Wire.
From PJ.Proofs Require Import WireRT SpecWf.
Theorem C03_valid_streams_are_wire_wf :
  forall (rows : list row) (evs : list event), run rows = Valid evs -> Forall wf_row rows.
Proof. exact spec_valid_wf. Qed.
Print Assumptions C03_valid_streams_are_wire_wf.
