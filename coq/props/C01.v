(* C01 -- the generic API round trip is lossless and order-preserving. *)
From PJ.Model Require Import Base Lookup Terms Wire Encoder Streams Decoder Spec Api.
From PJ.Proofs Require Import Mirror MirrorRun EncoderProofs DecoderProofs DecoderSound Den EncStream RoundTrip WireProofs.

(* Writer model then reader model: for EVERY statement sequence (all term kinds incl. nested quoted
   triples, generalized positions, empty strings), every frame size and flow kind, every table
   sizing the writer accepts (no fits premise: otherwise it raises), the frames the generic
   TripleStream hands out are decoded by the generic parser to exactly the normalised input --
   same length, same order, same duplicates. *)
Theorem C01_round_trip_triples :
  forall (o : soptions) (s s' : stream) (d : sdata) (evs : list tev) (delimited : bool),
    stream_new TripleStream Generic o = Ok s -> cfg_ok o (st_logical s) ->
    p_nd (so_params o) = false -> fl_rows (st_flow s) = [] ->
    triples_stream_frames d s = (s', evs) -> raised evs = None ->
    exists po ak st0 sk first more,
      skip_empty (emitted evs) = (sk, first :: more) /\ options_from_frame first delimited = Ok po /\
      route (po_phys po) = Ok ak /\ decoder_new po = Ok st0 /\
      flat_obs (decode_frames Generic ak po (emitted evs) st0) = (flat_map event_of_triple (d_stmts d), None).
Proof. exact triples_round_trip. Qed.
Print Assumptions C01_round_trip_triples.

Theorem C01_round_trip_quads :
  forall (o : soptions) (s s' : stream) (d : sdata) (evs : list tev) (delimited : bool),
    stream_new QuadStream Generic o = Ok s -> cfg_ok o (st_logical s) ->
    p_nd (so_params o) = false -> fl_rows (st_flow s) = [] ->
    quads_stream_frames d s = (s', evs) -> raised evs = None ->
    exists po ak st0 sk first more,
      skip_empty (emitted evs) = (sk, first :: more) /\ options_from_frame first delimited = Ok po /\
      route (po_phys po) = Ok ak /\ decoder_new po = Ok st0 /\
      flat_obs (decode_frames Generic ak po (emitted evs) st0) = (flat_map event_of_quad (d_stmts d), None).
Proof. exact quads_round_trip. Qed.
Print Assumptions C01_round_trip_quads.

(* The byte layer for delimited output: frames whose wire form the parser reads back (the part tied
   to protobuf by the correspondence check) are recovered exactly from write_delimited. *)
Theorem C01_delimited_bytes_read_back :
  forall fs : list frame, Forall readable fs -> read_frames (write_delimited fs) = (fs, FiEof).
Proof. exact read_frames_delimited. Qed.
Print Assumptions C01_delimited_bytes_read_back.

(* xsd:string is the plain literal; empty tags / datatypes mean none *)
Example norm_identifies_xsd_string :
  norm (TLit [120] None (Some xsd_string)) = TLit [120] None None /\
  norm (TLit [120] (Some []) None) = TLit [120] None None.
Proof. split; reflexivity. Qed.

Theorem C01_split_iri_lossless : forall iri : str, let '(p, n) := split_iri iri in p ++ n = iri.
Proof. exact split_iri_app. Qed.
Print Assumptions C01_split_iri_lossless.

From PJ.Proofs Require Import EncGraphs.

Theorem C01_round_trip_graphs :
  forall (o : soptions) (s s' : stream) (d : sdata) (evs : list tev) (delimited : bool),
    stream_new GraphStream Generic o = Ok s -> cfg_ok o (st_logical s) ->
    p_nd (so_params o) = false -> fl_rows (st_flow s) = [] -> forallb wf_quad (d_stmts d) = true ->
    graphs_stream_frames_generic d s = (s', evs) -> raised evs = None ->
    exists po ak st0 sk first more,
      skip_empty (emitted evs) = (sk, first :: more) /\ options_from_frame first delimited = Ok po /\
      route (po_phys po) = Ok ak /\ decoder_new po = Ok st0 /\
      flat_obs (decode_frames Generic ak po (emitted evs) st0) = (flat_map event_of_quad (d_stmts d), None).
Proof. exact graphs_round_trip. Qed.
Print Assumptions C01_round_trip_graphs.

(* ---- byte level, end to end ---- *)
From PJ.Proofs Require Import WireRT BytesE2E BytesRoundTrip.

(* The wire round trip itself: the protobuf parser model reads back what the serialiser model writes,
   for every frame whose ids / option values are below 2^32 and whose terms sit where the schema
   allows them (wf_frame), of fewer than 128^10 bytes.  No [readable] premise any more. *)
Theorem C01_wire_round_trip :
  forall f : frame, wf_frame f -> nlen (ser_frame f) < varint_max -> parse_frame (ser_frame f) = Some f.
Proof. exact parse_frame_ser. Qed.
Print Assumptions C01_wire_round_trip.

(* Serializer model -> bytes (write_delimited) -> parser model (framing detection, frame reader,
   protobuf parser, decoder): exactly the statements that went in, in order, normal end, one result
   per frame written.  [small]: each frame is shorter than 128^10 bytes. *)
Theorem C01_bytes_round_trip_triples :
  forall (o : soptions) (s s' : stream) (d : sdata) (evs : list tev) (grouped : bool),
    stream_new TripleStream Generic o = Ok s -> cfg_ok o (st_logical s) ->
    p_nd (so_params o) = false -> fl_rows (st_flow s) = [] ->
    triples_stream_frames d s = (s', evs) -> raised evs = None -> Forall small (emitted evs) ->
    let r := parse_stream Generic grouped false (write_delimited (emitted evs)) in
    flat_events r = flat_map event_of_triple (d_stmts d) /\ pr_end r = PEnd /\
    length (pr_frames r) = length (emitted evs).
Proof. exact triples_bytes_round_trip. Qed.
Print Assumptions C01_bytes_round_trip_triples.

Theorem C01_bytes_round_trip_quads :
  forall (o : soptions) (s s' : stream) (d : sdata) (evs : list tev) (grouped : bool),
    stream_new QuadStream Generic o = Ok s -> cfg_ok o (st_logical s) ->
    p_nd (so_params o) = false -> fl_rows (st_flow s) = [] ->
    quads_stream_frames d s = (s', evs) -> raised evs = None -> Forall small (emitted evs) ->
    let r := parse_stream Generic grouped false (write_delimited (emitted evs)) in
    flat_events r = flat_map event_of_quad (d_stmts d) /\ pr_end r = PEnd /\
    length (pr_frames r) = length (emitted evs).
Proof. exact quads_bytes_round_trip. Qed.
Print Assumptions C01_bytes_round_trip_quads.

Theorem C01_bytes_round_trip_graphs :
  forall (o : soptions) (s s' : stream) (d : sdata) (evs : list tev) (grouped : bool),
    stream_new GraphStream Generic o = Ok s -> cfg_ok o (st_logical s) ->
    p_nd (so_params o) = false -> fl_rows (st_flow s) = [] -> forallb wf_quad (d_stmts d) = true ->
    graphs_stream_frames_generic d s = (s', evs) -> raised evs = None -> Forall small (emitted evs) ->
    let r := parse_stream Generic grouped false (write_delimited (emitted evs)) in
    flat_events r = flat_map event_of_quad (d_stmts d) /\ pr_end r = PEnd /\
    length (pr_frames r) = length (emitted evs).
Proof. exact graphs_bytes_round_trip. Qed.
Print Assumptions C01_bytes_round_trip_graphs.

(* non-delimited: a run that emitted one frame, written as a single message *)
Theorem C01_bytes_round_trip_single :
  forall (o : soptions) (s s' : stream) (d : sdata) (evs : list tev) (f : frame) (grouped : bool),
    stream_new TripleStream Generic o = Ok s -> cfg_ok o (st_logical s) ->
    p_nd (so_params o) = false -> fl_rows (st_flow s) = [] ->
    triples_stream_frames d s = (s', evs) -> raised evs = None -> emitted evs = [f] -> small f ->
    let r := parse_stream Generic grouped false (write_single f) in
    flat_events r = flat_map event_of_triple (d_stmts d) /\ pr_end r = PEnd.
Proof. exact triples_bytes_round_trip_single. Qed.
Print Assumptions C01_bytes_round_trip_single.

(* ---- non-vacuity: a concrete stream (prefix table of 2 with a slot re-assigned by an explicit id,
   typed and language-tagged literals, repeated terms, frames of 2 rows) meets every hypothesis of the
   whole-stream theorems of C01 / C03 / C06 / C19 ---- *)
From PJ.Proofs Require Import AudStmt AudStream NonVacuity.
Theorem C01_premises_are_satisfiable :
  exists s s' evs,
    stream_new TripleStream Generic ex_opts = Ok s /\ cfg_ok ex_opts (st_logical s) /\
    p_nd (so_params ex_opts) = false /\ fl_rows (st_flow s) = [] /\
    triples_stream_frames ex_data s = (s', evs) /\ raised evs = None /\
    Forall small (emitted evs) /\ stmts_nrm ex_stmts /\
    (3 <= length (emitted evs))%nat /\ In (RPrefix 2 [104; 116; 116; 112; 58; 47; 47; 99; 47]%N) (flat_map f_rows (emitted evs)).
Proof. exact whole_stream_premises_satisfiable. Qed.
Print Assumptions C01_premises_are_satisfiable.

(* ---- the same, stated about the functions the driver runs and the correspondence check compares
   with pyjelly: Api.api_encode and Api.api_parse, any stream class, declarations on or off ---- *)
From PJ.Model Require Import Api.
From PJ.Proofs Require Import EncNamespace ApiTheorems.
Theorem C01_api_round_trip :
  forall (c : stream_class) (o : soptions) (d : sdata) (s' : stream) (evs : list tev) (grouped : bool),
    api_encode c Generic o d = Ok (s', evs) -> raised evs = None ->
    (forall s, stream_new c Generic o = Ok s -> cfg_ok o (st_logical s) /\ fl_rows (st_flow s) = []) ->
    (c = GraphStream -> forallb wf_quad (d_stmts d) = true) ->
    Forall small (emitted evs) ->
    let r := api_parse Generic grouped false (write_delimited (emitted evs)) in
    flat_events r = ns_events o d ++ events_of c d /\ pr_end r = PEnd.
Proof. exact api_round_trip. Qed.
Print Assumptions C01_api_round_trip.

(* with the table limit enforced when the options are built (C13), being created is enough for the tables *)
Theorem C01_api_round_trip_created :
  forall (c : stream_class) (o : soptions) (d : sdata) (s' : stream) (evs : list tev) (grouped : bool),
    api_encode c Generic o d = Ok (s', evs) -> raised evs = None ->
    (forall s, stream_new c Generic o = Ok s -> known_logical (st_logical s) = true /\ fl_rows (st_flow s) = []) ->
    (c = GraphStream -> forallb wf_quad (d_stmts d) = true) ->
    Forall small (emitted evs) ->
    let r := api_parse Generic grouped false (write_delimited (emitted evs)) in
    flat_events r = ns_events o d ++ events_of c d /\ pr_end r = PEnd.
Proof. exact api_round_trip_created. Qed.
Print Assumptions C01_api_round_trip_created.
