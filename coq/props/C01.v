(* C01 -- the generic API round trip is lossless and order-preserving. *)
From PJ.Model Require Import Base Lookup Terms Wire Encoder Streams Decoder Spec Api.
From PJ.Proofs Require Import Mirror MirrorRun EncoderProofs DecoderProofs DecoderSound Den EncStream RoundTrip WireProofs.

(* Writer model then reader model: for EVERY statement sequence (all term kinds incl. nested quoted
   triples, generalized positions, empty strings), every frame size and flow kind, every table
   sizing the writer accepts (no fits premise: otherwise it raises), the frames the generic
   TripleStream hands out are decoded by the generic parser to exactly the normalised input --
   same length, same order, same duplicates. *)
Theorem C01_round_trip_triples :
  forall (o : soptions) (s s' : stream) (d : sdata) (evs : list tev) (delimited : bool),
    stream_new TripleStream Generic o = Ok s -> cfg_ok o (st_logical s) ->
    p_nd (so_params o) = false -> fl_rows (st_flow s) = [] ->
    triples_stream_frames d s = (s', evs) -> raised evs = None ->
    exists po ak st0 sk first more,
      skip_empty (emitted evs) = (sk, first :: more) /\ options_from_frame first delimited = Ok po /\
      route (po_phys po) = Ok ak /\ decoder_new po = Ok st0 /\
      flat_obs (decode_frames Generic ak po (emitted evs) st0) = (flat_map event_of_triple (d_stmts d), None).
Proof. exact triples_round_trip. Qed.
Print Assumptions C01_round_trip_triples.

Theorem C01_round_trip_quads :
  forall (o : soptions) (s s' : stream) (d : sdata) (evs : list tev) (delimited : bool),
    stream_new QuadStream Generic o = Ok s -> cfg_ok o (st_logical s) ->
    p_nd (so_params o) = false -> fl_rows (st_flow s) = [] ->
    quads_stream_frames d s = (s', evs) -> raised evs = None ->
    exists po ak st0 sk first more,
      skip_empty (emitted evs) = (sk, first :: more) /\ options_from_frame first delimited = Ok po /\
      route (po_phys po) = Ok ak /\ decoder_new po = Ok st0 /\
      flat_obs (decode_frames Generic ak po (emitted evs) st0) = (flat_map event_of_quad (d_stmts d), None).
Proof. exact quads_round_trip. Qed.
Print Assumptions C01_round_trip_quads.

(* The byte layer for delimited output: frames whose wire form the parser reads back (the part tied
   to protobuf by the correspondence check) are recovered exactly from write_delimited. *)
Theorem C01_delimited_bytes_read_back :
  forall fs : list frame, Forall readable fs -> read_frames (write_delimited fs) = (fs, FiEof).
Proof. exact read_frames_delimited. Qed.
Print Assumptions C01_delimited_bytes_read_back.

(* xsd:string is the plain literal; empty tags / datatypes mean none *)
Example norm_identifies_xsd_string :
  norm (TLit [120] None (Some xsd_string)) = TLit [120] None None /\
  norm (TLit [120] (Some []) None) = TLit [120] None None.
Proof. split; reflexivity. Qed.

Theorem C01_split_iri_lossless : forall iri : str, let '(p, n) := split_iri iri in p ++ n = iri.
Proof. exact split_iri_app. Qed.
Print Assumptions C01_split_iri_lossless.

From PJ.Proofs Require Import EncGraphs.

Theorem C01_round_trip_graphs :
  forall (o : soptions) (s s' : stream) (d : sdata) (evs : list tev) (delimited : bool),
    stream_new GraphStream Generic o = Ok s -> cfg_ok o (st_logical s) ->
    p_nd (so_params o) = false -> fl_rows (st_flow s) = [] -> forallb wf_quad (d_stmts d) = true ->
    graphs_stream_frames_generic d s = (s', evs) -> raised evs = None ->
    exists po ak st0 sk first more,
      skip_empty (emitted evs) = (sk, first :: more) /\ options_from_frame first delimited = Ok po /\
      route (po_phys po) = Ok ak /\ decoder_new po = Ok st0 /\
      flat_obs (decode_frames Generic ak po (emitted evs) st0) = (flat_map event_of_quad (d_stmts d), None).
Proof. exact graphs_round_trip. Qed.
Print Assumptions C01_round_trip_graphs.
