(* C01 -- property theorems; see DESIGN.md section 6.  Grows as proofs are completed. *)
From PJ.Model Require Import Base Lookup Terms Encoder Api.
From PJ.Proofs Require Import Mirror MirrorRun EncoderProofs.

(* The split of an IRI into prefix and name loses nothing (what the reader concatenates is the IRI). *)
Theorem C01_split_iri_lossless : forall iri : str, let '(p, n) := split_iri iri in p ++ n = iri.
Proof. exact split_iri_app. Qed.
Print Assumptions C01_split_iri_lossless.

(* Every index the writer emits for a key resolves on the reader to that key, for every history
   of hits, misses and evictions of each table (the lookup core of the round trip; see C05). *)
Theorem C01_lookup_indices_resolve :
  forall (rule : lk_rule) (size : N) (keys : list str),
    1 <= size ->
    Forall2 (fun k o => exists obs, o = Some obs /\ obs_ok size k obs) keys (api_lookup rule size keys).
Proof. exact api_lookup_ok. Qed.
Print Assumptions C01_lookup_indices_resolve.
