(* C09 -- parsing is independent of how the byte source chunks its reads. *)
From PJ.Model Require Import Base Terms Encoder Streams Decoder Source.
From PJ.Proofs Require Import SourceProofs.

(* For every byte string and EVERY read schedule (any sequence of short-read sizes, down to one
   byte at a time) the header a non-seekable source yields is the first three bytes and the
   parser sees the same stream; hence the parse equals that of the in-memory buffer and of a
   seekable file. *)
Theorem C09_header_any_schedule :
  forall (sched : list nat) (b : list N), read_header 4 [] sched b = (firstn 3 b, skipn 3 b).
Proof. exact read_header_any_schedule. Qed.
Print Assumptions C09_header_any_schedule.

Theorem C09_parse_independent_of_source :
  forall (ig : integ) (grouped strict : bool) (sched : list nat) (b : list N),
    parse_source ig grouped strict (Raw sched b) = parse_source ig grouped strict (Buffer b) /\
    parse_source ig grouped strict (Seekable b) = parse_source ig grouped strict (Buffer b) /\
    parse_source ig grouped strict (Buffer b) = parse_stream ig grouped strict b.
Proof. exact parse_source_independent. Qed.
Print Assumptions C09_parse_independent_of_source.
