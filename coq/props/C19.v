(* C19 -- compression contract. *)
From PJ.Model Require Import Base Lookup Terms Encoder.
From PJ.Proofs Require Import EncoderProofs.

(* A term equal to the previous statement's term in the same slot is omitted: no rows, no wire term,
   encoder untouched. *)
Theorem C19_repeated_term_elided :
  forall (ig : integ) (tm : term) (prev : option term) (t : tenc),
    differs prev tm = false -> encode_slot ig prev tm t = Ok (t, [], None, prev).
Proof. exact repeated_term_elided. Qed.
Print Assumptions C19_repeated_term_elided.

(* No entry is produced for a string resident in the table. *)
Theorem C19_resident_key_not_resent :
  forall (k : str) (e e' : slenc) (oe : option N),
    find str_eqb k (l_data (e_lookup e)) <> None -> encode_entry_index str_eqb k e = Some (e', oe) -> oe = None.
Proof. exact resident_key_not_resent. Qed.
Print Assumptions C19_resident_key_not_resent.

(* An entry id is written explicitly only when it is not the sequential one. *)
Theorem C19_sequential_entry_uses_zero :
  forall (k : str) (e e' : slenc) (id : N),
    encode_entry_index str_eqb k e = Some (e', Some id) ->
    id = 0 \/ (id <> e_last_assigned e + 1 /\ id = e_last_assigned e').
Proof. exact sequential_entry_uses_zero. Qed.
Print Assumptions C19_sequential_entry_uses_zero.

(* Zero forms of the ids on terms, from every state: a name id is written explicitly only when it
   is not "previous + 1"; a prefix id only when it differs from the previous one (or none was used). *)
Theorem C19_name_id_zero_form :
  forall (k : str) (e e' : slenc) (id : N),
    encode_name_term_index str_eqb k e = Some (e', id) ->
    (id = 0 /\ e_last_reused e' = e_last_reused e + 1) \/ (id = e_last_reused e' /\ id <> e_last_reused e + 1).
Proof. exact name_id_zero_form. Qed.
Print Assumptions C19_name_id_zero_form.

Theorem C19_prefix_id_zero_form :
  forall (k : str) (e e' : slenc) (id : N),
    encode_prefix_term_index str_eqb (is_nil k) k e = Some (e', id) ->
    id = 0 \/ (id = e_last_reused e' /\ (e_last_reused e = 0 \/ id <> e_last_reused e)).
Proof. exact prefix_id_zero_form. Qed.
Print Assumptions C19_prefix_id_zero_form.

(* Never more than the naive encoding: an IRI costs at most one prefix and one name entry row. *)
Theorem C19_iri_at_most_two_entry_rows :
  forall (iri : str) (t t' : tenc) (rows : list row) (p n : N),
    encode_iri iri t = Ok (t', rows, p, n) -> (length rows <= 2)%nat.
Proof. exact iri_rows_bounded. Qed.
Print Assumptions C19_iri_at_most_two_entry_rows.

(* ---------------------------------------------------------------------------------------------
   The whole-stream statement.  [Audit.audit] is the extracted function the check runs over every
   byte string pyjelly writes: it replays the rows through the referee and counts redundant lookup
   entries (string already resident in the reader's table), missed elisions (a term written although
   equal to the previous statement's term in that slot), missed zero forms (an explicit entry id /
   prefix id / name id where the zero form means the same) and graphs opened twice in a row.
   For the generic serializers over inputs in normal form, all four counters are zero on everything
   an accepted run emits -- TRIPLES, QUADS and GRAPHS streams, declarations on or off, any flow,
   frame size and table sizes.  [stmts_nrm]: every API term t satisfies norm t = t (a literal typed
   xsd:string and the same plain literal are different API terms with one wire form; mixing the two
   spellings is the only way to make the writer re-send an equal term).
   --------------------------------------------------------------------------------------------- *)
From PJ.Model Require Import Streams Spec Audit.
From PJ.Proofs Require Import EncStream AuditBase AudStmt AudStream.

Theorem C19_triples_stream_audit_clean :
  forall (o : soptions) (s s' : stream) (d : sdata) (evs : list tev),
    stream_new TripleStream Generic o = Ok s -> cfg_ok o (st_logical s) -> fl_rows (st_flow s) = [] ->
    stmts_nrm (d_stmts d) ->
    triples_stream_frames d s = (s', evs) -> raised evs = None ->
    exists c, audit (flat_map f_rows (emitted evs)) = Some c /\ clean c.
Proof. exact triples_stream_clean. Qed.
Print Assumptions C19_triples_stream_audit_clean.

Theorem C19_quads_stream_audit_clean :
  forall (o : soptions) (s s' : stream) (d : sdata) (evs : list tev),
    stream_new QuadStream Generic o = Ok s -> cfg_ok o (st_logical s) -> fl_rows (st_flow s) = [] ->
    stmts_nrm (d_stmts d) ->
    quads_stream_frames d s = (s', evs) -> raised evs = None ->
    exists c, audit (flat_map f_rows (emitted evs)) = Some c /\ clean c.
Proof. exact quads_stream_clean. Qed.
Print Assumptions C19_quads_stream_audit_clean.

Theorem C19_graphs_stream_audit_clean :
  forall (o : soptions) (s s' : stream) (d : sdata) (evs : list tev),
    stream_new GraphStream Generic o = Ok s -> cfg_ok o (st_logical s) -> fl_rows (st_flow s) = [] ->
    stmts_nrm (d_stmts d) ->
    graphs_stream_frames_generic d s = (s', evs) -> raised evs = None ->
    exists c, audit (flat_map f_rows (emitted evs)) = Some c /\ clean c.
Proof. exact graphs_stream_clean. Qed.
Print Assumptions C19_graphs_stream_audit_clean.

(* what "clean" says, spelled out *)
Theorem C19_clean_means :
  forall c : counters, clean c <-> (c_redundant c = 0 /\ c_elision c = 0 /\ c_zero c = 0 /\ c_gstart c = 0)%N.
Proof. exact clean_means. Qed.
Print Assumptions C19_clean_means.

(* the converse mirror behind "no redundant entry": a string the writer does not hold is nowhere in
   the reader's table, so a lookup miss never re-sends a resident string *)
From PJ.Proofs Require Import EncLookup.
Theorem C19_miss_means_not_resident :
  forall (tb tb' : slenc) (keys keys' : list str) (k : str) (id : N) (T : table) (la : N),
    InvT tb T la -> entry_index tb keys k = Ok (tb', keys', Some id) ->
    resident k T = false /\ (id = 0 \/ id <> la + 1)%N.
Proof. exact entry_index_audit. Qed.
Print Assumptions C19_miss_means_not_resident.

(* non-vacuity: the audit of a concrete stream with slot re-assignment, computed *)
From PJ.Proofs Require Import NonVacuity.
Theorem C19_audit_of_a_concrete_stream :
  exists s, stream_new TripleStream Generic ex_opts = Ok s /\
    audit (flat_map f_rows (emitted (snd (triples_stream_frames ex_data s)))) =
    Some {| c_redundant := 0; c_elision := 0; c_zero := 0; c_gstart := 0; c_entries := 7 |}.
Proof. exact audit_of_the_example. Qed.
Print Assumptions C19_audit_of_a_concrete_stream.

(* "... so with tables large enough for all distinct strings, each is sent exactly once": for every
   rule set (name / prefix / datatype), every table size and every history whose strings come from a
   set no larger than the table, an entry row goes out at the first use of a string and at no later
   use.  [first_flags [] ks] marks the first occurrences in the history. *)
From PJ.Model Require Import Api.
From PJ.Proofs Require Import SentOnce.
Theorem C19_each_string_sent_exactly_once :
  forall (rule : lk_rule) (size : N) (univ ks : list str),
    (1 <= size)%N -> NoDup univ -> (N.of_nat (length univ) <= size)%N -> Forall (fun k => In k univ) ks ->
    Forall2 (fun first o => exists obs, o = Some obs /\ (lo_entry obs <> None <-> first = true))
            (first_flags [] ks) (api_lookup rule size ks).
Proof. exact api_lookup_sent_once. Qed.
Print Assumptions C19_each_string_sent_exactly_once.

(* ---- the rdflib serializers: what they write is, event for event, what their generic twins write (proofs/TwinRun.v), so the audit
   holds of them as well -- a theorem, where it used to rest on the correspondence check ---- *)
From PJ.Proofs Require Import EncRdflib EncRdflibQuads RdflibAudit.
Theorem C19_rdflib_triples_stream_clean :
  forall (o : soptions) (s s' : stream) (d : rdata) (evs : list tev),
    stream_new TripleStream Rdflib o = Ok s -> cfg_ok o (st_logical s) -> fl_rows (st_flow s) = [] ->
    rd_kind d <> RDataset -> stmts_rdf11 (rd_stmts d) = true -> stmts_nrm (rd_stmts d) ->
    rdf_triples_stream_frames d s = (s', evs) -> raised evs = None ->
    exists c, audit (flat_map f_rows (emitted evs)) = Some c /\ clean c.
Proof. exact rdf_triples_stream_clean. Qed.
Print Assumptions C19_rdflib_triples_stream_clean.

Theorem C19_rdflib_quads_stream_clean :
  forall (o : soptions) (s s' : stream) (d : rdata) (evs : list tev),
    stream_new QuadStream Rdflib o = Ok s -> cfg_ok o (st_logical s) -> fl_rows (st_flow s) = [] ->
    forallb spo_rdf11 (rd_stmts d) = true -> stmts_nrm (rd_stmts d) ->
    rdf_quads_stream_frames d s = (s', evs) -> raised evs = None ->
    exists c, audit (flat_map f_rows (emitted evs)) = Some c /\ clean c.
Proof. exact rdf_quads_stream_clean. Qed.
Print Assumptions C19_rdflib_quads_stream_clean.
