(* C19 -- compression contract. *)
From PJ.Model Require Import Base Lookup Terms Encoder.
From PJ.Proofs Require Import EncoderProofs.

(* A term equal to the previous statement's term in the same slot is omitted: no rows, no wire term,
   encoder untouched. *)
Theorem C19_repeated_term_elided :
  forall (ig : integ) (tm : term) (prev : option term) (t : tenc),
    differs prev tm = false -> encode_slot ig prev tm t = Ok (t, [], None, prev).
Proof. exact repeated_term_elided. Qed.
Print Assumptions C19_repeated_term_elided.

(* No entry is produced for a string resident in the table. *)
Theorem C19_resident_key_not_resent :
  forall (k : str) (e e' : slenc) (oe : option N),
    find str_eqb k (l_data (e_lookup e)) <> None -> encode_entry_index str_eqb k e = Some (e', oe) -> oe = None.
Proof. exact resident_key_not_resent. Qed.
Print Assumptions C19_resident_key_not_resent.

(* An entry id is written explicitly only when it is not the sequential one. *)
Theorem C19_sequential_entry_uses_zero :
  forall (k : str) (e e' : slenc) (id : N),
    encode_entry_index str_eqb k e = Some (e', Some id) ->
    id = 0 \/ (id <> e_last_assigned e + 1 /\ id = e_last_assigned e').
Proof. exact sequential_entry_uses_zero. Qed.
Print Assumptions C19_sequential_entry_uses_zero.

(* Zero forms of the ids on terms, from every state: a name id is written explicitly only when it
   is not "previous + 1"; a prefix id only when it differs from the previous one (or none was used). *)
Theorem C19_name_id_zero_form :
  forall (k : str) (e e' : slenc) (id : N),
    encode_name_term_index str_eqb k e = Some (e', id) ->
    (id = 0 /\ e_last_reused e' = e_last_reused e + 1) \/ (id = e_last_reused e' /\ id <> e_last_reused e + 1).
Proof. exact name_id_zero_form. Qed.
Print Assumptions C19_name_id_zero_form.

Theorem C19_prefix_id_zero_form :
  forall (k : str) (e e' : slenc) (id : N),
    encode_prefix_term_index str_eqb (is_nil k) k e = Some (e', id) ->
    id = 0 \/ (id = e_last_reused e' /\ (e_last_reused e = 0 \/ id <> e_last_reused e)).
Proof. exact prefix_id_zero_form. Qed.
Print Assumptions C19_prefix_id_zero_form.

(* Never more than the naive encoding: an IRI costs at most one prefix and one name entry row. *)
Theorem C19_iri_at_most_two_entry_rows :
  forall (iri : str) (t t' : tenc) (rows : list row) (p n : N),
    encode_iri iri t = Ok (t', rows, p, n) -> (length rows <= 2)%nat.
Proof. exact iri_rows_bounded. Qed.
Print Assumptions C19_iri_at_most_two_entry_rows.
