(* C16 -- spec-violating streams are rejected, never turned into fabricated data.
   One theorem per catalogued class; each holds in EVERY decoder state and position. *)
From PJ.Model Require Import Base Lookup Terms Encoder Streams Decoder.
From PJ.Proofs Require Import DecoderProofs.

Theorem C16_entry_id_beyond_table :
  forall id v (d : @ldec str),
    (if id =? 0 then d_last_assigned d + 1 else id) > nlen (d_data d) -> assign id v d = Err IndexErr.
Proof. exact reject_entry_out_of_range. Qed.
Print Assumptions C16_entry_id_beyond_table.

Theorem C16_reference_beyond_table :
  forall i (d : @ldec str), i > nlen (d_data d) -> at_ i d = None.
Proof. exact reject_ref_out_of_range. Qed.
Print Assumptions C16_reference_beyond_table.

Theorem C16_reference_to_unfilled_slot :
  forall i (d : @ldec str), nth_error (d_data d) (N.to_nat (i - 1)) = Some None -> at_ i d = None.
Proof. exact reject_ref_unfilled. Qed.
Print Assumptions C16_reference_to_unfilled_slot.

Theorem C16_datatype_zero : forall ig lex st, exists e, decode_literal ig lex (LkDt 0) st = Err e.
Proof. exact reject_datatype_zero. Qed.
Print Assumptions C16_datatype_zero.

Theorem C16_datatype_with_disabled_table :
  forall ig lex id st, d_data (ds_datatypes st) = [] -> exists e, decode_literal ig lex (LkDt id) st = Err e.
Proof. exact reject_datatype_disabled. Qed.
Print Assumptions C16_datatype_with_disabled_table.

Theorem C16_repeated_term_without_previous :
  forall ig po st, ds_s st = None -> forall p o ak, exists e, decode_row ig ak po (RTriple None p o) st = Err e.
Proof. exact reject_repeated_without_previous. Qed.
Print Assumptions C16_repeated_term_without_previous.

Theorem C16_repeated_term_in_quoted_triple :
  forall ig a b c st, a = None \/ b = None \/ c = None -> exists e, decode_term ig (WTriple a b c) st = Err e.
Proof. exact reject_repeated_in_quoted. Qed.
Print Assumptions C16_repeated_term_in_quoted_triple.

Theorem C16_missing_options_row :
  forall (f : frame) (delimited : bool) (r : row) (rest : list row),
    f_rows f = r :: rest -> (forall o, r <> ROptions o) -> exists e, options_from_frame f delimited = Err e.
Proof. exact reject_missing_options. Qed.
Print Assumptions C16_missing_options_row.

Theorem C16_row_kind_quad_in_triples :
  forall ig po s p o g st, exists e, decode_row ig ATriples po (RQuad s p o g) st = Err e.
Proof. exact reject_quad_in_triples. Qed.
Print Assumptions C16_row_kind_quad_in_triples.

Theorem C16_row_kind_quad_in_graphs :
  forall ig po s p o g st, exists e, decode_row ig AGraphs po (RQuad s p o g) st = Err e.
Proof. exact reject_quad_in_graphs. Qed.
Print Assumptions C16_row_kind_quad_in_graphs.

Theorem C16_row_kind_triple_in_quads :
  forall ig po s p o st, exists e, decode_row ig AQuads po (RTriple s p o) st = Err e.
Proof. exact reject_triple_in_quads. Qed.
Print Assumptions C16_row_kind_triple_in_quads.

Theorem C16_row_kind_graph_rows_outside_graphs :
  forall ig po ak g st, ak <> AGraphs ->
    (exists e, decode_row ig ak po (RGraphStart g) st = Err e) /\ (exists e, decode_row ig ak po RGraphEnd st = Err e).
Proof. exact reject_graph_rows_outside_graphs. Qed.
Print Assumptions C16_row_kind_graph_rows_outside_graphs.

Theorem C16_triple_outside_graph :
  forall ig po s p o st, ds_graph st = None -> exists e, decode_row ig AGraphs po (RTriple s p o) st = Err e.
Proof. exact reject_triple_outside_graph. Qed.
Print Assumptions C16_triple_outside_graph.

Theorem C16_unsupported_version :
  forall (po : poptions) (o : woptions), po_version po <= 2 -> 2 < o_version o -> validate_stream_options po o = false.
Proof. exact reject_newer_version. Qed.
Print Assumptions C16_unsupported_version.

Theorem C16_unsupported_stream_type :
  forall phys : N, phys = 0 \/ 3 < phys -> exists e, route phys = Err e.
Proof. exact reject_unsupported_type. Qed.
Print Assumptions C16_unsupported_stream_type.

(* nothing is yielded for the offending row or after it *)
Theorem C16_nothing_after_the_error :
  forall (ig : integ) (ak : adapter_kind) (po : poptions) (fs1 fs2 : list frame) (st : dstate),
    exists tail, decode_frames ig ak po (fs1 ++ fs2) st = decode_frames ig ak po fs1 st ++ tail /\
                 (last_err (decode_frames ig ak po fs1 st) <> None -> tail = []).
Proof. exact frames_prefix. Qed.
Print Assumptions C16_nothing_after_the_error.

From PJ.Model Require Import Spec.
From PJ.Proofs Require Import DecoderSound DecoderRejects.

(* Against the referee, over whole streams: whenever Spec.run stops at some row with a catalogued
   class -- at ANY position, in ANY table state, for ANY valid prefix -- the decoder (options,
   routing, construction, rows) raises, and what it had yielded is exactly the events of the rows
   before the offending one: nothing invented, nothing from the offending row or after it. *)
Theorem C16_decoder_rejects :
  forall (rows : list row) (i : nat) (c : vclass) (evs : list event) (md : list (str * str)) (delimited : bool),
    rows <> [] -> run rows = Invalid i c evs -> catalogued c = true ->
    exists e, decode_all rows md delimited = (evs, Some e).
Proof. exact decoder_rejects. Qed.
Print Assumptions C16_decoder_rejects.

(* The step: in related states, a row the referee rejects with a catalogued class is rejected. *)
Theorem C16_step_rejects :
  forall (r : row) (s : sstate) (c : vclass) (st : dstate) (ak : adapter_kind) (po : poptions),
    R s st -> Ropts s ak po -> step r s = SBad c -> catalogued c = true ->
    exists e, decode_row Generic ak po r st = Err e.
Proof. exact step_reject. Qed.
Print Assumptions C16_step_rejects.

(* non-vacuity: an entry id one past the table, after a valid prefix that yields an event *)
Example a_rejected_stream :
  run [ROptions {| o_name := []; o_phys := 1; o_gen := false; o_star := false; o_maxn := 8; o_maxp := 0; o_maxd := 0; o_logical := 1; o_version := 1 |};
       RName 0 [97]; RTriple (Some (WIri 0 0)) (Some (WIri 0 1)) (Some (WBnode [98]));
       RName 9 [99]]
  = Invalid 3 IdOutOfRange [ETriple (TIri [97]) (TIri [97]) (TBnode [98])].
Proof. vm_compute. reflexivity. Qed.

(* ---- from bytes: a well-formed (ids < 2^32, so nothing is lost to uint32 truncation) invalid
   stream of one frame, serialised delimited, is rejected by the whole parser model -- framing
   detection, frame reader, protobuf parser, decoder -- having yielded exactly the events before
   the violation. ---- *)
From PJ.Model Require Import Wire.
From PJ.Proofs Require Import WireRT BytesE2E BytesRejects.
Theorem C16_invalid_bytes_rejected :
  forall (f : frame) (i : nat) (c : vclass) (evs : list event) (grouped : bool),
    f_rows f <> [] -> run (f_rows f) = Invalid i c evs -> catalogued c = true ->
    wf_frame f -> small f ->
    let r := parse_stream Generic grouped false (write_delimited [f]) in
    flat_events r = evs /\ exists e, pr_end r = PRaise e.
Proof. exact invalid_bytes_rejected_delimited. Qed.
Print Assumptions C16_invalid_bytes_rejected.

(* any number of frames *)
Theorem C16_invalid_bytes_rejected_frames :
  forall (f : frame) (rest : list frame) (i : nat) (c : vclass) (evs : list event) (grouped : bool),
    f_rows f <> [] -> run_frames (f :: rest) = Invalid i c evs -> catalogued c = true ->
    Forall wf_frame (f :: rest) -> Forall small (f :: rest) ->
    let r := parse_stream Generic grouped false (write_delimited (f :: rest)) in
    flat_events r = evs /\ exists e, pr_end r = PRaise e.
Proof. exact invalid_bytes_rejected. Qed.
Print Assumptions C16_invalid_bytes_rejected_frames.

(* non-vacuity of the byte-level rejection theorem *)
From PJ.Proofs Require Import NonVacuity.
Theorem C16_an_invalid_wellformed_stream_exists :
  f_rows ex_invalid_frame <> [] /\
  (exists i evs, run (f_rows ex_invalid_frame) = Invalid i Unfilled evs) /\ catalogued Unfilled = true /\
  wf_frame ex_invalid_frame /\ small ex_invalid_frame.
Proof. exact invalid_stream_premises_satisfiable. Qed.
Print Assumptions C16_an_invalid_wellformed_stream_exists.
