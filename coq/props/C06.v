(* C06 -- no accepted serializer configuration silently drops statements. *)
From PJ.Model Require Import Base Terms Encoder Streams.
From PJ.Proofs Require Import EncoderProofs.

(* For every stream the constructors accept -- any class, logical type, delimiting, explicit or
   inferred flow of any kind, frame size -- and any input, when stream_frames ends without raising
   nothing is left in the flow. *)
Theorem C06_nothing_left_behind :
  forall (d : sdata) (s s' : stream) (evs : list tev),
    stream_frames d s = (s', evs) -> raised evs = None -> fl_rows (st_flow s') = [].
Proof. exact stream_frames_flushes. Qed.
Print Assumptions C06_nothing_left_behind.

(* The same for the rdflib copies of the three generators (hand-copied in the code, hence modelled
   and proved separately): Graph / Dataset / generator input, any stream class. *)
From PJ.Proofs Require Import RdflibFlush.
Theorem C06_nothing_left_behind_rdflib :
  forall (d : rdata) (s s' : stream) (evs : list tev),
    rdf_stream_frames d s = (s', evs) -> raised evs = None -> fl_rows (st_flow s') = [].
Proof. exact rdf_stream_frames_flushes. Qed.
Print Assumptions C06_nothing_left_behind_rdflib.

(* A flush neither loses nor invents rows: what leaves in the frame plus what stays is what was there. *)
Theorem C06_flush_conserves_rows :
  forall f : flow,
    (match snd (to_stream_frame f) with Some fr => f_rows fr | None => [] end)
      ++ fl_rows (fst (to_stream_frame f)) = fl_rows f.
Proof. exact to_stream_frame_conserves. Qed.
Print Assumptions C06_flush_conserves_rows.

From PJ.Proofs Require Import FlowProofs.

(* What is handed out is, in order, exactly what was appended: the options row, the declarations'
   rows, the rows of each statement -- nothing lost, duplicated or reordered by the framing,
   whatever the flow kind and frame size. *)
Theorem C06_triples_rows_conserved :
  forall (d : sdata) (s s' : stream) (evs : list tev),
    triples_stream_frames d s = (s', evs) -> raised evs = None ->
    flat_map f_rows (emitted evs) =
    fl_rows (st_flow (fst (ns_phase false d (enroll s)))) ++
    appended_all stream_triple appended_triple (d_stmts d) (fst (ns_phase false d (enroll s))).
Proof. intros. rewrite <- emitted_rows_is_concat. now apply triples_stream_rows with (s' := s'). Qed.
Print Assumptions C06_triples_rows_conserved.

Theorem C06_quads_rows_conserved :
  forall (d : sdata) (s s' : stream) (evs : list tev),
    quads_stream_frames d s = (s', evs) -> raised evs = None ->
    flat_map f_rows (emitted evs) =
    fl_rows (st_flow (fst (ns_phase true d (enroll s)))) ++
    appended_all stream_quad appended_quad (d_stmts d) (fst (ns_phase true d (enroll s))).
Proof. intros. rewrite <- emitted_rows_is_concat. now apply quads_stream_rows with (s' := s'). Qed.
Print Assumptions C06_quads_rows_conserved.

(* ---- "... and those bytes parse back to the input": for EVERY options value the constructor accepts
   (any flow class given explicitly or inferred, any frame size, any logical type the reader knows,
   any table sizes up to 4096) an accepted run's bytes are read back by the parser model as exactly
   the input statements -- nothing is left in a buffer, nothing is dropped.  [small]: frames shorter
   than 128^10 bytes. ---- *)
From PJ.Model Require Import Wire Decoder Spec.
From PJ.Proofs Require Import WireRT BytesE2E EncStream EncGraphs BytesRoundTrip.

Theorem C06_accepted_run_parses_back_triples :
  forall (o : soptions) (s s' : stream) (d : sdata) (evs : list tev) (grouped : bool),
    stream_new TripleStream Generic o = Ok s -> cfg_ok o (st_logical s) ->
    p_nd (so_params o) = false -> fl_rows (st_flow s) = [] ->
    triples_stream_frames d s = (s', evs) -> raised evs = None -> Forall small (emitted evs) ->
    let r := parse_stream Generic grouped false (write_delimited (emitted evs)) in
    flat_events r = flat_map event_of_triple (d_stmts d) /\ pr_end r = PEnd /\
    length (pr_frames r) = length (emitted evs).
Proof. exact triples_bytes_round_trip. Qed.
Print Assumptions C06_accepted_run_parses_back_triples.

Theorem C06_accepted_run_parses_back_quads :
  forall (o : soptions) (s s' : stream) (d : sdata) (evs : list tev) (grouped : bool),
    stream_new QuadStream Generic o = Ok s -> cfg_ok o (st_logical s) ->
    p_nd (so_params o) = false -> fl_rows (st_flow s) = [] ->
    quads_stream_frames d s = (s', evs) -> raised evs = None -> Forall small (emitted evs) ->
    let r := parse_stream Generic grouped false (write_delimited (emitted evs)) in
    flat_events r = flat_map event_of_quad (d_stmts d) /\ pr_end r = PEnd /\
    length (pr_frames r) = length (emitted evs).
Proof. exact quads_bytes_round_trip. Qed.
Print Assumptions C06_accepted_run_parses_back_quads.

Theorem C06_accepted_run_parses_back_graphs :
  forall (o : soptions) (s s' : stream) (d : sdata) (evs : list tev) (grouped : bool),
    stream_new GraphStream Generic o = Ok s -> cfg_ok o (st_logical s) ->
    p_nd (so_params o) = false -> fl_rows (st_flow s) = [] -> forallb wf_quad (d_stmts d) = true ->
    graphs_stream_frames_generic d s = (s', evs) -> raised evs = None -> Forall small (emitted evs) ->
    let r := parse_stream Generic grouped false (write_delimited (emitted evs)) in
    flat_events r = flat_map event_of_quad (d_stmts d) /\ pr_end r = PEnd /\
    length (pr_frames r) = length (emitted evs).
Proof. exact graphs_bytes_round_trip. Qed.
Print Assumptions C06_accepted_run_parses_back_graphs.
