(* C13 -- stream header fidelity and stream-type validation. *)
From PJ.Model Require Import Base Terms Encoder Streams Decoder Spec.
From PJ.Proofs Require Import OptionsProofs DecoderProofs.

Theorem C13_header_fidelity :
  forall (c : stream_class) (ig : integ) (o : soptions) (s : stream) (rows : list row) (md : list (str * str)) (d : bool),
    stream_new c ig o = Ok s ->
    options_from_frame {| f_rows := options_row s :: rows; f_meta := md |} d =
    Ok {| po_phys := physical_type c; po_logical := st_logical s;
          po_maxn := so_maxn o; po_maxp := so_maxp o; po_maxd := so_maxd o;
          po_name := p_name (so_params o); po_gen := p_gen (so_params o); po_star := p_star (so_params o);
          po_version := if p_nd (so_params o) then 2 else 1; po_delimited := d; po_nd := p_nd (so_params o) |}.
Proof. exact header_fidelity. Qed.
Print Assumptions C13_header_fidelity.

Theorem C13_pairs_are_the_specification_table :
  forall p l : N, In (p, l) all_pairs -> type_compat p l = spec_compat p l.
Proof. exact compat_is_spec. Qed.
Print Assumptions C13_pairs_are_the_specification_table.

Theorem C13_forbidden_pairs_rejected_both_sides :
  forall (c : stream_class) (ig : integ) (o : soptions) (fl : flow) (w : woptions) (rows : list row) (md : list (str * str)) (d : bool),
    (so_flow o = Some fl /\ type_compat (physical_type c) (fl_logical fl) = false -> exists e, stream_new c ig o = Err e) /\
    (type_compat (o_phys w) (o_logical w) = false -> exists e, options_from_frame {| f_rows := ROptions w :: rows; f_meta := md |} d = Err e).
Proof. exact forbidden_pair_rejected_both_sides. Qed.
Print Assumptions C13_forbidden_pairs_rejected_both_sides.

Theorem C13_small_name_table_rejected_both_sides :
  forall (c : stream_class) (ig : integ) (o : soptions) (w : woptions) (rows : list row) (md : list (str * str)) (d : bool),
    (so_maxn o < 8 -> stream_new c ig o = Err Conformance) /\
    (o_maxn w < 8 -> exists e, options_from_frame {| f_rows := ROptions w :: rows; f_meta := md |} d = Err e).
Proof. exact small_name_table_rejected_both_sides. Qed.
Print Assumptions C13_small_name_table_rejected_both_sides.

Theorem C13_large_tables_rejected_on_read :
  forall po : poptions,
    MAX_LOOKUP_SIZE < po_maxn po \/ MAX_LOOKUP_SIZE < po_maxp po \/ MAX_LOOKUP_SIZE < po_maxd po ->
    exists e, decoder_new po = Err e.
Proof. exact decoder_refuses_large. Qed.
Print Assumptions C13_large_tables_rejected_on_read.

Theorem C13_newer_version_rejected :
  forall (po : poptions) (o : woptions), po_version po <= 2 -> 2 < o_version o -> validate_stream_options po o = false.
Proof. exact reject_newer_version. Qed.
Print Assumptions C13_newer_version_rejected.

Theorem C13_strict_flat_exact :
  forall po : poptions, strict_flat_ok po = true <-> (po_logical po = 1 \/ po_logical po = 2).
Proof. exact strict_flat_exact. Qed.
Print Assumptions C13_strict_flat_exact.

Theorem C13_strict_grouped_exact :
  forall po : poptions, strict_grouped_ok po = true <-> (po_logical po <> 0 /\ po_logical po <> 1 /\ po_logical po <> 2).
Proof. exact strict_grouped_exact. Qed.
Print Assumptions C13_strict_grouped_exact.

Theorem C13_nonstrict_ignores_logical_type :
  forall (ig : integ) (ak : adapter_kind) (po po' : poptions) (r : row) (st : dstate),
    (forall o, r <> ROptions o) -> decode_row ig ak po r st = decode_row ig ak po' r st.
Proof. exact nonstrict_ignores_logical. Qed.
Print Assumptions C13_nonstrict_ignores_logical_type.

(* The options row on the wire: any options with field values below 2^32 and ANY stream name (an
   arbitrary byte string, so any UTF-8 text) survive protobuf serialisation and parsing unchanged. *)
From PJ.Model Require Import Wire.
From PJ.Proofs Require Import WireProofs WireRT.
Theorem C13_options_row_wire_round_trip :
  forall o : woptions, wf_options o -> nlen (ser_options o) < varint_max -> parse_options (ser_options o) = Some o.
Proof. exact parse_options_ser. Qed.
Print Assumptions C13_options_row_wire_round_trip.

(* Header fidelity from bytes: what the reader derives from the bytes a stream writes -- framing
   detection, frame reader, protobuf parser, options row -- is exactly what the stream was created
   with, whether written delimited or as a single message. *)
From PJ.Proofs Require Import BytesE2E HeaderBytes.
Theorem C13_header_from_bytes_delimited :
  forall (c : stream_class) (ig : integ) (o : soptions) (s : stream) (rows : list row) (md : list (str * str)) (rest : list frame),
    stream_new c ig o = Ok s ->
    let f := {| f_rows := options_row s :: rows; f_meta := md |} in
    Forall sendable (f :: rest) ->
    get_options_and_frames (write_delimited (f :: rest)) = Ok (expected_options c o s true, f :: rest, FiEof, 1%nat).
Proof. exact header_from_bytes_delimited. Qed.
Print Assumptions C13_header_from_bytes_delimited.

Theorem C13_header_from_bytes_single :
  forall (c : stream_class) (ig : integ) (o : soptions) (s : stream) (rows : list row) (md : list (str * str)),
    stream_new c ig o = Ok s ->
    let f := {| f_rows := options_row s :: rows; f_meta := md |} in
    sendable f ->
    get_options_and_frames (write_single f) = Ok (expected_options c o s false, [f], FiEof, 1%nat).
Proof. exact header_from_bytes_single. Qed.
Print Assumptions C13_header_from_bytes_single.

(* tables larger than 4096 are refused on both sides: when a stream is created (LookupPreset) and when a
   header is read -- so every stream that could be created has tables the reader accepts *)
Theorem C13_large_tables_rejected_both_sides :
  forall (c : stream_class) (ig : integ) (o : soptions) (w : woptions) (rows : list row) (md : list (str * str)) (d : bool),
    (4096 < so_maxn o \/ 4096 < so_maxp o \/ 4096 < so_maxd o -> stream_new c ig o = Err Conformance) /\
    (4096 < o_maxn w \/ 4096 < o_maxp w \/ 4096 < o_maxd w -> exists e, options_from_frame {| f_rows := ROptions w :: rows; f_meta := md |} d = Err e).
Proof. exact large_tables_rejected_both_sides. Qed.
Print Assumptions C13_large_tables_rejected_both_sides.
