(* C10 -- a truncated stream yields only a correct prefix of the data. *)
From PJ.Model Require Import Base Terms Encoder Streams Decoder.
From PJ.Proofs Require Import DecoderProofs.

(* What is yielded for the frames that were delivered does not depend on what follows them (or on
   nothing following them): the results for fs1 ++ fs2 start with exactly the results for fs1, and
   nothing is added after an error. *)
Theorem C10_delivered_frames_decide :
  forall (ig : integ) (ak : adapter_kind) (po : poptions) (fs1 fs2 : list frame) (st : dstate),
    exists tail, decode_frames ig ak po (fs1 ++ fs2) st = decode_frames ig ak po fs1 st ++ tail /\
                 (last_err (decode_frames ig ak po fs1 st) <> None -> tail = []).
Proof. exact frames_prefix. Qed.
Print Assumptions C10_delivered_frames_decide.

From PJ.Model Require Import Wire.
From PJ.Proofs Require Import WireProofs.

(* Byte level.  [readable f] is the wire round trip of one frame (parse (ser f) = f, size below
   2^70), the part tied to protobuf by the correspondence check.  For frames that have it: the
   whole delimited stream reads back as its frames ... *)
Theorem C10_delimited_stream_reads_back :
  forall fs : list frame, Forall readable fs -> read_frames (write_delimited fs) = (fs, FiEof).
Proof. exact read_frames_delimited. Qed.
Print Assumptions C10_delimited_stream_reads_back.

(* ... and a stream cut at ANY byte offset strictly inside a frame -- inside its length prefix or
   inside its body -- reads back as exactly the frames wholly before the cut followed by an error:
   never a frame made from the delivered part, never a frame lost. *)
Theorem C10_cut_inside_a_frame :
  forall (fs1 : list frame) (f : frame) (j : nat),
    Forall readable fs1 -> readable f -> (0 < j < length (write_delimited1 f))%nat ->
    read_frames (write_delimited fs1 ++ firstn j (write_delimited1 f)) = (fs1, FiError).
Proof. exact read_frames_truncated. Qed.
Print Assumptions C10_cut_inside_a_frame.

(* the length prefix itself: round trip for every size below 2^70, and no proper prefix of it decodes *)
Theorem C10_varint_round_trip :
  forall (n : N) (rest : list N), n < varint_max -> varint_dec (varint n ++ rest) = Some (n, rest).
Proof. exact varint_round_trip. Qed.
Print Assumptions C10_varint_round_trip.

Theorem C10_varint_proper_prefix_fails :
  forall (n : N) (j : nat), (j < length (varint n))%nat -> varint_dec (firstn j (varint n)) = None.
Proof. exact varint_proper_prefix. Qed.
Print Assumptions C10_varint_proper_prefix_fails.

(* ---- without the [readable] premise: well-formed frames (WireRT) ---- *)
From PJ.Model Require Import Spec.
From PJ.Proofs Require Import WireRT BytesE2E.

Theorem C10_cut_inside_a_frame_wf :
  forall (fs1 : list frame) (f : frame) (j : nat),
    Forall sendable fs1 -> sendable f -> (0 < j < length (write_delimited1 f))%nat ->
    read_frames (write_delimited fs1 ++ firstn j (write_delimited1 f)) = (fs1, FiError).
Proof. exact read_frames_truncated_wf. Qed.
Print Assumptions C10_cut_inside_a_frame_wf.

(* The whole parser on a truncated valid stream: cut anywhere strictly inside a frame that follows
   the options frame, the parser yields exactly the events of the frames wholly delivered -- a prefix
   of the stream's events -- one result per delivered frame, and then raises a decode error. *)
Theorem C10_truncated_valid_stream :
  forall (fs1 fs2 : list frame) (f : frame) (j : nat) (evs : list event) (grouped : bool),
    run_frames (fs1 ++ f :: fs2) = Valid evs -> Forall small fs1 -> small f ->
    flat_map f_rows fs1 <> [] ->
    (match fs1 with g :: _ => (f_rows g = [] /\ f_meta g = []) \/ f_rows g <> [] | [] => True end) ->
    (0 < j < length (write_delimited1 f))%nat ->
    let r := parse_stream Generic grouped false (write_delimited fs1 ++ firstn j (write_delimited1 f)) in
    exists later, evs = flat_events r ++ later /\ pr_end r = PRaise DecodeErr /\ length (pr_frames r) = length fs1.
Proof. exact truncated_valid_stream. Qed.
Print Assumptions C10_truncated_valid_stream.

(* ... and cut exactly at a frame boundary, the delivered part is itself a valid stream: the parser
   yields the events of the delivered frames -- a prefix -- and ends normally.  With
   C10_truncated_valid_stream this covers every cut position after the options frame. *)
Theorem C10_cut_at_frame_boundary :
  forall (fs1 fs2 : list frame) (evs : list event) (grouped : bool),
    run_frames (fs1 ++ fs2) = Valid evs -> Forall small fs1 -> flat_map f_rows fs1 <> [] ->
    (match fs1 with g :: _ => (f_rows g = [] /\ f_meta g = []) \/ f_rows g <> [] | [] => True end) ->
    let r := parse_stream Generic grouped false (write_delimited fs1) in
    exists later, evs = flat_events r ++ later /\ pr_end r = PEnd /\ length (pr_frames r) = length fs1.
Proof. exact cut_at_frame_boundary. Qed.
Print Assumptions C10_cut_at_frame_boundary.

(* non-vacuity of the truncation theorem: three frames, three events, a cut inside the third *)
From PJ.Proofs Require Import NonVacuity.
Theorem C10_truncation_premises_are_satisfiable :
  (exists evs, run_frames ([ex_f1; ex_f2] ++ ex_f3 :: []) = Valid evs /\ length evs = 3%nat) /\
  Forall small [ex_f1; ex_f2] /\ small ex_f3 /\ flat_map f_rows [ex_f1; ex_f2] <> [] /\
  (0 < 3 < length (write_delimited1 ex_f3))%nat.
Proof. exact truncation_premises_satisfiable. Qed.
Print Assumptions C10_truncation_premises_are_satisfiable.
