(* C10 -- a truncated stream yields only a correct prefix of the data. *)
From PJ.Model Require Import Base Terms Encoder Streams Decoder.
From PJ.Proofs Require Import DecoderProofs.

(* What is yielded for the frames that were delivered does not depend on what follows them (or on
   nothing following them): the results for fs1 ++ fs2 start with exactly the results for fs1, and
   nothing is added after an error. *)
Theorem C10_delivered_frames_decide :
  forall (ig : integ) (ak : adapter_kind) (po : poptions) (fs1 fs2 : list frame) (st : dstate),
    exists tail, decode_frames ig ak po (fs1 ++ fs2) st = decode_frames ig ak po fs1 st ++ tail /\
                 (last_err (decode_frames ig ak po fs1 st) <> None -> tail = []).
Proof. exact frames_prefix. Qed.
Print Assumptions C10_delivered_frames_decide.
