(* C20 -- a rejected statement never poisons the rest of the stream. *)
From PJ.Model Require Import Base Terms Encoder Streams.
From PJ.Proofs Require Import EncoderProofs.

(* A rejection marks the stream failed and leaves flow, tables and repeated terms exactly as they
   were: whatever had been written before is untouched. *)
Theorem C20_rejection_closes_and_preserves :
  forall (terms : list term) (s s' : stream) (e : exn),
    stream_triple terms s = (s', Err e) \/ stream_quad terms s = (s', Err e) ->
    st_failed s' = true /\ st_flow s' = st_flow s /\ st_enc s' = st_enc s /\ st_rep s' = st_rep s.
Proof. exact rejection_closes. Qed.
Print Assumptions C20_rejection_closes_and_preserves.

(* A failed stream refuses every further statement, graph and declaration, unchanged. *)
Theorem C20_failed_stream_refuses_statements :
  forall (terms : list term) (s : stream),
    st_failed s = true ->
    stream_triple terms s = (s, Err JAssertion) /\ stream_quad terms s = (s, Err JAssertion).
Proof. exact failed_stream_refuses. Qed.
Print Assumptions C20_failed_stream_refuses_statements.

Theorem C20_failed_stream_refuses_graphs_and_namespaces :
  forall (s : stream) (g : term) (ts : list (list term)) (n i : str),
    st_failed s = true ->
    stream_graph g ts s = (s, [Raise JAssertion], false) /\ namespace_declaration n i s = (s, Err JAssertion).
Proof. exact failed_stream_refuses_all. Qed.
Print Assumptions C20_failed_stream_refuses_graphs_and_namespaces.

From PJ.Model Require Import Spec.
From PJ.Proofs Require Import FlowProofs EncStream EncPoison.

(* Over whole runs, every statement sequence, every position and cause of rejection: a stream driven
   statement by statement with catch-and-continue writes -- frames handed out plus what a final
   flush takes from the flow -- a stream the referee accepts and that denotes EXACTLY the
   statements accepted before the first rejection; everything after is refused without a trace. *)
Theorem C20_catch_and_continue_triples :
  forall (o : soptions) (s : stream) (stmts : list (list term)),
    stream_new TripleStream Generic o = Ok s -> cfg_ok o (st_logical s) -> fl_rows (st_flow s) = [] ->
    let '(s', evs) := drive stream_triple stmts (enroll s) in
    run (emitted_rows evs ++ fl_rows (st_flow s')) = Valid (flat_map event_of_triple (accepted stream_triple stmts (enroll s))).
Proof. exact catch_and_continue_triples. Qed.
Print Assumptions C20_catch_and_continue_triples.

Theorem C20_catch_and_continue_quads :
  forall (o : soptions) (s : stream) (stmts : list (list term)),
    stream_new QuadStream Generic o = Ok s -> cfg_ok o (st_logical s) -> fl_rows (st_flow s) = [] ->
    let '(s', evs) := drive stream_quad stmts (enroll s) in
    run (emitted_rows evs ++ fl_rows (st_flow s')) = Valid (flat_map event_of_quad (accepted stream_quad stmts (enroll s))).
Proof. exact catch_and_continue_quads. Qed.
Print Assumptions C20_catch_and_continue_quads.

(* GraphStream: graph() calls with catch-and-continue.  The first rejected graph leaves its graph
   start and the triples accepted before the rejection (already appended, as in the code) and closes
   the stream; later calls are refused without a trace; what is written is valid and denotes exactly
   the accepted statements. *)
From PJ.Proofs Require Import EncGraphs EncPoisonGraphs.
Theorem C20_catch_and_continue_graphs :
  forall (o : soptions) (s : stream) (gs : list (term * list (list term))),
    stream_new GraphStream Generic o = Ok s -> cfg_ok o (st_logical s) -> fl_rows (st_flow s) = [] ->
    let '(s', evs) := drive_graphs gs (enroll s) in
    run (emitted_rows evs ++ fl_rows (st_flow s')) = Valid (accepted_events gs (enroll s)).
Proof. exact catch_and_continue_graphs. Qed.
Print Assumptions C20_catch_and_continue_graphs.

(* non-vacuity: a run whose third statement is rejected; two statements are accepted before it *)
From PJ.Proofs Require Import NonVacuity.
Theorem C20_a_rejecting_run_exists :
  exists s, stream_new TripleStream Generic ex_opts = Ok s /\
    length (accepted stream_triple ex_stmts_poison (enroll s)) = 2%nat /\
    raised (snd (drive stream_triple ex_stmts_poison (enroll s))) <> None.
Proof. exact catch_and_continue_non_trivial. Qed.
Print Assumptions C20_a_rejecting_run_exists.
