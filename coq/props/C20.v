(* C20 -- a rejected statement never poisons the rest of the stream. *)
From PJ.Model Require Import Base Terms Encoder Streams.
From PJ.Proofs Require Import EncoderProofs.

(* A rejection marks the stream failed and leaves flow, tables and repeated terms exactly as they
   were: whatever had been written before is untouched. *)
Theorem C20_rejection_closes_and_preserves :
  forall (terms : list term) (s s' : stream) (e : exn),
    stream_triple terms s = (s', Err e) \/ stream_quad terms s = (s', Err e) ->
    st_failed s' = true /\ st_flow s' = st_flow s /\ st_enc s' = st_enc s /\ st_rep s' = st_rep s.
Proof. exact rejection_closes. Qed.
Print Assumptions C20_rejection_closes_and_preserves.

(* A failed stream refuses every further statement, graph and declaration, unchanged. *)
Theorem C20_failed_stream_refuses_statements :
  forall (terms : list term) (s : stream),
    st_failed s = true ->
    stream_triple terms s = (s, Err JAssertion) /\ stream_quad terms s = (s, Err JAssertion).
Proof. exact failed_stream_refuses. Qed.
Print Assumptions C20_failed_stream_refuses_statements.

Theorem C20_failed_stream_refuses_graphs_and_namespaces :
  forall (s : stream) (g : term) (ts : list (list term)) (n i : str),
    st_failed s = true ->
    stream_graph g ts s = (s, [Raise JAssertion], false) /\ namespace_declaration n i s = (s, Err JAssertion).
Proof. exact failed_stream_refuses_all. Qed.
Print Assumptions C20_failed_stream_refuses_graphs_and_namespaces.
