(* C15 -- all parsing entry points and both integrations agree. *)
From PJ.Model Require Import Base Terms Encoder Streams Decoder.
From PJ.Proofs Require Import AgreeProofs DecoderProofs.

(* The two decoders (two hand-written copies, as in the code, each with its integration's term constructors): on every RDF 1.1
   stream the rdflib one hands out, frame by frame, the VIEW of what the generic one hands out (rdflib's Literal constructor
   applied to each literal: AgreeProofs.rview), from any state ... *)
Theorem C15_rdflib_parse_is_view_of_generic :
  forall (ak : adapter_kind) (po : poptions) (fs : list frame) (st : dstate),
    forallb (fun f => forallb row_rdf11 (f_rows f)) fs = true ->
    decode_frames Rdflib ak po fs (vst st) = map fview (decode_frames Generic ak po fs st).
Proof. exact decode_frames_view. Qed.
Print Assumptions C15_rdflib_parse_is_view_of_generic.

(* ... so they agree term for term wherever what is handed out are terms rdflib can hold (the view leaves them alone) ... *)
Theorem C15_integrations_agree_on_parse :
  forall (ak : adapter_kind) (po : poptions) (fs : list frame) (st : dstate),
    forallb (fun f => forallb row_rdf11 (f_rows f)) fs = true -> vst st = st ->
    Forall result_fixed (decode_frames Generic ak po fs st) ->
    decode_frames Rdflib ak po fs st = decode_frames Generic ak po fs st.
Proof. exact decode_frames_agree. Qed.
Print Assumptions C15_integrations_agree_on_parse.

(* ... and NOT on every valid RDF 1.1 stream (known finding rdflib-whitespace-facet): a witness *)
Theorem C15_integrations_agree_on_parse_refuted :
  exists st, decoder_new token_po = Ok st /\
    forallb (fun f => forallb row_rdf11 (f_rows f)) token_stream = true /\
    decode_frames Generic ATriples token_po token_stream st = [([], [ETriple (TBnode [115]) (TBnode [112]) (TLit [32; 32; 97] None (Some xsd_token))], None)] /\
    decode_frames Rdflib ATriples token_po token_stream st = [([], [ETriple (TBnode [115]) (TBnode [112]) (TLit [97] None (Some xsd_token))], None)].
Proof. exact readers_differ_on_token_literals. Qed.
Print Assumptions C15_integrations_agree_on_parse_refuted.

(* Flat and grouped-concatenated are the same observation of the same per-frame results. *)
Theorem C15_flat_is_grouped_concatenated :
  forall (ig : integ) (ak : adapter_kind) (po : poptions) (fs : list frame) (st : dstate),
    flat_obs (decode_frames ig ak po fs st) = rows_obs ig ak po (flat_map f_rows fs) st.
Proof. exact flat_is_rows. Qed.
Print Assumptions C15_flat_is_grouped_concatenated.

(* The two term encoders produce the same rows and wire terms for RDF 1.1 statements. *)
Theorem C15_serializers_agree_on_triples :
  forall (terms : list term) (t : tenc) (rp : repeated),
    forallb term_rdf11 terms = true -> encode_triple Generic terms t rp = encode_triple Rdflib terms t rp.
Proof. exact encode_triple_agree. Qed.
Print Assumptions C15_serializers_agree_on_triples.

Theorem C15_serializers_agree_on_graph_names :
  forall (g : term) (t : tenc),
    match g with
    | TDefault | TBnode _ => True
    | TIri i => str_eqb i rdflib_default_graph = false
    | _ => False
    end ->
    encode_graph_term Generic g t = encode_graph_term Rdflib (graph_corr g) t.
Proof. exact encode_graph_term_agree. Qed.
Print Assumptions C15_serializers_agree_on_graph_names.

(* whole quad statements: an rdflib encode_quad is the generic encode_quad on the corresponding
   quad (default-graph IRI read as the default graph), same rows, same tables; only the spelling of
   the remembered graph term differs *)
From PJ.Proofs Require Import EncRdflibQuads.
Theorem C15_serializers_agree_on_quads :
  forall (terms : list term) (t : tenc) (rp : repeated) (t' : tenc) (rp' : repeated) (rows : list row),
    spo_rdf11 terms = true -> rep_ok rp ->
    encode_quad Rdflib terms t rp = Ok (t', rp', rows) ->
    encode_quad Generic (quad_inv terms) t (rep_inv rp) = Ok (t', rep_inv rp', rows) /\ rep_ok rp'.
Proof. exact encode_quad_rdflib. Qed.
Print Assumptions C15_serializers_agree_on_quads.

(* whole parses: the flat and the grouped entry point of an integration read the same events (and end
   the same way); non-strict mode *)
From PJ.Model Require Import Wire.
From PJ.Proofs Require Import RdflibFlush RdflibBytes WireRT.
Theorem C15_flat_and_grouped_entry_points_agree :
  forall (ig : integ) (g1 g2 : bool) (b : list N), parse_stream ig g1 false b = parse_stream ig g2 false b.
Proof. exact parse_entry_points_agree. Qed.
Print Assumptions C15_flat_and_grouped_entry_points_agree.

(* ... and on byte streams without quoted triples and with well-formed language tags (well-formed frames, written delimited) the
   rdflib parser returns the view of what the generic parser returns, for every flag combination *)
Theorem C15_parsers_agree_on_bytes :
  forall (fs : list frame) (grouped strict : bool),
    hint (firstn 3 (write_delimited fs)) = true -> Forall sendable fs -> rows_rdf11 (flat_map f_rows fs) ->
    parse_stream Rdflib grouped strict (write_delimited fs) = pview (parse_stream Generic grouped strict (write_delimited fs)).
Proof. exact rdflib_parser_is_view. Qed.
Print Assumptions C15_parsers_agree_on_bytes.

(* ---- the serializers, whole runs: an rdflib triples run and a generic triples run on streams made from the same options, over
   corresponding data (the same RDF 1.1 statements and bindings), emit the same events -- frames, pulls, the exception if any *)
From PJ.Proofs Require Import EncRdflib TwinRun.
Theorem C15_serializers_agree_on_whole_triple_runs :
  forall (o : soptions) (sr sg : stream) (d : rdata),
    stream_new TripleStream Rdflib o = Ok sr -> stream_new TripleStream Generic o = Ok sg ->
    rd_kind d <> RDataset -> stmts_rdf11 (rd_stmts d) = true ->
    snd (triples_stream_frames (sdata_of d) sg) = snd (rdf_triples_stream_frames d sr).
Proof. exact same_options_same_frames_triples. Qed.
Print Assumptions C15_serializers_agree_on_whole_triple_runs.

Theorem C15_serializers_agree_on_whole_quad_runs :
  forall (o : soptions) (sr sr' sg : stream) (d : rdata) (evs : list tev),
    stream_new QuadStream Rdflib o = Ok sr -> stream_new QuadStream Generic o = Ok sg ->
    forallb spo_rdf11 (rd_stmts d) = true ->
    rdf_quads_stream_frames d sr = (sr', evs) -> raised evs = None ->
    snd (quads_stream_frames (sdata_inv d) sg) = evs.
Proof. exact same_options_same_frames_quads. Qed.
Print Assumptions C15_serializers_agree_on_whole_quad_runs.
