(* C18 -- a statement too big for the lookup tables is refused, not corrupted. *)
From PJ.Model Require Import Base Lookup Terms Encoder.
From PJ.Proofs Require Import EncoderProofs.

(* The guard: as soon as the distinct keys a statement asks of one table exceed its size, the
   request is refused, before the table is touched. *)
Theorem C18_guard_refuses :
  forall (table : slenc) (keys : list str) (k : str),
    lmax table < nlen (set_add k keys) -> entry_index table keys k = Err Conformance.
Proof. exact guard_refuses. Qed.
Print Assumptions C18_guard_refuses.

(* Whenever an entry request succeeds the statement's key set still fits the table and holds the key. *)
Theorem C18_accepted_keys_fit :
  forall (table : slenc) (keys keys' : list str) (k : str) (t' : slenc) (oe : option N),
    entry_index table keys k = Ok (t', keys', oe) -> nlen keys' <= lmax table /\ mem_str k keys' = true.
Proof. exact guard_counts. Qed.
Print Assumptions C18_accepted_keys_fit.
