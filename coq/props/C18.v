(* C18 -- a statement too big for the lookup tables is refused, not corrupted. *)
From PJ.Model Require Import Base Lookup Terms Encoder Streams Spec.
From PJ.Proofs Require Import EncoderProofs EncLookup EncStream Recency.

(* Refuse or be correct, with NO premise on how table sizes relate to the statements: whatever
   the writer hands out without raising is Valid for the referee and denotes the input. *)
Theorem C18_refuse_or_correct_triples :
  forall (o : soptions) (s s' : stream) (d : sdata) (evs : list tev),
    stream_new TripleStream Generic o = Ok s -> cfg_ok o (st_logical s) ->
    p_nd (so_params o) = false -> fl_rows (st_flow s) = [] ->
    triples_stream_frames d s = (s', evs) -> raised evs = None ->
    run (flat_map f_rows (emitted evs)) = Valid (flat_map event_of_triple (d_stmts d)).
Proof. exact triples_stream_valid. Qed.
Print Assumptions C18_refuse_or_correct_triples.

Theorem C18_refuse_or_correct_quads :
  forall (o : soptions) (s s' : stream) (d : sdata) (evs : list tev),
    stream_new QuadStream Generic o = Ok s -> cfg_ok o (st_logical s) ->
    p_nd (so_params o) = false -> fl_rows (st_flow s) = [] ->
    quads_stream_frames d s = (s', evs) -> raised evs = None ->
    run (flat_map f_rows (emitted evs)) = Valid (flat_map event_of_quad (d_stmts d)).
Proof. exact quads_stream_valid. Qed.
Print Assumptions C18_refuse_or_correct_quads.

(* The mechanism: inside a statement every key already touched keeps its index through any later
   entry request of the same table (recency + guard), so no reference is clobbered. *)
Theorem C18_touched_keys_keep_their_index :
  forall (tb tb' : slenc) (keys keys' : list str) (k : str) (oe : option N) (T : table) (la : N),
    InvT tb T la -> Wk tb keys ->
    entry_index tb keys k = Ok (tb', keys', oe) ->
    (match oe with
     | Some id => exists T' la', entry id k T la = SOk (T', la') /\ InvT tb' T' la'
     | None => InvT tb' T la
     end) /\
    Wk tb' keys' /\ keys' = set_add k keys /\
    (forall k', In k' keys -> find str_eqb k' (l_data (e_lookup tb')) = find str_eqb k' (l_data (e_lookup tb))) /\
    lmax tb' = lmax tb /\ e_last_reused tb' = e_last_reused tb.
Proof. exact entry_index_spec. Qed.
Print Assumptions C18_touched_keys_keep_their_index.

(* The guard itself. *)
Theorem C18_guard_refuses :
  forall (table : slenc) (keys : list str) (k : str),
    lmax table < nlen (set_add k keys) -> entry_index table keys k = Err Conformance.
Proof. exact guard_refuses. Qed.
Print Assumptions C18_guard_refuses.
