(* C02 -- the rdflib Graph/Dataset round trip preserves the RDF data. *)
From PJ.Model Require Import Base Lookup Terms Wire Encoder Streams Decoder Spec Api.
From PJ.Proofs Require Import Mirror MirrorRun EncoderProofs AgreeProofs DecoderProofs DecoderSound EncStream EncRdflib.

(* For EVERY RDF 1.1 statement sequence (in whatever order rdflib iterated the Graph, or handed by a
   generator), every frame size, flow and table sizing the writer accepts, what the rdflib
   TripleStream serializer hands out is accepted by the referee and denotes exactly the
   (normalised) triples, in that order. *)
Theorem C02_rdflib_triples_valid :
  forall (o : soptions) (s s' : stream) (d : rdata) (evs : list tev),
    stream_new TripleStream Rdflib o = Ok s -> cfg_ok o (st_logical s) ->
    p_nd (so_params o) = false -> fl_rows (st_flow s) = [] ->
    rd_kind d <> RDataset -> stmts_rdf11 (rd_stmts d) = true ->
    rdf_triples_stream_frames d s = (s', evs) -> raised evs = None ->
    run (flat_map f_rows (emitted evs)) = Valid (flat_map event_of_triple (rd_stmts d)).
Proof. exact rdf_triples_stream_valid. Qed.
Print Assumptions C02_rdflib_triples_valid.

(* ... and the rdflib parser decodes what the stream denotes, as rdflib's terms: frame by frame it hands out the VIEW
   (AgreeProofs.rview: rdflib's Literal constructor applied to each literal) of what the generic decoder hands out on RDF 1.1
   streams, and the generic decoder is sound (C04).  On terms an rdflib Graph can hold the view is the term itself
   (C02_rdflib_bytes_round_trip_* below). *)
Theorem C02_rdflib_parser_is_view_of_generic :
  forall (ak : adapter_kind) (po : poptions) (fs : list frame) (st : dstate),
    forallb (fun f => forallb row_rdf11 (f_rows f)) fs = true ->
    decode_frames Rdflib ak po fs (vst st) = map fview (decode_frames Generic ak po fs st).
Proof. exact decode_frames_view. Qed.
Print Assumptions C02_rdflib_parser_is_view_of_generic.

Theorem C02_generic_parser_sound :
  forall (fs : list frame) (evs : list event) (dl : bool),
    run_frames fs = Valid evs ->
    exists po ak st0 sk first more,
      skip_empty fs = (sk, first :: more) /\ options_from_frame first dl = Ok po /\
      route (po_phys po) = Ok ak /\ decoder_new po = Ok st0 /\
      flat_obs (decode_frames Generic ak po fs st0) = (evs, None).
Proof. exact decoder_sound_frames. Qed.
Print Assumptions C02_generic_parser_sound.

(* the two term encoders are the same function on RDF 1.1 statements *)
Theorem C02_term_encoders_agree :
  forall (terms : list term) (t : tenc) (rp : repeated),
    forallb term_rdf11 terms = true -> encode_triple Generic terms t rp = encode_triple Rdflib terms t rp.
Proof. exact encode_triple_agree. Qed.
Print Assumptions C02_term_encoders_agree.

(* the rdflib generator over a Graph is the generic generator *)
Theorem C02_rdflib_generator_is_generic :
  forall (d : rdata) (s : stream),
    rd_kind d <> RDataset -> rdf_triples_stream_frames d s = triples_stream_frames (sdata_of d) s.
Proof. exact rdf_triples_as_generic. Qed.
Print Assumptions C02_rdflib_generator_is_generic.

(* ---- Datasets: the rdflib QuadStream and GraphStream serializers ---- *)
From PJ.Proofs Require Import EncRdflibQuads EncGraphs.

(* rdflib names the default graph by the IRI urn:x-rdflib:default; [quad_inv] / [graphs_inv] read
   that IRI as the default graph, which is what a parser hands back.  An accepted rdflib QuadStream
   run over RDF 1.1 quads writes a Spec-valid stream denoting exactly the input quads, in order. *)
Theorem C02_rdflib_quads_stream_valid :
  forall (o : soptions) (s s' : stream) (d : rdata) (evs : list tev),
    stream_new QuadStream Rdflib o = Ok s -> cfg_ok o (st_logical s) ->
    p_nd (so_params o) = false -> fl_rows (st_flow s) = [] ->
    forallb spo_rdf11 (rd_stmts d) = true ->
    rdf_quads_stream_frames d s = (s', evs) -> raised evs = None ->
    run (flat_map f_rows (emitted evs)) = Valid (flat_map event_of_quad (map quad_inv (rd_stmts d))).
Proof. exact rdf_quads_stream_valid. Qed.
Print Assumptions C02_rdflib_quads_stream_valid.

(* ... and an accepted rdflib GraphStream run over Dataset.graphs() denotes every triple of every
   graph, tagged with that graph, in iteration order. *)
Theorem C02_rdflib_graphs_stream_valid :
  forall (o : soptions) (s s' : stream) (d : rdata) (evs : list tev),
    stream_new GraphStream Rdflib o = Ok s -> cfg_ok o (st_logical s) ->
    p_nd (so_params o) = false -> fl_rows (st_flow s) = [] ->
    graphs_rdf11 (rd_graphs d) = true ->
    rdf_graphs_stream_frames d s = (s', evs) -> raised evs = None ->
    run (flat_map f_rows (emitted evs)) = Valid (flat_map run_events (graphs_inv (rd_graphs d))).
Proof. exact rdf_graphs_stream_valid. Qed.
Print Assumptions C02_rdflib_graphs_stream_valid.

(* the rdflib TripleStream over a Dataset: graph by graph, all triples of all graphs, in order *)
From PJ.Proofs Require Import EncRdflibDataset.
Theorem C02_rdflib_triples_over_dataset_valid :
  forall (o : soptions) (s s' : stream) (d : rdata) (evs : list tev),
    stream_new TripleStream Rdflib o = Ok s -> cfg_ok o (st_logical s) ->
    p_nd (so_params o) = false -> fl_rows (st_flow s) = [] ->
    rd_kind d = RDataset -> forallb stmts_rdf11 (map snd (rd_graphs d)) = true ->
    rdf_triples_stream_frames d s = (s', evs) -> raised evs = None ->
    run (flat_map f_rows (emitted evs)) = Valid (flat_map event_of_triple (concat (map snd (rd_graphs d)))).
Proof. exact rdf_triples_dataset_stream_valid. Qed.
Print Assumptions C02_rdflib_triples_over_dataset_valid.

(* ---- at the byte level, through the rdflib parser ---- *)
From PJ.Proofs Require Import WireRT BytesE2E RdflibBytes.

(* the rdflib parser model (a second copy of the decoder, with rdflib's term constructors) reads any valid stream without quoted
   triples and with well-formed language tags -- all the rdflib writer can produce -- to the view of what the referee assigns it *)
Theorem C02_rdflib_parser_reads_valid_bytes :
  forall (fs : list frame) (evs : list event) (grouped : bool),
    run_frames fs = Valid evs -> Forall small fs -> rows_rdf11 (flat_map f_rows fs) ->
    (match fs with f :: _ => (f_rows f = [] /\ f_meta f = []) \/ f_rows f <> [] | [] => True end) ->
    let r := parse_stream Rdflib grouped false (write_delimited fs) in
    flat_events r = map eview evs /\ pr_end r = PEnd /\ length (pr_frames r) = length fs.
Proof. exact valid_bytes_decode_rdflib. Qed.
Print Assumptions C02_rdflib_parser_reads_valid_bytes.

(* Graph.serialize -> bytes -> rdflib parser: the input triples, in the order rdflib iterated them (stmts_rdflib: the terms are ones
   rdflib can hold -- its constructor leaves their lexical form alone and accepts their language tag; every term of a Graph is) *)
Theorem C02_rdflib_bytes_round_trip_graph :
  forall (o : soptions) (s s' : stream) (d : rdata) (evs : list tev) (grouped : bool),
    stream_new TripleStream Rdflib o = Ok s -> cfg_ok o (st_logical s) ->
    p_nd (so_params o) = false -> fl_rows (st_flow s) = [] ->
    rd_kind d <> RDataset -> stmts_rdf11 (rd_stmts d) = true -> stmts_rdflib (rd_stmts d) = true ->
    rdf_triples_stream_frames d s = (s', evs) -> raised evs = None -> Forall small (emitted evs) ->
    let r := parse_stream Rdflib grouped false (write_delimited (emitted evs)) in
    flat_events r = flat_map event_of_triple (rd_stmts d) /\ pr_end r = PEnd /\ length (pr_frames r) = length (emitted evs).
Proof. exact rdf_triples_bytes_round_trip. Qed.
Print Assumptions C02_rdflib_bytes_round_trip_graph.

(* Dataset.serialize (QuadStream) -> bytes -> rdflib parser *)
Theorem C02_rdflib_bytes_round_trip_dataset :
  forall (o : soptions) (s s' : stream) (d : rdata) (evs : list tev) (grouped : bool),
    stream_new QuadStream Rdflib o = Ok s -> cfg_ok o (st_logical s) ->
    p_nd (so_params o) = false -> fl_rows (st_flow s) = [] ->
    forallb spo_rdf11 (rd_stmts d) = true -> stmts_rdflib (rd_stmts d) = true ->
    rdf_quads_stream_frames d s = (s', evs) -> raised evs = None -> Forall small (emitted evs) ->
    let r := parse_stream Rdflib grouped false (write_delimited (emitted evs)) in
    flat_events r = flat_map event_of_quad (map quad_inv (rd_stmts d)) /\ pr_end r = PEnd /\ length (pr_frames r) = length (emitted evs).
Proof. exact rdf_quads_bytes_round_trip. Qed.
Print Assumptions C02_rdflib_bytes_round_trip_dataset.

(* non-vacuity of stmts_rdflib: a statement with a language-tagged literal and an xsd:token literal in the form rdflib holds *)
Example C02_rdflib_terms_exist :
  stmts_rdflib [[TIri [104]; TIri [112]; TLit [104; 105] (Some [101; 110]) None]; [TBnode [98]; TIri [112]; TLit [97; 32; 98] None (Some xsd_token)]] = true.
Proof. vm_compute. reflexivity. Qed.
