(* C02 -- the rdflib Graph/Dataset round trip preserves the RDF data. *)
From PJ.Model Require Import Base Lookup Terms Wire Encoder Streams Decoder Spec Api.
From PJ.Proofs Require Import Mirror MirrorRun EncoderProofs AgreeProofs DecoderProofs DecoderSound EncStream EncRdflib.

(* For EVERY RDF 1.1 statement sequence (in whatever order rdflib iterated the Graph, or handed by a
   generator), every frame size, flow and table sizing the writer accepts, what the rdflib
   TripleStream serializer hands out is accepted by the referee and denotes exactly the
   (normalised) triples, in that order. *)
Theorem C02_rdflib_triples_valid :
  forall (o : soptions) (s s' : stream) (d : rdata) (evs : list tev),
    stream_new TripleStream Rdflib o = Ok s -> cfg_ok o (st_logical s) ->
    p_nd (so_params o) = false -> fl_rows (st_flow s) = [] ->
    rd_kind d <> RDataset -> stmts_rdf11 (rd_stmts d) = true ->
    rdf_triples_stream_frames d s = (s', evs) -> raised evs = None ->
    run (flat_map f_rows (emitted evs)) = Valid (flat_map event_of_triple (rd_stmts d)).
Proof. exact rdf_triples_stream_valid. Qed.
Print Assumptions C02_rdflib_triples_valid.

(* ... and the rdflib parser decodes what the stream denotes: it agrees with the generic decoder
   frame by frame on RDF 1.1 streams, and the generic decoder is sound (C04). *)
Theorem C02_rdflib_parser_agrees :
  forall (ak : adapter_kind) (po : poptions) (fs : list frame) (st : dstate),
    forallb (fun f => forallb row_rdf11 (f_rows f)) fs = true ->
    decode_frames Generic ak po fs st = decode_frames Rdflib ak po fs st.
Proof. exact decode_frames_agree. Qed.
Print Assumptions C02_rdflib_parser_agrees.

Theorem C02_generic_parser_sound :
  forall (fs : list frame) (evs : list event) (dl : bool),
    run_frames fs = Valid evs ->
    exists po ak st0 sk first more,
      skip_empty fs = (sk, first :: more) /\ options_from_frame first dl = Ok po /\
      route (po_phys po) = Ok ak /\ decoder_new po = Ok st0 /\
      flat_obs (decode_frames Generic ak po fs st0) = (evs, None).
Proof. exact decoder_sound_frames. Qed.
Print Assumptions C02_generic_parser_sound.

(* the two term encoders are the same function on RDF 1.1 statements *)
Theorem C02_term_encoders_agree :
  forall (terms : list term) (t : tenc) (rp : repeated),
    forallb term_rdf11 terms = true -> encode_triple Generic terms t rp = encode_triple Rdflib terms t rp.
Proof. exact encode_triple_agree. Qed.
Print Assumptions C02_term_encoders_agree.

(* the rdflib generator over a Graph is the generic generator *)
Theorem C02_rdflib_generator_is_generic :
  forall (d : rdata) (s : stream),
    rd_kind d <> RDataset -> rdf_triples_stream_frames d s = triples_stream_frames (sdata_of d) s.
Proof. exact rdf_triples_as_generic. Qed.
Print Assumptions C02_rdflib_generator_is_generic.

(* ---- Datasets: the rdflib QuadStream and GraphStream serializers ---- *)
From PJ.Proofs Require Import EncRdflibQuads EncGraphs.

(* rdflib names the default graph by the IRI urn:x-rdflib:default; [quad_inv] / [graphs_inv] read
   that IRI as the default graph, which is what a parser hands back.  An accepted rdflib QuadStream
   run over RDF 1.1 quads writes a Spec-valid stream denoting exactly the input quads, in order. *)
Theorem C02_rdflib_quads_stream_valid :
  forall (o : soptions) (s s' : stream) (d : rdata) (evs : list tev),
    stream_new QuadStream Rdflib o = Ok s -> cfg_ok o (st_logical s) ->
    p_nd (so_params o) = false -> fl_rows (st_flow s) = [] ->
    forallb spo_rdf11 (rd_stmts d) = true ->
    rdf_quads_stream_frames d s = (s', evs) -> raised evs = None ->
    run (flat_map f_rows (emitted evs)) = Valid (flat_map event_of_quad (map quad_inv (rd_stmts d))).
Proof. exact rdf_quads_stream_valid. Qed.
Print Assumptions C02_rdflib_quads_stream_valid.

(* ... and an accepted rdflib GraphStream run over Dataset.graphs() denotes every triple of every
   graph, tagged with that graph, in iteration order. *)
Theorem C02_rdflib_graphs_stream_valid :
  forall (o : soptions) (s s' : stream) (d : rdata) (evs : list tev),
    stream_new GraphStream Rdflib o = Ok s -> cfg_ok o (st_logical s) ->
    p_nd (so_params o) = false -> fl_rows (st_flow s) = [] ->
    graphs_rdf11 (rd_graphs d) = true ->
    rdf_graphs_stream_frames d s = (s', evs) -> raised evs = None ->
    run (flat_map f_rows (emitted evs)) = Valid (flat_map run_events (graphs_inv (rd_graphs d))).
Proof. exact rdf_graphs_stream_valid. Qed.
Print Assumptions C02_rdflib_graphs_stream_valid.
